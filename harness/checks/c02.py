"""C02 — per-file last-changed revisions and per-file parents
(breezy/bzr/vf_repository.py: VersionedFileCommitBuilder.record_iter_changes,
breezy/bzr/pack_repo.py: PackCommitBuilder._heads, _VersionedFileChecker /
_do_generate_text_key_index, breezy/bzr/check.py).

T2: generated history scripts (edit / chmod / rename / move / delete / re-add an
id / file<->symlink / commit / branch / merge (also criss-cross, octopus, staircase
octopus and of an ancestor) / add a pending parent without merging content / GHOST
pending parents and a ghost basis / revert a file after the merge / resurrect an
old version / identical parallel edits from a small content pool / exactly one
attribute (directory with the same basename, basename, exec bit, content, kind)
changed while a merge is pending) are interpreted by real working trees of several
branches in one shared repository (`WorkingTree.commit`, `merge_from_branch`,
`revert`, `add_parent_tree_id`).  The working-tree state captured *before* every
commit is the model's input; compared with the Lean model:
 * `rec`  (`build`): the last-changed revision of every (revision, file id)
   (`RevisionTree.get_file_revision`), the stored per-file parents of every text
   key (`texts.get_parent_map`), and the verdict of `Repository.check()`;
 * `recb` (`buildB`, the literal merged_ids / parent_entries / changes /
   unchanged_merged bookkeeping): the same outputs, the model being given the list
   of file ids the REAL `iter_changes` handed to `record_iter_changes` (teed, the
   method runs unchanged); the reply must also say `R:T`, i.e. the hypothesis of
   `bookkeeping_refines` ("reported iff the attributes differ from the basis
   entry's") held for every entry of every commit;
 * `chk` (checker model on an INCONSISTENT repository): one hand-made revision is
   inserted on top of the finished history through Repository.add_inventory /
   add_revision / texts.add_lines with per-file parents that are wrong in one of
   7 ways (dropped, extra ancestor, other version, swapped order, stale ancestor,
   all candidates, unreferenced text) or right (control); the keys, stored and
   expected parents `Repository.check()` reports are compared with `expIndex` /
   `wrongParents` / `unreferenced` run on the real inventories and stored text
   parents, and with an independent expectation (exactly the inserted key);
 * `heads` (the specification of vcsgraph's `Graph.heads`) is compared with the
   real per-file graph object on random key subsets; linear scripts with `linLast`.
Non-rich-root formats (pack-0.92, knit): the root is left out of the model input
and outputs; the oracle checks that it always names the revision itself and is
never a text key.

Oracle (no model involved): stored per-file parents == heads (own ancestry walk
over the real text graph) of the versions in the revision's parents (ghosts
contribute nothing), in parent order, and each is a revision ancestor; the
last-changed revision is an ancestor-or-self whose recorded attributes (directory,
name, kind, exec, content) are identical; it is the new revision iff there is not
exactly one per-file head with identical attributes (and, for a single parent: iff
the attributes differ from the parent's); a carried-over revision includes (per
file and per revision graph) the version of every parent; a text key exists iff
the revision is the last-changed one; `check()` reports no inconsistent parents /
unreferenced versions; the committed attributes equal the captured working-tree
state.

Mutants this was built against (scratch worktree, never /repo):
 M1 record_iter_changes: carry-over test ignores the executable bit
    (`and parent_entry.executable == …` dropped)                      -> caught (oracle + T2)
 M2 record_iter_changes: `if len(heads) == 1` -> `if len(heads) >= 1`  (carry over the
    first head although there are two)                                 -> caught
 M3 PackCommitBuilder._heads returns all candidates (no head reduction) -> caught
 M4 merged_ids of a later parent not appended (`merged_ids[..].append` dropped: third
    parent's version ignored)                                          -> caught (3-parent cases)
 M5 unchanged_merged dropped (`for file_id in unchanged_merged` loop skipped: identical
    parallel change / revert-after-merge keep the basis version)       -> caught
 M6 carry-over compares name only against the basis (`parent_entry.name != entry_name`
    dropped)                                                            -> caught
 M7 _do_generate_text_key_index sorts expected parents by revision id instead of
    candidate order                                                     -> caught (check() verdict)
 M8 carry-over test ignores parent_id (`parent_entry.parent_id != entry_parent_id` dropped;
    = seeded change seed-C02b)  -> caught for seeds 0..3 by the oracle (family "one attribute
    changed while a merge is pending": moved to the other directory with the same basename)
 M9 symlink carry-over ignores the target                                -> caught
 R1 fix abcfbf0 reverted (VersionedFileCommitBuilder._heads on the revision graph again)   -> caught: plain
    VIOLATION on corpus/C02/knit-readded-id.json (oracle + check() verdict)
 M10 merged_ids without the basis revision (`basis_entry.revision,` dropped)            -> caught (oracle)
 M11 parent_entries of a third parent not recorded (`parent_entries[..][..] = change[3]` dropped in
    the else branch)  -> caught (oracle; needs the staircase octopus family: the single per-file head
    comes from the third parent)
 M12 _check_file_version_parents compares parent *sets* (order ignored)  -> caught only by the checker
    tie (swap_order corruption; check() on consistent histories is unaffected)
 M13 _check_file_version_parents: unused_keys always empty               -> caught only by the checker tie
 M14 non-rich-root guard dropped (root text stored in pack-0.92)         -> caught (oracle)
 M15 ghost truncation in _do_generate_text_key_index wipes the candidates seen so far -> caught
    (check() reports inconsistent parents on a ghost history)
 M16 ghost slow path of record_iter_changes inserts the present parents' trees in reverse order
    -> caught on 3 of 4 seeds (needs >= 2 present parents + a ghost and an asymmetric change)
 H1 harmless: heads preserved-order loop rewritten as a list comprehension,
    `set(head_candidates)` -> `frozenset(...)`                          -> clean
 H2 harmless: `merged_ids.get(f, head_candidate)` -> conditional expression -> clean

Former finding `revgraph-heads-readded-file-id` (knit formats took the heads in the *revision*
graph; a file id removed, re-added and merged with a branch still holding the old version got
per-file parents that check() reports as inconsistent): fixed in /repo abcfbf0.  Its input is kept
as corpus/C02/knit-readded-id.json and expects the fixed behaviour; reverting the fix gives a plain
VIOLATION with that input (mutant R1).
A crash inside merge_from_branch (tree transform, e.g. NoFinalPath) is counted and skipped.  A
failure of the hand-made insertion of the checker tie is counted (infrastructure); more than 10 %
such failures abort the run with an exception (exit 2), never a VIOLATION.
"""
import hashlib
import os

from vlib import env

THEOREMS = [
    "perfile_parents_are_heads", "perfile_parents_antichain", "perfile_parents_from_parents",
    "lastchanged_sound", "lastchanged_fresh", "text_key_iff_fresh", "inventory_records_tree",
    "linear_characterisation", "check_passes",
    "revision_ancestry_strict", "fanc_sub_ranc", "perfile_parents_are_ancestors", "perfile_ancestry_strict",
    "lastchanged_single_parent", "lastchanged_carried_dominates",
    "bookkeeping_refines", "bookkeeping_refines_history", "perfile_independence",
]
RULE = ("case = (format, history script); scripts are random op lists over <=3 branches (+ helper branches "
        "for criss-cross), quick: 5 file ids (root, a directory, 3 files/symlinks) and <=10 commits, thorough: "
        "8 file ids and <=20 commits; families (counted per history as family:*): merge, octopus, staircase "
        "octopus, criss-cross, merge of an ancestor, pending parent without content merge, ghost parent / ghost "
        "basis, revert after merge, revive, re-add of an id, kind change, identical parallel change, one "
        "attribute changed while a merge is pending; non-trivial = the history contains a commit with >=2 "
        "parents or a carried-over entry whose last-changed revision is not the basis's")
ASSUMPTIONS = [
    "revision ids, file ids, names, sha1s and symlink targets are compared only for equality (numbered by the harness)",
    "rich-root formats (2a, rich-root-pack, rich-root, 1.9-rich-root): the root directory is an ordinary text key; "
    "non-rich-root formats (pack-0.92, knit): the root is outside the model (oracle: names the revision itself, no text key)",
    "ghost parents stay ghosts (theorem hypothesis `hist`: a commit's id is not named as a parent earlier); "
    "filling a ghost later (fetch) is outside the property's quantifier",
    "iter_changes reports a file id iff its attributes differ from the basis entry's (hypothesis of "
    "bookkeeping_refines; checked on every real commit: the `recb` reply must say R:T)",
]
TRUSTED = [
    "vcsgraph Graph.heads / KnownGraph (external, compiled): Model `heads` is its specification, compared on every per-file graph built",
    "inventory serialisation, CHK maps, group-compress/knit text storage, dirstate iter_changes are exercised, not modelled",
    "tsort.topo_sort of check(): the model processes revisions in commit order (a topological order)",
]

FORMATS_QUICK = ("2a", "rich-root-pack", "pack-0.92")
FORMATS_ALL = ("2a", "rich-root-pack", "rich-root", "1.9-rich-root", "pack-0.92", "knit")

# numbered 1..8; 0 = no parent.  quick uses the first 5, thorough all 8
FIDS = [b"TREE_ROOT", b"dir-id", b"file-a", b"file-b", b"file-c", b"file-d", b"file-e", b"file-f"]
NAMES = ["", "d", "x", "y", "z", "w", "v", "u", "t"]
GHOST_BASE = 900            # ghost-k is revision number 900 + k
CONTENTS = [b"c0\n", b"c1\nline\n", b"c2\n", b""]
TARGETS = ["t0", "t1"]


# --------------------------------------------------------------------------
# script generation
# --------------------------------------------------------------------------

def _edit_op(rng, b, nf=5):
    r = rng.random()
    fi = rng.randrange(1, nf)
    nn = len(NAMES)
    if r < 0.42:
        return ["edit", b, rng.randrange(2, nf), rng.randrange(4)]
    if r < 0.50:
        return ["chmod", b, rng.randrange(2, nf)]
    if r < 0.62:
        return ["mv", b, fi, rng.randrange(2, nn), rng.random() < 0.4]
    if r < 0.68:
        return ["rm", b, fi]
    if r < 0.77:
        return ["add", b, fi, rng.randrange(2, nn), "d" if fi == 1 else rng.choice("ffl"),
                rng.randrange(4), fi != 1 and rng.random() < 0.3]
    if r < 0.86:
        return ["kind", b, rng.randrange(2, nf)]
    if r < 0.92:
        return ["revert", b, fi]
    return ["revive", b, fi, rng.randrange(1, 4)]


def gen_script(rng, linear=False, max_commits=8, nf=5, ghosts=True):
    """history script: an initial commit on b0 (sometimes on a ghost basis), early branching,
    then rounds of (a few tree edits | identical edit on two branches | octopus | criss-cross
    | remove + re-add an id + merge) followed by commit or by merge(s) / pending (also ghost)
    parents + post-merge tweaks + commit.  nf = number of file ids including the root."""
    ops = []
    branches = ["b0"]
    if ghosts and rng.random() < 0.12:
        ops.append(["ghostbasis", "b0", rng.randrange(1, 4)])
    for fi in range(1, nf):
        if rng.random() < (0.9 if fi < 5 else 0.6):
            ops.append(["add", "b0", fi, fi + 1, "d" if fi == 1 else rng.choice("fffl"),
                        rng.randrange(4), fi != 1 and rng.random() < 0.3])
    ops.append(["commit", "b0"])
    ncommits = 1
    if not linear:
        branches.append("b1")
        ops.append(["branch", "b0", "b1"])
        if rng.random() < 0.7:
            branches.append("b2")
            ops.append(["branch", "b0", "b2"])
    while ncommits < max_commits:
        b = rng.choice(branches)
        r = rng.random()
        if len(branches) == 3 and r > 0.9 and ncommits + 4 <= max_commits + 2:
            # octopus: the same file changed on all three branches, merged with three parents
            fi = rng.randrange(2, nf)
            for x in branches:
                ops.append(rng.choice([["edit", x, fi, rng.randrange(4)], ["chmod", x, fi],
                                       ["mv", x, fi, rng.randrange(2, len(NAMES)), False]]))
                ops.append(["commit", x])
            others = [x for x in branches if x != b]
            rng.shuffle(others)
            for src in others:
                ops.append([rng.choice(["merge", "merge", "addparent"]), b, src])
            if rng.random() < 0.5:
                ops.append(["edit", b, fi, rng.randrange(4)])
            ops.append(["commit", b])
            ncommits += 4
            continue
        if len(branches) == 3 and 0.82 < r <= 0.9 and ncommits + 4 <= max_commits + 2:
            # staircase octopus: x changes a file, y merges x and changes it again, then b merges
            # both at once: a single per-file head that comes from the second or third parent
            x, y = [z for z in branches if z != b]
            if rng.random() < 0.5:
                x, y = y, x
            fi = rng.randrange(2, nf)
            ops += [["edit", x, fi, rng.randrange(4)], ["commit", x],
                    ["merge", y, x], rng.choice([["edit", y, fi, rng.randrange(4)], ["chmod", y, fi],
                                                 ["mv", y, fi, rng.randrange(2, len(NAMES)), False]]),
                    ["commit", y]]
            # x moves on in another file, so that its tip is not an ancestor of y's (the working
            # tree drops pending parents that are ancestors of other parents)
            fj = rng.choice([z for z in range(2, nf) if z != fi])
            ops += [["edit", x, fj, rng.randrange(4)], ["chmod", x, fj], ["commit", x]]
            for src in ((x, y) if rng.random() < 0.6 else (y, x)):
                ops.append(["merge", b, src])
            if rng.random() < 0.3:
                ops.append(rng.choice([["edit", b, fi, rng.randrange(4)], ["chmod", b, fi]]))
            ops.append(["commit", b])
            ncommits += 4
            continue
        if not linear and r < 0.12:
            # identical parallel change (cherry-pick by content)
            o = rng.choice([x for x in branches if x != b])
            fi, c = rng.randrange(2, nf), rng.randrange(4)
            ops += [["edit", b, fi, c], ["commit", b], ["edit", o, fi, c], ["commit", o]]
            ncommits += 2
            continue
        if not linear and 0.12 <= r < 0.20 and ncommits + 4 <= max_commits + 2:
            # criss-cross: both branches change a file, each merges the other's *previous* tip
            o = rng.choice([x for x in branches if x != b])
            fi = rng.randrange(2, nf)
            tmp = "t%d" % ncommits
            second = ["edit", o, fi, rng.randrange(4)] if rng.random() < 0.6 else ["chmod", o, fi]
            ops += [["edit", b, fi, rng.randrange(4)], ["commit", b], second, ["commit", o],
                    ["branch", o, tmp],                          # keeps o's tip before the merge
                    ["merge", o, b], ["commit", o],
                    ["merge", b, tmp], ["commit", b]]
            if rng.random() < 0.6:
                # merge across the criss-cross (two least common ancestors)
                ops += [["merge", b, o],
                        ["revert", b, fi] if rng.random() < 0.4 else ["edit", b, fi, rng.randrange(4)],
                        ["commit", b]]
                ncommits += 1
            ncommits += 4
            continue
        if not linear and 0.26 <= r < 0.42 and ncommits + 3 <= max_commits + 2:
            # one-sided change + merge + exactly ONE attribute of that file changed while the merge
            # is pending (parent directory with the same basename | basename in the same directory
            # | exec bit | content | kind | nothing): the carry-over test must look at each of them
            o = rng.choice([x for x in branches if x != b])
            fi = rng.randrange(2, nf)
            fj = rng.choice([z for z in range(2, nf) if z != fi])
            who, other = (o, b) if rng.random() < 0.6 else (b, o)
            ops += [rng.choice([["edit", who, fi, rng.randrange(4)], ["chmod", who, fi]]), ["commit", who],
                    ["edit", other, fj, rng.randrange(4)], ["chmod", other, fj], ["commit", other],
                    ["add", b, 1, 1, "d", 0, False],           # make sure there is a directory to move into
                    ["merge", b, o]]
            tweak = rng.choice([["mvdir", b, fi], ["mvdir", b, fi], ["rename", b, fi, rng.randrange(2, len(NAMES))],
                                ["chmod", b, fi], ["edit", b, fi, rng.randrange(4)], ["kind", b, fi], None])
            if tweak:
                ops.append(tweak)
            ops.append(["commit", b])
            ncommits += 3
            continue
        if not linear and 0.20 <= r < 0.26:
            # remove an id, commit, add it again (new per-file root), then merge a branch that
            # still holds the old version
            o = rng.choice([x for x in branches if x != b])
            fi = rng.randrange(2, nf)
            ops += [["rm", b, fi], ["commit", b],
                    ["add", b, fi, rng.randrange(2, len(NAMES)), rng.choice("ffl"), rng.randrange(4), False],
                    ["commit", b], ["merge", b, o], ["commit", b]]
            ncommits += 3
            continue
        for _ in range(rng.choice((1, 1, 2, 2, 3))):
            ops.append(_edit_op(rng, b, nf))
        if linear or rng.random() < 0.5:
            if ghosts and not linear and rng.random() < 0.1:
                ops.append(["ghost", b, rng.randrange(1, 4)])
            ops.append(["commit", b])
            ncommits += 1
            continue
        others = [x for x in branches if x != b]
        rng.shuffle(others)
        nmerge = 2 if (len(others) > 1 and rng.random() < 0.4) else 1
        if ghosts and rng.random() < 0.12:
            ops.append(["ghost", b, rng.randrange(1, 4)])       # ghost as second parent
        for src in others[:nmerge]:
            ops.append(["merge" if rng.random() < 0.8 else "addparent", b, src])
        if ghosts and rng.random() < 0.08:
            ops.append(["ghost", b, rng.randrange(1, 4)])       # ghost as last parent
        # post-merge tweaks: the carry-over test must notice every attribute
        for _ in range(rng.choice((0, 1, 1, 2))):
            k = rng.random()
            fi = rng.randrange(2, nf)
            if k < 0.25:
                ops.append(["revert", b, rng.randrange(1, nf)])
            elif k < 0.40:
                ops.append(["edit", b, fi, rng.randrange(4)])
            elif k < 0.55:
                ops.append(["chmod", b, fi])
            elif k < 0.75:
                ops.append(["mv", b, fi, rng.randrange(2, len(NAMES)), rng.random() < 0.5])
            elif k < 0.85:
                ops.append(["kind", b, fi])
            else:
                ops.append(_edit_op(rng, b, nf))
        ops.append(["commit", b])
        ncommits += 1
    return ops


# --------------------------------------------------------------------------
# the real side
# --------------------------------------------------------------------------

_REPORTED = []      # file ids of the changes the last record_iter_changes call was given


def _install_capture():
    """tee the iter_changes iterator that commit hands to record_iter_changes (the hypothesis
    of the bookkeeping theorem is about exactly this list); the real method runs unchanged"""
    from breezy.bzr.vf_repository import VersionedFileCommitBuilder
    if getattr(VersionedFileCommitBuilder, "_c02_capture", False):
        return
    orig = VersionedFileCommitBuilder.record_iter_changes

    def record_iter_changes(self, tree, basis_revision_id, iter_changes):
        items = list(iter_changes)
        _REPORTED[:] = [c.file_id for c in items]
        return orig(self, tree, basis_revision_id, iter(items))

    VersionedFileCommitBuilder.record_iter_changes = record_iter_changes
    VersionedFileCommitBuilder._c02_capture = True


class World:
    def __init__(self, fmt):
        from breezy.controldir import ControlDir, format_registry
        _install_capture()
        self.fmt_name = fmt
        self.tags = {}        # branch -> set of family tags of the commit being prepared
        self.ever = {}        # branch -> file ids that were versioned there at some commit
        self.fmt = format_registry.make_controldir(fmt)
        self.base = env.fresh_dir("c02")
        ControlDir.create(self.base, format=self.fmt).create_repository(shared=True)
        br = ControlDir.create_branch_convenience(os.path.join(self.base, "b0"), format=self.fmt,
                                                  force_new_tree=True)
        wt = br.controldir.open_workingtree()
        wt.set_root_id(FIDS[0])
        self.wts = {"b0": wt}
        self.commits = []     # (number, revid, working tree parents, snapshot, reported ids, tags)
        self.skipped = 0
        self.applied = 0
        self.merge_crashes = []

    # -- helpers -------------------------------------------------------
    def _path(self, wt, fi):
        try:
            return wt.id2path(FIDS[fi])
        except Exception:
            return None

    def _abspath(self, wt, path):
        return os.path.join(wt.basedir, path)

    def _free(self, wt, relpath):
        return not os.path.lexists(self._abspath(wt, relpath))

    def _write(self, wt, path, kind, content, exe):
        ap = self._abspath(wt, path)
        if os.path.lexists(ap):
            os.unlink(ap)
        if kind == "f":
            with open(ap, "wb") as f:
                f.write(CONTENTS[content])
            os.chmod(ap, 0o755 if exe else 0o644)
        else:
            os.symlink(TARGETS[content % 2], ap)

    def snapshot(self, wt):
        """id -> (kind, parent id number, name number, exec, content key) as commit will see it"""
        snap = {}
        with wt.lock_read():
            for path, ie in wt.iter_entries_by_dir():
                kind = wt.kind(path)
                fid = FIDS.index(ie.file_id) + 1
                par = 0 if ie.parent_id is None else FIDS.index(ie.parent_id) + 1
                if kind == "file":
                    ap = self._abspath(wt, path)
                    c = ("f", bool(os.stat(ap).st_mode & 0o100), hashlib.sha1(open(ap, "rb").read()).hexdigest())
                elif kind == "symlink":
                    c = ("l", False, os.readlink(self._abspath(wt, path)))
                else:
                    c = ("d", False, "")
                snap[fid] = (c[0], par, ie.name, c[1], c[2])
        return snap

    # -- ops -----------------------------------------------------------
    def apply(self, op):
        kind = op[0]
        wt = self.wts.get(op[1])
        if wt is None:
            self.skipped += 1
            return
        if kind == "branch":
            done = self.op_branch(wt, *op[2:])
        else:
            with wt.lock_write():
                done = getattr(self, "op_" + kind)(wt, *op[2:])
        if done is False:
            self.skipped += 1
        else:
            self.applied += 1
            t = self.tags.setdefault(op[1], set())
            if kind == "merge":
                t.add("merge")
            elif kind == "addparent":
                t.add("pending_parent_without_content_merge")
            elif kind in ("ghost", "ghostbasis"):
                t.add("ghost_parent")
            elif kind == "revert" and "merge" in t:
                t.add("revert_after_merge")
            elif kind == "revive":
                t.add("revive_old_version")
            elif kind == "kind":
                t.add("kind_change")
            elif kind in ("mvdir", "rename", "mv", "chmod", "edit") and "merge" in t:
                t.add("%s_while_merge_pending" % {"mv": "move"}.get(kind, kind))
            elif kind == "add" and op[2] in self.ever.get(op[1], ()):
                t.add("readd_file_id")
            elif kind == "branch":
                self.ever[op[2]] = set(self.ever.get(op[1], ()))

    def op_add(self, wt, fi, ni, kind, content, in_dir):
        if self._path(wt, fi) is not None:
            return False
        name = NAMES[ni] if fi != 1 else "d"
        rel = name
        if in_dir and fi != 1:
            dp = self._path(wt, 1)
            if dp is None or wt.kind(dp) != "directory":
                return False
            rel = dp + "/" + name
        if not self._free(wt, rel):
            return False
        if fi == 1:
            os.mkdir(self._abspath(wt, rel))
        else:
            self._write(wt, rel, kind, content, False)
        wt.add([rel], ids=[FIDS[fi]])

    def op_edit(self, wt, fi, content):
        p = self._path(wt, fi)
        if p is None or fi == 1:
            return False
        k = wt.kind(p)
        if k == "file":
            exe = wt.is_executable(p)
            self._write(wt, p, "f", content, exe)
        elif k == "symlink":
            self._write(wt, p, "l", content, False)
        else:
            return False

    def op_chmod(self, wt, fi):
        p = self._path(wt, fi)
        if p is None or wt.kind(p) != "file":
            return False
        ap = self._abspath(wt, p)
        os.chmod(ap, 0o644 if wt.is_executable(p) else 0o755)

    def op_mv(self, wt, fi, ni, in_dir):
        p = self._path(wt, fi)
        if p is None:
            return False
        name = NAMES[ni] if fi != 1 else "d"
        rel = name
        if in_dir and fi != 1:
            dp = self._path(wt, 1)
            if dp is None or wt.kind(dp) != "directory":
                return False
            rel = dp + "/" + name
        if rel == p or not self._free(wt, rel):
            return False
        wt.rename_one(p, rel)

    def op_mvdir(self, wt, fi):
        """move to the other directory (top level <-> the directory id) keeping the basename"""
        p = self._path(wt, fi)
        dp = self._path(wt, 1)
        if p is None or fi == 1 or dp is None or wt.kind(dp) != "directory":
            return False
        base = p.rsplit("/", 1)[-1]
        rel = base if "/" in p else dp + "/" + base
        if not self._free(wt, rel):
            return False
        wt.rename_one(p, rel)

    def op_rename(self, wt, fi, ni):
        """new basename in the same directory"""
        p = self._path(wt, fi)
        if p is None or fi == 1:
            return False
        rel = (p.rsplit("/", 1)[0] + "/" if "/" in p else "") + NAMES[ni]
        if rel == p or not self._free(wt, rel):
            return False
        wt.rename_one(p, rel)

    def op_rm(self, wt, fi):
        p = self._path(wt, fi)
        if p is None:
            return False
        wt.remove([p], keep_files=False, force=True)

    def op_kind(self, wt, fi):
        p = self._path(wt, fi)
        if p is None or fi == 1:
            return False
        k = wt.kind(p)
        if k == "file":
            self._write(wt, p, "l", 0, False)
        elif k == "symlink":
            self._write(wt, p, "f", 2, False)
        else:
            return False

    def op_revert(self, wt, fi):
        basis = wt.basis_tree()
        with basis.lock_read():
            try:
                bp = basis.id2path(FIDS[fi])
            except Exception:
                bp = None
        p = self._path(wt, fi)
        paths = [x for x in (p, bp) if x is not None]
        if not paths:
            return False
        try:
            wt.revert(sorted(set(paths)), backups=False)
        except Exception as e:       # e.g. parent directory not versioned: skip, state unchanged enough
            self.err = repr(e)
            return False
        self._settle(wt)

    def op_revive(self, wt, fi, back):
        repo = wt.branch.repository
        revs = [r for r in reversed(list(self._lefthand(wt)))]
        if len(revs) <= back:
            return False
        old = repo.revision_tree(revs[back])
        with old.lock_read():
            try:
                op = old.id2path(FIDS[fi])
            except Exception:
                return False
        try:
            wt.revert([op], old_tree=old, backups=False)
        except Exception as e:
            self.err = repr(e)
            return False
        self._settle(wt)

    def _lefthand(self, wt):
        repo = wt.branch.repository
        out = []
        with repo.lock_read():
            g = repo.get_graph()
            try:
                for r in g.iter_lefthand_ancestry(wt.branch.last_revision(), [b"null:"]):
                    out.append(r)
            except Exception:        # ran into a ghost: the lefthand history ends there
                pass
        return list(reversed(out))

    def _settle(self, wt):
        """drop conflicts and any file that names a versioned id but is missing on disk"""
        from breezy.bzr.conflicts import ConflictList
        wt.set_conflicts(ConflictList())
        missing = []
        with wt.lock_read():
            for path, ie in wt.iter_entries_by_dir():
                if not os.path.lexists(self._abspath(wt, path)):
                    missing.append(path)
        if missing:
            wt.remove(missing, keep_files=False, force=True)

    def op_branch(self, wt, new):
        if new in self.wts or wt.branch.last_revision() == b"null:":
            return False
        if wt.has_changes():
            return False
        self.wts[new] = wt.controldir.sprout(os.path.join(self.base, new)).open_workingtree()

    def op_merge(self, wt, src):
        from breezy.workingtree import PointlessMerge
        o = self.wts.get(src)
        if o is None or len(wt.get_parent_ids()) > 2:
            return False
        try:
            wt.merge_from_branch(o.branch, force=True)
        except PointlessMerge:
            return False
        except Exception as e:
            # a crash inside merge (tree transform) is not this property's business: the
            # transform rolls back and no pending merge is recorded; counted and skipped
            self.merge_crashes.append(type(e).__name__)
            return False
        self._settle(wt)

    def op_addparent(self, wt, src):
        o = self.wts.get(src)
        if o is None:
            return False
        tip = o.branch.last_revision()
        if tip in wt.get_parent_ids() or len(wt.get_parent_ids()) > 2:
            return False
        wt.add_parent_tree_id(tip)

    def op_ghost(self, wt, k):
        """a pending parent that is not in the repository"""
        gid = b"ghost-%d" % k
        ps = wt.get_parent_ids()
        if not ps or gid in ps or len(ps) > 2:
            return False
        wt.add_parent_tree_id(gid)

    def op_ghostbasis(self, wt, k):
        """the very first commit is made on top of a ghost (ghost_basis in record_iter_changes)"""
        if wt.get_parent_ids() or self.commits:
            return False
        wt.set_parent_ids([b"ghost-%d" % k], allow_leftmost_as_ghost=True)

    def op_commit(self, wt):
        self._settle(wt)
        snap = self.snapshot(wt)
        n = len(self.commits) + 1
        rid = b"r%03d" % n
        parents = list(wt.get_parent_ids())
        del _REPORTED[:]
        wt.commit("c%d" % n, rev_id=rid)
        reported = sorted({FIDS.index(f) + 1 for f in _REPORTED if f in FIDS})
        bname = next(k for k, v in self.wts.items() if v is wt)
        tags = sorted(self.tags.pop(bname, ()))
        self.ever.setdefault(bname, set()).update(k - 1 for k in snap)
        self.commits.append((n, rid, parents, snap, reported, tags))


def _num_map(world):
    num = {rid: n for n, rid, *_ in world.commits}
    for k in range(1, 10):
        num[b"ghost-%d" % k] = GHOST_BASE + k
    return num


def observe(world):
    """everything the comparison needs, as plain data"""
    wt = world.wts["b0"]
    repo = wt.branch.repository
    num = _num_map(world)
    from breezy.bzr.vf_repository import VersionedFileCommitBuilder
    out = dict(commits=[], texts={}, extra_texts=[], check=None, rich=bool(repo.supports_rich_root()),
               revgraph_heads=(repo._commit_builder_class._heads is VersionedFileCommitBuilder._heads))
    with repo.lock_read():
        pm = repo.get_parent_map([rid for _, rid, *_ in world.commits])
        for n, rid, wparents, snap, reported, tags in world.commits:
            tree = repo.revision_tree(rid)
            inv = {}
            attrs = {}
            with tree.lock_read():
                for path, ie in tree.iter_entries_by_dir():
                    fid = FIDS.index(ie.file_id) + 1
                    lr = tree.get_file_revision(path)
                    inv[fid] = num[lr]
                    par = 0 if ie.parent_id is None else FIDS.index(ie.parent_id) + 1
                    if ie.kind == "file":
                        c = ("f", bool(ie.executable), ie.text_sha1.decode())
                    elif ie.kind == "symlink":
                        c = ("l", False, ie.symlink_target)
                    else:
                        c = ("d", False, "")
                    attrs[fid] = (c[0], par, ie.name, c[1], c[2])
            out["commits"].append(dict(n=n, parents=[num[p] for p in pm[rid] if p != b"null:"],
                                       wparents=[num[p] for p in wparents],
                                       snap={str(k): list(v) for k, v in snap.items()},
                                       inv={str(k): v for k, v in inv.items()},
                                       attrs={str(k): list(v) for k, v in attrs.items()},
                                       reported=reported, tags=tags))
        keys = sorted(repo.texts.keys())
        tpm = repo.texts.get_parent_map(keys)
        for k in keys:
            f = FIDS.index(k[0]) + 1
            out["texts"]["%d.%d" % (f, num[k[1]])] = [num[p[1]] for p in tpm[k]]
        # Graph.heads on the real per-file graph, as PackCommitBuilder builds it
        out["heads"] = []
        try:
            import vcsgraph.graph as _vg
            fg = _vg.Graph(repo._pack_collection.text_index.combined_index)
        except AttributeError:
            fg = repo.get_file_graph()
        out["_fg"] = fg
        out["_repo"] = repo
        res = repo.check()
        out["check"] = _check_result(res, num)
    return out


def _check_result(res, num):
    return dict(inconsistent=sorted([num[a], FIDS.index(b) + 1, [num[x] for x in c], [num[x] for x in d]]
                                    for a, b, c, d in res.inconsistent_parents),
                unreferenced=sorted("%d.%d" % (FIDS.index(k[0]) + 1, num[k[1]])
                                    for k in res.unreferenced_versions))


# --------------------------------------------------------------------------
# the checker on an INCONSISTENT repository
# --------------------------------------------------------------------------

CORRUPTIONS = ("control", "drop_parents", "extra_ancestor", "other_version", "swap_order",
               "stale_ancestor", "unreferenced_text", "all_candidates")


def corrupt_and_check(world, obs, rng_seed):
    """Insert ONE hand-made revision X on top of the finished history, directly through
    Repository.add_inventory / add_revision / texts.add_lines (no commit builder): a copy of a tip
    inventory in which one file id gets a new version whose stored per-file parents are wrong in a
    chosen way (or, as control, right).  Then run the real Repository.check() and describe the
    whole repository (real inventories' last-changed revisions, real stored text parents) for the
    Lean checker model.  Returns None when no corruption is applicable."""
    import random
    from breezy.osutils import sha_strings
    from breezy.revision import Revision
    from bzrformats.inventory import Inventory, InventoryDirectory, InventoryFile, InventoryLink
    rng = random.Random(rng_seed)
    repo = world.wts["b0"].branch.repository
    num = _num_map(world)
    rev_of = {n: rid for n, rid, *_ in world.commits}
    commits = {c["n"]: c for c in obs["commits"]}
    tips = sorted({num[w.branch.last_revision()] for w in world.wts.values()
                   if w.branch.last_revision() in num})
    if not tips:
        return None
    rich = obs["rich"]
    tg = {}
    for k, ps in obs["texts"].items():
        a, b = map(int, k.split("."))
        tg[(a, b)] = [(a, p) for p in ps]
    memo = {}

    def options(parents, f):
        """the corruptions that apply to file id f of a revision X with these parents"""
        fi = int(f)
        cands = []
        for p in parents:
            v = commits[p]["inv"].get(f)
            if v is not None and v not in cands:
                cands.append(v)
        # what a correct commit would store: heads (own walk on the real graph) of the parents' versions
        good = [h for h in cands if not any(o != h and (fi, h) in _anc(tg, (fi, o), memo) for o in cands)]
        versions = sorted(b for (a, b) in tg if a == fi)
        anc_of_good = sorted({b for h in good for (_, b) in _anc(tg, (fi, h), memo)})
        out = {"control": good, "unreferenced_text": good}
        if good:
            out["drop_parents"] = good[:-1]
        if anc_of_good:
            out["extra_ancestor"] = good + [rng.choice(anc_of_good)]
            out["stale_ancestor"] = [rng.choice(anc_of_good)]
        other = [v for v in versions if v not in good]
        if other:
            out["other_version"] = [rng.choice(other)]
        if len(good) >= 2:
            out["swap_order"] = list(reversed(good))
        if cands != good:
            out["all_candidates"] = list(cands)
        return good, out

    combos = []
    for t1 in tips:
        for t2 in [None] + [t for t in tips if t != t1]:
            parents = [t1] + ([t2] if t2 is not None else [])
            for f in sorted(commits[t1]["inv"], key=int):
                if f == "1":
                    continue
                good, out = options(parents, f)
                for kind, stored in out.items():
                    combos.append((kind, parents, int(f), good, stored))
    if not combos:
        return None
    kinds = sorted({c[0] for c in combos})
    # the rare corruptions first, so that every kind is exercised on most runs
    rare = [k for k in ("swap_order", "all_candidates", "extra_ancestor", "stale_ancestor") if k in kinds]
    kind = rng.choice(rare) if rare and rng.random() < 0.6 else rng.choice(kinds)
    kind, parents, fi, good, stored = rng.choice([c for c in combos if c[0] == kind])
    t1 = parents[0]
    new_entry = kind != "unreferenced_text"
    pl = None
    x = len(world.commits) + 1
    X = b"x%03d" % x
    num[X] = x
    lines = [b"inserted by the checker tie\n"]
    with repo.lock_write():
        src = repo.revision_tree(rev_of[t1]).root_inventory
        inv = Inventory(root_id=None, revision_id=X)
        for _path, e in src.iter_entries_by_dir():
            if new_entry and e.file_id == FIDS[fi - 1]:
                if e.kind == "file":
                    e = InventoryFile(e.file_id, e.name, e.parent_id, revision=X, executable=e.executable,
                                      text_size=len(b"".join(lines)), text_sha1=sha_strings(lines))
                elif e.kind == "symlink":
                    e = InventoryLink(e.file_id, e.name, e.parent_id, revision=X, symlink_target="corrupt")
                else:
                    e = InventoryDirectory(e.file_id, e.name, e.parent_id, revision=X)
            elif e.parent_id is None and not rich:
                e = InventoryDirectory(e.file_id, e.name, e.parent_id, revision=X)
            inv.add(e)
        kindof = src.get_entry(FIDS[fi - 1]).kind
        repo.start_write_group()
        try:
            repo.texts.add_lines((FIDS[fi - 1], X), tuple((FIDS[fi - 1], rev_of[p]) for p in stored),
                                 lines if kindof == "file" else [])
            sha = repo.add_inventory(X, inv, [rev_of[p] for p in parents])
            repo.add_revision(X, Revision(X, parent_ids=[rev_of[p] for p in parents], committer="x <x@example.com>",
                                          timestamp=0.0, timezone=0, message="inserted",
                                          inventory_sha1=sha, properties={}))
            repo.commit_write_group()
        except BaseException:
            repo.abort_write_group()
            raise
    with repo.lock_read():
        res = _check_result(repo.check(), num)
        # describe the repository for the model: real inventories and real stored text parents
        keys = sorted(repo.texts.keys())
        tpm = repo.texts.get_parent_map(keys)
        by_rev = {}
        for k in keys:
            by_rev.setdefault(num[k[1]], []).append((FIDS.index(k[0]) + 1, [num[p[1]] for p in tpm[k]]))
        recs = []
        for n in sorted(commits):
            c = commits[n]
            recs.append((n, c["parents"], {int(a): b for a, b in c["inv"].items()}))
        xinv = {}
        xt = repo.revision_tree(X)
        with xt.lock_read():
            for path, ie in xt.iter_entries_by_dir():
                xinv[FIDS.index(ie.file_id) + 1] = num[xt.get_file_revision(path)]
        recs.append((x, parents, xinv))
    parts = []
    for n, ps, inv_ in recs:
        items = sorted((a, b) for a, b in inv_.items() if rich or a != 1)
        ts = sorted(by_rev.get(n, []))
        parts.append("%d;%s;%s;%s" % (
            n, ",".join(map(str, ps)) or "-",
            ",".join("%d=%d" % it for it in items) or "-",
            ",".join("%d=%s" % (a, ".".join(map(str, ps_)) or "-") for a, ps_ in ts) or "-"))
    line = "chk " + "|".join(parts)
    w = ",".join("%d.%d=%s>%s" % (fid_, r, ".".join(map(str, st)) or "-", ".".join(map(str, ex)) or "-")
                 for r, fid_, st, ex in sorted(res["inconsistent"], key=lambda t: (t[1], t[0])))
    u = ",".join(sorted(res["unreferenced"], key=lambda k: tuple(map(int, k.split(".")))))
    impl = "W:%s U:%s" % (w or "-", u or "-")
    return dict(kind=kind, f=fi, x=x, parents=parents, stored=stored, good=good, line=line, impl=impl,
                new_entry=new_entry)


def heads_queries(rng_seed, obs):
    """random key subsets per file id, answered by the real per-file graph"""
    import random
    rng = random.Random(rng_seed)
    fg = obs.pop("_fg")
    repo = obs.pop("_repo")
    byfile = {}
    for k, ps in obs["texts"].items():
        f, r = map(int, k.split("."))
        byfile.setdefault(f, {})[r] = ps
    qs = []
    with repo.lock_read():
        for f, g in sorted(byfile.items()):
            revs = sorted(g)
            if len(revs) < 2:
                continue
            for _ in range(3):
                cands = rng.sample(revs, rng.randrange(2, min(4, len(revs)) + 1))
                keys = [(FIDS[f - 1], b"r%03d" % r) for r in cands]
                real = {int(k[1][1:]) for k in fg.heads(keys)}
                qs.append(dict(f=f, graph=[[r, g[r]] for r in revs], cands=cands,
                               heads=[c for c in cands if c in real]))
    return qs


def run_script(fmt, ops):
    w = World(fmt)
    for op in ops:
        w.apply(op)
    if not w.commits:
        w.apply(["commit", "b0"])
    return w


def _worker(item):
    idx, fmt, ops, seed = item
    try:
        w = run_script(fmt, ops)
        obs = observe(w)
        obs["heads"] = heads_queries(seed * 7919 + idx, obs)
        try:
            obs["chk"] = corrupt_and_check(w, obs, seed * 104729 + idx)
        except Exception as e:
            import traceback
            obs["chk"] = dict(error=repr(e), tb=traceback.format_exc()[-1200:])
        obs["applied"] = w.applied
        obs["skipped"] = w.skipped
        obs["merge_crashes"] = w.merge_crashes
        return obs
    except Exception as e:  # reported as a violation of the harness' own expectations by the caller
        import traceback
        return dict(error=repr(e), tb=traceback.format_exc()[-1500:])


# --------------------------------------------------------------------------
# model lines
# --------------------------------------------------------------------------

class Numbering:
    def __init__(self):
        self.c = {}

    def num(self, kind, key):
        d = self.c.setdefault(kind, {})
        if key not in d:
            d[key] = len(d) + 1
        return d[key]


def model_line(obs, op="rec"):
    """`rec` / `lin`: the captured working-tree states; `recb`: the same with, per entry, whether the
    real iter_changes reported the id.  Non-rich-root formats: the root is left out (not a text key,
    its inventory revision is always the revision itself — checked by the oracle)."""
    nb = Numbering()
    rich = obs.get("rich", True)
    cs = []
    for c in obs["commits"]:
        ents = []
        for f in sorted(c["snap"], key=int):
            if f == "1" and not rich:
                continue
            k, par, name, exe, content = c["snap"][f]
            kn = {"f": 0, "l": 1, "d": 2}[k]
            cn = 0 if k == "d" else nb.num(k, content)
            e = "%s.%d.%d.%d.%d.%d" % (f, kn, par, nb.num("n", name), 1 if exe else 0, cn)
            if op == "recb":
                e += ".%d" % (1 if int(f) in c["reported"] else 0)
            ents.append(e)
        cs.append("%d;%s;%s" % (c["n"], ",".join(map(str, c["wparents"])) or "-", "/".join(ents) or "-"))
    return "%s %s" % (op, "|".join(cs))


def impl_reply(obs, op="rec"):
    invs = []
    texts = []
    rich = obs.get("rich", True)
    for c in obs["commits"]:
        fs = [f for f in sorted(c["inv"], key=int) if rich or f != "1"]
        invs.append("%d;%s" % (c["n"], ",".join("%s=%d" % (f, c["inv"][f]) for f in fs) or "-"))
        for f in fs:
            if c["inv"][f] == c["n"]:
                k = "%s.%d" % (f, c["n"])
                ps = obs["texts"].get(k)
                texts.append("%s=%s" % (k, "MISSING" if ps is None else (".".join(map(str, ps)) or "-")))
    chk = obs["check"]
    ok = not chk["inconsistent"] and not chk["unreferenced"]
    return "H:T %s%s %s %s" % ("R:T " if op == "recb" else "", "|".join(invs), ",".join(texts) or "-",
                               "ok" if ok else "wrong:%d:%d:0" % (len(chk["inconsistent"]), len(chk["unreferenced"])))


def impl_lin(obs):
    c = obs["commits"][-1]
    rich = obs.get("rich", True)
    return "T " + (",".join("%s=%d" % (f, c["inv"][f]) for f in sorted(c["inv"], key=int)
                            if rich or f != "1") or "-")


# --------------------------------------------------------------------------
# oracle
# --------------------------------------------------------------------------

def _anc(pm, k, memo):
    if k in memo:
        return memo[k]
    s = set()
    for p in pm.get(k, ()):
        s.add(p)
        s |= _anc(pm, p, memo)
    memo[k] = s
    return s


def oracle(ctx, case, obs):
    """returns [(message, family)].  No finding family is classified any more: the former
    `revgraph-heads-readded-file-id` defect (knit formats took heads in the revision graph) was
    fixed in /repo abcfbf0 and is a plain violation if it returns (corpus/C02/knit-readded-id.json
    is the regression input).  A ghost parent (number >= GHOST_BASE) contributes no versions."""
    bad = []
    commits = {c["n"]: c for c in obs["commits"]}
    rich = obs.get("rich", True)
    rpm = {n: c["parents"] for n, c in commits.items()}
    rmemo = {}
    tg = {}
    for k, ps in obs["texts"].items():
        f, r = map(int, k.split("."))
        tg[(f, r)] = [(f, p) for p in ps]
    tmemo = {}
    fam_at = {}
    empty = dict(inv={}, attrs={})

    def cands_heads(c, f):
        fi = int(f)
        cands = []
        for p in c["parents"]:
            pr = commits.get(p, empty)["inv"].get(f)
            if pr is not None and pr not in cands:
                cands.append(pr)
        hs = [h for h in cands
              if not any(o != h and (fi, h) in _anc(tg, (fi, o), tmemo) for o in cands)]
        rhs = [h for h in cands if not any(o != h and h in _anc(rpm, o, rmemo) for o in cands)]
        if rhs != hs:
            obs["_revgraph_differs"] = obs.get("_revgraph_differs", 0) + 1
        fam = None
        fam_at[(c["n"], fi)] = fam
        return cands, hs, fam

    for c in obs["commits"]:
        n = c["n"]
        if c["parents"] != c["wparents"]:
            bad.append(("r%d: recorded parents %r != working tree parents %r" % (n, c["parents"], c["wparents"]), None))
        if c["attrs"] != c["snap"]:
            bad.append(("r%d: committed attributes differ from the working tree state: %r vs %r" % (
                n, c["attrs"], c["snap"]), None))
        basis = commits.get(c["parents"][0], empty) if c["parents"] else empty
        for f, lr in c["inv"].items():
            a = c["attrs"][f]
            if f == "1" and not rich:
                # non-rich-root formats: the root is not a text key and always names the revision
                if lr != n:
                    bad.append(("r%d: non-rich-root root entry names r%d" % (n, lr), None))
                if "1.%d" % n in obs["texts"]:
                    bad.append(("r%d: non-rich-root format stored a root text" % n, None))
                continue
            # the hypothesis of the bookkeeping theorem, on the real iter_changes
            rep = int(f) in c["reported"]
            dif = basis["attrs"].get(f) != a
            if rep != dif:
                obs["_report_mismatch"] = obs.get("_report_mismatch", 0) + 1
            # soundness
            if lr != n and lr not in _anc(rpm, n, rmemo):
                bad.append(("r%d file %s: last-changed r%d is not an ancestor" % (n, f, lr), None))
                continue
            src = commits[lr]
            if src["attrs"].get(f) != a or src["inv"].get(f) != lr:
                bad.append(("r%d file %s: last-changed r%d holds different attributes %r vs %r" % (
                    n, f, lr, src["attrs"].get(f), a), None))
            # candidates / heads, own computation on the real text graph
            cands, hs, fam = cands_heads(c, f)
            carry = len(hs) == 1 and commits[hs[0]]["attrs"].get(f) == a
            if (lr != n) != carry:
                bad.append(("r%d file %s: last-changed r%d but heads of parents' versions %r (candidates %r), "
                            "attributes %s the head's" % (n, f, lr, hs, cands,
                                                          "equal" if carry else "differ from"), fam))
            if lr != n:
                # dominance: every parent's version is the named one or a per-file AND revision ancestor
                for v in cands:
                    if v != lr and ((int(f), v) not in _anc(tg, (int(f), lr), tmemo)
                                    or v not in _anc(rpm, lr, rmemo)):
                        bad.append(("r%d file %s: carried-over last-changed r%d does not include the "
                                    "version r%d of a parent" % (n, f, lr, v), fam))
            if len(c["parents"]) == 1:
                pa = commits.get(c["parents"][0], empty)["attrs"].get(f)
                if (lr == n) != (pa != a):
                    bad.append(("r%d file %s (single parent): changed=%r but last-changed r%d" % (
                        n, f, pa != a, lr), None))
            if not c["parents"] and lr != n:
                bad.append(("r%d file %s: initial commit names r%d" % (n, f, lr), None))
            key = "%s.%d" % (f, n)
            if lr == n:
                if key not in obs["texts"]:
                    bad.append(("r%d file %s: no text key for the new version" % (n, f), None))
                elif obs["texts"][key] != hs:
                    bad.append(("r%d file %s: stored per-file parents %r, heads of the parents' versions %r "
                                "(candidates %r)" % (n, f, obs["texts"][key], hs, cands), fam))
                elif any(p not in _anc(rpm, n, rmemo) for p in hs):
                    bad.append(("r%d file %s: a stored per-file parent of %r is not a revision ancestor" % (
                        n, f, hs), fam))
            elif key in obs["texts"]:
                bad.append(("r%d file %s: text key stored although the entry names r%d" % (n, f, lr), None))
    for k in obs["texts"]:
        f, r = k.split(".")
        if commits[int(r)]["inv"].get(f) != int(r):
            bad.append(("text key %s is not referenced by inventory r%s" % (k, r), None))
    chk = obs["check"]
    for inc in chk["inconsistent"]:
        bad.append(("check(): inconsistent parents: revision r%d file %d stored %r expected %r" % tuple(inc),
                    fam_at.get((inc[0], inc[1]))))
    if chk["unreferenced"]:
        bad.append(("check(): unreferenced versions %r" % (chk["unreferenced"][:3],), None))
    for msg, fam in bad[:3]:
        ctx.violation(case, msg, family=fam)
    return bad


def chk_expected(chk):
    """independent expectation for the verdict of check() on the repository with the inserted
    revision: exactly the inserted text key is reported, with the stored and the right parents"""
    key = "%d.%d" % (chk["f"], chk["x"])
    fmt = lambda l: ".".join(map(str, l)) or "-"
    if not chk["new_entry"]:
        return "W:- U:%s" % key
    if chk["stored"] == chk["good"]:
        return "W:- U:-"
    return "W:%s=%s>%s U:-" % (key, fmt(chk["stored"]), fmt(chk["good"]))


# --------------------------------------------------------------------------
# run / replay
# --------------------------------------------------------------------------

def _lcas(rpm, memo, p, q):
    ap = _anc(rpm, p, memo) | {p}
    aq = _anc(rpm, q, memo) | {q}
    common = ap & aq
    return [x for x in common if not any(y != x and x in _anc(rpm, y, memo) for y in common)]


def _stats(ctx, obs):
    """distribution counters; per history family (counted once per history that exhibits it)"""
    commits = {c["n"]: c for c in obs["commits"]}
    rpm = {n: c["parents"] for n, c in commits.items()}
    memo = {}
    merges = sum(1 for c in obs["commits"] if len(c["parents"]) >= 2)
    tri = sum(1 for c in obs["commits"] if len(c["parents"]) >= 3)
    carried_other = 0
    multi = 0
    fams = set()
    for c in obs["commits"]:
        fams.update(c.get("tags", ()))
        ps = c["parents"]
        real = [p for p in ps if p < GHOST_BASE]
        if len(ps) != len(real):
            fams.add("ghost_parent")
            if ps and ps[0] >= GHOST_BASE:
                fams.add("ghost_basis")
        if len(ps) >= 3:
            fams.add("octopus")
        if len(real) >= 2 and any(len(_lcas(rpm, memo, p, q)) >= 2
                                  for i, p in enumerate(real) for q in real[i + 1:]):
            fams.add("criss_cross_merge")
        if len(real) >= 2 and any(q in _anc(rpm, p, memo) for p in real for q in real if p != q):
            fams.add("merge_of_an_ancestor")
        binv = battr = None
        if ps:
            b = commits.get(ps[0])
            binv = b["inv"] if b else {}
            battr = b["attrs"] if b else {}
        for f, lr in c["inv"].items():
            if lr != c["n"] and binv is not None and binv.get(f) != lr:
                carried_other += 1
                fams.add("carried_from_non_basis_parent")
                if len(real) >= 3:
                    fams.add("octopus_carried_from_later_parent")
            nps = len(obs["texts"].get("%s.%d" % (f, lr), [])) if lr == c["n"] else 0
            if nps >= 2:
                multi += 1
                if battr is not None and battr.get(f) == c["attrs"][f]:
                    fams.add("merge_recorded_without_change_vs_basis")   # unchanged_merged
                hs = obs["texts"]["%s.%d" % (f, lr)]
                if len({tuple(commits[h]["attrs"].get(f, ())) for h in hs if h in commits}) == 1:
                    fams.add("identical_parallel_change_merged")
            if lr == c["n"] and len(ps) >= 2 and nps == 1 and int(f) not in c.get("reported", []):
                fams.add("unreported_id_gets_new_version")
    for fam in sorted(fams):
        ctx.count("family:" + fam)
    ctx.count("commits", len(obs["commits"]))
    ctx.count("commits_per_history:%s" % ("<=5" if len(commits) <= 5 else "<=10" if len(commits) <= 10
                                          else "<=15" if len(commits) <= 15 else ">15"))
    ctx.count("merge_commits", merges)
    ctx.count("three_parent_commits", tri)
    ctx.count("entries_carried_from_non_basis", carried_other)
    ctx.count("texts_with_2plus_parents", multi)
    ctx.count("kinds:" + "".join(sorted({v[0] for c in obs["commits"] for v in c["snap"].values()})))
    return merges > 0 or carried_other > 0


def gen_items(ctx, n, start=0):
    fmts = ctx.pick(FORMATS_QUICK, FORMATS_ALL)
    nf = ctx.pick(5, 8)
    limits = ctx.pick((5, 8, 10), (8, 12, 20))
    items = []
    for i in range(n):
        linear = ctx.rng.random() < 0.15
        ops = gen_script(ctx.rng, linear=linear, max_commits=ctx.rng.choice(limits), nf=nf)
        items.append((start + i, fmts[i % len(fmts)], ops, ctx.seed))
    return items


def run(ctx, n=None):
    n = n or ctx.pick(60, 240)
    items = []
    corpus_dir = os.path.join(env.VERIF, "corpus", "C02")
    if os.path.isdir(corpus_dir):
        import json
        for fn in sorted(os.listdir(corpus_dir)):
            c = json.load(open(os.path.join(corpus_dir, fn)))
            items.append((len(items), c["fmt"], c["ops"], ctx.seed))
    items += gen_items(ctx, n, start=len(items))
    results = ctx.pmap(_worker, items, chunksize=1)
    cases, lines, impls = [], [], []
    hq_cases, hq_lines, hq_impls = [], [], []
    bk_cases, bk_lines, bk_impls = [], [], []
    ck_cases, ck_lines, ck_impls = [], [], []
    for (idx, fmt, ops, _), obs in zip(items, results):
        case = dict(fmt=fmt, ops=ops)
        if "error" in obs:
            ctx.violation(case, "history script crashed in real code: %s\n%s" % (obs["error"], obs["tb"]),
                          family=None)
            ctx.count("crashed")
            continue
        nontrivial = _stats(ctx, obs)
        ctx.case(case, nontrivial=nontrivial)
        ctx.count("fmt:" + fmt)
        ctx.count("ops_applied", obs["applied"])
        ctx.count("ops_skipped", obs["skipped"])
        for mc in obs.get("merge_crashes", ()):
            ctx.count("merge_crashed_and_skipped:" + mc)
        oracle(ctx, case, obs)
        if obs.get("_revgraph_differs"):
            ctx.count("histories_where_revision_graph_heads_differ_from_per_file_heads")
        if obs.get("_report_mismatch"):
            ctx.count("entries_where_iter_changes_report_is_not_iff_differs", obs["_report_mismatch"])
        cases.append(case)
        lines.append(model_line(obs))
        impls.append(impl_reply(obs))
        bk_cases.append(dict(case, op="recb"))
        bk_lines.append(model_line(obs, "recb"))
        bk_impls.append(impl_reply(obs, "recb"))
        if all(len(c["parents"]) <= 1 for c in obs["commits"]) and \
                all(c["parents"] == [c["n"] - 1] for c in obs["commits"][1:]) and not obs["commits"][0]["parents"]:
            ctx.count("linear_histories")
            cases.append(dict(case, op="lin"))
            lines.append(model_line(obs, "lin"))
            impls.append(impl_lin(obs))
        for q in obs["heads"]:
            hq_cases.append(dict(case, heads_query=q["cands"], f=q["f"]))
            hq_lines.append("heads %s %s" % (
                ",".join("%d=%s" % (r, ".".join(map(str, ps)) or "-") for r, ps in q["graph"]),
                ",".join(map(str, q["cands"]))))
            hq_impls.append(",".join(map(str, q["heads"])) or "-")
            ctx.count("heads_queries")
        chk = obs.get("chk")
        if chk is None:
            ctx.count("checker_tie:not_applicable")
        elif "error" in chk:
            # the hand-made insertion could not be performed: infrastructure, not the property
            ctx.count("checker_tie:insertion_failed")
            ctx.extra.setdefault("checker_tie_insertion_errors", []).append(chk["error"])
        else:
            ctx.count("checker_tie:" + chk["kind"])
            ctx.count("checker_tie_verdict:" + ("consistent" if chk["impl"] == "W:- U:-" else "reported"))
            ccase = dict(case, op="chk", idx=idx, seed=ctx.seed, corruption=chk["kind"], f=chk["f"], stored=chk["stored"],
                         right=chk["good"], parents=chk["parents"])
            if chk["impl"] != chk_expected(chk):
                # check() on a repository that IS inconsistent: a wrong verdict is a tie break of
                # the checker model's independent expectation, reported like a model mismatch
                ctx.mismatch(ccase, chk["impl"], chk_expected(chk), line=chk["line"], tie="T2-checker-expected")
            ck_cases.append(ccase)
            ck_lines.append(chk["line"])
            ck_impls.append(chk["impl"])
    if len(ctx.extra.get("checker_tie_insertion_errors", [])) > max(3, len(items) // 10):
        raise RuntimeError("checker tie: too many failed insertions: %r" % ctx.extra["checker_tie_insertion_errors"][:3])
    if ctx.model_available:
        ctx.diff(cases, lines, impls)
        ctx.diff(bk_cases, bk_lines, bk_impls, tie="T2-bookkeeping")
        ctx.diff(hq_cases, hq_lines, hq_impls, tie="T2-heads")
        ctx.diff(ck_cases, ck_lines, ck_impls, tie="T2-checker")


def widen(ctx):
    run(ctx, n=150)


def replay(ctx, case):
    obs = _worker((case.get("idx", 0), case["fmt"], case["ops"], case.get("seed", 0)))
    if "error" in obs:
        return dict(case=case, error=obs["error"], tb=obs["tb"])
    bad = oracle(ctx, case, obs)
    op = case.get("op", "rec")
    chk = obs.get("chk") or {}
    if op == "chk" and "line" in chk:
        line, impl = chk["line"], chk["impl"]
    elif op == "lin":
        line, impl = model_line(obs, "lin"), impl_lin(obs)
    else:
        op = op if op in ("rec", "recb") else "rec"
        line, impl = model_line(obs, op), impl_reply(obs, op)
    m = ctx.model([line])[0] if ctx.model_available else None
    return dict(case=case, impl=impl, model=m, line=line,
                oracle_failures=[dict(what=w, family=f) for w, f in bad],
                commits=[dict(n=c["n"], parents=c["parents"], inv=c["inv"], reported=c["reported"], tags=c["tags"])
                         for c in obs["commits"]],
                texts=obs["texts"], check=obs["check"],
                checker_tie={k: v for k, v in chk.items() if k != "line"} if chk else None,
                checker_tie_expected=chk_expected(chk) if "line" in chk else None)
