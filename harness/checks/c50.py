"""C50 — command-line splitting inverts shell-style quoting
(breezy/cmdline.py: Splitter, _Whitespace, _Quotes, _Backslash, _Word,
_PushbackSequence, split).

Model: lean/BreezyVerif/Model/C50.lean — `tokens`/`split` (structural) and the
literal push-back machine `mTokens`/`splitM`; theorems in Props/C50.lean.  The
general theorem is `tokens_mixed_line`: a command line of arguments, each a run
of quoted (`quote a`, any `a`) and unquoted (non-empty, ordinary characters and
backslashes, no trailing backslash directly before another segment) segments,
arguments preceded by arbitrary Unicode whitespace (non-empty between
arguments) plus optional trailing whitespace, is split into exactly one token
per argument.  `tokens_args_and_words` (each item `quote a` or a plain word),
`tokens_join_quote_ws` (round trip with arbitrary whitespace separators) and
the original `tokens_join_quote` (joined with single spaces) are instances.

T2 (every run):
 * every string over {a, space, ", ', \\} up to length L (quick 7, thorough 8),
   both `single_quotes_allowed` values: list(Splitter(s, sq)) — tokens *and*
   quoted flags — against `tok` (structural model) and `mtok` (literal machine);
 * every string over {a, b, space, TAB, ", ', \\} up to length L2 (quick 6,
   thorough 7) that is not already in the first domain, same comparison;
 * random strings over a wide alphabet (Unicode whitespace, look-alikes that
   are not whitespace, astral characters, long backslash runs);
 * random argument lists: the reference quoting (`py_quote`, the documented
   rules) against the model's `quote`/`joinSp`, and Splitter on the result;
 * mixed command lines (systematic small ones, then random): the driver op
   `mixed` lays the line out with the model's `layout`, evaluates the
   hypotheses of `tokens_mixed_line` on the generated items and returns the
   tokens the theorem promises — compared with the line built here and with
   the tokens of the real Splitter; the line also goes through tok/mtok;
 * the whitespace predicate on every code point 0..0x10FFFF against
   `_whitespace_match`.
There is no rejection path (every str is accepted); the "malformed" stream is
unterminated quotes / trailing backslash runs, compared in full.

Oracle (independent of the model, on the real code): for every argument list
`split(" ".join(quote(a) for a in args), sq) == args`; non-empty words without
quotes/whitespace (backslashes allowed) separated by arbitrary Unicode
whitespace come back unchanged and unquoted; every mixed command line
(quoted/unquoted segments, separators drawn from all 19 sampled whitespace
characters incl. TAB, LF, U+00A0, U+2003, U+3000, leading/trailing whitespace)
gives exactly its arguments with the right quoted flags; for every input string
the concatenated tokens are a subsequence of the input, the characters outside
the quoting syntax (not whitespace / allowed quote / backslash) survive in
order, no unquoted token is empty, and split() == [t for _, t in Splitter].
`stream_seconds` in the evidence gives the cost of each stream.

Mutants this was built against (scratch worktree; each reported as VIOLATION
with the concrete input shown, found by the oracle):
 M1 _Backslash: `self.count // 2` -> `(self.count + 1) // 2`      args=['"']
 M2 _Backslash: odd/even test swapped (`% 2 == 1` -> `% 2 == 0`)   args=['\\\\\\']
 M3 _Backslash.finish dropped (trailing backslashes lost)          words=['\\']
 M4 _Quotes: closing quote no longer appends ""                    args=['', '']
 M5 _Whitespace: `context.quoted = True` dropped                   "a '' c" loses c
 M6 _Word: whitespace test replaced by `next_char == " "`          <TAB>b<TAB>a<TAB>
 M7 _Backslash non-quote branch: pushback dropped                  '"\\\'"' (sq off)
 M8 _Word: `_Quotes(next_char, self)` -> exit to `_Whitespace()`: split() is
    unchanged, only the `quoted` flag differs — formerly T2 only, now the mixed
    oracle: line b + three double quotes + c + double quote reported quoted
 M9 _Backslash: `in context.allowed_quote_chars` -> `== '"'`        args=["\\'"] (sq on)
 M11 _Whitespace: whitespace never ends a token                    args=['', '']
 M12 _Whitespace: a quoted token in progress is ended by ' ' only  mixed '""<TAB>b' -> one token
 M13 _Whitespace: ... not ended by code points >= 0x3000           mixed '""<U+3000>b'
 M14 _Quotes: closing quote ends the token when exit is _Whitespace mixed '""b' -> two tokens
 M15 _Word: opening quote sets `context.quoted = True`             mixed 'b""' reported quoted
    (M12-M15 pass every older oracle: they were T2 mismatches only)
 H1 harmless: `_Word.process` rewritten with early returns and `token += [c]`
 H2 harmless: push-back `pop()` -> `pop(0)` (at most one element)
 H3 harmless: `_whitespace_match(c)` -> `c.isspace()`, `append("")` -> `extend([""])` — all clean.
"""
import itertools

THEOREMS = [
    "tokens_mixed_line", "split_mixed_line", "splitM_mixed_line", "tokens_args_and_words",
    "tokens_join_quote_ws", "split_join_quote_ws", "splitM_join_quote_ws",
    "tokens_join_quote", "split_join_quote", "split_unquoted_words", "split_sublist",
    "split_keeps_plain", "tokens_unquoted_nonempty", "split_total", "splitM_join_quote",
]
RULE = ("case = (single_quotes_allowed, input string), (sq, argument list) or (sq, mixed line = "
        "[(whitespace, [quoted/unquoted segments])], trailing whitespace); exhaustive over "
        "{a,space,\",',\\}^<=L and {a,b,space,TAB,\",',\\}^<=L2 plus random wide-alphabet strings, "
        "random argument lists, word lists and mixed lines; non-trivial = the input contains a quote "
        "or a backslash (the state machine leaves the plain word/whitespace states); a mixed line is "
        "non-trivial when it has a quoted segment")
ASSUMPTIONS = ["Python str is modelled as a list of Unicode scalar values (no lone surrogates)"]
TRUSTED = [
    "re's \\s on one character is modelled by the explicit table isWs, compared with _whitespace_match on all 0x110000 code points on every run",
    "the reference quoting function py_quote in this module is the reading of 'the documented rules'; it is compared with the Lean `quote` on every generated argument",
]

BS = "\\"
EXH_ALPHA = "a \"'\\"
# second exhaustive domain: a second plain character and TAB (a second whitespace
# character), up to length L2; strings already in the first domain are skipped
EXH_ALPHA2 = "ab \t\"'\\"
WS_CHARS = " \t\n\r\x0b\x0c\x1c\x1f\x85\xa0\u1680\u2000\u2003\u200a\u2028\u2029\u202f\u205f\u3000"
NOT_WS = "\x00\x08\x0e\x1b\x7f\u200b\u2060\ufeff\u180e"
WIDE_ALPHA = ("ab-/.*\xb5\u1234\U0001f600" + NOT_WS)


def enc(s):
    return ".".join("%x" % ord(c) for c in s) or "_"


def enc_toks(toks):
    return ",".join(("T:" if q else "F:") + enc(t) for q, t in toks) or "-"


def _impl():
    from breezy import cmdline
    return cmdline


def py_quote(a, sq):
    """the documented rules: surround by double quotes; a run of backslashes
    followed by an allowed quote character or by the end of the argument is
    doubled; a double quote gets one more backslash."""
    allowed = '"\'' if sq else '"'
    out = ['"']
    i, n = 0, len(a)
    while i < n:
        if a[i] == BS:
            j = i
            while j < n and a[j] == BS:
                j += 1
            k = j - i
            if j == n or a[j] in allowed:
                out.append(BS * (2 * k))
            else:
                out.append(BS * k)
            i = j
        elif a[i] == '"':
            out.append(BS + '"')
            i += 1
        else:
            out.append(a[i])
            i += 1
    out.append('"')
    return "".join(out)


def _is_subseq(small, big):
    it = iter(big)
    return all(c in it for c in small)


def _string_oracle(ctx, cm, sq, s, toks):
    """the part of the statement about arbitrary input strings"""
    case = dict(kind="str", sq=sq, s=enc(s))
    cat = "".join(t for _, t in toks)
    if not _is_subseq(cat, s):
        ctx.violation(case, "split invents characters: tokens %r are not a subsequence of %r" % ([t for _, t in toks], s))
    allowed = '"\'' if sq else '"'

    def plain(c):
        return not cm._whitespace_match(c) and c not in allowed and c != BS
    if [c for c in cat if plain(c)] != [c for c in s if plain(c)]:
        ctx.violation(case, "split loses plain characters: %r -> %r" % (s, [t for _, t in toks]))
    if any((not q) and t == "" for q, t in toks):
        ctx.violation(case, "empty unquoted token from %r" % s)
    sp = cm.split(s, single_quotes_allowed=sq)
    if sp != [t for _, t in toks]:
        ctx.violation(case, "split() differs from Splitter on %r" % s)


def _args_oracle(ctx, cm, sq, args):
    line = " ".join(py_quote(a, sq) for a in args)
    got = cm.split(line, single_quotes_allowed=sq)
    if got != args:
        ctx.violation(dict(kind="args", sq=sq, args=[enc(a) for a in args]),
                      "split(join(quote(args))) != args: args=%r line=%r split=%r" % (args, line, got))
    return line


def _words_oracle(ctx, cm, sq, items, trail):
    """unquoted words separated by arbitrary whitespace come back unchanged"""
    line = "".join(sep + w for sep, w in items) + trail
    words = [w for _, w in items]
    got = list(cm.Splitter(line, single_quotes_allowed=sq))
    if got != [(False, w) for w in words]:
        ctx.violation(dict(kind="words", sq=sq, items=[[enc(a), enc(b)] for a, b in items], trail=enc(trail)),
                      "unquoted words are not split back: line=%r words=%r tokens=%r" % (line, words, got))
    return line


def _rand_words(rng, sq):
    alpha = WIDE_ALPHA + ("" if sq else "'")
    items = []
    for i in range(rng.choice((0, 1, 2, 2, 3, 4))):
        w = []
        for _ in range(rng.randint(1, 6)):
            w.append(BS * rng.choice((1, 1, 2, 3)) if rng.random() < 0.3 else rng.choice(alpha))
        sep = "".join(rng.choice(WS_CHARS) for _ in range(rng.randint(0 if i == 0 else 1, 3)))
        items.append((sep, "".join(w)))
    trail = "".join(rng.choice(WS_CHARS) for _ in range(rng.choice((0, 0, 1, 2))))
    return items, trail


# ---- mixed command lines: arguments made of quoted ("q") and unquoted ("w")
# segments, each argument preceded by whitespace (theorem tokens_mixed_line)

def _mixed_line(sq, items, trail):
    return "".join(sep + "".join(py_quote(v, sq) if k == "q" else v for k, v in segs)
                   for sep, segs in items) + trail


def _mixed_expected(items):
    """one token per argument: the segment texts concatenated; quoted iff the
    argument starts with a quoted segment"""
    return [(segs[0][0] == "q", "".join(v for _, v in segs)) for _, segs in items]


def _mixed_case(sq, items, trail):
    return dict(kind="mixed", sq=sq, trail=enc(trail),
                items=[[enc(sep), [[k, enc(v)] for k, v in segs]] for sep, segs in items])


def _mixed_req(sq, items, trail):
    return "mixed %s %s %s" % ("T" if sq else "F", enc(trail), ",".join(
        enc(sep) + "/" + "+".join(k + enc(v) for k, v in segs) for sep, segs in items) or "-")


def _mixed_oracle(ctx, cm, sq, items, trail):
    line = _mixed_line(sq, items, trail)
    want = _mixed_expected(items)
    got = list(cm.Splitter(line, single_quotes_allowed=sq))
    if got != want:
        ctx.violation(_mixed_case(sq, items, trail),
                      "mixed command line is not split into its arguments: line=%r sq=%r want=%r tokens=%r"
                      % (line, sq, want, got))
    elif cm.split(line, single_quotes_allowed=sq) != [t for _, t in want]:
        ctx.violation(_mixed_case(sq, items, trail), "split() differs from the arguments on %r" % line)
    return line, got


def _rand_word_seg(rng, sq, last):
    alpha = WIDE_ALPHA + ("" if sq else "'")
    w = []
    for _ in range(rng.randint(1, 5)):
        w.append(BS * rng.choice((1, 1, 2, 3)) if rng.random() < 0.3 else rng.choice(alpha))
    w = "".join(w)
    if not last and w.endswith(BS):
        # hypothesis itemOk: no trailing backslash directly before another segment
        w += rng.choice(alpha)
    return w


def _rand_sep(rng, lo):
    """whitespace run of length >= lo (a single character in about half the cases)"""
    n = max(lo, 1) if rng.random() < 0.45 else rng.randint(lo, 3)
    return "".join(rng.choice(WS_CHARS) for _ in range(n))


def _rand_mixed(rng, sq):
    mode = rng.random()      # < .25: every argument one quoted segment (the round trip with
    items = []               # arbitrary separators); < .33: plain words only; else mixed
    for i in range(rng.choice((0, 1, 2, 2, 3, 3, 4, 6))):
        if mode < 0.25:
            kinds = "q"
        elif mode < 0.33:
            kinds = "w"
        else:
            r = rng.random()
            kinds = "q" if r < 0.35 else "w" if r < 0.65 else \
                [rng.choice("qw") for _ in range(rng.choice((2, 2, 3, 4)))]
        segs = []
        for j, k in enumerate(kinds):
            segs.append((k, _rand_arg(rng) if k == "q" else _rand_word_seg(rng, sq, j == len(kinds) - 1)))
        sep = _rand_sep(rng, 1) if i else (_rand_sep(rng, 0) if rng.random() < 0.5 else "")
        items.append((sep, segs))
    trail = _rand_sep(rng, 1) if rng.random() < 0.4 else ""
    return items, trail


def _small_mixed():
    """systematic small mixed lines (so that a failure is reported on a small input)"""
    small = ["".join(t) for n in range(3) for t in itertools.product(EXH_ALPHA, repeat=n)]
    few = ["", "a", " ", '"', "'", BS, "a b", BS + '"', BS + BS]
    args = [[("q", a)] for a in small]
    args += [[("w", w)] for w in ("b", "b" + BS, BS + "b", BS, BS + BS)]
    args += [[("w", "b"), ("q", a)] for a in few] + [[("q", a), ("w", "b")] for a in few]
    args += [[("q", a), ("w", BS)] for a in few] + [[("q", a), ("q", "c")] for a in few]
    args += [[("w", "b="), ("q", a), ("w", BS + "c" + BS)] for a in few]
    args += [[("w", "b"), ("q", a), ("q", "c")] for a in few]
    W, Q0, Q1 = [("w", "b")], [("q", "")], [("q", "c d")]
    out = []
    for sep in (" ", "\t", "\n", "\xa0", "\u2003", "\u3000", "\t "):
        for it in args:
            for sq in (True, False):
                out.append((sq, [("", it)], ""))
                out.append((sq, [(sep, it)], sep))
                out.append((sq, [("", it), (sep, W)], ""))
                out.append((sq, [("", W), (sep, it)], ""))
                out.append((sq, [("", it), (sep, Q0)], sep))
                out.append((sq, [(sep, Q1), (sep, it), (sep, it)], ""))
    return out


def _run_mixed(ctx, cm, lists, tag):
    """lists: (sq, items, trail).  Oracle on the real Splitter; the model lays the
    line out itself, confirms the hypotheses of tokens_mixed_line and gives the
    tokens the theorem promises; then the line goes through tok/mtok as well."""
    cases, lines, outs, str_items = [], [], [], []
    for sq, items, trail in lists:
        line, got = _mixed_oracle(ctx, cm, sq, items, trail)
        case = _mixed_case(sq, items, trail)
        nseg = [len(segs) for _, segs in items]
        kinds = set(k for _, segs in items for k, _ in segs)
        ctx.case([tag, sq, case["items"], case["trail"]], nontrivial=("q" in kinds))
        ctx.count("mixed-nargs:%d" % min(len(items), 6))
        ctx.count("mixed-kinds:%s" % ("+".join(sorted(kinds)) or "none"))
        if any(n > 1 for n in nseg):
            ctx.count("mixed-compound-arg")
        if any(sep and sep[0] != " " for sep, _ in items[1:]):
            ctx.count("mixed-nonspace-separator")
        if any(k == "w" and v.endswith(BS) for _, segs in items for k, v in segs):
            ctx.count("mixed-word-trailing-backslash")
        cases.append(case)
        lines.append(_mixed_req(sq, items, trail))
        outs.append("T|%s|%s" % (enc(line), enc_toks(got)))
        str_items.append((sq, line))
    ctx.diff(cases, lines, outs)
    _run_strings(ctx, cm, str_items, tag + "-line")


def _run_strings(ctx, cm, items, tag):
    """items: list of (sq, s).  impl vs both models + string oracle."""
    cases, lines, outs = [], [], []
    for sq, s in items:
        toks = list(cm.Splitter(s, single_quotes_allowed=sq))
        _string_oracle(ctx, cm, sq, s, toks)
        special = any(c in "\"'\\" for c in s)
        case = [tag, sq, enc(s)]
        ctx.case(case, nontrivial=special)
        ctx.count("len:%d" % min(len(s), 12))
        ctx.count("ntok:%d" % min(len(toks), 6))
        if any(q for q, _ in toks):
            ctx.count("has-quoted-token")
        out = enc_toks(toks)
        flag = "T" if sq else "F"
        for op in ("tok", "mtok"):
            cases.append(case + [op])
            lines.append("%s %s %s" % (op, flag, enc(s)))
            outs.append(out)
    ctx.diff(cases, lines, outs)


def _rand_string(rng, maxlen):
    n = rng.randint(0, maxlen)
    out = []
    while len(out) < n:
        r = rng.random()
        if r < 0.22:
            out.append(BS * rng.choice((1, 1, 2, 2, 3, 4, 5)))
        elif r < 0.42:
            out.append(rng.choice("\"\"'"))
        elif r < 0.60:
            out.append(rng.choice(WS_CHARS))
        elif r < 0.70:
            out.append(rng.choice(NOT_WS))
        else:
            out.append(rng.choice(WIDE_ALPHA))
    return "".join(out)


def _rand_arg(rng):
    r = rng.random()
    if r < 0.08:
        return ""
    if r < 0.16:
        return BS * rng.randint(1, 4)
    return _rand_string(rng, rng.choice((2, 4, 8, 14)))


def _check_ws(ctx, cm):
    """the whitespace table, all code points"""
    real = [i for i in range(0x110000) if cm._whitespace_match(chr(i))]
    if any(0xd800 <= i <= 0xdfff for i in real):
        ctx.mismatch(["ws", "surrogate"], "whitespace surrogate", "not modelled")
    got = []
    step = 0x20000
    lines = ["wsrange %x %x" % (lo, min(lo + step - 1, 0x10ffff)) for lo in range(0, 0x110000, step)]
    for rep in ctx.model(lines):
        if rep != "-":
            got += [int(x, 16) for x in rep.split(",")]
    ctx.traces += 0x110000 - 0x800
    ctx.case(["ws-table", len(real)], nontrivial=True, n=0x110000)
    if got != real:
        diff = sorted(set(got) ^ set(real))
        ctx.mismatch(["ws", ["%x" % d for d in diff[:10]]], "impl-ws=%d" % len(real), "model-ws=%d" % len(got))
    ctx.extra["whitespace_code_points"] = len(real)


def run(ctx, L=None, nrand=None, nargs=None, L2=None, nmixed=None):
    import time
    cm = _impl()
    L = L or ctx.pick(7, 8)
    L2 = L2 or ctx.pick(6, 7)
    nrand = nrand or ctx.pick(6000, 60000)
    nargs = nargs or ctx.pick(6000, 60000)
    nmixed = nmixed or ctx.pick(5000, 50000)
    secs = ctx.extra.setdefault("stream_seconds", {})
    t0 = [time.time()]

    def lap(name):
        now = time.time()
        secs[name] = round(secs.get(name, 0) + now - t0[0], 1)
        t0[0] = now
    _check_ws(ctx, cm)
    lap("ws-table")

    # fixed corner cases first (also the cases of test_cmdline)
    corner = ['"\\\\\\\\" *.py', '"\\\\\\\\\\" *.py"', '\\\\\\\\" *.py"', '\\\\\\\\\\" *.py', '"\\\\',
              "a '' c", "''", '""', 'a"" b', '"a"b', "\\", "\\ ", ' \\" ', '"\\\'"', "a\u3000b", "a\u200bb"]
    corner += ['foo "a b" bar', 'foo\t"a b"\u3000bar', '--using="my tool" x', '"a"\tb', '"a"\u3000"b"', 'a\\ "b"',
               'a\\"b"', '"a"b"c"', "b\t'a' c", '"a""b"\n']
    _run_strings(ctx, cm, [(sq, s) for s in corner for sq in (True, False)], "corner")
    lap("corner")

    # exhaustive small strings
    items = []
    for n in range(L + 1):
        for t in itertools.product(EXH_ALPHA, repeat=n):
            s = "".join(t)
            items.append((True, s))
            items.append((False, s))
    for i in range(0, len(items), 100000):
        _run_strings(ctx, cm, items[i:i + 100000], "exh")
    ctx.exhaustive = True
    ctx.extra["exhaustive_domain"] = dict(alphabet=list(EXH_ALPHA), max_len=L, strings=len(items))
    lap("exhaustive-5")

    # second exhaustive domain: two plain characters, space and TAB; the strings
    # over the first alphabet were done above
    first = set(EXH_ALPHA)
    items = []
    for n in range(1, L2 + 1):
        for t in itertools.product(EXH_ALPHA2, repeat=n):
            if first.issuperset(t):
                continue
            s = "".join(t)
            items.append((True, s))
            items.append((False, s))
    for i in range(0, len(items), 100000):
        _run_strings(ctx, cm, items[i:i + 100000], "exh2")
    ctx.extra["exhaustive_domain_2"] = dict(alphabet=list(EXH_ALPHA2), max_len=L2, strings=len(items),
                                            note="strings over the first alphabet are not repeated")
    lap("exhaustive-7")

    # random wide-alphabet strings ("malformed" = unterminated quote / trailing backslash: counted)
    rng = ctx.rng
    items = []
    for _ in range(nrand):
        s = _rand_string(rng, rng.choice((6, 12, 24, 40)))
        if rng.random() < 0.1:
            s += rng.choice(['"', "'", BS, BS * 2, '"' + BS, BS + '"'])
            ctx.count("malformed-tail")
        items.append((rng.random() < 0.5, s))
    _run_strings(ctx, cm, items, "rand")
    lap("random-strings")

    # argument lists through quote -> join -> split: all small ones first
    # (so that a failure is reported on a small input), then random ones
    small = ["".join(t) for n in range(4) for t in itertools.product(EXH_ALPHA, repeat=n)]
    arglists = [(sq, [a]) for a in small for sq in (True, False)]
    arglists += [(sq, [a, b]) for a in small[:31] for b in small[:31] for sq in (True, False)]
    for _ in range(nargs):
        arglists.append((rng.random() < 0.5, [_rand_arg(rng) for _ in range(rng.choice((0, 1, 1, 2, 3, 5)))]))
    cases, lines, outs = [], [], []
    str_items = []
    for sq, args in arglists:
        line = _args_oracle(ctx, cm, sq, args)
        case = ["args", sq, [enc(a) for a in args]]
        ctx.case(case, nontrivial=any(c in "\"'\\" for a in args for c in a))
        ctx.count("nargs:%d" % len(args))
        if "" in args:
            ctx.count("empty-arg")
        cases.append(case)
        lines.append("qjoin %s %s" % ("T" if sq else "F", ",".join(enc(a) for a in args) or "-"))
        outs.append(enc(line))
        str_items.append((sq, line))
    ctx.diff(cases, lines, outs)
    _run_strings(ctx, cm, str_items, "quoted-line")
    lap("quoted-arglists")

    # unquoted words separated by arbitrary (Unicode) whitespace
    str_items = []
    wordlists = []
    smallw = ["".join(t) for n in range(1, 4) for t in itertools.product("a\\'", repeat=n)]
    for sep in (" ", "\t", "\u3000", "\x1f\n"):
        for w in smallw:
            wordlists.append((False, [("", w)], ""))
            wordlists.append((False, [(sep, "b"), (sep, w)], sep))
            if "'" not in w:
                wordlists.append((True, [("", w), (sep, "b")], ""))
    for _ in range(nargs // 2):
        sq = rng.random() < 0.5
        wordlists.append((sq,) + _rand_words(rng, sq))
    for sq, items, trail in wordlists:
        line = _words_oracle(ctx, cm, sq, items, trail)
        ctx.case(["words", sq, [[enc(a), enc(b)] for a, b in items], enc(trail)],
                 nontrivial=any(BS in w for _, w in items))
        ctx.count("nwords:%d" % len(items))
        str_items.append((sq, line))
    _run_strings(ctx, cm, str_items, "word-line")
    lap("word-lists")

    # mixed command lines: quoted and unquoted segments, arbitrary whitespace
    # separators, leading/trailing whitespace (tokens_mixed_line and its
    # corollaries tokens_args_and_words / tokens_join_quote_ws)
    mixed = _small_mixed()
    ctx.extra["mixed_small_lines"] = len(mixed)
    for _ in range(nmixed):
        sq = rng.random() < 0.5
        mixed.append((sq,) + _rand_mixed(rng, sq))
    for i in range(0, len(mixed), 50000):
        _run_mixed(ctx, cm, mixed[i:i + 50000], "mixed")
    lap("mixed-lines")


def widen(ctx):
    run(ctx, L=8, nrand=60000, nargs=60000, L2=6, nmixed=50000)


def replay(ctx, case):
    cm = _impl()

    def dec(e):
        return "" if e == "_" else "".join(chr(int(x, 16)) for x in e.split("."))
    if isinstance(case, dict) and case.get("kind") == "mixed":
        sq = case["sq"]
        items = [(dec(sep), [(k, dec(v)) for k, v in segs]) for sep, segs in case["items"]]
        trail = dec(case["trail"])
        line, toks = _mixed_oracle(ctx, cm, sq, items, trail)
        m = ctx.model([_mixed_req(sq, items, trail), "tok %s %s" % ("T" if sq else "F", enc(line))])
        return dict(case=case, line=line, arguments=_mixed_expected(items), impl=enc_toks(toks), impl_tokens=toks,
                    model_hyp_line_tokens=m[0], model=m[1], oracle_failures=[v["what"] for v in ctx.violations])
    if isinstance(case, dict) and case.get("kind") == "words":
        sq = case["sq"]
        items = [(dec(a), dec(b)) for a, b in case["items"]]
        line = _words_oracle(ctx, cm, sq, items, dec(case["trail"]))
        toks = list(cm.Splitter(line, single_quotes_allowed=sq))
        m = ctx.model(["tok %s %s" % ("T" if sq else "F", enc(line))])
        return dict(case=case, line=line, impl=enc_toks(toks), impl_tokens=toks, model=m[0],
                    oracle_failures=[v["what"] for v in ctx.violations])
    if isinstance(case, dict) and case.get("kind") == "args":
        sq = case["sq"]
        args = [dec(a) for a in case["args"]]
        line = _args_oracle(ctx, cm, sq, args)
        impl = cm.split(line, single_quotes_allowed=sq)
        m = ctx.model(["qjoin %s %s" % ("T" if sq else "F", ",".join(enc(a) for a in args) or "-"),
                       "tok %s %s" % ("T" if sq else "F", enc(line))])
        return dict(case=case, args=args, line=line, impl=impl, model_line=m[0], model=m[1],
                    oracle_failures=[v["what"] for v in ctx.violations])
    if isinstance(case, dict):
        sq, s = case["sq"], dec(case["s"])
    else:
        sq, s = case[1], dec(case[2])
    toks = list(cm.Splitter(s, single_quotes_allowed=sq))
    _string_oracle(ctx, cm, sq, s, toks)
    m = ctx.model(["tok %s %s" % ("T" if sq else "F", enc(s)), "mtok %s %s" % ("T" if sq else "F", enc(s))])
    return dict(case=case, input=s, impl=enc_toks(toks), impl_tokens=toks, model=m[0], machine=m[1],
                oracle_failures=[v["what"] for v in ctx.violations])
