import BreezyVerif.Model.C04
import BreezyVerif.Lemmas.C04
import BreezyVerif.Lemmas.C04Fault
import BreezyVerif.Lemmas.C04Enabled
/-!
C04 — pack repositories are crash-atomic.  Theorems.

Everything is quantified over all directory states, all collections, all
plans and **every crash prefix `k`** of the operation list; no bound on the
number of packs or files.
-/
namespace BreezyVerif.C04

/-- `step_safe` (Lemmas) restated: an operation that does not touch the files of
packs in `ns` and is not the `pack-names` replacement changes neither
`pack-names` nor the completeness of any pack of `ns`. -/
theorem step_safe' (chk : Bool) (ns : List Nat) (d : Disk) (op : Op) (h : safeOp ns op = true) :
    (step d op).names = d.names ∧
    ∀ n ∈ ns, ready chk d n = true → ready chk (step d op) n = true :=
  step_safe chk ns d op h

/-- every crash prefix of a list of safe operations: same `pack-names`, same
complete packs -/
theorem run_take_safe (chk : Bool) (ns : List Nat) (ops : List Op) (d : Disk)
    (h : ∀ op ∈ ops, safeOp ns op = true) (k : Nat) :
    (run d (ops.take k)).names = d.names ∧
    ∀ n ∈ ns, ready chk d n = true → ready chk (run d (ops.take k)) n = true :=
  run_safe chk ns (ops.take k) d (fun op hop => h op (List.mem_of_mem_take hop))

/-- `finish_ready` (Lemmas): after `open_write_stream(upload/tmp)` … `finish()`
the pack `name` has its `.pack` and all its indices in place. -/
theorem finish_ready' (chk : Bool) (d : Disk) (tmp : File) (name : Nat) (ht : tmp.dir = .upload) :
    ready chk (run d (newPackOps chk tmp name)) name = true :=
  finish_ready chk d tmp name ht

/-- **Generic crash atomicity.**  An operation list of the shape
`pre ++ [putNames N] ++ post` in which `pre` does not touch the listed packs,
every pack of `N` is complete when `pack-names` is replaced, and `post` does
not touch the packs of `N`: after EVERY prefix every listed pack is complete
and `pack-names` is the old list or `N`. -/
theorem txn_crash_atomic (chk : Bool) (d : Disk) (pre post : List Op) (N : List Nat)
    (hc : complete chk d = true)
    (hpre : ∀ op ∈ pre, safeOp d.names op = true)
    (hready : ∀ n ∈ N, ready chk (run d pre) n = true)
    (hpost : ∀ op ∈ post, safeOp N op = true) (k : Nat) :
    complete chk (run d ((pre ++ Op.putNames N :: post).take k)) = true ∧
    ((run d ((pre ++ Op.putNames N :: post).take k)).names = d.names ∨
     (run d ((pre ++ Op.putNames N :: post).take k)).names = N) := by
  have hc' : ∀ n ∈ d.names, ready chk d n = true := by simpa [complete] using hc
  by_cases hk : k ≤ pre.length
  · rw [List.take_append_of_le_length hk]
    have h := run_take_safe chk d.names pre d hpre k
    refine ⟨?_, Or.inl h.1⟩
    simp only [complete, List.all_eq_true]
    rw [h.1]
    exact fun n hn => h.2 n hn (hc' n hn)
  · have hk' : pre.length < k := Nat.lt_of_not_le hk
    obtain ⟨j, rfl⟩ : ∃ j, k = pre.length + (j + 1) := ⟨k - pre.length - 1, by omega⟩
    rw [List.take_append, List.take_of_length_le (by omega)]
    have e : pre.length + (j + 1) - pre.length = j + 1 := by omega
    rw [e, List.take_succ_cons, run_append, run_cons]
    have h := run_take_safe chk N post (step (run d pre) (Op.putNames N)) hpost j
    have hn : (step (run d pre) (Op.putNames N)).names = N := rfl
    have hr : ∀ n ∈ N, ready chk (step (run d pre) (Op.putNames N)) n = true := hready
    refine ⟨?_, Or.inr (h.1.trans hn)⟩
    simp only [complete, List.all_eq_true]
    rw [h.1, hn]
    exact fun n hn => h.2 n hn (hr n hn)

/-- no `pack-names` replacement at all (an aborted pack operation): every
prefix keeps the old list and completeness -/
theorem safe_crash_atomic (chk : Bool) (d : Disk) (ops : List Op)
    (hc : complete chk d = true) (hs : ∀ op ∈ ops, safeOp d.names op = true) (k : Nat) :
    complete chk (run d (ops.take k)) = true ∧ (run d (ops.take k)).names = d.names := by
  have hc' : ∀ n ∈ d.names, ready chk d n = true := by simpa [complete] using hc
  have h := run_take_safe chk d.names ops d hs k
  refine ⟨?_, h.1⟩
  simp only [complete, List.all_eq_true]
  rw [h.1]
  exact fun n hn => h.2 n hn (hc' n hn)

/-! ### `_save_pack_names` -/

/-! ### commit (write group, optional autopack) -/

/-- **Commit / fetch / autopack is crash-atomic.**  For every directory `d` in
which the listed packs are complete, every process view `v` without unsaved
names, every plan `plan` that combines packs of the collection, fresh names
`new0 ≠ new1`, and EVERY prefix `k` of the operation list of
`_commit_write_group`: every listed pack is complete, and `pack-names` is the
old list or the final one. -/
theorem commit_crash_atomic (chk : Bool) (d : Disk) (v : View) (plan : Plan) (tmp0 new0 tmp1 new1 : Nat)
    (hc : complete chk d = true)
    (hv : ∀ n ∈ v.names, n ∈ v.atLoad)
    (h0 : new0 ∉ d.names) (h1 : new1 ∉ d.names) (h01 : new0 ≠ new1) (h1v : new1 ∉ v.names)
    (hplan : ∀ s, plan = .combine s → ∀ n ∈ s, n ∈ v.names ∨ n = new0) (k : Nat) :
    let ops := commitOpsWith chk d v plan tmp0 new0 tmp1 new1
    complete chk (run d (ops.take k)) = true ∧
    ((run d (ops.take k)).names = d.names ∨ (run d (ops.take k)).names = (run d ops).names) := by
  intro ops
  -- a uniform description: pre (new packs) ++ lock ++ putNames N ++ post
  have key : ∀ (pre : List Op) (mine : List Nat) (obs : Option (List Nat)),
      ops = pre ++ saveOps chk d ⟨mine, v.atLoad⟩ obs →
      (∀ op ∈ pre, safeOp d.names op = true) →
      (∀ n ∈ mine, n ∈ v.atLoad ∨ ready chk (run d pre) n = true) →
      (∀ s, obs = some s → ∀ n ∈ s, n ∉ mine ∧ (n ∈ v.atLoad ∨ n = new0)) →
      complete chk (run d (ops.take k)) = true ∧
      ((run d (ops.take k)).names = d.names ∨ (run d (ops.take k)).names = (run d ops).names) := by
    intro pre mine obs hops hpre hmine hobs
    have hc' : ∀ n ∈ d.names, ready chk d n = true := by simpa [complete] using hc
    let N := mergeNames d.names v.atLoad mine
    have hsplit : ops = (pre ++ [Op.lock]) ++ Op.putNames N :: savePost chk d obs := by
      rw [hops, saveOps_eq]; simp only [List.append_assoc]; rfl
    have hpre' : ∀ op ∈ pre ++ [Op.lock], safeOp d.names op = true := by
      intro op hop
      simp only [List.mem_append, List.mem_singleton] at hop
      rcases hop with hop | rfl
      · exact hpre op hop
      · rfl
    have hready : ∀ n ∈ N, ready chk (run d (pre ++ [Op.lock])) n = true := by
      intro n hn
      have hfr := run_safe chk d.names (pre ++ [Op.lock]) d hpre'
      rcases mem_mergeNames.mp hn with ⟨hd, _⟩ | ⟨hm, hna, _⟩
      · exact hfr.2 n hd (hc' n hd)
      · rcases hmine n hm with h | h
        · exact absurd h hna
        · rw [run_append]
          have := step_safe chk [n] (run d pre) Op.lock rfl
          exact this.2 n (by simp) h
    have hpost := savePost_safe chk d N obs (by
      intro s hs n hn hN
      obtain ⟨hnm, hat⟩ := hobs s hs n hn
      rcases mem_mergeNames.mp hN with ⟨hd, hnot⟩ | ⟨hm, _, _⟩
      · rcases hat with hat | rfl
        · exact hnot ⟨hat, hnm⟩
        · exact h0 hd
      · exact hnm hm)
    have hfin : (run d ops).names = N := by
      rw [hsplit, run_append, run_cons]
      exact (run_safe chk N _ _ hpost).1
    have := txn_crash_atomic chk d (pre ++ [Op.lock]) _ N hc hpre' hready hpost k
    rw [← hsplit] at this
    rw [hfin]
    exact this
  have hup : ∀ t b, (upTmp t b).dir = .upload := by intro t b; simp [upTmp]
  have hpre0 := newPackOps_safe chk d.names (upTmp tmp0 false) new0 (hup _ _) h0
  have hr0 := finish_ready chk d (upTmp tmp0 false) new0 (hup _ _)
  -- the three shapes of commitOpsWith
  have plain : ∀ obs, (∀ s, obs = some s → s = []) →
      ops = newPackOps chk (upTmp tmp0 false) new0 ++ saveOps chk d ⟨v.names ++ [new0], v.atLoad⟩ obs →
      complete chk (run d (ops.take k)) = true ∧
      ((run d (ops.take k)).names = d.names ∨ (run d (ops.take k)).names = (run d ops).names) := by
    intro obs hobs hops
    apply key _ _ obs hops hpre0
    · intro n hn
      simp only [List.mem_append, List.mem_singleton] at hn
      rcases hn with hn | rfl
      · exact Or.inl (hv n hn)
      · exact Or.inr hr0
    · intro s hs n hn
      rw [hobs s hs] at hn; cases hn
  cases plan with
  | noAutopack => exact plain none (by intro s h; cases h) rfl
  | error =>
    -- the planner raised: only the (unlisted) new pack was written
    have h := safe_crash_atomic chk d ops hc hpre0 k
    exact ⟨h.1, Or.inl h.2⟩
  | combine s =>
    cases s with
    | nil => exact plain (some []) (by intro s h; cases h; rfl) rfl
    | cons a t =>
      have hs := hplan (a :: t) rfl
      apply key (newPackOps chk (upTmp tmp0 false) new0 ++ newPackOps chk (upTmp tmp1 true) new1)
        ((v.names ++ [new0]).filter (fun n => !(a :: t).contains n) ++ [new1]) (some (a :: t))
      · simp [ops, commitOpsWith, List.append_assoc]
      · intro op hop
        simp only [List.mem_append] at hop
        rcases hop with hop | hop
        · exact hpre0 op hop
        · exact newPackOps_safe chk d.names (upTmp tmp1 true) new1 (hup _ _) h1 op hop
      · intro n hn
        simp only [List.mem_append, List.mem_filter, List.mem_singleton] at hn
        rcases hn with ⟨hn | rfl, _⟩ | rfl
        · exact Or.inl (hv n hn)
        · right
          rw [run_append]
          have hsafe := newPackOps_safe chk [n] (upTmp tmp1 true) new1 (hup _ _) (by simpa using Ne.symm h01)
          exact (run_safe chk [n] _ _ hsafe).2 n (by simp) hr0
        · right
          rw [run_append]
          exact finish_ready chk _ (upTmp tmp1 true) n (hup _ _)
      · intro s' hs' n hn
        cases hs'
        refine ⟨?_, ?_⟩
        · simp only [List.mem_append, List.mem_filter, List.mem_singleton, not_or]
          refine ⟨fun h => by simp [hn] at h, ?_⟩
          rintro rfl
          rcases hs n hn with h | h
          · exact h1v h
          · exact h01 h.symm
        · rcases hs n hn with h | h
          · exact Or.inl (hv n h)
          · exact Or.inr h

/-- the same for the operation list computed with the real planner
(`commitOps`): the plan is a function of the revision counts -/
theorem commit_crash_atomic_planned (chk : Bool) (d : Disk) (v : View) (counts : List (Nat × Nat))
    (tmp0 new0 tmp1 new1 : Nat)
    (hc : complete chk d = true)
    (hv : ∀ n ∈ v.names, n ∈ v.atLoad)
    (h0 : new0 ∉ d.names) (h1 : new1 ∉ d.names) (h01 : new0 ≠ new1) (h1v : new1 ∉ v.names)
    (hcounts : ∀ p ∈ counts, p.1 ∈ v.names ∨ p.1 = new0) (k : Nat) :
    let ops := commitOps chk d v counts tmp0 new0 tmp1 new1
    complete chk (run d (ops.take k)) = true ∧
    ((run d (ops.take k)).names = d.names ∨ (run d (ops.take k)).names = (run d ops).names) := by
  apply commit_crash_atomic chk d v (planAutopack counts) tmp0 new0 tmp1 new1 hc hv h0 h1 h01 h1v
  intro s hs n hn
  have := planAutopack_subset counts s hs n hn
  simp only [List.mem_map] at this
  obtain ⟨p, hp, rfl⟩ := this
  exact hcounts p hp

/-! ### pack -/

/-- **`pack(hint)` is crash-atomic**, including the aborted "already optimally
packed" run and the final `_clear_obsolete_packs()`; `s` = the packs selected
by the hint, any sub-collection. -/
theorem packSel_crash_atomic (chk : Bool) (d : Disk) (v : View) (s : List Nat) (optimal clean : Bool)
    (tmp1 new1 : Nat)
    (hc : complete chk d = true)
    (hv : ∀ n ∈ v.names, n ∈ v.atLoad)
    (hs : ∀ n ∈ s, n ∈ v.names)
    (h1 : new1 ∉ d.names) (h1v : new1 ∉ v.names) (k : Nat) :
    let ops := packOpsSel chk d v s optimal clean tmp1 new1
    complete chk (run d (ops.take k)) = true ∧
    ((run d (ops.take k)).names = d.names ∨ (run d (ops.take k)).names = (run d ops).names) := by
  intro ops
  have hc' : ∀ n ∈ d.names, ready chk d n = true := by simpa [complete] using hc
  have hup : ∀ t b, (upTmp t b).dir = .upload := by intro t b; simp [upTmp]
  have hcol : v.names.contains new1 = false := by simpa using h1v
  -- a save-shaped body followed by an arbitrary clear
  have key : ∀ (pre : List Op) (mine : List Nat) (s : List Nat) (tail : List Op),
      ops = pre ++ saveOps chk d ⟨mine, v.atLoad⟩ (some s) ++ tail →
      (∀ op ∈ tail, ∀ N, safeOp N op = true) →
      (∀ op ∈ pre, safeOp d.names op = true) →
      (∀ n ∈ mine, n ∈ v.atLoad ∨ ready chk (run d pre) n = true) →
      (∀ n ∈ s, n ∉ mine ∧ n ∈ v.atLoad) →
      complete chk (run d (ops.take k)) = true ∧
      ((run d (ops.take k)).names = d.names ∨ (run d (ops.take k)).names = (run d ops).names) := by
    intro pre mine s tail hops htail hpre hmine hobs
    let N := mergeNames d.names v.atLoad mine
    have hsplit : ops = (pre ++ [Op.lock]) ++ Op.putNames N :: (savePost chk d (some s) ++ tail) := by
      rw [hops, saveOps_eq]; simp only [List.append_assoc, List.cons_append]; rfl
    have hpre' : ∀ op ∈ pre ++ [Op.lock], safeOp d.names op = true := by
      intro op hop
      simp only [List.mem_append, List.mem_singleton] at hop
      rcases hop with hop | rfl
      · exact hpre op hop
      · rfl
    have hready : ∀ n ∈ N, ready chk (run d (pre ++ [Op.lock])) n = true := by
      intro n hn
      have hfr := run_safe chk d.names (pre ++ [Op.lock]) d hpre'
      rcases mem_mergeNames.mp hn with ⟨hd, _⟩ | ⟨hm, hna, _⟩
      · exact hfr.2 n hd (hc' n hd)
      · rcases hmine n hm with h | h
        · exact absurd h hna
        · rw [run_append]
          have := step_safe chk [n] (run d pre) Op.lock rfl
          exact this.2 n (by simp) h
    have hpost0 := savePost_safe chk d N (some s) (by
      intro s' hs' n hn hN
      cases hs'
      obtain ⟨hnm, hat⟩ := hobs n hn
      rcases mem_mergeNames.mp hN with ⟨_, hnot⟩ | ⟨hm, _, _⟩
      · exact hnot ⟨hat, hnm⟩
      · exact hnm hm)
    have hpost : ∀ op ∈ savePost chk d (some s) ++ tail, safeOp N op = true := by
      intro op hop
      rcases List.mem_append.mp hop with hop | hop
      · exact hpost0 op hop
      · exact htail op hop N
    have hfin : (run d ops).names = N := by
      rw [hsplit, run_append, run_cons]
      exact (run_safe chk N _ _ hpost).1
    have := txn_crash_atomic chk d (pre ++ [Op.lock]) _ N hc hpre' hready hpost k
    rw [← hsplit] at this
    rw [hfin]
    exact this
  have htail : ∀ (body : List Op), ∀ op ∈ (if clean then clearOps (run d body) [] else []), ∀ N, safeOp N op = true := by
    intro body op hop N
    cases clean
    · cases hop
    · exact clearOps_safe N _ _ op hop
  by_cases hdis : (!chk && decide (v.names.length ≤ 1)) = true
  · have : ops = [] := by simp [ops, packOpsSel, hdis]
    rw [this]; simp [run, hc]
  · by_cases hemp : s.isEmpty = true
    · apply key [] v.names [] _ (by simp [ops, packOpsSel, hdis, hemp]; rfl) (htail _)
      · intro op hop; cases hop
      · intro n hn; exact Or.inl (hv n hn)
      · intro n hn; cases hn
    · cases optimal with
      | true =>
        -- aborted: no pack-names replacement
        have hall : ∀ op ∈ ops, safeOp d.names op = true := by
          intro op hop
          simp only [ops, packOpsSel, hdis, hemp, Bool.false_eq_true, if_false, if_true, List.mem_append,
            List.mem_cons, List.not_mem_nil, or_false, Bool.not_true, Bool.and_false, Bool.false_and] at hop
          rcases hop with (rfl | rfl | rfl) | hop
          · simp [safeOp, upload_not_touches _ _ (hup tmp1 true)]
          · rfl
          · simp [safeOp, upload_not_touches _ _ (hup tmp1 true)]
          · exact htail _ op hop _
        have h := safe_crash_atomic chk d ops hc hall k
        exact ⟨h.1, Or.inl h.2⟩
      | false =>
        apply key (newPackOps chk (upTmp tmp1 true) new1)
          (v.names.filter (fun n => !s.contains n) ++ [new1]) s _
          (by simp [ops, packOpsSel, hdis, hemp, h1v]; rfl) (htail _)
        · exact newPackOps_safe chk d.names _ new1 (hup _ _) h1
        · intro n hn
          simp only [List.mem_append, List.mem_filter, List.mem_singleton] at hn
          rcases hn with ⟨hn, _⟩ | rfl
          · exact Or.inl (hv n hn)
          · exact Or.inr (finish_ready chk d _ n (hup _ _))
        · intro n hn
          refine ⟨?_, hv n (hs n hn)⟩
          simp only [List.mem_append, List.mem_filter, List.mem_singleton, not_or]
          refine ⟨fun h => by simp [hn] at h, ?_⟩
          rintro rfl
          exact h1v (hs n hn)

theorem hintSel_subset (v : View) (hint : Option (List Nat)) : ∀ n ∈ hintSel v hint, n ∈ v.names := by
  intro n hn
  cases hint with
  | none => exact hn
  | some h => exact (List.mem_filter.mp hn).1

/-- **`pack()` / `pack(hint)` is crash-atomic.** -/
theorem pack_crash_atomic (chk : Bool) (d : Disk) (v : View) (hint : Option (List Nat)) (optimal clean : Bool)
    (tmp1 new1 : Nat)
    (hc : complete chk d = true)
    (hv : ∀ n ∈ v.names, n ∈ v.atLoad)
    (h1 : new1 ∉ d.names) (h1v : new1 ∉ v.names) (k : Nat) :
    let ops := packOps chk d v hint optimal clean tmp1 new1
    complete chk (run d (ops.take k)) = true ∧
    ((run d (ops.take k)).names = d.names ∨ (run d (ops.take k)).names = (run d ops).names) :=
  packSel_crash_atomic chk d v (hintSel v hint) optimal clean tmp1 new1 hc hv (hintSel_subset v hint) h1 h1v k

/-! ### what becomes visible -/

/-- the final `pack-names` of a commit is the three-way merge of the process'
names -/
theorem commit_final_names (chk : Bool) (d : Disk) (v : View) (tmp0 new0 : Nat) :
    (run d (commitOpsWith chk d v .noAutopack tmp0 new0 0 0)).names
      = mergeNames d.names v.atLoad (v.names ++ [new0]) := by
  simp only [commitOpsWith]
  rw [run_append, run_saveOps_names]

/-- **A commit without concurrent writers adds exactly the new pack's
revisions**: the visible set afterwards is the old one plus `revsOf new0`. -/
theorem commit_visible (chk : Bool) (revsOf : Nat → List Nat) (d : Disk) (tmp0 new0 : Nat)
    (h0 : new0 ∉ d.names) (r : Nat) :
    r ∈ visible revsOf (run d (commitOpsWith chk d ⟨d.names, d.names⟩ .noAutopack tmp0 new0 0 0))
      ↔ r ∈ visible revsOf d ∨ r ∈ revsOf new0 := by
  rw [visible, commit_final_names]
  simp only [visible, List.mem_flatMap, mem_mergeNames, List.mem_append, List.mem_singleton]
  constructor
  · rintro ⟨n, (⟨hd, _⟩ | ⟨hm, _, _⟩), hr⟩
    · exact Or.inl ⟨n, hd, hr⟩
    · rcases hm with hm | rfl
      · exact Or.inl ⟨n, hm, hr⟩
      · exact Or.inr hr
  · rintro (⟨n, hd, hr⟩ | hr)
    · exact ⟨n, Or.inl ⟨hd, fun h => h.2 (Or.inl hd)⟩, hr⟩
    · exact ⟨new0, Or.inr ⟨Or.inr rfl, h0, h0⟩, hr⟩

/-- final `pack-names` of commit + autopack of `s` (no concurrent writers) -/
theorem autopack_final_names (chk : Bool) (d : Disk) (a : Nat) (t : List Nat) (tmp0 new0 tmp1 new1 : Nat) :
    (run d (commitOpsWith chk d ⟨d.names, d.names⟩ (.combine (a :: t)) tmp0 new0 tmp1 new1)).names
      = mergeNames d.names d.names ((d.names ++ [new0]).filter (fun n => !(a :: t).contains n) ++ [new1]) := by
  simp only [commitOpsWith]
  rw [run_append, run_saveOps_names]

/-- **Autopack preserves what is visible**: commit + autopack of `s` (the
combined pack `new1` holds exactly the revisions of the packs in `s`) shows the
old revisions plus those of the new pack `new0` — nothing is lost, nothing
else appears. -/
theorem autopack_visible (chk : Bool) (revsOf : Nat → List Nat) (d : Disk) (a : Nat) (t : List Nat)
    (tmp0 new0 tmp1 new1 : Nat)
    (h0 : new0 ∉ d.names) (h1 : new1 ∉ d.names)
    (hs : ∀ n ∈ a :: t, n ∈ d.names ∨ n = new0)
    (hcopy : ∀ r, r ∈ revsOf new1 ↔ ∃ n ∈ a :: t, r ∈ revsOf n) (r : Nat) :
    r ∈ visible revsOf (run d (commitOpsWith chk d ⟨d.names, d.names⟩ (.combine (a :: t)) tmp0 new0 tmp1 new1))
      ↔ r ∈ visible revsOf d ∨ r ∈ revsOf new0 := by
  rw [visible, autopack_final_names]
  simp only [visible, List.mem_flatMap, mem_mergeNames, List.mem_append, List.mem_filter, List.mem_singleton]
  constructor
  · rintro ⟨n, (⟨hd, _⟩ | ⟨hm, _, _⟩), hr⟩
    · exact Or.inl ⟨n, hd, hr⟩
    · rcases hm with ⟨hm | rfl, _⟩ | rfl
      · exact Or.inl ⟨n, hm, hr⟩
      · exact Or.inr hr
      · obtain ⟨m, hm, hrm⟩ := (hcopy r).mp hr
        rcases hs m hm with h | rfl
        · exact Or.inl ⟨m, h, hrm⟩
        · exact Or.inr hrm
  · have cover : ∀ m, (m ∈ d.names ∨ m = new0) → r ∈ revsOf m →
        ∃ n, ((n ∈ d.names ∧ ¬(n ∈ d.names ∧ ¬(((n ∈ d.names ∨ n = new0) ∧ (!(a :: t).contains n) = true) ∨ n = new1)))
          ∨ ((((n ∈ d.names ∨ n = new0) ∧ (!(a :: t).contains n) = true) ∨ n = new1) ∧ n ∉ d.names ∧ n ∉ d.names))
          ∧ r ∈ revsOf n := by
      intro m hm hr
      by_cases hin : m ∈ a :: t
      · exact ⟨new1, Or.inr ⟨Or.inr rfl, h1, h1⟩, (hcopy r).mpr ⟨m, hin, hr⟩⟩
      · have hc : (!(a :: t).contains m) = true := by simpa using hin
        rcases hm with hm | rfl
        · exact ⟨m, Or.inl ⟨hm, fun h => h.2 (Or.inl ⟨Or.inl hm, hc⟩)⟩, hr⟩
        · exact ⟨m, Or.inr ⟨Or.inl ⟨Or.inr rfl, hc⟩, h0, h0⟩, hr⟩
    rintro (⟨n, hd, hr⟩ | hr)
    · exact cover n (Or.inl hd) hr
    · exact cover new0 (Or.inr rfl) hr

/-- final `pack-names` of a full `pack()` that wrote a new pack -/
theorem pack_final_names (chk : Bool) (d : Disk) (v : View) (clean : Bool) (tmp1 new1 : Nat)
    (hen : (!chk && decide (v.names.length ≤ 1)) = false) (hne : v.names.isEmpty = false)
    (h1v : new1 ∉ v.names) :
    (run d (packOps chk d v none false clean tmp1 new1)).names = mergeNames d.names v.atLoad [new1] := by
  have hcol : v.names.contains new1 = false := by simpa using h1v
  have hfil : v.names.filter (fun n => !v.names.contains n) = [] := by
    apply List.filter_eq_nil_iff.mpr
    intro n hn; simp [hn]
  simp only [packOps, packOpsSel, hintSel, hen, hne, hcol, hfil, Bool.false_eq_true, if_false,
    Bool.not_false, Bool.and_false, Bool.and_true, List.nil_append]
  rw [run_append]
  have : ∀ d0 : Disk, (run d0 (if clean = true then clearOps (run d
      (newPackOps chk (upTmp tmp1 true) new1 ++ saveOps chk d ⟨[new1], v.atLoad⟩ (some v.names))) [] else [])).names
      = d0.names := by
    intro d0
    cases clean
    · rfl
    · exact run_names_noPut _ _ (clearOps_noPut _ _)
  rw [this, run_append, run_saveOps_names]

/-- **`pack()` preserves what is visible** (no concurrent writers; the new pack
holds exactly the revisions of the packs it replaces). -/
theorem pack_visible (chk : Bool) (revsOf : Nat → List Nat) (d : Disk) (clean : Bool) (tmp1 new1 : Nat)
    (hen : (!chk && decide (d.names.length ≤ 1)) = false) (hne : d.names.isEmpty = false)
    (h1 : new1 ∉ d.names)
    (hcopy : ∀ r, r ∈ revsOf new1 ↔ ∃ n ∈ d.names, r ∈ revsOf n) (r : Nat) :
    r ∈ visible revsOf (run d (packOps chk d ⟨d.names, d.names⟩ none false clean tmp1 new1))
      ↔ r ∈ visible revsOf d := by
  rw [visible, pack_final_names chk d ⟨d.names, d.names⟩ clean tmp1 new1 hen hne h1]
  simp only [visible, List.mem_flatMap, mem_mergeNames, List.mem_singleton]
  constructor
  · rintro ⟨n, (⟨hd, _⟩ | ⟨rfl, _, _⟩), hr⟩
    · exact ⟨n, hd, hr⟩
    · exact (hcopy r).mp hr
  · rintro ⟨n, hd, hr⟩
    exact ⟨new1, Or.inr ⟨rfl, h1, h1⟩, (hcopy r).mpr ⟨n, hd, hr⟩⟩

/-! ### the calls that must not raise do not raise -/

/-- **No transport call of a plain commit raises**: from an unlocked directory
every operation of `commit_write_group` (new pack, `finish`, lock, `put_file`,
unlock) finds its precondition satisfied (`runE` does not fail) — so the total
`step` never takes its "missing file" branch on this path.  (The moves of
`_obsolete_packs` and the deletes of `_clear_obsolete_packs` are allowed to
fail in the real code: their errors are caught.) -/
theorem commit_ops_enabled (chk : Bool) (d : Disk) (v : View) (tmp0 new0 : Nat) (hl : d.locked = false) :
    runE d (commitOpsWith chk d v .noAutopack tmp0 new0 0 0)
      = some (run d (commitOpsWith chk d v .noAutopack tmp0 new0 0 0)) := by
  cases chk <;>
    simp [commitOpsWith, newPackOps, finishOps, idxExts, saveOps, upTmp, runE, run, step, Enabled, rm,
      List.mem_filter, hl]

/-! ### enabledness on every path (the total `step` is never atomic "for the wrong reason") -/

/-- **No non-tolerated transport call of a commit / fetch / autopack can fail**,
whatever the plan: `runT` (which fails at the first call whose precondition does
not hold, except the `delete`s of `_clear_obsolete_packs` and the `move`s of
`_obsolete_packs`, whose errors the real code catches) runs the whole operation
list.  So outside those tolerated calls `step` never takes a "missing file" /
"stream not open" / "lock already held" branch. -/
theorem commit_ops_enabled_all (chk : Bool) (d : Disk) (v : View) (plan : Plan) (tmp0 new0 tmp1 new1 : Nat)
    (hl : d.locked = false) :
    runT d (commitOpsWith chk d v plan tmp0 new0 tmp1 new1)
      = some (run d (commitOpsWith chk d v plan tmp0 new0 tmp1 new1)) := by
  have hpre := newPackOps_enabled chk d tmp0 false new0
  have hl0 : (run d (newPackOps chk (upTmp tmp0 false) new0)).locked = false := by
    rw [run_locked _ _ (newPackOps_noLock chk _ new0)]; exact hl
  cases plan with
  | noAutopack => exact runT_append_some _ _ _ hpre (saveOps_enabled chk _ d _ none hl0)
  | error => exact hpre
  | combine s =>
    cases s with
    | nil => exact runT_append_some _ _ _ hpre (saveOps_enabled chk _ d _ (some []) hl0)
    | cons a t =>
      have hpre1 := newPackOps_enabled chk (run d (newPackOps chk (upTmp tmp0 false) new0)) tmp1 true new1
      have hboth := runT_append_some _ _ _ hpre hpre1
      have hl1 : (run d (newPackOps chk (upTmp tmp0 false) new0 ++ newPackOps chk (upTmp tmp1 true) new1)).locked
          = false := by
        rw [run_append, run_locked _ _ (newPackOps_noLock chk _ new1)]; exact hl0
      exact runT_append_some _ _ _ hboth (saveOps_enabled chk _ d _ (some (a :: t)) hl1)

/-- the same for `pack()` / `pack(hint)`, including the already-optimal abort
and the final `_clear_obsolete_packs()` -/
theorem pack_ops_enabled (chk : Bool) (d : Disk) (v : View) (s : List Nat) (optimal clean : Bool)
    (tmp1 new1 : Nat) (hl : d.locked = false) :
    runT d (packOpsSel chk d v s optimal clean tmp1 new1)
      = some (run d (packOpsSel chk d v s optimal clean tmp1 new1)) := by
  have htail : ∀ (c : Bool) (d0 d' : Disk), runT d0 (if c then clearOps d' [] else [])
      = some (run d0 (if c then clearOps d' [] else [])) := by
    intro c d0 d'
    cases c
    · rfl
    · exact runT_tolerated _ _ (clearOps_tolerated d' [])
  unfold packOpsSel
  split
  · rfl
  · split
    · exact newPackOps_enabled chk d tmp1 true new1
    · simp only []
      apply runT_append_some _ _ _ ?_ (htail clean _ _)
      split
      · exact saveOps_enabled chk d d v (some []) hl
      · split
        · simp [runT, run, step, Enabled, rm, upTmp]
        · have hpre := newPackOps_enabled chk d tmp1 true new1
          have hl0 : (run d (newPackOps chk (upTmp tmp1 true) new1)).locked = false := by
            rw [run_locked _ _ (newPackOps_noLock chk _ new1)]; exact hl
          exact runT_append_some _ _ _ hpre (saveOps_enabled chk _ d _ (some s) hl0)

/-! ### leftovers -/

/-- **Leftover files are harmless**: arbitrary extra files (complete or torn) in
`upload/` and `obsolete_packs/` change neither what is listed nor whether the
listed packs are complete. -/
theorem leftovers_harmless (chk : Bool) (revsOf : Nat → List Nat) (d : Disk) (extra extraTorn : List File)
    (h : ∀ f ∈ extra, f.dir = .upload ∨ f.dir = .obsolete) :
    let d' : Disk := { d with files := extra ++ d.files, torn := extraTorn ++ d.torn }
    complete chk d' = complete chk d ∧ visible revsOf d' = visible revsOf d := by
  intro d'
  refine ⟨?_, rfl⟩
  have hr : ∀ n, ready chk d' n = ready chk d n := by
    intro n
    rw [Bool.eq_iff_iff, ready_iff, ready_iff]
    constructor
    · intro h1 f hf
      have ht := packFiles_touches (ns := [n]) hf (by simp)
      rcases List.mem_append.mp (h1 f hf) with hfe | hfd
      · rcases h f hfe with h | h <;> simp [touches, h] at ht
      · exact hfd
    · intro h1 f hf
      exact List.mem_append_right _ (h1 f hf)
  show d.names.all (ready chk d') = d.names.all (ready chk d)
  exact List.all_congr rfl hr

/-- **Leftovers of crashed or failed operations are harmless**, including what
the error paths leave in `packs/` and `indices/`: arbitrary extra files that are
in `upload/` or `obsolete_packs/` OR belong to a pack that `pack-names` does not
list (a finished but never-listed pack, half-written indices of an aborted one)
change neither which packs are listed nor whether the listed packs are
complete. -/
theorem leftovers_harmless_unlisted (chk : Bool) (revsOf : Nat → List Nat) (d : Disk) (extra extraTorn : List File)
    (h : ∀ f ∈ extra, f.dir = .upload ∨ f.dir = .obsolete ∨ f.stem ∉ d.names) :
    let d' : Disk := { d with files := extra ++ d.files, torn := extraTorn ++ d.torn }
    complete chk d' = complete chk d ∧ visible revsOf d' = visible revsOf d := by
  intro d'
  refine ⟨?_, rfl⟩
  rw [Bool.eq_iff_iff]
  simp only [complete, List.all_eq_true]
  constructor
  · intro hall n hn
    have h1 := hall n hn
    rw [ready_iff] at h1 ⊢
    intro f hf
    have ht := packFiles_touches (ns := [n]) hf (by simp)
    rcases List.mem_append.mp (h1 f hf) with hfe | hfd
    · rcases h f hfe with hd | hd | hd
      · simp [touches, hd] at ht
      · simp [touches, hd] at ht
      · have hst : f.stem = n := by
          have := ht; simp [touches] at this; exact this.2
        exact absurd (hst ▸ hn) hd
    · exact hfd
  · intro hall n hn
    have h1 := hall n hn
    rw [ready_iff] at h1 ⊢
    intro f hf
    exact List.mem_append_right _ (h1 f hf)

/-- non-vacuity: a finished, never-listed pack `9` and a torn index of an
aborted pack `8` next to the listed pack `0` -/
example :
    let d : Disk := ⟨[0], packFiles true 0, [], false⟩
    let extra := packFiles true 9 ++ [⟨.upload, 3, .pack⟩]
    (∀ f ∈ extra, f.dir = .upload ∨ f.dir = .obsolete ∨ f.stem ∉ d.names) ∧
    complete true { d with files := extra ++ d.files, torn := [⟨.indices, 8, .rix⟩] ++ d.torn } = true := by
  decide

/-! ### why the freshness hypothesis is needed -/

/-- **Witness.**  If the new pack's name is already listed (same content hash),
`NewPack.finish` rewrites the listed pack's indices in place: there is a crash
prefix after which a listed pack is incomplete. -/
theorem name_collision_witness :
    let d : Disk := ⟨[0], packFiles true 0, [], false⟩
    complete true d = true ∧
    complete true (run d ((commitOpsWith true d ⟨[0], [0]⟩ .noAutopack 5 0 0 0).take 2)) = false := by
  decide

/-! ### non-vacuity -/

/-- the hypotheses of `commit_crash_atomic` hold for a collection of two
packs that is autopacked together with the new pack -/
example :
    let d : Disk := ⟨[0, 1], packFiles true 0 ++ packFiles true 1 ++ [⟨.obsolete, 7, .pack⟩], [], false⟩
    let v : View := ⟨[0, 1], [0, 1]⟩
    complete true d = true ∧ (∀ n ∈ v.names, n ∈ v.atLoad) ∧ 2 ∉ d.names ∧ 3 ∉ d.names ∧
    (∀ n ∈ [0, 1, 2], n ∈ v.names ∨ n = 2) ∧
    (run d (commitOpsWith true d v (.combine [0, 1, 2]) 10 2 11 3)).names = [3] ∧
    (commitOpsWith true d v (.combine [0, 1, 2]) 10 2 11 3).length = 48 := by
  decide

/-- the planner triggers on ten one-revision packs and combines all of them -/
example : planAutopack ((List.range 10).map (fun i => (i, 1))) = .combine (List.range 10) := by
  decide

/-- `pack_crash_atomic`'s hypotheses hold on a two-pack collection, and the
operation list is the long one (new pack, save, obsolete both, final clear) -/
example :
    let d : Disk := ⟨[0, 1], packFiles false 0 ++ packFiles false 1, [], false⟩
    complete false d = true ∧ 5 ∉ d.names ∧
    (run d (packOps false d ⟨[0, 1], [0, 1]⟩ none false true 4 5)).names = [5] ∧
    (packOps false d ⟨[0, 1], [0, 1]⟩ none false true 4 5).length = 34 ∧
    (run d (packOps false d ⟨[0, 1], [0, 1]⟩ (some [1]) false false 4 5)).names = [0, 5] := by
  decide

/-- **Witness (the behaviour of pack-0.92 before fix 24f6bb3).**  `pack(hint=[p])`
on a pack whose repacked content hashes to its own name, with a packer that does
not check for a listed name: `finish()` rewrites the indices of the LISTED pack
`1` in place, so after 2 operations a listed pack is incomplete (then `allocate`
raises "Pack already exists" and nothing is saved).  This is why every packer
needs the already-listed guard and why the theorems assume fresh names. -/
theorem pack_hint_collision_witness :
    let d : Disk := ⟨[0, 1], packFiles false 0 ++ packFiles false 1, [], false⟩
    complete false d = true ∧
    complete false (run d ((packOps false d ⟨[0, 1], [0, 1]⟩ (some [1]) false false 4 1).take 2)) = false ∧
    (run d (packOps false d ⟨[0, 1], [0, 1]⟩ (some [1]) false false 4 1)).names = [0, 1] := by
  decide

/-! ## Error paths: the operation FAILS with an exception instead of being killed

`commitFaultWith` / `packFaultSel` (Model/C04Fault.lean) give the complete list
of operations the real code executes when its `f.pos`-th transport call raises
(before or after taking effect; I/O error, `TransportError`,
`KeyboardInterrupt`, or an exception of a read made just before it): the
prefix, then whatever the `finally:` / `except` clauses and
`abort_write_group` do.  The theorems quantify over EVERY fault and over every
crash prefix `k` of the resulting list (a crash inside the error handling). -/

/-- **Generic.**  Any executed list `pre ++ sv ++ tail` in which `pre` does not
touch listed packs, `sv` has the shape of an executed `_save_pack_names`
(`SaveShape`: nothing / lock / lock+unlock / lock, `putNames N`, allowed
operations) and `tail` only deletes in `obsolete_packs/`: after every prefix
every listed pack is complete and `pack-names` is the old list or `N`. -/
theorem shape_crash_atomic (chk : Bool) (d : Disk) (pre sv tail : List Op) (N : List Nat) (allowed : List Op)
    (hc : complete chk d = true)
    (hpre : ∀ op ∈ pre, safeOp d.names op = true)
    (hready : ∀ n ∈ N, ready chk (run d pre) n = true)
    (hallowed : ∀ op ∈ allowed, safeOp N op = true)
    (htail : ∀ op ∈ tail, ∀ ns, safeOp ns op = true)
    (hs : SaveShape N allowed sv) (k : Nat) :
    complete chk (run d ((pre ++ sv ++ tail).take k)) = true ∧
    ((run d ((pre ++ sv ++ tail).take k)).names = d.names ∨
     (run d ((pre ++ sv ++ tail).take k)).names = N) := by
  have safe3 : ∀ sv' : List Op, (∀ op ∈ sv', safeOp d.names op = true) →
      complete chk (run d ((pre ++ sv' ++ tail).take k)) = true ∧
      ((run d ((pre ++ sv' ++ tail).take k)).names = d.names ∨
       (run d ((pre ++ sv' ++ tail).take k)).names = N) := by
    intro sv' h
    have hall : ∀ op ∈ pre ++ sv' ++ tail, safeOp d.names op = true := by
      intro op hop
      simp only [List.mem_append] at hop
      rcases hop with (hop | hop) | hop
      · exact hpre op hop
      · exact h op hop
      · exact htail op hop _
    have := safe_crash_atomic chk d _ hc hall k
    exact ⟨this.1, Or.inl this.2⟩
  rcases hs with rfl | rfl | rfl | ⟨post, rfl, hpost⟩
  · exact safe3 [] (by simp)
  · exact safe3 [Op.lock] (by intro op h; simp at h; subst h; rfl)
  · exact safe3 [Op.lock, Op.unlock] (by intro op h; simp at h; rcases h with rfl | rfl <;> rfl)
  · have hsplit : pre ++ Op.lock :: Op.putNames N :: post ++ tail
        = (pre ++ [Op.lock]) ++ Op.putNames N :: (post ++ tail) := by simp
    rw [hsplit]
    apply txn_crash_atomic chk d (pre ++ [Op.lock]) (post ++ tail) N hc
    · intro op hop
      simp only [List.mem_append, List.mem_singleton] at hop
      rcases hop with hop | rfl
      · exact hpre op hop
      · rfl
    · intro n hn
      rw [run_append]
      exact (step_safe chk [n] (run d pre) Op.lock rfl).2 n (by simp) (hready n hn)
    · intro op hop
      rcases List.mem_append.mp hop with hop | hop
      · exact hallowed op (hpost op hop)
      · exact htail op hop N

/-- the context in which `_save_pack_names` runs (`pre` wrote the new packs of
`mine`, `obs` are replaced packs): every executed list `pre ++ sv ++ tail` with
`sv` of the shape of an executed save is atomic for every crash prefix -/
theorem save_ctx_atomic (chk : Bool) (d : Disk) (atLoad mine : List Nat) (obs : Option (List Nat))
    (ord : List File) (pre sv tail : List Op)
    (hc : complete chk d = true)
    (hpre : ∀ op ∈ pre, safeOp d.names op = true)
    (hmine : ∀ n ∈ mine, n ∈ atLoad ∨ ready chk (run d pre) n = true)
    (hobs : ∀ s, obs = some s → ∀ n ∈ s, n ∉ mine ∧ (n ∈ atLoad ∨ n ∉ d.names))
    (htail : ∀ op ∈ tail, ∀ ns, safeOp ns op = true)
    (hs : SaveShape (mergeNames d.names atLoad mine) (saveAllowed chk d obs ord) sv) (k : Nat) :
    complete chk (run d ((pre ++ sv ++ tail).take k)) = true ∧
    ((run d ((pre ++ sv ++ tail).take k)).names = d.names ∨
     (run d ((pre ++ sv ++ tail).take k)).names = mergeNames d.names atLoad mine) := by
  have hc' : ∀ n ∈ d.names, ready chk d n = true := by simpa [complete] using hc
  apply shape_crash_atomic chk d pre sv tail _ _ hc hpre ?_ ?_ htail hs k
  · intro n hn
    have hfr := run_safe chk d.names pre d hpre
    rcases mem_mergeNames.mp hn with ⟨hd, _⟩ | ⟨hm, hna, _⟩
    · exact hfr.2 n hd (hc' n hd)
    · rcases hmine n hm with h | h
      · exact absurd h hna
      · exact h
  · apply saveAllowed_safe
    intro s hs' n hn hN
    obtain ⟨hnm, hat⟩ := hobs s hs' n hn
    rcases mem_mergeNames.mp hN with ⟨hd, hnot⟩ | ⟨hm, _, _⟩
    · rcases hat with hat | hat
      · exact hnot ⟨hat, hnm⟩
      · exact hat hd
    · exact hnm hm

/-- the write group's own pack: the executed list of a fault inside
`open_write_stream … finish()` (prefix + `NewPack.abort()`) touches no listed
pack -/
theorem newPackFault_safe (chk : Bool) (ns : List Nat) (d : Disk) (tmp : File) (name : Nat) (f : Fault)
    (ht : tmp.dir = .upload) (hn : name ∉ ns) :
    ∀ op ∈ newPackFault chk d tmp name f, safeOp ns op = true := by
  intro op hop
  have hsafe := newPackOps_safe chk ns tmp name ht hn
  unfold newPackFault at hop
  simp only [] at hop
  split at hop
  · exact hsafe op (mem_cutAt hop)
  · rcases List.mem_append.mp hop with hop | hop
    · exact hsafe op (mem_cutAt hop)
    · exact abortNewPack_safe ns _ tmp ht op hop

/-- **A failing commit / fetch / autopack is atomic.**  Under the hypotheses of
`commit_crash_atomic`, for EVERY fault `f` (position, before/after, kind), every
`list_dir` order `ord`, and every crash prefix `k` of the list of operations the
real code executes in that failing run (including its `finally:` clauses and
`abort_write_group`): every listed pack is complete and `pack-names` is the old
list or the one the successful operation would have written. -/
theorem commit_fault_atomic (chk : Bool) (d : Disk) (v : View) (plan : Plan) (tmp0 new0 tmp1 new1 : Nat)
    (hc : complete chk d = true)
    (hv : ∀ n ∈ v.names, n ∈ v.atLoad)
    (h0 : new0 ∉ d.names) (h1 : new1 ∉ d.names) (h01 : new0 ≠ new1) (h1v : new1 ∉ v.names)
    (hplan : ∀ s, plan = .combine s → ∀ n ∈ s, n ∈ v.names ∨ n = new0)
    (ord : List File) (f : Fault) (k : Nat) :
    let ex := commitFaultWith chk d v plan tmp0 new0 tmp1 new1 ord f
    let ops := commitOpsWith chk d v plan tmp0 new0 tmp1 new1
    complete chk (run d (ex.take k)) = true ∧
    ((run d (ex.take k)).names = d.names ∨ (run d (ex.take k)).names = (run d ops).names) := by
  intro ex ops
  have hup : ∀ t b, (upTmp t b).dir = .upload := by intro t b; simp [upTmp]
  have hpre0 := newPackOps_safe chk d.names (upTmp tmp0 false) new0 (hup _ _) h0
  have hr0 := finish_ready chk d (upTmp tmp0 false) new0 (hup _ _)
  have allsafe : ∀ l : List Op, ex = l → (∀ op ∈ l, safeOp d.names op = true) →
      complete chk (run d (ex.take k)) = true ∧
      ((run d (ex.take k)).names = d.names ∨ (run d (ex.take k)).names = (run d ops).names) := by
    intro l hl h
    rw [hl]
    have := safe_crash_atomic chk d l hc h k
    exact ⟨this.1, Or.inl this.2⟩
  -- a save-shaped continuation
  have key : ∀ (pre : List Op) (mine : List Nat) (obs : Option (List Nat)) (g : Fault),
      ex = pre ++ saveFault chk d ⟨mine, v.atLoad⟩ obs ord g →
      ops = pre ++ saveOps chk d ⟨mine, v.atLoad⟩ obs →
      (∀ op ∈ pre, safeOp d.names op = true) →
      (∀ n ∈ mine, n ∈ v.atLoad ∨ ready chk (run d pre) n = true) →
      (∀ s, obs = some s → ∀ n ∈ s, n ∉ mine ∧ (n ∈ v.atLoad ∨ n = new0)) →
      complete chk (run d (ex.take k)) = true ∧
      ((run d (ex.take k)).names = d.names ∨ (run d (ex.take k)).names = (run d ops).names) := by
    intro pre mine obs g hex hops hpre hmine hobs
    have hfin : (run d ops).names = mergeNames d.names v.atLoad mine := by
      rw [hops, run_append, run_saveOps_names]
    rw [hfin, hex]
    have := save_ctx_atomic chk d v.atLoad mine obs ord pre (saveFault chk d ⟨mine, v.atLoad⟩ obs ord g) []
      hc hpre hmine (by
        intro s hs n hn
        obtain ⟨a, b⟩ := hobs s hs n hn
        refine ⟨a, ?_⟩
        rcases b with b | rfl
        · exact Or.inl b
        · exact Or.inr h0) (by intro op h; cases h)
      (saveFault_shape chk d ⟨mine, v.atLoad⟩ obs ord g) k
    simpa using this
  have hmine1 : ∀ n ∈ v.names ++ [new0],
      n ∈ v.atLoad ∨ ready chk (run d (newPackOps chk (upTmp tmp0 false) new0)) n = true := by
    intro n hn
    simp only [List.mem_append, List.mem_singleton] at hn
    rcases hn with hn | rfl
    · exact Or.inl (hv n hn)
    · exact Or.inr hr0
  by_cases hp : f.pos < (newPackOps chk (upTmp tmp0 false) new0).length
  · have hex : ex = newPackFault chk d (upTmp tmp0 false) new0 f := by simp [ex, commitFaultWith, hp]
    exact allsafe _ hex (newPackFault_safe chk d.names d _ new0 f (hup _ _) h0)
  · let g := f.shift (newPackOps chk (upTmp tmp0 false) new0).length
    cases plan with
    | noAutopack =>
      have hex : ex = newPackOps chk (upTmp tmp0 false) new0
          ++ saveFault chk d ⟨v.names ++ [new0], v.atLoad⟩ none ord g := by simp [ex, commitFaultWith, hp, g]
      apply key _ _ none g hex rfl hpre0 hmine1
      intro s hs; cases hs
    | error =>
      have hex : ex = newPackOps chk (upTmp tmp0 false) new0 := by simp [ex, commitFaultWith, hp]
      exact allsafe _ hex hpre0
    | combine s =>
      cases s with
      | nil =>
        have hex : ex = newPackOps chk (upTmp tmp0 false) new0
            ++ saveFault chk d ⟨v.names ++ [new0], v.atLoad⟩ (some []) ord g := by
          simp [ex, commitFaultWith, hp, g]
        apply key _ _ (some []) g hex rfl hpre0 hmine1
        intro s hs n hn; cases hs; cases hn
      | cons a t =>
        have hs := hplan (a :: t) rfl
        have hpre1 := newPackOps_safe chk d.names (upTmp tmp1 true) new1 (hup _ _) h1
        by_cases hq : (f.shift (newPackOps chk (upTmp tmp0 false) new0).length).pos
            < (newPackOps chk (upTmp tmp1 true) new1).length
        · have hex : ex = newPackOps chk (upTmp tmp0 false) new0
              ++ cutAt (newPackOps chk (upTmp tmp1 true) new1) g.pos g := by
            simp [ex, commitFaultWith, hp, hq, g]
          apply allsafe _ hex
          intro op hop
          rcases List.mem_append.mp hop with hop | hop
          · exact hpre0 op hop
          · exact hpre1 op (mem_cutAt hop)
        · apply key (newPackOps chk (upTmp tmp0 false) new0 ++ newPackOps chk (upTmp tmp1 true) new1)
            ((v.names ++ [new0]).filter (fun n => !(a :: t).contains n) ++ [new1]) (some (a :: t))
            (g.shift (newPackOps chk (upTmp tmp1 true) new1).length)
            (by simp [ex, commitFaultWith, hp, hq, g]) (by simp [ops, commitOpsWith, List.append_assoc])
          · intro op hop
            rcases List.mem_append.mp hop with hop | hop
            · exact hpre0 op hop
            · exact hpre1 op hop
          · intro n hn
            simp only [List.mem_append, List.mem_filter, List.mem_singleton] at hn
            rcases hn with ⟨hn | rfl, _⟩ | rfl
            · exact Or.inl (hv n hn)
            · right
              rw [run_append]
              have hsafe := newPackOps_safe chk [n] (upTmp tmp1 true) new1 (hup _ _) (by simpa using Ne.symm h01)
              exact (run_safe chk [n] _ _ hsafe).2 n (by simp) hr0
            · right
              rw [run_append]
              exact finish_ready chk _ (upTmp tmp1 true) n (hup _ _)
          · intro s' hs' n hn
            cases hs'
            refine ⟨?_, ?_⟩
            · simp only [List.mem_append, List.mem_filter, List.mem_singleton, not_or]
              refine ⟨fun h => by simp [hn] at h, ?_⟩
              rintro rfl
              rcases hs n hn with h | h
              · exact h1v h
              · exact h01 h.symm
            · rcases hs n hn with h | h
              · exact Or.inl (hv n h)
              · exact Or.inr h

/-- the same for the plan computed by the real planner -/
theorem commit_fault_atomic_planned (chk : Bool) (d : Disk) (v : View) (counts : List (Nat × Nat))
    (tmp0 new0 tmp1 new1 : Nat)
    (hc : complete chk d = true)
    (hv : ∀ n ∈ v.names, n ∈ v.atLoad)
    (h0 : new0 ∉ d.names) (h1 : new1 ∉ d.names) (h01 : new0 ≠ new1) (h1v : new1 ∉ v.names)
    (hcounts : ∀ p ∈ counts, p.1 ∈ v.names ∨ p.1 = new0)
    (ord : List File) (f : Fault) (k : Nat) :
    let ex := commitFault chk d v counts tmp0 new0 tmp1 new1 ord f
    let ops := commitOps chk d v counts tmp0 new0 tmp1 new1
    complete chk (run d (ex.take k)) = true ∧
    ((run d (ex.take k)).names = d.names ∨ (run d (ex.take k)).names = (run d ops).names) := by
  apply commit_fault_atomic chk d v (planAutopack counts) tmp0 new0 tmp1 new1 hc hv h0 h1 h01 h1v
  intro s hs n hn
  have := planAutopack_subset counts s hs n hn
  simp only [List.mem_map] at this
  obtain ⟨p, hp, rfl⟩ := this
  exact hcounts p hp

/-! ### `pack()` failing -/

/-- a body of `pack()` that contains `_save_pack_names`, with a fault anywhere
(in the packer's new pack, in the save, in the final clear) -/
theorem packTail_atomic (chk : Bool) (d : Disk) (atLoad mine s : List Nat) (clean : Bool) (pre : List Op)
    (ord : List File) (f : Fault)
    (hc : complete chk d = true)
    (hpre : ∀ op ∈ pre, safeOp d.names op = true)
    (hmine : ∀ n ∈ mine, n ∈ atLoad ∨ ready chk (run d pre) n = true)
    (hobs : ∀ n ∈ s, n ∉ mine ∧ n ∈ atLoad) (k : Nat) :
    let ex := packTail chk d ⟨mine, atLoad⟩ s clean pre ord f
    complete chk (run d (ex.take k)) = true ∧
    ((run d (ex.take k)).names = d.names ∨ (run d (ex.take k)).names = mergeNames d.names atLoad mine) := by
  intro ex
  have hobs' : ∀ s', some s = some s' → ∀ n ∈ s', n ∉ mine ∧ (n ∈ atLoad ∨ n ∉ d.names) := by
    intro s' h n hn; cases h; exact ⟨(hobs n hn).1, Or.inl (hobs n hn).2⟩
  have ctx := fun (sv tail : List Op) htail hs =>
    save_ctx_atomic chk d atLoad mine (some s) ord pre sv tail hc hpre hmine hobs' htail hs k
  have hclr : ∀ (c : Bool) (d' : Disk), ∀ op ∈ (if c then clearOrd d' [] ord else []), ∀ ns, safeOp ns op = true := by
    intro c d' op hop ns
    cases c
    · cases hop
    · exact clearOrd_safe ns d' [] ord op hop
  by_cases h1 : f.pos < pre.length
  · have hex : ex = cutAt pre f.pos f := by simp [ex, packTail, h1]
    rw [hex]
    have := safe_crash_atomic chk d (cutAt pre f.pos f) hc (fun op h => hpre op (mem_cutAt h)) k
    exact ⟨this.1, Or.inl this.2⟩
  · by_cases h2 : f.pos < pre.length + (saveOpsOrd chk d ⟨mine, atLoad⟩ (some s) ord).length
    · by_cases hr : saveRaises chk d (some s) ord (f.shift pre.length) = true
      · have hex : ex = pre ++ saveFault chk d ⟨mine, atLoad⟩ (some s) ord (f.shift pre.length) ++ [] := by
          simp [ex, packTail, h1, h2, hr]
        rw [hex]
        exact ctx _ [] (by intro op h; cases h) (saveFault_shape chk d ⟨mine, atLoad⟩ (some s) ord _)
      · have hex : ex = pre ++ saveFault chk d ⟨mine, atLoad⟩ (some s) ord (f.shift pre.length)
            ++ (if clean then clearOrd (run d (pre ++ saveFault chk d ⟨mine, atLoad⟩ (some s) ord
                  (f.shift pre.length))) [] ord else []) := by
          simp [ex, packTail, h1, h2, hr]
        rw [hex]
        exact ctx _ _ (hclr clean _) (saveFault_shape chk d ⟨mine, atLoad⟩ (some s) ord _)
    · have hex : ex = pre ++ saveOpsOrd chk d ⟨mine, atLoad⟩ (some s) ord
          ++ (if clean then finalClearFault (run d (pre ++ saveOpsOrd chk d ⟨mine, atLoad⟩ (some s) ord)) ord
                (f.pos - (pre ++ saveOpsOrd chk d ⟨mine, atLoad⟩ (some s) ord).length) f else []) := by
        simp [ex, packTail, h1, h2]
      rw [hex]
      refine ctx _ _ ?_ (saveOpsOrd_shape chk d ⟨mine, atLoad⟩ (some s) ord)
      intro op hop ns
      cases clean
      · cases hop
      · simp only [if_true, finalClearFault] at hop
        split at hop
        · exact clearOrd_safe ns _ [] ord op (mem_skipAt hop)
        · exact clearOrd_safe ns _ [] ord op (mem_cutAt hop)

/-- final `pack-names` of a `pack()` body `pre ++ _save_pack_names ++ final clear` -/
theorem packBody_final_names (chk : Bool) (d : Disk) (v : View) (s : List Nat) (pre tail : List Op)
    (ht : ∀ op ∈ tail, isPut op = false) :
    (run d (pre ++ saveOps chk d v (some s) ++ tail)).names = mergeNames d.names v.atLoad v.names := by
  rw [run_append, run_names_noPut tail _ ht, run_append, run_saveOps_names]

/-- **A failing `pack()` / `pack(hint)` is atomic**: for every fault (in the
packer's new pack, in `_save_pack_names`, in the obsoleting moves, in the final
`_clear_obsolete_packs()`), and every crash prefix of what the real code then
executes. -/
theorem packSel_fault_atomic (chk : Bool) (d : Disk) (v : View) (s : List Nat) (optimal clean : Bool)
    (tmp1 new1 : Nat)
    (hc : complete chk d = true)
    (hv : ∀ n ∈ v.names, n ∈ v.atLoad)
    (hs : ∀ n ∈ s, n ∈ v.names)
    (h1 : new1 ∉ d.names) (h1v : new1 ∉ v.names) (ord : List File) (f : Fault) (k : Nat) :
    let ex := packFaultSel chk d v s optimal clean tmp1 new1 ord f
    let ops := packOpsSel chk d v s optimal clean tmp1 new1
    complete chk (run d (ex.take k)) = true ∧
    ((run d (ex.take k)).names = d.names ∨ (run d (ex.take k)).names = (run d ops).names) := by
  intro ex ops
  have hup : ∀ t b, (upTmp t b).dir = .upload := by intro t b; simp [upTmp]
  have hcol : v.names.contains new1 = false := by simpa using h1v
  have htailP : ∀ (c : Bool) (d' : Disk), ∀ op ∈ (if c then clearOps d' [] else []), isPut op = false := by
    intro c d' op hop
    cases c
    · cases hop
    · exact clearOps_noPut d' [] op hop
  by_cases hdis : (!chk && decide (v.names.length ≤ 1)) = true
  · have : ex = [] := by simp [ex, packFaultSel, hdis]
    rw [this]; simp [run, hc]
  · by_cases hemp : s.isEmpty = true
    · have hsn : s = [] := by simpa using hemp
      have hex : ex = packTail chk d ⟨v.names, v.atLoad⟩ [] clean [] ord f := by
        simp [ex, packFaultSel, hdis, hemp]
      have hfin : (run d ops).names = mergeNames d.names v.atLoad v.names := by
        have : ops = [] ++ saveOps chk d v (some []) ++ (if clean then clearOps (run d (saveOps chk d v (some []))) [] else []) := by
          simp [ops, packOpsSel, hdis, hemp]
        rw [this]
        exact packBody_final_names chk d v [] [] _ (htailP clean _)
      rw [hfin, hex]
      apply packTail_atomic chk d v.atLoad v.names [] clean [] ord f hc
      · intro op hop; cases hop
      · intro n hn; exact Or.inl (hv n hn)
      · intro n hn; cases hn
    · cases optimal with
      | true =>
        have hall : ∀ op ∈ ex, safeOp d.names op = true := by
          intro op hop
          simp only [ex, packFaultSel, hdis, hemp, Bool.false_eq_true, if_false, if_true,
            Bool.not_true, Bool.and_false, Bool.false_and] at hop
          have hb : ∀ op ∈ [Op.beginWrite (upTmp tmp1 true), Op.endWrite (upTmp tmp1 true), Op.delete (upTmp tmp1 true)],
              safeOp d.names op = true := by
            intro op h
            simp only [List.mem_cons, List.not_mem_nil, or_false] at h
            rcases h with rfl | rfl | rfl
            · simp [safeOp, upload_not_touches _ _ (hup tmp1 true)]
            · rfl
            · simp [safeOp, upload_not_touches _ _ (hup tmp1 true)]
          split at hop
          · exact hb op (mem_cutAt hop)
          · rcases List.mem_append.mp hop with hop | hop
            · exact hb op hop
            · cases clean
              · cases hop
              · simp only [if_true, finalClearFault] at hop
                split at hop
                · exact clearOrd_safe _ _ [] ord op (mem_skipAt hop)
                · exact clearOrd_safe _ _ [] ord op (mem_cutAt hop)
        have h := safe_crash_atomic chk d ex hc hall k
        exact ⟨h.1, Or.inl h.2⟩
      | false =>
        have hex : ex = packTail chk d ⟨v.names.filter (fun n => !s.contains n) ++ [new1], v.atLoad⟩ s clean
            (newPackOps chk (upTmp tmp1 true) new1) ord f := by
          simp [ex, packFaultSel, hdis, hemp, h1v]
        have hfin : (run d ops).names
            = mergeNames d.names v.atLoad (v.names.filter (fun n => !s.contains n) ++ [new1]) := by
          have : ops = newPackOps chk (upTmp tmp1 true) new1
              ++ saveOps chk d ⟨v.names.filter (fun n => !s.contains n) ++ [new1], v.atLoad⟩ (some s)
              ++ (if clean then clearOps (run d (newPackOps chk (upTmp tmp1 true) new1
                    ++ saveOps chk d ⟨v.names.filter (fun n => !s.contains n) ++ [new1], v.atLoad⟩ (some s))) []
                  else []) := by
            simp [ops, packOpsSel, hdis, hemp, h1v]
          rw [this]
          exact packBody_final_names chk d _ s _ _ (htailP clean _)
        rw [hfin, hex]
        apply packTail_atomic chk d v.atLoad _ s clean _ ord f hc
        · exact newPackOps_safe chk d.names _ new1 (hup _ _) h1
        · intro n hn
          simp only [List.mem_append, List.mem_filter, List.mem_singleton] at hn
          rcases hn with ⟨hn, _⟩ | rfl
          · exact Or.inl (hv n hn)
          · exact Or.inr (finish_ready chk d _ n (hup _ _))
        · intro n hn
          refine ⟨?_, hv n (hs n hn)⟩
          simp only [List.mem_append, List.mem_filter, List.mem_singleton, not_or]
          refine ⟨fun h => by simp [hn] at h, ?_⟩
          rintro rfl
          exact h1v (hs n hn)

/-- **A failing `pack()` / `pack(hint)` is atomic** (hint form) -/
theorem pack_fault_atomic (chk : Bool) (d : Disk) (v : View) (hint : Option (List Nat)) (optimal clean : Bool)
    (tmp1 new1 : Nat)
    (hc : complete chk d = true)
    (hv : ∀ n ∈ v.names, n ∈ v.atLoad)
    (h1 : new1 ∉ d.names) (h1v : new1 ∉ v.names) (ord : List File) (f : Fault) (k : Nat) :
    let ex := packFault chk d v hint optimal clean tmp1 new1 ord f
    let ops := packOps chk d v hint optimal clean tmp1 new1
    complete chk (run d (ex.take k)) = true ∧
    ((run d (ex.take k)).names = d.names ∨ (run d (ex.take k)).names = (run d ops).names) :=
  packSel_fault_atomic chk d v (hintSel v hint) optimal clean tmp1 new1 hc hv (hintSel_subset v hint) h1 h1v ord f k

/-! ### a failed `_save_pack_names` is all-or-nothing -/

/-- **Exception atomicity of `_save_pack_names`.**  Whatever the fault: if the
exception was raised before the `put_file` of `pack-names` completed, the
method leaves `pack-names` untouched; otherwise `pack-names` is exactly the
merged list the successful call writes. -/
theorem save_fault_names (chk : Bool) (d0 d : Disk) (v : View) (obs : Option (List Nat)) (ord : List File)
    (f : Fault) :
    (f.beforePut → (run d0 (saveFault chk d v obs ord f)).names = d0.names) ∧
    (¬ f.beforePut → (run d0 (saveFault chk d v obs ord f)).names = saveN d v) := by
  rcases saveFault_shape' chk d v obs ord f with ⟨hb, h | h | h⟩ | ⟨hb, post, h, hpost⟩
  · exact ⟨fun _ => by rw [h]; rfl, fun hn => absurd hb hn⟩
  · exact ⟨fun _ => by rw [h]; rfl, fun hn => absurd hb hn⟩
  · exact ⟨fun _ => by rw [h]; rfl, fun hn => absurd hb hn⟩
  · refine ⟨fun hy => absurd hy hb, fun _ => ?_⟩
    rw [h, run_cons, run_cons,
      run_names_noPut post _ (fun op hop => saveAllowed_noPut chk d obs ord op (hpost op hop))]
    rfl

/-- **Witness: why `_obsolete_packs` must stay outside the `finally:`.**  The
model variant in which the obsoleting moves run in the `finally:` clause of
`_save_pack_names` (so also after a failed `put_file`): `pack()` of two packs
whose `pack-names` write fails with an I/O error leaves `pack-names` listing
both old packs while their files are in `obsolete_packs/`. -/
theorem obsolete_in_finally_witness :
    let d : Disk := ⟨[0, 1], packFiles true 0 ++ packFiles true 1, [], false⟩
    let ex := newPackOps true (upTmp 4 true) 5
      ++ saveFaultObsoleteInFinally true d ⟨[5], [0, 1]⟩ [0, 1] ⟨1, false, .io⟩
    complete true d = true ∧ (run d ex).names = [0, 1] ∧ complete true (run d ex) = false ∧
    -- the real error path on the same input: lock, unlock, nothing else
    (newPackOps true (upTmp 4 true) 5 ++ saveFault true d ⟨[5], [0, 1]⟩ (some [0, 1]) [] ⟨1, false, .io⟩
      = packFault true d ⟨[0, 1], [0, 1]⟩ none false false 4 5 [] ⟨14, false, .io⟩) ∧
    complete true (run d (packFault true d ⟨[0, 1], [0, 1]⟩ none false false 4 5 [] ⟨14, false, .io⟩)) = true := by
  decide

/-! ### after a crash or a failure the next writer starts from a good state -/

/-- **Crash, then retry.**  Take ANY crash prefix `k` of a commit / fetch /
autopack, break the stale lock, and let a fresh process (which loads
`pack-names` as it finds it) run another write group with fresh pack names:
the hypotheses of `commit_crash_atomic` hold again, so that operation is
crash-atomic too.  (The same statement with `commitFaultWith` in place of the
prefix follows from `commit_fault_atomic` in the same way.) -/
theorem crash_then_retry (chk : Bool) (d : Disk) (v : View) (plan : Plan) (tmp0 new0 tmp1 new1 : Nat)
    (hc : complete chk d = true)
    (hv : ∀ n ∈ v.names, n ∈ v.atLoad)
    (h0 : new0 ∉ d.names) (h1 : new1 ∉ d.names) (h01 : new0 ≠ new1) (h1v : new1 ∉ v.names)
    (hplan : ∀ s, plan = .combine s → ∀ n ∈ s, n ∈ v.names ∨ n = new0) (k : Nat)
    (plan' : Plan) (tmp0' new0' tmp1' new1' : Nat) :
    let d' : Disk := { run d ((commitOpsWith chk d v plan tmp0 new0 tmp1 new1).take k) with locked := false }
    new0' ∉ d'.names → new1' ∉ d'.names → new0' ≠ new1' →
    (∀ s, plan' = .combine s → ∀ n ∈ s, n ∈ d'.names ∨ n = new0') →
    ∀ k', let ops' := commitOpsWith chk d' ⟨d'.names, d'.names⟩ plan' tmp0' new0' tmp1' new1'
      complete chk (run d' (ops'.take k')) = true ∧
      ((run d' (ops'.take k')).names = d'.names ∨ (run d' (ops'.take k')).names = (run d' ops').names) := by
  intro d' g0 g1 g01 gplan k'
  have hc' : complete chk d' = true :=
    (commit_crash_atomic chk d v plan tmp0 new0 tmp1 new1 hc hv h0 h1 h01 h1v hplan k).1
  exact commit_crash_atomic chk d' ⟨d'.names, d'.names⟩ plan' tmp0' new0' tmp1' new1' hc'
    (fun n hn => hn) g0 g1 g01 g1 gplan k'

/-- the same after a FAILED commit (any fault, any crash prefix of its error
handling) -/
theorem fault_then_retry (chk : Bool) (d : Disk) (v : View) (plan : Plan) (tmp0 new0 tmp1 new1 : Nat)
    (hc : complete chk d = true)
    (hv : ∀ n ∈ v.names, n ∈ v.atLoad)
    (h0 : new0 ∉ d.names) (h1 : new1 ∉ d.names) (h01 : new0 ≠ new1) (h1v : new1 ∉ v.names)
    (hplan : ∀ s, plan = .combine s → ∀ n ∈ s, n ∈ v.names ∨ n = new0) (ord : List File) (f : Fault) (k : Nat)
    (plan' : Plan) (tmp0' new0' tmp1' new1' : Nat) :
    let d' : Disk := { run d ((commitFaultWith chk d v plan tmp0 new0 tmp1 new1 ord f).take k) with locked := false }
    new0' ∉ d'.names → new1' ∉ d'.names → new0' ≠ new1' →
    (∀ s, plan' = .combine s → ∀ n ∈ s, n ∈ d'.names ∨ n = new0') →
    ∀ k', let ops' := commitOpsWith chk d' ⟨d'.names, d'.names⟩ plan' tmp0' new0' tmp1' new1'
      complete chk (run d' (ops'.take k')) = true ∧
      ((run d' (ops'.take k')).names = d'.names ∨ (run d' (ops'.take k')).names = (run d' ops').names) := by
  intro d' g0 g1 g01 gplan k'
  have hc' : complete chk d' = true :=
    (commit_fault_atomic chk d v plan tmp0 new0 tmp1 new1 hc hv h0 h1 h01 h1v hplan ord f k).1
  exact commit_crash_atomic chk d' ⟨d'.names, d'.names⟩ plan' tmp0' new0' tmp1' new1' hc'
    (fun n hn => hn) g0 g1 g01 g1 gplan k'

/-! ### non-vacuity of the fault theorems -/

/-- a commit that autopacks two packs; the `put_file` of `pack-names` (operation
27 of 48) fails with an I/O error: the real error path runs lock, unlock and
nothing else (28 operations), `pack-names` keeps the old list; when the
exception arrives just AFTER the `put_file`, the new list is in place and the
old packs are NOT moved away (they stay behind, unlisted) -/
example :
    let d : Disk := ⟨[0, 1], packFiles true 0 ++ packFiles true 1 ++ [⟨.obsolete, 7, .pack⟩], [], false⟩
    let v : View := ⟨[0, 1], [0, 1]⟩
    let ex := commitFaultWith true d v (.combine [0, 1, 2]) 10 2 11 3 []
    (commitOpsWith true d v (.combine [0, 1, 2]) 10 2 11 3)[27]? = some (Op.putNames [3]) ∧
    (ex ⟨27, false, .io⟩).length = 28 ∧ (run d (ex ⟨27, false, .io⟩)).names = [0, 1] ∧
    (run d (ex ⟨27, false, .io⟩)).locked = false ∧
    (ex ⟨27, true, .interrupt⟩).length = 29 ∧ (run d (ex ⟨27, true, .interrupt⟩)).names = [3] ∧
    ready true (run d (ex ⟨27, true, .interrupt⟩)) 0 = true ∧
    -- a TransportError on the first obsoleting move is skipped, the rest runs
    (ex ⟨30, false, .transport⟩).length = 47 ∧ (ex ⟨30, false, .io⟩).length = 30 ∧
    -- a fault while finishing the write group's own pack: NewPack.abort()
    ex ⟨5, false, .io⟩ = (commitOpsWith true d v (.combine [0, 1, 2]) 10 2 11 3).take 5
      ++ [Op.endWrite (upTmp 10 false), Op.delete (upTmp 10 false)] := by
  decide

/-- `pack(clean_obsolete_packs=True)` of two packs (34 operations; hypotheses of
`pack_fault_atomic` as in the example of `pack_crash_atomic`): a `TransportError`
on the second deletion of the final clear is skipped (33 operations executed,
the operation completes), an I/O error there stops it (25 executed, raises); an
interrupt inside the packer's `finish()` leaves everything as it was -/
example :
    let d : Disk := ⟨[0, 1], packFiles false 0 ++ packFiles false 1, [], false⟩
    let v : View := ⟨[0, 1], [0, 1]⟩
    (packFault false d v none false true 4 5 [] ⟨25, false, .transport⟩).length = 33 ∧
    packRaisesSel false d v (hintSel v none) false true 4 5 [] ⟨25, false, .transport⟩ = false ∧
    (packFault false d v none false true 4 5 [] ⟨25, false, .io⟩).length = 25 ∧
    packRaisesSel false d v (hintSel v none) false true 4 5 [] ⟨25, false, .io⟩ = true ∧
    (run d (packFault false d v none false true 4 5 [] ⟨25, false, .io⟩)).names = [5] ∧
    (run d (packFault false d v none false true 4 5 [] ⟨6, true, .interrupt⟩)).names = [0, 1] ∧
    complete false (run d (packFault false d v none false true 4 5 [] ⟨6, true, .interrupt⟩)) = true := by
  decide

end BreezyVerif.C04
