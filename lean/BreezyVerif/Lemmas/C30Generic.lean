import BreezyVerif.Model.C30
import BreezyVerif.Lemmas.C29LP
/-! generic reading-loop theorems from five laws of a decoder -/
namespace BreezyVerif.C30
open BreezyVerif.C29

structure Laws {S : Type} (M : Machine S) (wf : S → Prop) : Prop where
  append : ∀ s a b, M.feed (M.feed s a) b = M.feed s (a ++ b)
  wf_feed : ∀ s x, wf s → wf (M.feed s x)
  fin_feed : ∀ s x, M.fin s = true →
    M.fin (M.feed s x) = true ∧ M.unused (M.feed s x) = M.unused s ++ x
  fin_stop : ∀ s, M.fin s = true → M.stop s = true
  /-- whatever continuation `q` completes the message from `s`, the hint is at
  least 1 and at most the part of `q` that belongs to the message -/
  hint : ∀ s q, wf s → M.fin s = false → M.fin (M.feed s q) = true →
    M.stop s = false ∧ 1 ≤ M.nrs s ∧ M.nrs s + ((M.unused (M.feed s q)).length : Int) ≤ q.length

variable {S : Type} {M : Machine S} {wf : S → Prop}

theorem Laws.wf_feedAll (L : Laws M wf) (s : S) (segs : List Bytes) (h : wf s) :
    wf (feedAll M.feed s segs) := by
  induction segs generalizing s with
  | nil => exact h
  | cons a r ih => exact ih _ (L.wf_feed s a h)

theorem Laws.feed_feedAll (L : Laws M wf) (s : S) (segs : List Bytes) (q : Bytes) :
    M.feed (feedAll M.feed s segs) q = M.feed s (segs.flatten ++ q) := by
  induction segs generalizing s with
  | nil => simp [feedAll]
  | cons a r ih =>
    simp only [feedAll, List.flatten_cons, List.append_assoc]
    rw [ih, L.append]

/-- a state from which `q ≠ []` completes the message exactly is not finished -/
theorem Laws.not_fin (L : Laws M wf) (s : S) (q : Bytes) (hq : q ≠ [])
    (hu : M.unused (M.feed s q) = []) : M.fin s = false := by
  cases hf : M.fin s with
  | false => rfl
  | true =>
    have := (L.fin_feed s q hf).2
    rw [hu] at this
    have : q = [] := by
      have h2 := congrArg List.length this
      simp at h2
      exact List.eq_nil_of_length_eq_zero (by omega)
    exact absurd this hq

/-- NO OVER-READ: in every state reached while the message `w` is delivered in
arbitrary reads, with `q` the part of `w` not yet delivered: the decoder asks
for at least one and at most `|q|` bytes, and does not report completion. -/
theorem Laws.no_overread (L : Laws M wf) (s0 : S) (w : Bytes) (h0 : wf s0)
    (hfin : M.fin (M.feed s0 w) = true) (hun : M.unused (M.feed s0 w) = [])
    (segs : List Bytes) (q : Bytes) (hw : segs.flatten ++ q = w) (hq : q ≠ []) :
    let s := feedAll M.feed s0 segs
    M.stop s = false ∧ 1 ≤ M.nrs s ∧ M.nrs s ≤ q.length := by
  intro s
  have hwf : wf s := L.wf_feedAll s0 segs h0
  have hfeed : M.feed s q = M.feed s0 w := by rw [L.feed_feedAll, hw]
  have hnf : M.fin s = false := L.not_fin s q hq (by rw [hfeed, hun])
  have := L.hint s q hwf hnf (by rw [hfeed, hfin])
  rw [hfeed, hun] at this
  simpa using this

/-- COMPLETION: once all of `w` has been delivered (in at least one read) the loop's exit test holds -/
theorem Laws.stops_at_end (L : Laws M wf) (s0 : S) (w : Bytes)
    (hfin : M.fin (M.feed s0 w) = true)
    (segs : List Bytes) (hne : segs ≠ []) (hw : segs.flatten = w) :
    M.stop (feedAll M.feed s0 segs) = true := by
  match segs, hne with
  | a :: r, _ =>
    simp only [feedAll]
    rw [feedAll_eq_of_append M.feed L.append]
    simp only [List.flatten_cons] at hw
    rw [hw]
    exact L.fin_stop _ hfin

theorem readSize_bounds (want : Int) (c : Nat) (h : 1 ≤ want) :
    1 ≤ readSize want c ∧ (readSize want c : Int) ≤ want := by
  unfold readSize
  have : (want.toNat : Int) = want := Int.toNat_of_nonneg (by omega)
  omega

/-- THE LOOP CONSUMES EXACTLY THE MESSAGE: started in a state `s` from which
`avail` completes the message exactly, under every short-read schedule the loop
never blocks, terminates, has read all of `avail` and nothing else, and ends in
the state one big `accept_bytes(avail)` would give. -/
theorem Laws.loop_exact (L : Laws M wf) (sched : Nat → Nat) (fuel i : Nat) (s : S) (avail : Bytes)
    (hwf : wf s) (hfin : M.fin (M.feed s avail) = true) (hun : M.unused (M.feed s avail) = [])
    (hend : avail = [] → M.stop s = true) (hfuel : avail.length < fuel) :
    ∃ s', pipeLoop M sched fuel i s avail = .finished s' [] ∧
      (s' = M.feed s avail ∨ (avail = [] ∧ s' = s)) := by
  induction fuel generalizing i s avail with
  | zero => omega
  | succ fuel ih =>
    unfold pipeLoop
    by_cases hstop : M.stop s = true
    · have ha : avail = [] := by
        apply Classical.byContradiction
        intro hne
        have hnf := L.not_fin s avail hne hun
        have := (L.hint s avail hwf hnf hfin).1
        rw [hstop] at this
        cases this
      subst ha
      simp only [hstop, if_true]
      exact ⟨s, rfl, Or.inr ⟨trivial, rfl⟩⟩
    · have hne : avail ≠ [] := fun e => hstop (hend e)
      have hnf := L.not_fin s avail hne hun
      have hh := L.hint s avail hwf hnf hfin
      rw [hun] at hh
      obtain ⟨_, h1, h2⟩ := hh
      simp only [List.length_nil, Int.natCast_zero, Int.add_zero] at h2
      simp only [hstop, Bool.false_eq_true, if_false]
      have hnb : ¬ (M.nrs s ≤ 0 ∨ (avail.length : Int) < M.nrs s) := by omega
      simp only [hnb, if_false]
      obtain ⟨k1, k2⟩ := readSize_bounds (M.nrs s) (sched i) h1
      generalize readSize (M.nrs s) (sched i) = k at k1 k2
      have hk : k ≤ avail.length := by omega
      have hsplit : avail.take k ++ avail.drop k = avail := List.take_append_drop k avail
      have hfeed : M.feed (M.feed s (avail.take k)) (avail.drop k) = M.feed s avail := by
        rw [L.append, hsplit]
      obtain ⟨s', hs', hcase⟩ := ih (i + 1) (M.feed s (avail.take k)) (avail.drop k)
        (L.wf_feed s _ hwf) (by rw [hfeed, hfin]) (by rw [hfeed, hun])
        (by
          intro hd
          have : avail.take k = avail := by
            have := hsplit; rw [hd, List.append_nil] at this; exact this
          rw [this]
          exact L.fin_stop _ hfin)
        (by simp only [List.length_drop]; omega)
      refine ⟨s', hs', Or.inl ?_⟩
      rcases hcase with h | ⟨hd, h⟩
      · rw [h, hfeed]
      · have : avail.take k = avail := by
          have := hsplit; rw [hd, List.append_nil] at this; exact this
        rw [h, this]

end BreezyVerif.C30

namespace BreezyVerif.C30
open BreezyVerif.C29
variable {S : Type} {M : Machine S} {wf : S → Prop}

/-- the loop started after any reads `segs` of the message `w`, on the rest `q` of it -/
theorem Laws.loop_from_reads (L : Laws M wf) (s0 : S) (w : Bytes) (h0 : wf s0)
    (hfin : M.fin (M.feed s0 w) = true) (hun : M.unused (M.feed s0 w) = [])
    (sched : Nat → Nat) (i : Nat) (segs : List Bytes) (q : Bytes)
    (hw : segs.flatten ++ q = w) (hq : q ≠ []) :
    pipeLoop M sched (q.length + 1) i (feedAll M.feed s0 segs) q = .finished (M.feed s0 w) [] := by
  have hfeed : M.feed (feedAll M.feed s0 segs) q = M.feed s0 w := by rw [L.feed_feedAll, hw]
  obtain ⟨s', hs', hcase⟩ := L.loop_exact sched (q.length + 1) i (feedAll M.feed s0 segs) q
    (L.wf_feedAll s0 segs h0) (by rw [hfeed, hfin]) (by rw [hfeed, hun])
    (fun e => absurd e hq) (by omega)
  rcases hcase with h | ⟨h, _⟩
  · rw [hs', h, hfeed]
  · exact absurd h hq

end BreezyVerif.C30
