import BreezyVerif.Model.C42
/-!
C42 — helper lemmas: `"/".join` on component lists versus string prefixes.
-/
namespace BreezyVerif.C42

theorem goodName_iff {n : Name} : goodName n = true ↔ n ≠ [] ∧ '/' ∉ n := by
  unfold goodName
  cases n <;> simp

theorem pathStr_cons (a : Name) {r : List Name} (h : r ≠ []) :
    pathStr (a :: r) = a ++ '/' :: pathStr r := by
  cases r with
  | nil => exact absurd rfl h
  | cons b r => rfl

/-- two slash-free heads followed by a slash: the split point is unique -/
theorem noslash_split {a b x y : Str} (ha : '/' ∉ a) (hb : '/' ∉ b)
    (h : a ++ '/' :: x = b ++ '/' :: y) : a = b ∧ x = y := by
  induction a generalizing b with
  | nil =>
    cases b with
    | nil => simpa using h
    | cons c b =>
      simp at h
      exact absurd (h.1 ▸ List.mem_cons_self) hb
  | cons c a ih =>
    cases b with
    | nil =>
      simp at h
      exact absurd (h.1 ▸ List.mem_cons_self) ha
    | cons d b =>
      simp at h
      have ha' : '/' ∉ a := fun m => ha (List.mem_cons_of_mem _ m)
      have hb' : '/' ∉ b := fun m => hb (List.mem_cons_of_mem _ m)
      obtain ⟨h1, h2⟩ := ih ha' hb' h.2
      exact ⟨by rw [h.1, h1], h2⟩

theorem noslash_ne {a b x : Str} (hb : '/' ∉ b) (h : a ++ '/' :: x = b) : False := by
  apply hb
  rw [← h]
  simp

theorem pathStr_eq_nil {p : List Name} (hp : p.all goodName = true) (h : pathStr p = []) : p = [] := by
  cases p with
  | nil => rfl
  | cons a r =>
    simp only [List.all_cons, Bool.and_eq_true] at hp
    have := (goodName_iff.mp hp.1).1
    cases r with
    | nil => exact absurd h this
    | cons b r => simp [pathStr] at h

/-- `"/".join` is injective on lists of good names -/
theorem pathStr_inj {p q : List Name} (hp : p.all goodName = true) (hq : q.all goodName = true)
    (h : pathStr p = pathStr q) : p = q := by
  induction p generalizing q with
  | nil => exact (pathStr_eq_nil hq h.symm).symm
  | cons a r ih =>
    cases q with
    | nil => exact pathStr_eq_nil hp h
    | cons b s =>
      simp only [List.all_cons, Bool.and_eq_true] at hp hq
      have ga := goodName_iff.mp hp.1
      have gb := goodName_iff.mp hq.1
      by_cases hr : r = []
      · by_cases hs : s = []
        · subst hr; subst hs; simp [pathStr] at h; rw [h]
        · subst hr
          rw [pathStr_cons b hs] at h
          exact (noslash_ne ga.2 h.symm).elim
      · by_cases hs : s = []
        · subst hs
          rw [pathStr_cons a hr] at h
          exact (noslash_ne gb.2 h).elim
        · rw [pathStr_cons a hr, pathStr_cons b hs] at h
          obtain ⟨h1, h2⟩ := noslash_split ga.2 gb.2 h
          rw [h1, ih hp.2 hq.2 h2]

theorem pathStr_append {s r : List Name} (hs : s ≠ []) (hr : r ≠ []) :
    pathStr (s ++ r) = pathStr s ++ '/' :: pathStr r := by
  induction s with
  | nil => exact absurd rfl hs
  | cons a s ih =>
    by_cases h : s = []
    · subst h
      simp [pathStr_cons a hr, pathStr]
    · have : s ++ r ≠ [] := by simp [h]
      rw [List.cons_append, pathStr_cons a this, ih h, pathStr_cons a h]
      simp

theorem isPrefixOf_append_self (a b : Str) : (a ++ b).isPrefixOf (a ++ b) = true := by simp

theorem isPrefixOf_append_left (a x y : Str) : (a ++ x).isPrefixOf (a ++ y) = x.isPrefixOf y := by
  induction a with
  | nil => rfl
  | cons c a ih => simp [ih]

/-- the string test `path.startswith(subdir + "/")` decides "properly below" on
component paths, and the slice is the re-rooted path -/
theorem prefix_iff_below {s p : List Name} (hs : s.all goodName = true) (hp : p.all goodName = true)
    (hne : s ≠ []) :
    (pathStr s ++ ['/']).isPrefixOf (pathStr p) = below s p ∧
    (below s p = true → (pathStr p).drop ((pathStr s).length + 1) = pathStr (p.drop s.length)) := by
  induction s generalizing p with
  | nil => exact absurd rfl hne
  | cons a s ih =>
    simp only [List.all_cons, Bool.and_eq_true] at hs
    have ga := goodName_iff.mp hs.1
    cases p with
    | nil =>
      constructor
      · simp [below, pathStr]
      · simp [below]
    | cons b r =>
      simp only [List.all_cons, Bool.and_eq_true] at hp
      have gb := goodName_iff.mp hp.1
      by_cases hs0 : s = []
      · subst hs0
        -- s = [a]
        by_cases hr : r = []
        · subst hr
          constructor
          · simp only [pathStr, below, List.isPrefixOf, List.length_cons, List.length_nil]
            have : (a ++ ['/']).isPrefixOf b = false := by
              cases hh : (a ++ ['/']).isPrefixOf b
              · rfl
              · rw [List.isPrefixOf_iff_prefix] at hh
                obtain ⟨t, ht⟩ := hh
                exact (noslash_ne gb.2 (by simpa using ht)).elim
            simp [this]
          · simp [below]
        · rw [pathStr_cons b hr]
          by_cases hab : a = b
          · subst hab
            constructor
            · have : r.length > 0 := List.length_pos_iff.mpr hr
              simp only [pathStr, below]
              have e : a ++ '/' :: pathStr r = (a ++ ['/']) ++ pathStr r := by simp
              rw [e]
              have : (a ++ ['/']).isPrefixOf ((a ++ ['/']) ++ pathStr r) = true := by
                rw [List.isPrefixOf_iff_prefix]; exact List.prefix_append _ _
              rw [this]
              simp [List.isPrefixOf]
              omega
            · intro _
              simp [pathStr]
          · constructor
            · simp only [pathStr, below]
              have : (a ++ ['/']).isPrefixOf (b ++ '/' :: pathStr r) = false := by
                cases hh : (a ++ ['/']).isPrefixOf (b ++ '/' :: pathStr r)
                · rfl
                · rw [List.isPrefixOf_iff_prefix] at hh
                  obtain ⟨t, ht⟩ := hh
                  have := noslash_split ga.2 gb.2 (by simpa using ht)
                  exact absurd this.1 hab
              rw [this]
              simp [List.isPrefixOf, hab]
            · simp [below, List.isPrefixOf, hab]
      · -- s ≠ []
        rw [pathStr_cons a hs0]
        by_cases hr : r = []
        · subst hr
          constructor
          · simp only [pathStr, below]
            have : (a ++ '/' :: pathStr s ++ ['/']).isPrefixOf b = false := by
              cases hh : (a ++ '/' :: pathStr s ++ ['/']).isPrefixOf b
              · rfl
              · rw [List.isPrefixOf_iff_prefix] at hh
                obtain ⟨t, ht⟩ := hh
                exact (noslash_ne gb.2 (by simpa using ht)).elim
            rw [this]
            cases s with
            | nil => exact absurd rfl hs0
            | cons c s => simp [List.isPrefixOf]
          · cases s with
            | nil => exact absurd rfl hs0
            | cons c s => simp [below, List.isPrefixOf]
        · rw [pathStr_cons b hr]
          by_cases hab : a = b
          · subst hab
            obtain ⟨i1, i2⟩ := ih (p := r) hs.2 hp.2 hs0
            constructor
            · have e : a ++ '/' :: pathStr s ++ ['/'] = (a ++ ['/']) ++ (pathStr s ++ ['/']) := by simp
              have e2 : a ++ '/' :: pathStr r = (a ++ ['/']) ++ pathStr r := by simp
              rw [e, e2, isPrefixOf_append_left, i1]
              simp [below, List.isPrefixOf]
            · intro hb
              have hb' : below s r = true := by
                simpa [below, List.isPrefixOf] using hb
              have := i2 hb'
              simp only [List.length_append, List.length_cons, List.drop_succ_cons] at this ⊢
              have e2 : a ++ '/' :: pathStr r = (a ++ ['/']) ++ pathStr r := by simp
              rw [e2]
              have : (a.length + ((pathStr s).length + 1) + 1) = (a ++ ['/']).length + ((pathStr s).length + 1) := by
                simp; omega
              rw [this, List.drop_length_add_append]
              exact i2 hb'
          · constructor
            · have : (a ++ '/' :: pathStr s ++ ['/']).isPrefixOf (b ++ '/' :: pathStr r) = false := by
                cases hh : (a ++ '/' :: pathStr s ++ ['/']).isPrefixOf (b ++ '/' :: pathStr r)
                · rfl
                · rw [List.isPrefixOf_iff_prefix] at hh
                  obtain ⟨t, ht⟩ := hh
                  have := noslash_split ga.2 gb.2 (by simpa using ht)
                  exact absurd this.1 hab
              rw [this]
              simp [below, List.isPrefixOf, hab]
            · simp [below, List.isPrefixOf, hab]

end BreezyVerif.C42
