/-
C49 — configuration values resolve by location (breezy/config.py:
_iter_for_location_by_parts, LocationMatcher, StartingPathMatcher,
LocationSection.get, Stack.get) and survive a store round trip.

Strings are `List Char`.  External pieces are NOT modelled but specified and
checked per case by the harness: `fnmatch` on the restricted glob grammar
(`*`, `?`, `[…]`/`[!…]` with plain items and ranges; anything else → the model
answers "outside grammar"), `urlutils.join` / `urlutils.basename` of dromedary
on plain relative paths, configobj's parser (the harness feeds the model the
sections as the real parser produced them) and configobj's quoting (the round
trip is stated over an abstract quote/unquote pair).
-/
namespace BreezyVerif.C49

abbrev Str := List Char

/-! ## paths -/

/-- Python `s.split("/")` (always at least one part) -/
def splitSlash : Str → List Str
  | [] => [[]]
  | c :: s =>
    if c == '/' then [] :: splitSlash s
    else
      match splitSlash s with
      | p :: ps => (c :: p) :: ps
      | [] => [[c]]

/-- Python `s.rstrip("/")` -/
def rstripSlash (s : Str) : Str := (s.reverse.dropWhile (· == '/')).reverse

def parts (s : Str) : List Str := splitSlash (rstripSlash s)

/-- Python `"/".join(l)` -/
def joinSlash : List Str → Str
  | [] => []
  | [p] => p
  | p :: q :: ps => p ++ '/' :: joinSlash (q :: ps)

/-- `urlutils.basename` on plain paths: drop one trailing `/`, take what follows the last `/` -/
def lastSeg : Str → Str
  | [] => []
  | c :: s => if s.contains '/' then lastSeg s else if c == '/' then s else c :: s

def dropOneTrailingSlash (s : Str) : Str :=
  match s.reverse with
  | '/' :: r => r.reverse
  | _ => s

def urlBasename (s : Str) : Str := lastSeg (dropOneTrailingSlash s)

/-- `scheme://host` of a URL-like base (`[]` if there is no `://`) -/
def schemeHostAux (acc : Str) : Str → Str
  | ':' :: '/' :: '/' :: r => acc.reverse ++ ':' :: '/' :: '/' :: r.takeWhile (· != '/')
  | c :: r => if c == '/' then [] else schemeHostAux (c :: acc) r
  | [] => []

def schemeHost (base : Str) : Str :=
  match base with
  | ':' :: _ => []
  | _ => schemeHostAux [] base

/-- `urlutils.join(base, extra)` on the domain used here: `extra` is a `/`-joined
list of plain components; an absolute `extra` replaces the path of `base` -/
def joinPath (base extra : Str) : Str :=
  match extra with
  | '/' :: _ => schemeHost base ++ extra
  | _ =>
    match base.reverse with
    | '/' :: _ => base ++ extra
    | _ => base ++ '/' :: extra

/-! ## fnmatch on the restricted grammar -/

inductive GTok where
  | lit (c : Char)
  | any1
  | star
  | cls (neg : Bool) (items : List (Char × Char))
  deriving DecidableEq, Repr

def clsMatch (neg : Bool) (items : List (Char × Char)) (x : Char) : Bool :=
  (items.any fun it => decide (it.1 ≤ x) && decide (x ≤ it.2)) != neg

def starLoop (k : Str → Bool) : Str → Bool
  | [] => k []
  | x :: s => k (x :: s) || starLoop k s

/-- the whole of `s` is matched (`fnmatch.fnmatchcase`: `*` and `?` match any character) -/
def gmatch : List GTok → Str → Bool
  | [], s => s.isEmpty
  | .lit c :: ts, s =>
    match s with
    | x :: s' => x == c && gmatch ts s'
    | [] => false
  | .any1 :: ts, s =>
    match s with
    | _ :: s' => gmatch ts s'
    | [] => false
  | .cls neg items :: ts, s =>
    match s with
    | x :: s' => clsMatch neg items x && gmatch ts s'
    | [] => false
  | .star :: ts, s => starLoop (gmatch ts) s

structure ClsSt where
  neg : Bool
  first : Bool
  items : List (Char × Char)
  pend : Option Char
  dash : Bool
  deriving DecidableEq, Repr

def stepCls (cs : ClsSt) (c : Char) : Option (Option ClsSt × List GTok) :=
  if cs.first && c == '!' then some (some { cs with neg := true, first := false }, [])
  else if c == ']' then
    if cs.dash then none else
    let items := match cs.pend with
      | some a => (a, a) :: cs.items
      | none => cs.items
    if items.isEmpty then none else some (none, [.cls cs.neg items.reverse])
  else if c == '-' then
    match cs.pend with
    | some _ => if cs.dash then none else some (some { cs with dash := true, first := false }, [])
    | none => none
  else if c.isAlphanum then
    match cs.pend with
    | some a =>
      if cs.dash then
        if a ≤ c then some (some { cs with items := (a, c) :: cs.items, pend := none, dash := false, first := false }, [])
        else none
      else some (some { cs with items := (a, a) :: cs.items, pend := some c, first := false }, [])
    | none => some (some { cs with pend := some c, first := false }, [])
  else none

/-- glob text → tokens; `none` = outside the modelled grammar -/
def glex (st : Option ClsSt) : Str → Option (List GTok)
  | [] => match st with
    | none => some []
    | some _ => none
  | c :: s =>
    match st with
    | some cs =>
      match stepCls cs c with
      | none => none
      | some (st', ts) => (glex st' s).map (ts ++ ·)
    | none =>
      if c == '[' then glex (some ⟨false, true, [], none, false⟩) s
      else if c == ']' then none
      else if c == '*' then (glex none s).map (GTok.star :: ·)
      else if c == '?' then (glex none s).map (GTok.any1 :: ·)
      else (glex none s).map (GTok.lit c :: ·)

/-! ## sections -/

/-- a section as the store yields it; `id = none` is the no-name section -/
structure RawSection where
  id : Option Str
  opts : List (Str × Str)
  deriving DecidableEq, Repr

/-- a named section with its id parsed as globs: per path component (LocationMatcher)
and as a whole (StartingPathMatcher) -/
structure PSec where
  id : Str
  opts : List (Str × Str)
  comps : List (List GTok)
  whole : List GTok
  deriving DecidableEq, Repr

/-- a `LocationSection` -/
structure LocSection where
  id : Option Str
  opts : List (Str × Str)
  extra : Str
  branch : Str
  deriving DecidableEq, Repr

def lookup (k : Str) : List (Str × Str) → Option Str
  | [] => none
  | (a, v) :: r => if a = k then some v else lookup k r

def prepare (id : Str) (opts : List (Str × Str)) : Option PSec :=
  match (parts id).mapM (glex none), glex none id with
  | some cs, some w => some ⟨id, opts, cs, w⟩
  | _, _ => none

/-! ## `_iter_for_location_by_parts` -/

/-- component-wise glob prefix match -/
def compsMatch (loc : List Str) (sec : List (List GTok)) : Bool :=
  decide (sec.length ≤ loc.length) && (loc.zip sec).all fun ls => gmatch ls.2 ls.1

/-- the unmatched part of the location -/
def extraPath (loc : List Str) (n : Nat) : Str := joinSlash (loc.drop n)

/-- `(section, extra_path, nb_parts)` for every matching section, in the given order -/
def iterByParts (secs : List PSec) (location : Str) : List (PSec × Str × Nat) :=
  secs.filterMap fun s =>
    if compsMatch (parts location) s.comps then some (s, extraPath (parts location) s.comps.length, s.comps.length)
    else none

/-! ## `LocationSection.get` -/

inductive Chunk where
  | text (s : Str)
  | ref (name : Str)
  deriving DecidableEq, Repr

def isWordStart (c : Char) : Bool := c.isAlpha || c == '_'
def isWord (c : Char) : Bool := c.isAlphanum || c == '_'

/-- scanner state for `_option_ref_re = ({[^\d\W](?:\.\w|-\w|\w)*})`;
`buf` holds the pending text since the `{`, reversed -/
inductive RefSt where
  | idle
  | afterOpen
  | inName (buf : Str)      -- buf: reversed name so far
  | afterSep (buf : Str)    -- name so far ends in `.` or `-`
  deriving DecidableEq, Repr

/-- one character; output chunks (text chunks are single characters or flushed buffers) -/
def refIdle (c : Char) : RefSt × List Chunk :=
  if c == '{' then (.afterOpen, []) else (.idle, [.text [c]])

def flush (buf : Str) : Chunk := .text ('{' :: buf.reverse)

def refStep : RefSt → Char → RefSt × List Chunk
  | .idle, c => refIdle c
  | .afterOpen, c =>
    if isWordStart c then (.inName [c], [])
    else let r := refIdle c; (r.1, flush [] :: r.2)
  | .inName buf, c =>
    if c == '}' then (.idle, [.ref buf.reverse])
    else if isWord c then (.inName (c :: buf), [])
    else if c == '.' || c == '-' then (.afterSep (c :: buf), [])
    else let r := refIdle c; (r.1, flush buf :: r.2)
  | .afterSep buf, c =>
    if isWord c then (.inName (c :: buf), [])
    else let r := refIdle c; (r.1, flush buf :: r.2)

def refFinish : RefSt → List Chunk
  | .idle => []
  | .afterOpen => [flush []]
  | .inName buf => [flush buf]
  | .afterSep buf => [flush buf]

/-- `iter_option_refs` (text chunks may come in several pieces) -/
def scanRefs (st : RefSt) : Str → List Chunk
  | [] => refFinish st
  | c :: s => let r := refStep st c; r.2 ++ scanRefs r.1 s

def relpathN : Str := ['r', 'e', 'l', 'p', 'a', 't', 'h']
def basenameN : Str := ['b', 'a', 's', 'e', 'n', 'a', 'm', 'e']
def branchnameN : Str := ['b', 'r', 'a', 'n', 'c', 'h', 'n', 'a', 'm', 'e']
def policySuffix : Str := [':', 'p', 'o', 'l', 'i', 'c', 'y']
def appendpathN : Str := ['a', 'p', 'p', 'e', 'n', 'd', 'p', 'a', 't', 'h']
def ignoreParentsN : Str := ['i', 'g', 'n', 'o', 'r', 'e', '_', 'p', 'a', 'r', 'e', 'n', 't', 's']

/-- `self.locals` -/
def localOf (s : LocSection) (name : Str) : Option Str :=
  if name = relpathN then some s.extra
  else if name = basenameN then some (urlBasename s.extra)
  else if name = branchnameN then some s.branch
  else none

def expandChunk (s : LocSection) : Chunk → Str
  | .text t => t
  | .ref n => match localOf s n with
    | some v => v
    | none => '{' :: n ++ ['}']

def expandLocals (s : LocSection) (v : Str) : Str :=
  ((scanRefs .idle v).map (expandChunk s)).flatten

/-- `LocationSection.get(name)` (expand=True); the recursion on `name:policy`
ends because every level needs a longer key to be present; outer `none` = fuel
exhausted (cannot happen with fuel > number of options) -/
def secGet : Nat → LocSection → Str → Option (Option Str)
  | 0, _, _ => none
  | fuel + 1, s, name =>
    match lookup name s.opts with
    | none => some none
    | some v =>
      match secGet fuel s (name ++ policySuffix) with
      | none => none
      | some pol =>
        let v1 := if pol = some appendpathN then joinPath v s.extra else v
        some (some (expandLocals s v1))

def secGet' (s : LocSection) (name : Str) : Option Str :=
  match secGet (s.opts.length + 2) s name with
  | some r => r
  | none => none

/-! ## `LocationMatcher` -/

def strLe : Str → Str → Bool
  | [], _ => true
  | _ :: _, [] => false
  | x :: xs, y :: ys => decide (x.toNat < y.toNat) || (x.toNat == y.toNat && strLe xs ys)

/-- sort key `(length, id)`, descending; the no-name section has length 0 (and
id `[]` here), named sections have length ≥ 1, so the two are never compared on ids -/
def keyGe (a b : Nat × Str × LocSection) : Bool :=
  decide (b.1 < a.1) || (a.1 == b.1 && strLe b.2.1 a.2.1)

def asciiLower (c : Char) : Char := if 'A' ≤ c ∧ c ≤ 'Z' then Char.ofNat (c.toNat + 32) else c

/-- `ui.bool_from_string(v)` is `True` -/
def isTrueString (v : Str) : Bool :=
  let l := v.map asciiLower
  l = ['y', 'e', 's'] || l = ['y'] || l = ['o', 'n'] || l = ['t', 'r', 'u', 'e'] || l = ['1']

def ignoring (s : LocSection) : Bool :=
  match secGet' s ignoreParentsN with
  | some v => isTrueString v
  | none => false

/-- `_get_matching_sections`: `(length, section)` — the no-name section first -/
def matchingSections (noName : Option (List (Str × Str))) (secs : List PSec) (location : Str) :
    List (Nat × Str × LocSection) :=
  (match noName with
    | some o => [(0, [], (⟨none, o, location, []⟩ : LocSection))]
    | none => []) ++
  (iterByParts secs location).map fun m =>
    (m.2.2, m.1.id, (⟨some m.1.id, m.1.opts, m.2.1, urlBasename location⟩ : LocSection))

/-- the sorted candidates, most specific first -/
def sortedSections (noName : Option (List (Str × Str))) (secs : List PSec) (location : Str) : List LocSection :=
  ((matchingSections noName secs location).mergeSort keyGe).map (·.2.2)

/-- `LocationMatcher.get_sections` AS WRITTEN: the loop breaks BEFORE yielding a
section whose `ignore_parents` is true -/
def locationSections (noName : Option (List (Str × Str))) (secs : List PSec) (location : Str) : List LocSection :=
  (sortedSections noName secs location).takeWhile fun s => !ignoring s

/-- what the documentation (and the older `LocationConfig`) describe: the
ignoring section itself still counts, its parents do not -/
def cutAfterIgnoring : List LocSection → List LocSection
  | [] => []
  | s :: r => if ignoring s then [s] else s :: cutAfterIgnoring r

/-! ## `StartingPathMatcher` -/

def startingSections (noName : Option (List (Str × Str))) (secs : List PSec) (location : Str) : List LocSection :=
  (secs.reverse.filterMap fun s =>
    if s.id.isPrefixOf location || gmatch s.whole location then
      some (⟨some s.id, s.opts, extraPath (parts location) s.comps.length, []⟩ : LocSection)
    else none) ++
  (match noName with
    | some o => [(⟨none, o, location, []⟩ : LocSection)]
    | none => [])

/-! ## `Stack.get` for an unregistered option -/

inductive Res where
  | none
  | val (v : Str)
  | unmodelled          -- an option reference survives local expansion (stack-level expansion is not modelled)
  deriving DecidableEq, Repr

def hasRef (v : Str) : Bool := (scanRefs .idle v).any fun c => match c with | .ref _ => true | .text _ => false

/-- configobj `_unquote` as used by `IniFileStore.unquote` -/
def unquote (v : Str) : Str :=
  match v with
  | [] => []
  | c :: r =>
    if (c == '"' || c == '\'') && (c :: r).getLast? == some c then r.dropLast else v

def stackGet (secs : List LocSection) (name : Str) : Res :=
  match secs.findSome? (fun s => secGet' s name) with
  | Option.none => .none
  | some v => if hasRef v then .unmodelled else .val (unquote v)

/-! ## abstract store (round trip) -/

def setOpt (k v : Str) : List (Str × Str) → List (Str × Str)
  | [] => [(k, v)]
  | (a, w) :: r => if a = k then (a, v) :: r else (a, w) :: setOpt k v r

end BreezyVerif.C49
