import BreezyVerif.Model.C42
import BreezyVerif.Lemmas.C42D
/-!
C42 — theorems.  Every well-formed entry stream (any size, any depth, any
names that are non-empty and free of `/`), every selection, every root.
-/
namespace BreezyVerif.C42

/-- a sample tree: `a/` (with `a/in a`), its string-prefix sibling `ab`, a
symlink `x` next to a file `x.lnk`, a special path, an executable -/
def sampleTree : List CEnt :=
  [ ⟨[], .dir, [], false, []⟩,
    ⟨["a".toList], .dir, [], false, []⟩,
    ⟨["ab".toList], .file, [1], true, []⟩,
    ⟨[".bzrignore".toList], .file, [2], false, []⟩,
    ⟨["x".toList], .symlink, [], false, "a/in a".toList⟩,
    ⟨["x.lnk".toList], .file, [3], false, []⟩,
    ⟨["a".toList, "in a".toList], .file, [4], false, []⟩,
    ⟨["a".toList, "sub".toList], .dir, [], false, []⟩,
    ⟨["a".toList, "sub".toList, "deep".toList], .file, [5], true, []⟩ ]

example : WF sampleTree = true := by decide

/-- `"/".join` is injective on lists of non-empty, slash-free names -/
theorem pathStr_injective {p q : List Name} (hp : p.all goodName = true) (hq : q.all goodName = true)
    (h : pathStr p = pathStr q) : p = q := pathStr_inj hp hq h

/-- **Per entry**: the loop body of `_export_iter_entries` (string equality,
`startswith(subdir + "/")`, slicing) computes the component-level step, for
every entry and every selection with good names -/
theorem step_eq_spec (special : Str → Bool) (sub : Option (List Name)) (c : CEnt)
    (hs : ∀ s, sub = some s → s.all goodName = true ∧ s ≠ []) (hc : c.cpath.all goodName = true) :
    step special (sub.map pathStr) (render c) = (specStep special sub c).map renderItem := by
  cases sub with
  | none => exact step_none_eq special c hc
  | some s => exact step_some_eq special c (hs s rfl).1 (hs s rfl).2 hc

/-- **Exactness, selection given**: for every entry stream with good names and
every selected path `s` (written with any number of trailing slashes) the
string-level code yields, in stream order, exactly the entries properly below
`s` re-rooted at `s` — or `s` itself under its own name if it is not a
directory — minus the special paths -/
theorem export_exact (special : Str → Bool) (t : List CEnt) (s : List Name) (k : Nat)
    (ht : ∀ c ∈ t, c.cpath.all goodName = true) (hs : s.all goodName = true) (hne : s ≠ []) :
    exportIter special (some (pathStr s ++ List.replicate k '/')) (t.map render)
      = (exportSpec special (some s) t).map renderItem := by
  unfold exportIter exportSpec normSubdir
  have h0 : pathStr s ++ List.replicate k '/' ≠ [] := by
    intro e
    exact pathStr_ne_nil hs hne (List.append_eq_nil_iff.mp e).1
  simp only [h0, if_false, rstrip_pathStr hs hne k]
  rw [List.filterMap_map, List.map_filterMap]
  apply filterMap_congr'
  intro c hc
  simp only [Function.comp]
  exact step_some_eq special c hs hne (ht c hc)

example : (["a".toList] : List Name).all goodName = true ∧ (["a".toList] : List Name) ≠ [] := by decide

/-- **Exactness, whole tree**: without a selection (`None` or `""`) everything
but the root and the special paths is yielded under its own path -/
theorem export_whole_tree (special : Str → Bool) (t : List CEnt)
    (ht : ∀ c ∈ t, c.cpath.all goodName = true) (sub : Option Str) (hsub : sub = none ∨ sub = some []) :
    exportIter special sub (t.map render) = (exportSpec special none t).map renderItem := by
  have : normSubdir sub = none := by
    rcases hsub with rfl | rfl <;> simp [normSubdir]
  unfold exportIter exportSpec
  rw [this, List.filterMap_map, List.map_filterMap]
  apply filterMap_congr'
  intro c hc
  simp only [Function.comp]
  exact step_none_eq special c (ht c hc)

/-- a selection made of slashes only (`"/"`, `"//"`) exports nothing (it is
normalised to the empty text *after* the test for "no selection") -/
theorem export_slash_only_empty (special : Str → Bool) (t : List CEnt)
    (ht : ∀ c ∈ t, c.cpath.all goodName = true) (k : Nat) :
    exportIter special (some (List.replicate (k + 1) '/')) (t.map render) = [] := by
  unfold exportIter normSubdir
  have h0 : List.replicate (k + 1) '/' ≠ [] := by simp [List.replicate_succ]
  simp only [h0, if_false, rstrip_slashes]
  rw [List.filterMap_map, List.filterMap_eq_nil_iff]
  intro c hc
  simp only [Function.comp]
  exact step_slash_empty special c (ht c hc)

/-- **Member set**: what is exported for a selection `s`, spelled out -/
theorem export_members (special : Str → Bool) (t : List CEnt) (s : List Name) (i : SItem) :
    i ∈ exportSpec special (some s) t ↔
      ∃ c ∈ t, i.ent = c ∧ c.cpath ≠ [] ∧ special (pathStr c.cpath) = false ∧
        ((c.cpath = s ∧ c.kind ≠ .dir ∧ i.final = [lastName c.cpath]) ∨
         (c.cpath ≠ s ∧ below s c.cpath = true ∧ i.final = c.cpath.drop s.length)) := by
  unfold exportSpec
  rw [List.mem_filterMap]
  constructor
  · rintro ⟨c, hc, h⟩
    refine ⟨c, hc, ?_⟩
    unfold specStep at h
    split at h
    · cases h
    · rename_i h0
      split at h
      · cases h
      · rename_i hsp
        simp only at h
        split at h
        · rename_i heq
          split at h
          · cases h
          · rename_i hk
            cases h
            exact ⟨rfl, h0, by simpa using hsp, Or.inl ⟨heq, hk, rfl⟩⟩
        · rename_i hne
          split at h
          · rename_i hb
            cases h
            exact ⟨rfl, h0, by simpa using hsp, Or.inr ⟨hne, hb, rfl⟩⟩
          · cases h
  · rintro ⟨c, hc, he, h0, hsp, h⟩
    refine ⟨c, hc, ?_⟩
    unfold specStep
    rcases h with ⟨h1, h2, h3⟩ | ⟨h1, h2, h3⟩
    · simp only [h0, hsp, h1, h2, if_false, if_true, Bool.false_eq_true]
      cases i; simp_all
    · simp only [h0, hsp, h1, h2, if_false, if_true, Bool.false_eq_true]
      cases i; simp_all

/-- **No duplicates**: in a well-formed tree no two exported entries get the
same final path (the selected non-directory cannot clash with an entry below
it, because nothing lies below a non-directory) -/
theorem export_finals_nodup (special : Str → Bool) (sub : Option (List Name)) (t : List CEnt)
    (h : WF t = true) : ((exportSpec special sub t).map (·.final)).Nodup := by
  unfold exportSpec
  rw [List.map_filterMap]
  apply nodup_filterMap_on _ (·.cpath) t (WF_unpack h).2.1
  intro c hc c' hc' x h1 h2
  simp only [Option.map_eq_some_iff] at h1 h2
  obtain ⟨i, hi, hix⟩ := h1
  obtain ⟨i', hi', hix'⟩ := h2
  cases sub with
  | none =>
    unfold specStep at hi hi'
    split at hi
    · cases hi
    · split at hi
      · cases hi
      · split at hi'
        · cases hi'
        · split at hi'
          · cases hi'
          · simp only at hi hi'
            cases hi; cases hi'
            simp only at hix hix'
            rw [hix, hix']
  | some s =>
    have m := (export_members special t s i).mp (List.mem_filterMap.mpr ⟨c, hc, hi⟩)
    have m' := (export_members special t s i').mp (List.mem_filterMap.mpr ⟨c', hc', hi'⟩)
    -- the items determine their entries
    have e1 : i.ent = c := by
      unfold specStep at hi; split at hi; · cases hi
      split at hi; · cases hi
      simp only at hi
      split at hi
      · split at hi; · cases hi
        cases hi; rfl
      · split at hi
        · cases hi; rfl
        · cases hi
    have e2 : i'.ent = c' := by
      unfold specStep at hi'; split at hi'; · cases hi'
      split at hi'; · cases hi'
      simp only at hi'
      split at hi'
      · split at hi'; · cases hi'
        cases hi'; rfl
      · split at hi'
        · cases hi'; rfl
        · cases hi'
    obtain ⟨d, hd, hde, hd0, _, hcase⟩ := m
    obtain ⟨d', hd', hde', hd0', _, hcase'⟩ := m'
    have : d = c := by rw [← hde, e1]
    subst this
    have : d' = c' := by rw [← hde', e2]
    subst this
    rcases hcase with ⟨a1, a2, a3⟩ | ⟨a1, a2, a3⟩ <;> rcases hcase' with ⟨b1, b2, b3⟩ | ⟨b1, b2, b3⟩
    · rw [a1, b1]
    · -- `d` is the selected non-directory, `d'` lies below it: impossible
      have := nothing_below_nondir h hd a2 hd0 d'.cpath.length d' hd' (Nat.le_refl _)
      rw [a1] at this
      rw [this] at b2
      cases b2
    · have := nothing_below_nondir h hd' b2 hd0' d.cpath.length d hd (Nat.le_refl _)
      rw [b1] at this
      rw [this] at a2
      cases a2
    · obtain ⟨r, _, hr⟩ := below_iff.mp a2
      obtain ⟨r', _, hr'⟩ := below_iff.mp b2
      have f1 : r = r' := by
        have : i.final = i'.final := by rw [hix, hix']
        rw [a3, b3, hr, hr'] at this
        simpa using this
      rw [hr, hr', f1]

/-- every `startswith` test is closed under going down the tree -/
theorem specialOf_mono (pfx : Option Str) : Mono (specialOf pfx) := by
  intro p q hp hpq
  cases pfx with
  | none => cases hp
  | some x =>
    simp only [specialOf, List.isPrefixOf_iff_prefix] at hp ⊢
    exact List.IsPrefix.trans hp hpq

/-- **Directories first**: in a well-formed tree every exported entry that lies
deeper than the export root is preceded by its parent, exported as a directory
under the parent path — for every selection and every special-path test that
is a prefix test -/
theorem export_dirs_first (special : Str → Bool) (hm : Mono special) (sub : Option (List Name))
    (t : List CEnt) (h : WF t = true) :
    itemsParentsFirst [] (exportSpec special sub t) = true :=
  itemsParentsFirst_exportSpec hm sub t [] [] (WF_unpack h).2.2 (fun _ hd => by cases hd)

example : itemsParentsFirst [] (exportSpec (specialOf (some ".bzr".toList)) (some ["a".toList]) sampleTree) = true
    ∧ (exportSpec (specialOf (some ".bzr".toList)) (some ["a".toList]) sampleTree).length = 3 := by decide

/-- the observable attributes of an exported item -/
def SItem.view (i : SItem) : List Name × Kind × Bytes × Bool × Str :=
  (i.final, i.ent.kind, i.ent.content, i.ent.exec, i.ent.target)

/-- **A selected directory is its sub-tree**: exporting the selection `s` is
exporting the whole of the tree re-rooted at `s` (with the special-path test
still applied to the original paths), whenever `s` is not a non-directory -/
theorem subdir_is_subtree (special : Str → Bool) (t : List CEnt) (s : List Name) (hne : s ≠ [])
    (hd : ∀ c ∈ t, c.cpath = s → c.kind = .dir) :
    (exportSpec special (some s) t).map SItem.view
      = (exportSpec (fun p => special (pathStr s ++ '/' :: p)) none (subtree s t)).map SItem.view := by
  unfold exportSpec subtree
  rw [List.filterMap_filterMap, List.map_filterMap, List.map_filterMap]
  apply filterMap_congr'
  intro c hc
  unfold specStep
  by_cases hb : below s c.cpath = true
  · obtain ⟨r, hr, he⟩ := below_iff.mp hb
    have h0 : c.cpath ≠ [] := by rw [he]; simp [hne]
    have hcs : c.cpath ≠ s := by
      rw [he]; intro e
      have h1 := congrArg List.length e
      have : r.length > 0 := List.length_pos_iff.mpr hr
      rw [List.length_append] at h1
      omega
    have hdrop : c.cpath.drop s.length = r := by rw [he]; simp
    have hps : pathStr c.cpath = pathStr s ++ '/' :: pathStr r := by rw [he]; exact pathStr_append hne hr
    simp only [hb, h0, hcs, if_true, if_false, Option.bind, hdrop, hr, hps]
    split <;> simp [SItem.view]
  · simp only [hb, Bool.false_eq_true, if_false, Option.bind]
    by_cases h0 : c.cpath = []
    · simp [h0]
    · by_cases hsp : special (pathStr c.cpath) = true
      · simp [h0, hsp]
      · by_cases hcs : c.cpath = s
        · simp [h0, hsp, hcs, hd c hc hcs]
        · simp [h0, hsp, hcs]

/-- **A selected file (or symlink) is exported alone**, under its own name -/
theorem subdir_single_file (special : Str → Bool) (t : List CEnt) (h : WF t = true) (c : CEnt)
    (hc : c ∈ t) (hk : c.kind ≠ .dir) (h0 : c.cpath ≠ []) (hsp : special (pathStr c.cpath) = false)
    (i : SItem) :
    i ∈ exportSpec special (some c.cpath) t ↔ i = ⟨[lastName c.cpath], c⟩ := by
  rw [export_members]
  constructor
  · rintro ⟨d, hd, hde, _, _, hcase⟩
    rcases hcase with ⟨a1, _, a3⟩ | ⟨_, a2, _⟩
    · have : d = c := inj_of_nodup_map (·.cpath) t (WF_unpack h).2.1 d hd c hc a1
      subst this
      cases i
      simp_all
    · rw [nothing_below_nondir h hc hk h0 d.cpath.length d hd (Nat.le_refl _)] at a2
      cases a2
  · rintro rfl
    exact ⟨c, hc, rfl, h0, hsp, Or.inl ⟨rfl, hk, rfl⟩⟩

example : ∃ c ∈ sampleTree, c.kind ≠ .dir ∧ c.cpath = ["ab".toList] := by decide

/-- why the separator matters: `ab` starts with `a` as a string, but is not
below it -/
theorem prefix_sibling_witness :
    (pathStr ["a".toList]).isPrefixOf (pathStr ["ab".toList]) = true ∧
    below ["a".toList] ["ab".toList] = false ∧
    (exportIter (specialOf none) (some "a".toList) (sampleTree.map render)).map (·.final)
      = ["in a".toList, "sub".toList, "sub/deep".toList] := by decide

/-- why only the LEADING `subdir/` may be stripped: the selected directory's name
recurs deeper inside it, exactly (`lib/vendor/lib/util`) and as the end of a
longer name (`lib/mylib/mod`); the entries keep their place below the selection
(`export_exact` proves this for every tree; this is the concrete instance) -/
theorem recurring_name_witness :
    (exportIter (specialOf none) (some "lib".toList)
      (([ ⟨[], .dir, [], false, []⟩, ⟨["lib".toList], .dir, [], false, []⟩,
          ⟨["lib".toList, "mylib".toList], .dir, [], false, []⟩,
          ⟨["lib".toList, "vendor".toList], .dir, [], false, []⟩,
          ⟨["lib".toList, "mylib".toList, "mod".toList], .file, [1], false, []⟩,
          ⟨["lib".toList, "vendor".toList, "lib".toList], .dir, [], false, []⟩,
          ⟨["lib".toList, "vendor".toList, "lib".toList, "util".toList], .file, [2], false, []⟩ ] : List CEnt).map
        render)).map (·.final)
      = ["mylib".toList, "vendor".toList, "mylib/mod".toList, "vendor/lib".toList, "vendor/lib/util".toList] := by
  decide

/-- **Root**: the members of an archive exported with root `r` are the
members of the root-less archive with every name put under `r` -/
theorem root_prefix (filt : Filter) (root : Str) (its : List Item)
    (hrel : ∀ it ∈ its, it.final.head? ≠ some '/') :
    tarMembers filt root its
      = (tarMembers filt [] its).map (fun ms => ms.map fun m => { m with name := rootDir root ++ m.name }) := by
  unfold tarMembers
  induction its with
  | nil => rfl
  | cons it its ih =>
    have ih' := ih (fun x hx => hrel x (List.mem_cons_of_mem _ hx))
    have hp := hrel it List.mem_cons_self
    simp only [List.mapM_cons, bind, Except.bind, pure, Except.pure] at ih' ⊢
    have e1 : tarMember filt root it
        = (tarMember filt [] it).map fun m => { m with name := rootDir root ++ m.name } := by
      unfold tarMember
      simp only [pathjoin_eq root _ hp, pathjoin_eq [] _ hp, rootDir]
      cases it.ent.kind <;> simp [Except.map]
    rw [e1, ih']
    cases tarMember filt [] it with
    | error e => rfl
    | ok m =>
      simp only [Except.map]
      cases List.mapM (tarMember filt []) its <;> rfl

/-- every member name of a tar or zip export starts with the root directory -/
theorem root_prefix_under (filt : Filter) (root : Str) (its : List Item)
    (hrel : ∀ it ∈ its, it.final.head? ≠ some '/') :
    (∀ ms, tarMembers filt root its = .ok ms → ∀ m ∈ ms, rootDir root <+: m.name) ∧
    (∀ ke, ∀ m ∈ zipMembers ke filt root its, rootDir root <+: m.name) := by
  constructor
  · unfold tarMembers
    induction its with
    | nil => intro ms h m hm; cases h; cases hm
    | cons it its ih =>
      intro ms h m hm
      simp only [List.mapM_cons, bind, Except.bind, pure, Except.pure] at h
      cases h1 : tarMember filt root it with
      | error e => rw [h1] at h; cases h
      | ok m1 =>
        rw [h1] at h
        simp only at h
        cases h2 : List.mapM (tarMember filt root) its with
        | error e => rw [h2] at h; cases h
        | ok ms2 =>
          rw [h2] at h
          cases h
          rcases List.mem_cons.mp hm with rfl | hm'
          · unfold tarMember at h1
            rw [pathjoin_eq root _ (hrel it List.mem_cons_self)] at h1
            cases hk : it.ent.kind <;> rw [hk] at h1 <;> cases h1 <;> exact List.prefix_append _ _
          · exact ih (fun x hx => hrel x (List.mem_cons_of_mem _ hx)) ms2 h2 m hm'
  · intro ke m hm
    unfold zipMembers at hm
    obtain ⟨it, hit, h1⟩ := List.mem_filterMap.mp hm
    unfold zipMember at h1
    rw [pathjoin_eq root _ (hrel it hit)] at h1
    cases hk : it.ent.kind <;> rw [hk] at h1 <;> cases h1 <;>
      first | exact List.prefix_append _ _ | (rw [List.append_assoc]; exact List.prefix_append _ _)

/-- the directory exporter writes what a root-less tar export contains -/
theorem dir_eq_tar_rootless (filt : Filter) (its : List Item) (hrel : ∀ it ∈ its, it.final.head? ≠ some '/') :
    dirMembers filt its = tarMembers filt [] its := by
  unfold dirMembers tarMembers
  induction its with
  | nil => rfl
  | cons it its ih =>
    have e : dirMember filt it = tarMember filt [] it := by
      unfold dirMember tarMember
      rw [pathjoin_eq [] _ (hrel it List.mem_cons_self)]
      simp [rootDir]
    simp only [List.mapM_cons, e, ih (fun x hx => hrel x (List.mem_cons_of_mem _ hx))]

/-- the suffix the zip exporter appends to a member name -/
def zipSuffix : Kind → Str
  | .dir => ['/'] | .symlink => ".lnk".toList | _ => []

theorem zipMember_name (ke : Bool) (filt : Filter) (root : Str) (it : Item) (m : Member)
    (hp : it.final.head? ≠ some '/') (h : zipMember ke filt root it = some m) :
    m.name = rootDir root ++ (it.final ++ zipSuffix it.ent.kind) := by
  unfold zipMember at h
  rw [pathjoin_eq root _ hp] at h
  cases hk : it.ent.kind <;> rw [hk] at h <;> cases h <;> simp [zipSuffix]

/-- **zip member names are unique** provided no exported non-symlink is called
`<a symlink's path>.lnk` (the exporter stores symlinks as `<path>.lnk` text
members; see `zip_lnk_collision_witness` for what happens otherwise).  The
other hypotheses are discharged for every export of a well-formed tree in
`zip_export_names_nodup_partial` (via `finals_rel`, `export_finals_nodup`). -/
theorem zip_names_nodup_partial (ke : Bool) (filt : Filter) (root : Str) (its : List Item)
    (hnd : (its.map (·.final)).Nodup)
    (hrel : ∀ it ∈ its, it.final.head? ≠ some '/')
    (hend : ∀ it ∈ its, it.final.getLast? ≠ some '/')
    (hlnk : ∀ a ∈ its, ∀ b ∈ its, a.ent.kind = .symlink → b.ent.kind ≠ .symlink →
              b.final ≠ a.final ++ ".lnk".toList) :
    ((zipMembers ke filt root its).map (·.name)).Nodup := by
  unfold zipMembers
  rw [List.map_filterMap]
  apply nodup_filterMap_on _ (·.final) its hnd
  intro a ha a' ha' n h1 h2
  simp only [Option.map_eq_some_iff] at h1 h2
  obtain ⟨m, hm, hmn⟩ := h1
  obtain ⟨m', hm', hmn'⟩ := h2
  have e1 := zipMember_name ke filt root a m (hrel a ha) hm
  have e2 := zipMember_name ke filt root a' m' (hrel a' ha') hm'
  have e : a.final ++ zipSuffix a.ent.kind = a'.final ++ zipSuffix a'.ent.kind := by
    have : rootDir root ++ (a.final ++ zipSuffix a.ent.kind)
        = rootDir root ++ (a'.final ++ zipSuffix a'.ent.kind) := by rw [← e1, ← e2, hmn, hmn']
    exact List.append_cancel_left this
  have hlast : ∀ (l : Str) (c : Char), (l ++ [c]).getLast? = some c := by intro l c; simp
  have lnk : ∀ l : Str, l ++ ".lnk".toList = (l ++ ['.', 'l', 'n']) ++ ['k'] := by intro l; simp
  have ea := hend a ha
  have ea' := hend a' ha'
  cases hk : a.ent.kind <;> cases hk' : a'.ent.kind <;> rw [hk, hk'] at e <;>
    simp only [zipSuffix, List.append_nil] at e
  all_goals first
    | exact e
    | exact List.append_cancel_right e
    | (exfalso; rw [e] at ea; exact ea (hlast _ _))
    | (exfalso; rw [← e] at ea'; exact ea' (hlast _ _))
    | (exfalso; exact hlnk a' ha' a ha hk' (by rw [hk]; decide) e)
    | (exfalso; exact hlnk a ha a' ha' hk (by rw [hk']; decide) e.symm)
    | (exfalso; have := congrArg List.getLast? e; rw [lnk, hlast, hlast] at this; cases this)
    | (exfalso; unfold zipMember at hm; rw [hk] at hm; cases hm)
    | (exfalso; unfold zipMember at hm'; rw [hk'] at hm'; cases hm')

/-! ### end to end: entry stream → archive members -/

/-- **Shape of final paths**: for every stream of good names, every selection
and every special test, no final path starts or ends with `/` (this discharges
the `hrel` / `hend` hypotheses of `root_prefix`, `root_prefix_under`,
`dir_eq_tar_rootless` and `zip_names_nodup_partial`) -/
theorem finals_rel (special : Str → Bool) (sub : Option (List Name)) (t : List CEnt)
    (ht : ∀ c ∈ t, c.cpath.all goodName = true) :
    ∀ it ∈ (exportSpec special sub t).map renderItem,
      it.final.head? ≠ some '/' ∧ it.final.getLast? ≠ some '/' := by
  intro it hit
  obtain ⟨i, hi, rfl⟩ := List.mem_map.mp hit
  have g := (exportSpec_final_good ht hi).1
  exact ⟨pathStr_head_ne_slash g, pathStr_getLast_ne_slash g⟩

/-- the string-level iteration computes the specification for every `subdir`
argument that denotes a selection (`None`, `""`, or a path with any number of
trailing slashes) — `export_exact` and `export_whole_tree` in one statement -/
theorem export_iter_eq_spec (special : Str → Bool) (t : List CEnt)
    (ht : ∀ c ∈ t, c.cpath.all goodName = true) {subStr : Option Str} {sub : Option (List Name)}
    (hd : Denotes subStr sub) :
    exportIter special subStr (t.map render) = (exportSpec special sub t).map renderItem := by
  cases hd with
  | none => exact export_whole_tree special t ht none (Or.inl rfl)
  | empty => exact export_whole_tree special t ht (some []) (Or.inr rfl)
  | path s k hs hne => exact export_exact special t s k ht hs hne

example : Denotes (some "a//".toList) (some ["a".toList]) := Denotes.path ["a".toList] 2 (by decide) (by decide)

/-- **tar, end to end**: for every well-formed tree, every denoted selection,
every root, every filter and every special test, the ordered member list of the
tar exporter is the specification's items, each named
`rootDir root ++ "/".join(final)` and carrying the tree entry's kind, (filtered)
content, executable bit and link target.  No hypothesis beyond `WF`. -/
theorem tar_export_exact (special : Str → Bool) (filt : Filter) (root : Str) (t : List CEnt)
    (h : WF t = true) {subStr : Option Str} {sub : Option (List Name)} (hd : Denotes subStr sub) :
    tarMembers filt root (exportIter special subStr (t.map render))
      = (exportSpec special sub t).mapM (specTar filt root) := by
  have ht := (WF_unpack h).1
  rw [export_iter_eq_spec special t ht hd]
  unfold tarMembers
  apply mapM_map_congr
  intro i hi
  exact tarMember_renderItem filt root i (exportSpec_final_good ht hi).1

/-- **directory, end to end**: the directory exporter writes the specification's
items under their final paths (the root option is not used) -/
theorem dir_export_exact (special : Str → Bool) (filt : Filter) (t : List CEnt)
    (h : WF t = true) {subStr : Option Str} {sub : Option (List Name)} (hd : Denotes subStr sub) :
    dirMembers filt (exportIter special subStr (t.map render))
      = (exportSpec special sub t).mapM (specTar filt []) := by
  have ht := (WF_unpack h).1
  rw [export_iter_eq_spec special t ht hd]
  unfold dirMembers
  apply mapM_map_congr
  intro i _
  exact dirMember_renderItem filt i

/-- **zip, end to end**: the ordered member list of the zip exporter is the
specification's items as `specZip` names them (directories `…/`, symlinks
`….lnk` text members) -/
theorem zip_export_exact (special : Str → Bool) (ke : Bool) (filt : Filter) (root : Str) (t : List CEnt)
    (h : WF t = true) {subStr : Option Str} {sub : Option (List Name)} (hd : Denotes subStr sub) :
    zipMembers ke filt root (exportIter special subStr (t.map render))
      = (exportSpec special sub t).filterMap (specZip ke filt root) := by
  have ht := (WF_unpack h).1
  rw [export_iter_eq_spec special t ht hd]
  unfold zipMembers
  rw [List.filterMap_map]
  apply filterMap_congr'
  intro i hi
  exact zipMember_renderItem ke filt root i (exportSpec_final_good ht hi).1

example : (tarMembers (fun _ c => c) "r".toList
    (exportIter (specialOf (some ".bzr".toList)) (some "a/".toList) (sampleTree.map render))).toOption
    = some [⟨"r/in a".toList, .file, [4], false, []⟩, ⟨"r/sub".toList, .dir, [], false, []⟩,
           ⟨"r/sub/deep".toList, .file, [5], true, []⟩] := by decide

/-- `root_prefix` and `dir_eq_tar_rootless` for every export of a stream of good
names, with their hypothesis discharged by `finals_rel`: the archive with root
`r` is the root-less archive with every name put under `r`, and the directory
exporter writes what the root-less tar export contains -/
theorem root_prefix_export (special : Str → Bool) (filt : Filter) (root : Str) (t : List CEnt)
    (ht : ∀ c ∈ t, c.cpath.all goodName = true) {subStr : Option Str} {sub : Option (List Name)}
    (hd : Denotes subStr sub) :
    let its := exportIter special subStr (t.map render)
    tarMembers filt root its
        = (tarMembers filt [] its).map (fun ms => ms.map fun m => { m with name := rootDir root ++ m.name })
      ∧ dirMembers filt its = tarMembers filt [] its := by
  simp only
  rw [export_iter_eq_spec special t ht hd]
  have hf := finals_rel special sub t ht
  exact ⟨root_prefix filt root _ (fun it hit => (hf it hit).1),
         dir_eq_tar_rootless filt _ (fun it hit => (hf it hit).1)⟩

/-- **tar / directory member names are unique** for every well-formed tree,
selection and root (no side condition, unlike zip) -/
theorem tar_export_names_nodup (special : Str → Bool) (filt : Filter) (root : Str) (t : List CEnt)
    (h : WF t = true) {subStr : Option Str} {sub : Option (List Name)} (hd : Denotes subStr sub)
    (ms : List Member) (hok : tarMembers filt root (exportIter special subStr (t.map render)) = .ok ms) :
    (ms.map (·.name)).Nodup := by
  rw [tar_export_exact special filt root t h hd] at hok
  rw [mapM_specTar_names filt root _ ms hok]
  exact names_nodup root _ (fun i hi => (exportSpec_final_good (WF_unpack h).1 hi).1)
    (export_finals_nodup special sub t h)

/-- **zip member names are unique** for every export of a well-formed tree,
provided no exported non-symlink is called `<an exported symlink's path>.lnk`
(the only remaining hypothesis; `zip_lnk_collision_witness` shows it is needed) -/
theorem zip_export_names_nodup_partial (special : Str → Bool) (ke : Bool) (filt : Filter) (root : Str)
    (t : List CEnt) (h : WF t = true) {subStr : Option Str} {sub : Option (List Name)}
    (hd : Denotes subStr sub)
    (hlnk : ∀ a ∈ exportSpec special sub t, ∀ b ∈ exportSpec special sub t,
              a.ent.kind = .symlink → b.ent.kind ≠ .symlink →
              pathStr b.final ≠ pathStr a.final ++ ".lnk".toList) :
    ((zipMembers ke filt root (exportIter special subStr (t.map render))).map (·.name)).Nodup := by
  have ht := (WF_unpack h).1
  rw [export_iter_eq_spec special t ht hd]
  have hf := finals_rel special sub t ht
  apply zip_names_nodup_partial ke filt root _ _ (fun it hit => (hf it hit).1) (fun it hit => (hf it hit).2)
  · intro a ha b hb hka hkb
    obtain ⟨i, hi, rfl⟩ := List.mem_map.mp ha
    obtain ⟨j, hj, rfl⟩ := List.mem_map.mp hb
    exact hlnk i hi j hj hka hkb
  · rw [List.map_map]
    have : (fun x => x.final) ∘ renderItem = fun i : SItem => [] ++ pathStr i.final := by
      funext i; rfl
    rw [this]
    have := names_nodup [] _ (fun i hi => (exportSpec_final_good ht hi).1) (export_finals_nodup special sub t h)
    simpa [rootDir] using this

example : ∀ a ∈ exportSpec (specialOf none) (some ["a".toList]) sampleTree,
    ∀ b ∈ exportSpec (specialOf none) (some ["a".toList]) sampleTree,
      a.ent.kind = .symlink → b.ent.kind ≠ .symlink → pathStr b.final ≠ pathStr a.final ++ ".lnk".toList := by
  decide

/-! ### selections that denote nothing -/

/-- **Only paths select**: if a non-empty `subdir` argument makes the iteration
yield anything, then — after `rstrip("/")` — it is the `/`-join of a non-empty
component prefix of some entry's path.  Consequently `/a`, `a//b`, `./a`,
`a/.`, `no/such` export nothing (next two theorems). -/
theorem export_nonempty_selection_is_path (special : Str → Bool) (t : List CEnt) (s : Str)
    (ht : ∀ c ∈ t, c.cpath.all goodName = true) (hs : s ≠ [])
    (h : exportIter special (some s) (t.map render) ≠ []) :
    ∃ c ∈ t, ∃ p, p ≠ [] ∧ p <+: c.cpath ∧ pathStr p = rstripSlash s := by
  unfold exportIter normSubdir at h
  simp only [hs, if_false] at h
  rw [List.filterMap_map] at h
  obtain ⟨it, hit⟩ := List.exists_mem_of_ne_nil _ h
  obtain ⟨c, hc, hci⟩ := List.mem_filterMap.mp hit
  exact ⟨c, hc, step_some_is_path (ht c hc) hci⟩

/-- a selection with an empty component (`/a`, `a//b`, `//`, …) exports nothing -/
theorem export_selection_empty_component (special : Str → Bool) (t : List CEnt) (s : Str)
    (ht : ∀ c ∈ t, c.cpath.all goodName = true) (hs : s ≠ [])
    (he : [] ∈ splitSlash (rstripSlash s)) :
    exportIter special (some s) (t.map render) = [] := by
  apply Classical.byContradiction
  intro hne
  obtain ⟨c, hc, p, hp0, hpc, hps⟩ := export_nonempty_selection_is_path special t s ht hs hne
  have hg := prefix_all_good (ht c hc) hpc
  rw [← hps, splitSlash_pathStr hg hp0] at he
  have := (List.all_eq_true.mp hg) [] he
  simp [goodName] at this

example : ([] : Str) ∈ splitSlash (rstripSlash "/a".toList) ∧ ([] : Str) ∈ splitSlash (rstripSlash "a//b/".toList) := by
  decide

/-- a selection of good names that is not a component prefix of any entry's
path (`no/such`, `./a`, `a/.`) exports nothing -/
theorem export_selection_not_in_tree (special : Str → Bool) (t : List CEnt) (s : List Name) (k : Nat)
    (ht : ∀ c ∈ t, c.cpath.all goodName = true) (hs : s.all goodName = true) (hne : s ≠ [])
    (hno : ∀ c ∈ t, ¬ s <+: c.cpath) :
    exportIter special (some (pathStr s ++ List.replicate k '/')) (t.map render) = [] := by
  apply Classical.byContradiction
  intro h
  have h0 : pathStr s ++ List.replicate k '/' ≠ [] := by
    intro e
    exact pathStr_ne_nil hs hne (List.append_eq_nil_iff.mp e).1
  obtain ⟨c, hc, p, _, hpc, hps⟩ := export_nonempty_selection_is_path special t _ ht h0 h
  rw [rstrip_pathStr hs hne k] at hps
  have := pathStr_inj (prefix_all_good (ht c hc) hpc) hs hps
  exact hno c hc (this ▸ hpc)

example : ∀ c ∈ sampleTree, ¬ ([".".toList, "a".toList] : List Name) <+: c.cpath := by decide

/-! ### `get_root_name` -/

/-- **Root name**: for every registered extension `ext`, every directory part
and every slash-free stem `b` (even one that itself ends in an extension),
`get_root_name(d/b.ext) = b`: exactly one extension is stripped (no registered
extension is a suffix of another, so the first match is the only match) -/
theorem rootName_strips_ext (ext : Str) (he : ext ∈ extensions) (b : Str) (hb : '/' ∉ b) (d : Str) :
    rootName (d ++ '/' :: (b ++ ext)) = b ∧ rootName (b ++ ext) = b := by
  obtain ⟨hes, hel⟩ := ext_noslash ext he
  have hbe : '/' ∉ b ++ ext := by
    intro m
    rcases List.mem_append.mp m with m | m
    · exact hb m
    · exact hes m
  have hfind : extensions.find? (endsWith (b ++ ext)) = some ext := by
    apply find?_unique _ ext extensions he (endsWith_iff.mpr (List.suffix_append _ _))
    intro y hy hyb
    have h1 : y <:+ b ++ ext := endsWith_iff.mp hyb
    have h2 : ext <:+ b ++ ext := List.suffix_append _ _
    rcases List.suffix_or_suffix_of_suffix h1 h2 with h3 | h3
    · exact (ext_suffix_free ext he y hy (endsWith_iff.mpr h3)).symm
    · exact ext_suffix_free y hy ext he (endsWith_iff.mpr h3)
  have htake : (b ++ ext).take ((b ++ ext).length - ext.length) = b := by
    apply List.take_left'
    simp
  constructor
  · unfold rootName
    have : d ++ '/' :: (b ++ ext) ≠ ['-'] := by
      intro e
      have : '/' ∈ ['-'] := by rw [← e]; simp
      simp at this
    simp only [this, if_false, basename_append d hbe, hfind, htake]
  · unfold rootName
    have : b ++ ext ≠ ['-'] := by
      intro e
      have := congrArg List.length e
      simp at this
      omega
    simp only [this, if_false, basename_noslash hbe, hfind, htake]

example : ".tar.gz".toList ∈ extensions ∧ '/' ∉ "x.tar".toList := by decide

/-- a destination whose basename ends in no registered extension is its own root name -/
theorem rootName_no_ext (dest : Str) (hd : dest ≠ ['-'])
    (hno : ∀ ext ∈ extensions, endsWith (basename dest) ext = false) :
    rootName dest = basename dest := by
  unfold rootName
  have : extensions.find? (endsWith (basename dest)) = none := by
    rw [List.find?_eq_none]
    intro x hx
    rw [hno x hx]
    simp
  simp only [hd, if_false, this]

example : ∀ ext ∈ extensions, endsWith (basename "d/a.tar.gz.old".toList) ext = false := by decide

/-- **Witness** (`.tar.gz` is tried as a whole, not `.gz` after `.tar`):
`a.tar.gz` has root `a`, `a.tgz.tgz` has root `a.tgz`, `.tar` has the empty root -/
theorem rootName_witness :
    rootName "d/a.tar.gz".toList = "a".toList ∧ rootName "a.tgz.tgz".toList = "a.tgz".toList ∧
    rootName ".tar".toList = [] ∧ rootName "-".toList = [] := by decide

/-- **Witness**: a well-formed tree holding a symlink `x` and a file `x.lnk`
is exported to a zip file with two members called `x.lnk` -/
theorem zip_lnk_collision_witness :
    WF sampleTree = true ∧
    ((zipMembers false (fun _ c => c) [] (exportIter (specialOf none) none (sampleTree.map render))).map
        (·.name)).count "x.lnk".toList = 2 := by decide

/-- **Witness**: the zip exporter as found loses the executable bit (`ab` is
executable in the sample tree) -/
theorem zip_exec_dropped_witness :
    (sampleTree.any fun c => c.cpath == ["ab".toList] && c.exec) = true ∧
    ((zipMembers false (fun _ c => c) [] (exportIter (specialOf none) none (sampleTree.map render))).any
        fun m => m.name == "ab".toList && !m.exec) = true := by decide

/-- the zip exporter that records the mode keeps the executable bit of every file -/
theorem zip_exec_kept (filt : Filter) (root : Str) (it : Item) (m : Member) (hk : it.ent.kind = .file)
    (h : zipMember true filt root it = some m) : m.exec = it.ent.exec ∧ m.content = filt it.ent.path it.ent.content := by
  unfold zipMember at h
  rw [hk] at h
  cases h
  simp

end BreezyVerif.C42
