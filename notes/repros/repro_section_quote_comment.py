"""C36 family parent-config-section-quote-comment: set_parent on a branch whose name has a '"' followed by '#' or ';'
(e.g. q"#x, a legal git branch name) writes the header [branch "q\"#x"]; dulwich's _strip_comments does not know
about \" and cuts the line at '#': the configuration file can no longer be parsed at all.  Exit 1 when that happens."""
import os, sys
sys.path.insert(0, os.path.dirname(os.path.abspath(__file__)))
from _boot import git_tree, ControlDir
wt = git_tree()
g = wt.branch.repository._git
g.refs[b'refs/heads/q"#x'] = g.refs[b"refs/heads/master"]
br = ControlDir.open(wt.basedir).open_branch(name='q"#x')
br.set_parent("https://h/r,branch=foo")
print(open(os.path.join(wt.basedir, ".git", "config")).read())
try:
    print("get_parent() =", ControlDir.open(wt.basedir).open_branch(name='q"#x').get_parent())
except Exception as e:
    print("get_parent() raises %s: %s" % (type(e).__name__, e))
    sys.exit(1)
