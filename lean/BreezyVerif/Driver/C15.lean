import BreezyVerif.Common
import BreezyVerif.Model.C15
/-
Line protocol of C15 (fields separated by one space):

  shelve <v> <ids> <B> <W> <SEL> <REC> <MISS>
      v    four letters T/F: keepExec, freshExec, pathCheck, closedCheck
      ids  comma list of file ids (naturals)
      B W  trees: entries `id:parent|~:name:kind(f|d|l):exec(T|F):chunks(c.c.c|-)` joined by `;` (`-` = empty)
      SEL  `id:whole:rename:content:kept` joined by `;`, content = n | w | h<bits 0/1>  (`-` = nothing selected)
      REC  comma list of the ids whose recorded executable bit is set in the working tree after shelving
      MISS comma list of the ids that are versioned in W but missing from disk (absent in W)
    -> `E:Malformed`  |  `E:Reoccupied`  |  `E:Unclosed`  |  `E:ResolveCrash`  |  `ok <closed T|F> <W'> <S> <U | ?> <conflicts> <M1> <M2>`
       U = `?` when the stored tree is not a tree (unshelveTree = none); M1 / M2 = ids missing after shelve / unshelve
  mgrc <id:payload,...> <ops n<p> | d<k>>  -> the shelves (id:payload) after the ops
  names <name,name,...>            -> active shelf ids parsed from a directory listing (`-` = none)
  mgr <active ids> <ops n | d<k>>  -> per op the new id / `ok` / `E`, then `|` and the final active list
-/
namespace BreezyVerif.C15

def parseKind (s : String) : Option Kind :=
  if s == "f" then some .file else if s == "d" then some .dir else if s == "l" then some .symlink else none

def showKind : Kind → String
  | .file => "f" | .dir => "d" | .symlink => "l"

def parseChunks (s : String) : Option (List Nat) :=
  if s == "-" then some [] else (s.splitOn ".").mapM String.toNat?

def showChunks (l : List Nat) : String :=
  if l.isEmpty then "-" else ".".intercalate (l.map toString)

def parseEntry (s : String) : Option (Id × Entry) :=
  match s.splitOn ":" with
  | [i, p, n, k, x, c] => do
    let i ← i.toNat?
    let p ← optNat p
    let n ← n.toNat?
    let k ← parseKind k
    let x ← parseBool x
    let c ← parseChunks c
    pure (i, ⟨p, n, k, c, x⟩)
  | _ => none

def parseTree (s : String) : Option (List (Id × Entry)) :=
  if s == "-" then some [] else (s.splitOn ";").mapM parseEntry

def treeOf (l : List (Id × Entry)) : Tree := fun i => (l.find? fun e => e.1 == i).map (·.2)

def showEntry (i : Id) (e : Entry) : String :=
  s!"{i}:{showOptNat e.parent}:{e.name}:{showKind e.kind}:{showBool e.exec}:{showChunks e.content}"

def showTree (ids : List Id) (t : Tree) : String :=
  let l := ids.filterMap fun i => (t i).map (showEntry i)
  if l.isEmpty then "-" else ";".intercalate l

def parseBits (cs : List Char) : Option (List Bool) :=
  cs.mapM fun c => if c == '1' then some true else if c == '0' then some false else none

def parseCSel (s : String) : Option CSel :=
  if s == "n" then some .none else if s == "w" then some .whole else
  match s.toList with
  | 'h' :: rest => (parseBits rest).map .chunks
  | _ => none

def parseSelEntry (s : String) : Option (Id × Sel) :=
  match s.splitOn ":" with
  | [i, w, r, c, k] => do
    let i ← i.toNat?
    let w ← parseBool w
    let r ← parseBool r
    let c ← parseCSel c
    let k ← parseBool k
    pure (i, ⟨w, r, c, k⟩)
  | _ => none

def parseSel (s : String) : Option (List (Id × Sel)) :=
  if s == "-" then some [] else (s.splitOn ";").mapM parseSelEntry

def selOf (l : List (Id × Sel)) : TSel := fun i =>
  match l.find? fun e => e.1 == i with
  | some e => e.2
  | none => Sel.nothing

def parseVariant (s : String) : Option Variant :=
  match s.toList with
  | [a, b, c, d] => do
    let a ← parseBool (String.singleton a)
    let b ← parseBool (String.singleton b)
    let c ← parseBool (String.singleton c)
    let d ← parseBool (String.singleton d)
    pure ⟨a, b, c, d⟩
  | _ => none

/-- hunk selections must fit the two texts (what the UI can offer) -/
def selShapeOk (ids : List Id) (s : TSel) (b w : Tree) : Bool :=
  ids.all fun i => match b i, w i with
    | some be, some we => (s i).content.shapeOk be we
    | _, _ => match (s i).content with | .chunks _ => false | _ => true

def showOp (active : List Nat) : Mgr.Op → String
  | .new => toString (Mgr.nextId active)
  | .delete k => if k ∈ active then "ok" else "E"

def mgrTrace : List Nat → List Mgr.Op → List String
  | _, [] => []
  | a, op :: ops => showOp a op :: mgrTrace (match Mgr.step a op with | some a' => a' | none => a) ops

def parseOp (s : String) : Option Mgr.Op :=
  if s == "n" then some .new else
  match s.toList with
  | 'd' :: rest => (String.ofList rest).toNat?.map .delete
  | _ => none

def parseOpC (s : String) : Option Mgr.OpC :=
  match s.toList with
  | 'n' :: rest => (String.ofList rest).toNat?.map .new
  | 'd' :: rest => (String.ofList rest).toNat?.map .delete
  | _ => none

def parseShelf (s : String) : Option (Nat × Nat) :=
  match s.splitOn ":" with
  | [i, p] => do pure ((← i.toNat?), (← p.toNat?))
  | _ => none

def showIds (ids : List Id) (f : Id → Bool) : String := joinList ((ids.filter f).map toString)

def handle : List String → String
  | ["shelve", v, ids, b, w, sel, rec, miss] =>
    match parseVariant v, parseNatList ids, parseTree b, parseTree w, parseSel sel, parseNatList rec,
        parseNatList miss with
    | some v, some ids, some b, some w, some sel, some rec, some miss =>
      let bt := treeOf b
      let wt := treeOf w
      let s := selOf sel
      if !selShapeOk ids s bt wt then "bad-op" else
      match shelve v ids s bt wt with
      | .error .malformed => "E:Malformed"
      | .error .reoccupied => "E:Reoccupied"
      | .error .unclosed => "E:Unclosed"
      | .error .resolveCrash => "E:ResolveCrash"
      | .ok (w', st) =>
        let recf : Id → Bool := fun i => rec.contains i
        let missf : Id → Bool := fun i => miss.contains i
        let u := match unshelveTree v ids bt w' recf st with
          | some u => showTree ids u
          | none => "?"
        let nconf := (ids.map fun i => (conflictsAt v bt w' recf st i).length).foldl (· + ·) 0
        let m1 := shelveMissing s missf
        s!"ok {showBool (closed v ids s bt wt)} {showTree ids w'} {showTree ids st} {u} {nconf} {showIds ids m1} {showIds ids (unshelveMissing bt st m1)}"
    | _, _, _, _, _, _, _ => "bad-op"
  | ["names", ns] => joinList ((Mgr.activeOfNames (splitList ns)).map toString)
  | ["mgr", a, ops] =>
    match parseNatList a, (splitList ops).mapM parseOp with
    | some a, some ops =>
      " ".intercalate (mgrTrace a ops) ++ " | " ++ joinList ((Mgr.run a ops).map toString)
    | _, _ => "bad-op"
  | ["mgrc", a, ops] =>
    match (splitList a).mapM parseShelf, (splitList ops).mapM parseOpC with
    | some a, some ops => joinList ((Mgr.runC a ops).map fun e => s!"{e.1}:{e.2}")
    | _, _ => "bad-op"
  | _ => "bad-op"

end BreezyVerif.C15

def main : IO Unit := BreezyVerif.runDriver BreezyVerif.C15.handle
