import BreezyVerif.Model.C36
import BreezyVerif.Lemmas.C36Utf8
/-! C36 — lemmas about percent-encoding and segment parameters. -/
namespace BreezyVerif.C36

/-! ### percent-encoding -/

theorem hexValN_hexU (n : Nat) (h : n < 16) : hexValN (hexU n) = some n := by
  unfold hexU hexValN
  split
  · rw [if_pos (by omega)]; congr 1; omega
  · rw [if_neg (by omega), if_pos (by omega)]; congr 1; omega

theorem isSafe_lt {b : Nat} (h : isSafe b = true) : b < 128 ∧ b ≠ 37 ∧ isWs b = false ∧ b ≠ 44 ∧ b ≠ 47 ∧ b ≠ 61 := by
  simp only [isSafe, isAlnum, Bool.or_eq_true, Bool.and_eq_true, decide_eq_true_eq] at h
  simp only [isWs, Bool.or_eq_false_iff, Bool.and_eq_false_iff, decide_eq_false_iff_not]
  omega

theorem hexU_props (n : Nat) (h : n < 16) :
    hexU n < 128 ∧ isWs (hexU n) = false ∧ hexU n ≠ 44 ∧ hexU n ≠ 47 ∧ hexU n ≠ 61 := by
  unfold hexU
  simp only [isWs, Bool.or_eq_false_iff, Bool.and_eq_false_iff, decide_eq_false_iff_not]
  split <;> omega

theorem pctDecode_cons_ne (b : Nat) (l : Str) (h : b ≠ 37) : pctDecode (b :: l) = b :: pctDecode l := by
  match l with
  | [] => simp [pctDecode]
  | [x] => simp [pctDecode]
  | x :: y :: l' => rw [pctDecode]; simp [h]

theorem pctDecode_pct (x y : Nat) (hx : x < 16) (hy : y < 16) (l : Str) :
    pctDecode (37 :: hexU x :: hexU y :: l) = (x * 16 + y) :: pctDecode l := by
  rw [pctDecode]; simp [hexValN_hexU, hx, hy]

/-- `unquote_to_bytes(quote_from_bytes(b)) == b` -/
theorem pctDecode_pctEncode (extra : List Nat) (he : ∀ e ∈ extra, e ≠ 37) (bs : NBytes) (hb : isBytes bs = true) :
    pctDecode (pctEncode extra bs) = bs := by
  induction bs with
  | nil => simp [pctEncode, pctDecode]
  | cons b bs ih =>
    have hb' := isBytes_cons.mp hb
    have hcons : pctEncode extra (b :: bs) =
        (if isSafe b || extra.contains b then [b] else [37, hexU (b / 16), hexU (b % 16)]) ++ pctEncode extra bs := by
      simp [pctEncode]
    rw [hcons]
    split
    · rename_i hs
      have hne : b ≠ 37 := by
        simp only [Bool.or_eq_true] at hs
        rcases hs with hs | hs
        · exact (isSafe_lt hs).2.1
        · simp only [List.contains_iff_mem] at hs
          exact he b hs
      simp only [List.cons_append, List.nil_append]
      rw [pctDecode_cons_ne b _ hne, ih hb'.2]
    · simp only [List.cons_append, List.nil_append]
      rw [pctDecode_pct _ _ (by omega) (by omega), ih hb'.2]
      congr 1; omega

/-- every character `pctEncode []` produces is ASCII, not whitespace and none of `, / =` -/
theorem pctEncode_chars (bs : NBytes) (hb : isBytes bs = true) :
    ∀ c ∈ pctEncode [] bs, c < 128 ∧ isWs c = false ∧ c ≠ 44 ∧ c ≠ 47 ∧ c ≠ 61 := by
  induction bs with
  | nil => simp [pctEncode]
  | cons b bs ih =>
    have hb' := isBytes_cons.mp hb
    intro c hc
    simp only [pctEncode, List.flatMap_cons, List.mem_append] at hc
    rcases hc with hc | hc
    · split at hc
      · rename_i hs
        simp only [List.contains_nil, Bool.or_false] at hs
        simp only [List.mem_singleton] at hc
        subst hc
        have := isSafe_lt hs
        exact ⟨this.1, this.2.2.1, this.2.2.2.1, this.2.2.2.2.1, this.2.2.2.2.2⟩
      · simp only [List.mem_cons, List.not_mem_nil, or_false] at hc
        rcases hc with rfl | rfl | rfl
        · simp [isWs]
        · exact hexU_props _ (by omega)
        · exact hexU_props _ (by omega)
    · exact ih hb'.2 c (by simpa [pctEncode] using hc)

theorem all_lt_of_forall {l : List Nat} {n : Nat} (h : ∀ c ∈ l, c < n) : l.all (· < n) = true := by
  simp only [List.all_eq_true, decide_eq_true_eq]; exact h

/-- `unescape(escape(name)) == name` -/
theorem unescapeStr_escapeStr {name e : Str} (h : escapeStr name = some e) : unescapeStr e = .ok name := by
  unfold escapeStr at h
  cases hb : encodeUtf8 false name with
  | none => simp [hb] at h
  | some bs =>
    simp only [hb, Option.map_some, Option.some.injEq] at h
    subst h
    have hbytes := encodeUtf8_isBytes hb
    unfold unescapeStr
    rw [if_pos (all_lt_of_forall fun c hc => (pctEncode_chars bs hbytes c hc).1)]
    rw [pctDecode_pctEncode [] (by simp) bs hbytes, decodeStrict_encode hb]

/-! ### list helpers -/

theorem splitOnFirst_append' (c : Nat) (a b : List Nat) (h : c ∉ a) :
    splitOnFirst c (a ++ c :: b) = some (a, b) := by
  induction a with
  | nil => simp [splitOnFirst]
  | cons x xs ih =>
    simp only [List.mem_cons, not_or] at h
    have hx : x ≠ c := fun e => h.1 e.symm
    simp [splitOnFirst, hx, ih h.2]

theorem splitLastSlash_join (l : List Nat) : (splitLastSlash l).1 ++ (splitLastSlash l).2 = l := by
  induction l with
  | nil => simp [splitLastSlash]
  | cons c r ih =>
    rw [splitLastSlash]
    split
    · simp [ih]
    · split
      · rename_i h; subst h; simp
      · simp

theorem splitLastSlash_append (l suf : List Nat) (h : 47 ∉ suf) :
    splitLastSlash (l ++ suf) = ((splitLastSlash l).1, (splitLastSlash l).2 ++ suf) := by
  induction l with
  | nil =>
    simp only [List.nil_append, splitLastSlash]
    cases suf with
    | nil => simp [splitLastSlash]
    | cons s ss =>
      simp only [List.mem_cons, not_or] at h
      rw [splitLastSlash]
      have h2 : s ≠ 47 := fun e => h.1 e.symm
      simp [h.2, h2]
  | cons c r ih =>
    simp only [List.cons_append]
    rw [splitLastSlash, splitLastSlash]
    have hcont : (r ++ suf).contains 47 = r.contains 47 := by
      by_cases hr : 47 ∈ r <;> simp [hr, h]
    rw [hcont]
    split
    · simp [ih]
    · split <;> simp

theorem splitOnAll_no (c : Nat) (l : List Nat) (h : c ∉ l) : splitOnAll c l = [l] := by
  induction l with
  | nil => simp [splitOnAll]
  | cons x xs ih =>
    simp only [List.mem_cons, not_or] at h
    have hx : x ≠ c := fun e => h.1 e.symm
    rw [splitOnAll]; simp [hx, ih h.2]

theorem splitOnAll_append (c : Nat) (a b : List Nat) (ha : c ∉ a) (hb : c ∉ b) :
    splitOnAll c (a ++ c :: b) = [a, b] := by
  induction a with
  | nil => simp [splitOnAll, splitOnAll_no c b hb]
  | cons x xs ih =>
    simp only [List.mem_cons, not_or] at ha
    have hx : x ≠ c := fun e => ha.1 e.symm
    simp only [List.cons_append]
    rw [splitOnAll]; simp [hx, ih ha.2]

theorem dropWhile_isWs_id (s : Str) (h : ∀ c ∈ s, isWs c = false) : s.dropWhile isWs = s := by
  cases s with
  | nil => rfl
  | cons x xs => simp [List.dropWhile, h x (by simp)]

theorem trimWs_id (s : Str) (h : ∀ c ∈ s, isWs c = false) : trimWs s = s := by
  unfold trimWs
  rw [dropWhile_isWs_id s h, dropWhile_isWs_id s.reverse (by simpa using h), List.reverse_reverse]


/-! ### segment parameters -/

theorem mem_stripTrailingSlash {c : Nat} {u : Str} (h : c ∈ stripTrailingSlash u) : c ∈ u := by
  unfold stripTrailingSlash at h
  dsimp only at h
  repeat' split at h
  all_goals first
    | exact h
    | exact List.dropLast_subset _ h

theorem stripTrailingSlash_id (u : Str) (h : u.getLast? ≠ some 47) : stripTrailingSlash u = u := by
  unfold stripTrailingSlash; rw [if_pos h]

theorem mem_splitLastSlash_snd {c : Nat} {l : List Nat} (h : c ∈ (splitLastSlash l).2) : c ∈ l := by
  rw [← splitLastSlash_join l]; exact List.mem_append_right _ h

/-- a URL without a comma in its last segment (after `strip_trailing_slash`) has no segment parameters -/
theorem splitSegParams_none (u : Str) (hu : 44 ∉ (splitLastSlash (stripTrailingSlash u)).2) :
    splitSegParams u = some (u, []) := by
  have hraw : splitSegParamsRaw u = (u, []) := by
    unfold splitSegParamsRaw
    have : (splitLastSlash (stripTrailingSlash u)).2.contains 44 = false := by
      rw [Bool.eq_false_iff]
      intro hc
      rw [List.contains_iff_mem] at hc
      exact hu hc
    dsimp only
    rw [this]; simp
  unfold splitSegParams
  rw [hraw]; simp [parseSubsegs]

theorem lastSegCommaFree_iff (u : Str) :
    lastSegCommaFree u = true ↔ 44 ∉ (splitLastSlash (stripTrailingSlash u)).2 ∧ 44 ∉ (splitLastSlash u).2 := by
  unfold lastSegCommaFree
  simp [List.contains_iff_mem]

/-- in particular every URL without any comma -/
theorem lastSegCommaFree_of_not_mem (u : Str) (hu : 44 ∉ u) : lastSegCommaFree u = true := by
  rw [lastSegCommaFree_iff]
  exact ⟨fun h => hu (mem_stripTrailingSlash (mem_splitLastSlash_snd h)), fun h => hu (mem_splitLastSlash_snd h)⟩

/-- a parameter written after a comma-free URL is read back, and the URL with it -/
theorem splitSegParams_joined (u k v : Str) (hseg44 : 44 ∉ (splitLastSlash u).2)
    (hk : ∀ c ∈ k, isWs c = false ∧ c ≠ 44 ∧ c ≠ 47 ∧ c ≠ 61)
    (hv : ∀ c ∈ v, isWs c = false ∧ c ≠ 44 ∧ c ≠ 47) :
    splitSegParams (u ++ 44 :: (k ++ 61 :: v)) = some (u, [(k, v)]) := by
  have hkv47 : 47 ∉ k ++ 61 :: v := by
    intro h
    rcases List.mem_append.mp h with h | h
    · exact (hk _ h).2.2.1 rfl
    · rcases List.mem_cons.mp h with h | h
      · cases h
      · exact (hv _ h).2.2 rfl
  have hkv44 : 44 ∉ k ++ 61 :: v := by
    intro h
    rcases List.mem_append.mp h with h | h
    · exact (hk _ h).2.1 rfl
    · rcases List.mem_cons.mp h with h | h
      · cases h
      · exact (hv _ h).2.1 rfl
  have hsuf47 : 47 ∉ 44 :: (k ++ 61 :: v) := by
    intro h
    rcases List.mem_cons.mp h with h | h
    · cases h
    · exact hkv47 h
  have hlast : (u ++ 44 :: (k ++ 61 :: v)).getLast? ≠ some 47 := by
    intro h
    rw [List.getLast?_eq_some_iff] at h
    obtain ⟨ys, hys⟩ := h
    have hlen : (44 :: (k ++ 61 :: v)) ≠ [] := by simp
    have : (47 : Nat) ∈ 44 :: (k ++ 61 :: v) := by
      have h2 := congrArg List.reverse hys
      simp only [List.reverse_append, List.reverse_cons, List.reverse_nil, List.nil_append,
        List.singleton_append] at h2
      -- the reversed suffix starts the reversed list, so its head is 47
      cases hr : (44 :: (k ++ 61 :: v)).reverse with
      | nil => simp at hr
      | cons x xs =>
        have hx : x ∈ (44 :: (k ++ 61 :: v)).reverse := by rw [hr]; simp
        have : x = 47 := by
          have h3 : (44 :: (k ++ 61 :: v)).reverse ++ u.reverse = 47 :: ys.reverse := by
            simpa [List.reverse_append] using h2
          rw [hr] at h3
          simp only [List.cons_append, List.cons.injEq] at h3
          exact h3.1
        subst this
        exact List.mem_reverse.mp hx
    exact hsuf47 this
  have hraw : splitSegParamsRaw (u ++ 44 :: (k ++ 61 :: v)) = (u, [k ++ 61 :: v]) := by
    unfold splitSegParamsRaw
    dsimp only
    simp only [stripTrailingSlash_id _ hlast, splitLastSlash_append u _ hsuf47]
    have hc : ((splitLastSlash u).2 ++ 44 :: (k ++ 61 :: v)).contains 44 = true := by simp
    simp only [hc, not_true_eq_false, if_false, splitOnAll_append 44 _ _ hseg44 hkv44, List.map_cons,
      List.map_nil, splitLastSlash_join]
    congr 2
    apply trimWs_id
    intro c hc
    rcases List.mem_append.mp hc with h | h
    · exact (hk _ h).1
    · rcases List.mem_cons.mp h with h | h
      · subst h; decide
      · exact (hv _ h).1
  have hk61 : 61 ∉ k := fun h => (hk _ h).2.2.2 rfl
  unfold splitSegParams
  rw [hraw]
  simp only [parseSubsegs, splitOnFirst_append' 61 k v hk61]
  rw [trimWs_id k (fun c hc => (hk c hc).1), trimWs_id v (fun c hc => (hv c hc).1)]

theorem joinSegParam_simple (u k v : Str) (hu : 44 ∉ (splitLastSlash (stripTrailingSlash u)).2) :
    joinSegParam u k v = some (u ++ 44 :: (k ++ 61 :: v)) := by
  unfold joinSegParam
  rw [splitSegParams_none u hu]
  simp [insertKV, renderParams]

/-! ### helpers for the theorems of Props/C36 -/

theorem isBytes_map_toNat (b : Bytes) : isBytes (b.map UInt8.toNat) = true := by
  simp only [isBytes, List.all_map, List.all_eq_true, Function.comp_apply, decide_eq_true_eq]
  intro x _; exact x.toNat_lt

theorem prefix_ne_root (x : NBytes) : fileIdPrefix ++ x ≠ rootId := by
  simp [fileIdPrefix, rootId]

theorem normBR_some {branch : Option Str} {ref : Option NBytes} {b' : Option Str} {r : NBytes}
    (h : normBR branch ref = (b', some r)) : b' = none ∧ ref = some r := by
  unfold normBR at h
  split at h
  · rename_i r0
    split at h
    · simp at h
    · split at h
      · simp at h
      · simp only [Prod.mk.injEq, Option.some.injEq] at h
        exact ⟨h.1.symm, by rw [h.2]⟩
  · simp at h

theorem key_chars : (∀ c ∈ kBranch, isWs c = false ∧ c ≠ 44 ∧ c ≠ 47 ∧ c ≠ 61) ∧
    (∀ c ∈ kRef, isWs c = false ∧ c ≠ 44 ∧ c ≠ 47 ∧ c ≠ 61) := by decide

theorem refToBranchName_some_ok {r : NBytes} {b : Option Str} (h : refToBranchName (some r) = .ok b) :
    ∃ n, b = some n := by
  unfold refToBranchName at h
  simp only at h
  repeat' split at h
  all_goals first
    | (simp only [Except.ok.injEq] at h; exact ⟨_, h.symm⟩)
    | (simp at h; done)

theorem gitUrlToBzrUrl_eq_addRefParams (loc' : Str) (branch : Option Str) (ref : Option NBytes)
    (hnorm : normLoc loc' = .url loc' ∨ normLoc loc' = .unchanged) (hx : branch = none ∨ ref = none) :
    gitUrlToBzrUrl loc' branch ref = addRefParams loc' branch ref := by
  unfold gitUrlToBzrUrl gitUrlToBzrUrlG
  have : ¬(branch ≠ none ∧ ref ≠ none) := by rcases hx with h | h <;> simp [h]
  rw [if_neg this]
  rcases hnorm with h | h <;> simp [h]

/-- `addRefParams` only looks at the normal form of its arguments -/
theorem addRefParams_congr (l : Str) (b1 b2 : Option Str) (r1 r2 : Option NBytes)
    (h : cleanBR (normBR b1 r1) = cleanBR (normBR b2 r2)) : addRefParams l b1 r1 = addRefParams l b2 r2 := by
  unfold addRefParams
  cases h1 : normBR b1 r1 with
  | mk x1 y1 =>
    cases h2 : normBR b2 r2 with
    | mk x2 y2 =>
      rw [h1, h2] at h
      simp only [cleanBR, Prod.mk.injEq] at h
      obtain ⟨hx, rfl⟩ := h
      cases y1 with
      | some r => rfl
      | none =>
        cases x1 with
        | none =>
          cases x2 with
          | none => rfl
          | some b2 =>
            by_cases hb : b2 = []
            · subst hb; simp
            · simp [hb] at hx
        | some b1 =>
          cases x2 with
          | none =>
            by_cases hb : b1 = []
            · subst hb; simp
            · simp [hb] at hx
          | some b2 =>
            by_cases hb1 : b1 = []
            · by_cases hb2 : b2 = []
              · subst hb1 hb2; rfl
              · simp [hb1, hb2] at hx
            · by_cases hb2 : b2 = []
              · simp [hb1, hb2] at hx
              · simp only [hb1, hb2, if_false, Option.some.injEq] at hx
                subst hx; rfl

end BreezyVerif.C36
