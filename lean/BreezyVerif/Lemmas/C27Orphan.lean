import BreezyVerif.Lemmas.C27
/-!
C27 — (1) a ghost that records *which attempt* lost its confirming peek to a
transport error: the serial of the locker's nonce at that moment, computed along
the run (the machine of Model/C26.lean is not touched); the invariant that ties
the lock on disk to its owner's state by the nonce's serial.
(2) `held/` without an `info` file can never be changed by anybody.
-/
namespace BreezyVerif.C27
open BreezyVerif.C26

/-! ## orphaned serials -/

/-- per locker, the serials of the attempts whose confirming `peek` raised -/
abbrev Orphans := Nat → List Nat

/-- a fault that hits a live locker's confirming peek orphans the attempt with the locker's current serial -/
def orphanStep (s : Sys) (o : Orphans) : Ev → Orphans
  | .fault i _ => if s.crashed i = false ∧ (s.lk i).pc = .aConfirm then upd o i ((s.lk i).nonce :: o i) else o
  | _ => o

/-- the run of the machine together with the ghost -/
def runG (s : Sys) (o : Orphans) : List Ev → Sys × Orphans
  | [] => (s, o)
  | e :: es => runG (s.step e) (orphanStep s o e) es

theorem runG_fst (s : Sys) (o : Orphans) (evs : List Ev) : (runG s o evs).1 = s.run evs := by
  induction evs generalizing s o with
  | nil => rfl
  | cons e es ih => simp only [runG, Sys.run, List.foldl_cons]; exact ih (s.step e) (orphanStep s o e)

theorem runG_append (s : Sys) (o : Orphans) (a b : List Ev) :
    runG s o (a ++ b) = runG (runG s o a).1 (runG s o a).2 b := by
  induction a generalizing s o with
  | nil => rfl
  | cons e es ih => simp only [List.cons_append, runG]; exact ih (s.step e) (orphanStep s o e)

/-- the serials orphaned during the events `evs` from state `s` -/
def orphanSerials (s : Sys) (evs : List Ev) : Orphans := (runG s (fun _ => []) evs).2

theorem orphanStep_mono (s : Sys) (o : Orphans) (e : Ev) (i n : Nat) (h : n ∈ o i) : n ∈ orphanStep s o e i := by
  cases e with
  | fault a k =>
    simp only [orphanStep]
    split
    · by_cases hi : i = a
      · subst hi; simp [h]
      · simp [upd, hi, h]
    · exact h
  | _ => exact h

/-- where an orphaned serial comes from -/
theorem orphanStep_origin (s : Sys) (o : Orphans) (e : Ev) (i n : Nat) (h : n ∈ orphanStep s o e i) :
    n ∈ o i ∨ (∃ k, e = .fault i k ∧ s.crashed i = false ∧ (s.lk i).pc = .aConfirm ∧ (s.lk i).nonce = n) := by
  cases e with
  | fault a k =>
    simp only [orphanStep] at h
    split at h
    · rename_i hc
      by_cases hi : i = a
      · subst hi
        simp only [upd_same, List.mem_cons] at h
        rcases h with h | h
        · exact Or.inr ⟨k, rfl, hc.1, hc.2, h.symm⟩
        · exact Or.inl h
      · simp only [upd, hi, if_false] at h; exact Or.inl h
    · exact Or.inl h
  | _ => exact Or.inl h

/-- the lock on disk carries locker `i`'s nonce with serial `n` only if `i` believes it holds the lock,
is about to confirm exactly this nonce, or the attempt with serial `n` lost its confirming peek;
and the serial is never ahead of the locker's counter -/
structure NInv (i : Nat) (s : Sys) (o : Orphans) : Prop where
  pend : PendOk s
  own : ∀ n, s.held = okDir ⟨i, n⟩ →
    (s.lk i).held = true ∨ ((s.lk i).pc = .aConfirm ∧ n = (s.lk i).nonce) ∨ n ∈ o i
  le : ∀ n, s.held = okDir ⟨i, n⟩ → n ≤ (s.lk i).nonce

theorem okDir_inj {a b : Nonce} (h : okDir a = okDir b) : a = b := by
  simp only [okDir, Option.some.injEq, Content.ok.injEq] at h
  exact h

section
variable (id : Nat) (cfg : Nat → Cfg) (crashed : Nat → Bool) (me : Locker) (held : Option Dir)
/-- the serial only grows -/
theorem lstep_nonce_le : me.nonce ≤ (lstep id cfg crashed me held).1.nonce := by lstep_cases
end

theorem lfault_nonce (k : FaultKind) (me : Locker) : (lfault k me).nonce = me.nonce := by lfault_cases

theorem start_nonce (me : Locker) (op : Op) : (startOp me op).nonce = me.nonce := by
  unfold startOp; cases op <;> cases hh : me.held <;> simp [Locker.done]

theorem NInv.step {i : Nat} {s : Sys} {o : Orphans} (inv : NInv i s o) (e : Ev) :
    NInv i (s.step e) (orphanStep s o e) := by
  refine ⟨inv.pend.step e, ?_, ?_⟩
  · -- ownership
    intro n ho
    cases e with
    | crash a => exact inv.own n ho
    | fault a k =>
      simp only [Sys.step] at ho ⊢
      by_cases hc : s.crashed a = true
      · simp only [hc, if_true] at ho ⊢
        rcases inv.own n ho with h | h | h
        · exact Or.inl h
        · exact Or.inr (Or.inl h)
        · exact Or.inr (Or.inr (orphanStep_mono s o _ i n h))
      · have hc' : s.crashed a = false := by simpa using hc
        simp only [hc', Bool.false_eq_true, if_false] at ho ⊢
        by_cases hj : i = a
        · subst hj
          simp only [upd_same]
          rcases inv.own n ho with h | ⟨h1, h2⟩ | h
          · left; rw [lfault_held]; exact h
          · right; right
            simp only [orphanStep, hc', h1, and_self, if_true, upd_same, h2, List.mem_cons, true_or]
          · right; right; exact orphanStep_mono s o _ i n h
        · simp only [upd, hj, if_false]
          rcases inv.own n ho with h | h | h
          · exact Or.inl h
          · exact Or.inr (Or.inl h)
          · exact Or.inr (Or.inr (orphanStep_mono s o _ i n h))
    | start a op =>
      simp only [Sys.step, orphanStep] at ho ⊢
      by_cases hc : s.crashed a = true
      · simp only [hc, if_true] at ho ⊢
        exact inv.own n ho
      · have hc' : s.crashed a = false := by simpa using hc
        simp only [hc', Bool.false_eq_true, if_false] at ho ⊢
        by_cases hidle : (s.lk a).pc = .idle
        · simp only [hidle, if_true] at ho ⊢
          by_cases hj : i = a
          · subst hj
            simp only [upd_same]
            rcases inv.own n ho with h | ⟨h, _⟩ | h
            · left; rw [start_held]; exact h
            · simp [hidle] at h
            · exact Or.inr (Or.inr h)
          · simp only [upd, hj, if_false]
            exact inv.own n ho
        · simp only [hidle, if_false] at ho ⊢
          exact inv.own n ho
    | step a =>
      simp only [Sys.step, orphanStep] at ho ⊢
      by_cases hc : s.crashed a = true
      · simp only [hc, if_true] at ho ⊢
        exact inv.own n ho
      · have hc' : s.crashed a = false := by simpa using hc
        simp only [hc', Bool.false_eq_true, if_false] at ho ⊢
        have hheld := lstep_held a s.cfg s.crashed (s.lk a) s.held
        by_cases hj : i = a
        · subst hj
          simp only [upd_same]
          rcases hheld with h | ⟨h1, _, h3, h4⟩ | ⟨_, h, _⟩ | ⟨_, h, _⟩ | ⟨_, h, _⟩
          · rw [h] at ho
            rcases inv.own n ho with hh | ⟨hh, hh2⟩ | hh
            · cases hf : (lstep i s.cfg s.crashed (s.lk i) s.held).1.held
              · have := (lstep_unflag i s.cfg s.crashed (s.lk i) s.held hh hf).2
                rw [h] at this; rw [this] at ho; simp [okDir] at ho
              · left; rfl
            · left
              exact (lstep_confirm i s.cfg s.crashed (s.lk i) s.held hh).2.2 (by rw [ho, hh2])
            · exact Or.inr (Or.inr hh)
          · right; left
            refine ⟨h4, ?_⟩
            rw [h3, inv.pend i (by simp [h1, Pc.hasPend])] at ho
            have := okDir_inj ho
            rw [(lstep_to_confirm i s.cfg s.crashed (s.lk i) s.held h4).2.2]
            exact (congrArg Nonce.serial this).symm
          · rw [h] at ho; simp [okDir] at ho
          · rw [h] at ho; simp [okDir] at ho
          · rw [h] at ho; simp [okDir] at ho
        · simp only [upd, hj, if_false]
          rcases hheld with h | ⟨h1, _, h3, _⟩ | ⟨_, h, _⟩ | ⟨_, h, _⟩ | ⟨_, h, _⟩
          · rw [h] at ho; exact inv.own n ho
          · rw [h3, inv.pend a (by simp [h1, Pc.hasPend])] at ho
            have := congrArg Nonce.owner (okDir_inj ho)
            exact absurd this.symm hj
          · rw [h] at ho; simp [okDir] at ho
          · rw [h] at ho; simp [okDir] at ho
          · rw [h] at ho; simp [okDir] at ho
  · -- the serial on disk is not ahead of the counter
    intro n ho
    cases e with
    | crash a => exact inv.le n ho
    | fault a k =>
      simp only [Sys.step] at ho ⊢
      by_cases hc : s.crashed a = true
      · simp only [hc, if_true] at ho ⊢; exact inv.le n ho
      · have hc' : s.crashed a = false := by simpa using hc
        simp only [hc', Bool.false_eq_true, if_false] at ho ⊢
        by_cases hj : i = a
        · subst hj; simp only [upd_same, lfault_nonce]; exact inv.le n ho
        · simp only [upd, hj, if_false]; exact inv.le n ho
    | start a op =>
      simp only [Sys.step] at ho ⊢
      by_cases hc : s.crashed a = true
      · simp only [hc, if_true] at ho ⊢; exact inv.le n ho
      · have hc' : s.crashed a = false := by simpa using hc
        simp only [hc', Bool.false_eq_true, if_false] at ho ⊢
        by_cases hidle : (s.lk a).pc = .idle
        · simp only [hidle, if_true] at ho ⊢
          by_cases hj : i = a
          · subst hj; simp only [upd_same, start_nonce]; exact inv.le n ho
          · simp only [upd, hj, if_false]; exact inv.le n ho
        · simp only [hidle, if_false] at ho ⊢; exact inv.le n ho
    | step a =>
      simp only [Sys.step] at ho ⊢
      by_cases hc : s.crashed a = true
      · simp only [hc, if_true] at ho ⊢; exact inv.le n ho
      · have hc' : s.crashed a = false := by simpa using hc
        simp only [hc', Bool.false_eq_true, if_false] at ho ⊢
        have hheld := lstep_held a s.cfg s.crashed (s.lk a) s.held
        by_cases hj : i = a
        · subst hj
          simp only [upd_same]
          have hmono := lstep_nonce_le i s.cfg s.crashed (s.lk i) s.held
          rcases hheld with h | ⟨h1, _, h3, h4⟩ | ⟨_, h, _⟩ | ⟨_, h, _⟩ | ⟨_, h, _⟩
          · rw [h] at ho; exact Nat.le_trans (inv.le n ho) hmono
          · rw [h3, inv.pend i (by simp [h1, Pc.hasPend])] at ho
            have := congrArg Nonce.serial (okDir_inj ho)
            simp only at this
            rw [← this]; exact hmono
          · rw [h] at ho; simp [okDir] at ho
          · rw [h] at ho; simp [okDir] at ho
          · rw [h] at ho; simp [okDir] at ho
        · simp only [upd, hj, if_false]
          rcases hheld with h | ⟨h1, _, h3, _⟩ | ⟨_, h, _⟩ | ⟨_, h, _⟩ | ⟨_, h, _⟩
          · rw [h] at ho; exact inv.le n ho
          · rw [h3, inv.pend a (by simp [h1, Pc.hasPend])] at ho
            have := congrArg Nonce.owner (okDir_inj ho)
            exact absurd this.symm hj
          · rw [h] at ho; simp [okDir] at ho
          · rw [h] at ho; simp [okDir] at ho
          · rw [h] at ho; simp [okDir] at ho

theorem NInv.runG {i : Nat} {s : Sys} {o : Orphans} (inv : NInv i s o) (evs : List Ev) :
    NInv i (runG s o evs).1 (runG s o evs).2 := by
  induction evs generalizing s o with
  | nil => exact inv
  | cons e es ih => simp only [C27.runG]; exact ih (inv.step e)

theorem NInv.init (cfg : Nat → Cfg) (h0 : Option Dir) (i : Nat) (h : ownerOf h0 ≠ some i) :
    NInv i (Sys.init cfg h0) (fun _ => []) :=
  ⟨PendOk.init cfg h0, fun n ho => absurd (by rw [show (Sys.init cfg h0).held = h0 from rfl] at ho; rw [ho]; rfl) h,
    fun n ho => absurd (by rw [show (Sys.init cfg h0).held = h0 from rfl] at ho; rw [ho]; rfl) h⟩

/-! ## `held/` without info is stuck -/

/-- pcs whose pending call is a rename of `held/` away -/
def renamesHeld : Pc → Bool
  | .uRename | .bRename _ _ | .xRename _ => true
  | _ => false

/-- nobody is about to confirm, or to rename `held/` away -/
def Quiet (s : Sys) : Prop := ∀ j, renamesHeld (s.lk j).pc = false ∧ (s.lk j).pc ≠ .aConfirm

section
variable (id : Nat) (cfg : Nat → Cfg) (crashed : Nat → Bool) (me : Locker)
theorem lstep_noinfo (h1 : renamesHeld me.pc = false) (h2 : me.pc ≠ .aConfirm) :
    (lstep id cfg crashed me (some none)).2.1 = some none ∧
      renamesHeld (lstep id cfg crashed me (some none)).1.pc = false ∧
      (lstep id cfg crashed me (some none)).1.pc ≠ .aConfirm ∧
      (lstep id cfg crashed me (some none)).1.held = me.held := by
  unfold lstep
  cases hpc : me.pc with
  | bPeek x ret => cases ret <;> simp [peekDir, breakErr, Locker.done, renamesHeld]
  | bRead x ret =>
    cases ret <;> simp only [] <;> split <;> (try split) <;>
      simp [breakErr, Locker.done, renamesHeld]
  | bRmdir ret => cases ret <;> simp [Locker.done, renamesHeld]
  | bRename x ret => simp [hpc, renamesHeld] at h1
  | xRename t => simp [hpc, renamesHeld] at h1
  | uRename => simp [hpc, renamesHeld] at h1
  | aConfirm => exact absurd hpc h2
  | _ =>
    simp only [peekDir] <;> (try split) <;> (try split) <;>
      simp_all [breakErr, Locker.done, renamesHeld]
end

theorem lfault_quiet (k : FaultKind) (me : Locker) (h1 : renamesHeld me.pc = false) :
    renamesHeld (lfault k me).pc = false ∧ (lfault k me).pc ≠ .aConfirm := by
  unfold lfault
  cases hpc : me.pc with
  | bPeek x ret => cases ret <;> simp [breakErr, Locker.done, renamesHeld]
  | bRename x ret => cases ret <;> simp [breakErr, Locker.done, renamesHeld]
  | bRead x ret => cases ret <;> simp [breakErr, Locker.done, renamesHeld]
  | bDelete ret => cases ret <;> simp [breakErr, Locker.done, renamesHeld]
  | bRmdir ret => cases ret <;> simp [breakErr, Locker.done, renamesHeld]
  | idle => simp [hpc, renamesHeld]
  | _ => simp [Locker.done, renamesHeld]

theorem start_quiet (me : Locker) (op : Op) :
    renamesHeld (startOp me op).pc = false ∧ (startOp me op).pc ≠ .aConfirm := by
  unfold startOp; cases op <;> cases hh : me.held <;> simp [Locker.done, renamesHeld]

theorem stuck_step {s : Sys} (hh : s.held = some none) (hq : Quiet s) (e : Ev) :
    (s.step e).held = some none ∧ Quiet (s.step e) ∧ ∀ j, ((s.step e).lk j).held = (s.lk j).held := by
  cases e with
  | crash a => exact ⟨hh, hq, fun _ => rfl⟩
  | fault a k =>
    simp only [Sys.step]
    split
    · exact ⟨hh, hq, fun _ => rfl⟩
    · refine ⟨hh, ?_, ?_⟩
      · intro j
        by_cases hj : j = a
        · subst hj; simp only [upd_same]; exact lfault_quiet k _ (hq j).1
        · simp only [upd, hj, if_false]; exact hq j
      · intro j
        by_cases hj : j = a
        · subst hj; simp only [upd_same, lfault_held]
        · simp only [upd, hj, if_false]
  | start a op =>
    simp only [Sys.step]
    split
    · exact ⟨hh, hq, fun _ => rfl⟩
    · split
      · refine ⟨hh, ?_, ?_⟩
        · intro j
          by_cases hj : j = a
          · subst hj; simp only [upd_same]; exact start_quiet _ op
          · simp only [upd, hj, if_false]; exact hq j
        · intro j
          by_cases hj : j = a
          · subst hj; simp only [upd_same, start_held]
          · simp only [upd, hj, if_false]
      · exact ⟨hh, hq, fun _ => rfl⟩
  | step a =>
    simp only [Sys.step]
    split
    · exact ⟨hh, hq, fun _ => rfl⟩
    · have := lstep_noinfo a s.cfg s.crashed (s.lk a) (hq a).1 (hq a).2
      rw [hh]
      refine ⟨this.1, ?_, ?_⟩
      · intro j
        by_cases hj : j = a
        · subst hj; simp only [upd_same]; exact ⟨this.2.1, this.2.2.1⟩
        · simp only [upd, hj, if_false]; exact hq j
      · intro j
        by_cases hj : j = a
        · subst hj; simp only [upd_same]; exact this.2.2.2
        · simp only [upd, hj, if_false]

theorem stuck_run {s : Sys} (hh : s.held = some none) (hq : Quiet s) (evs : List Ev) :
    (s.run evs).held = some none ∧ Quiet (s.run evs) ∧ ∀ j, ((s.run evs).lk j).held = (s.lk j).held := by
  induction evs generalizing s with
  | nil => exact ⟨hh, hq, fun _ => rfl⟩
  | cons e es ih =>
    simp only [Sys.run, List.foldl_cons]
    obtain ⟨h1, h2, h3⟩ := stuck_step hh hq e
    obtain ⟨g1, g2, g3⟩ := ih h1 h2
    exact ⟨g1, g2, fun j => (g3 j).trans (h3 j)⟩

end BreezyVerif.C27
