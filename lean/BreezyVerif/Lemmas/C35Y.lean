import BreezyVerif.Model.C35Y
import BreezyVerif.Lemmas.C35
import BreezyVerif.Lemmas.C35Hist
/-
Helper lemmas for the yielded-object theorems of Props/C35.lean.
-/
namespace BreezyVerif.C35

mutual
theorem entsN_path_ne (parent : Bytes) (pre : Path) (name : Bytes) :
    (n : FNode) → ∀ e ∈ entsN parent (pre ++ [name]) name n, e.path ≠ []
  | .file k c x, e, h => by
    simp only [entsN, List.mem_singleton] at h
    subst h; simp
  | .link k t, e, h => by
    simp only [entsN, List.mem_singleton] at h
    subst h; simp
  | .dir f cs, e, h => by
    simp only [entsN, List.mem_cons] at h
    rcases h with h | h
    · subst h; simp
    · exact entsC_path_ne f (pre ++ [name]) cs e h
theorem entsC_path_ne (parent : Bytes) (pre : Path) : (cs : FChildren) → ∀ e ∈ entsC parent pre cs, e.path ≠ []
  | .nil, e, h => by simp [entsC] at h
  | .cons name n rest, e, h => by
    simp only [entsC, List.mem_append] at h
    rcases h with h | h
    · exact entsN_path_ne parent pre name n e h
    · exact entsC_path_ne parent pre rest e h
end

mutual
/-- a file entry of a tree is one of its leaves -/
theorem entsN_file_leaf (parent : Bytes) (path : Path) (name : Bytes) :
    (n : FNode) → ∀ e ∈ entsN parent path name n, ∀ k c x, e.node = .file k c x → (k, c) ∈ leaves (eraseN n)
  | .file k c x, e, h, k', c', x', hn => by
    simp only [entsN, List.mem_singleton] at h
    subst h
    simp only [FNode.file.injEq] at hn
    obtain ⟨rfl, rfl, _⟩ := hn
    simp [eraseN, leaves]
  | .link k t, e, h, k', c', x', hn => by
    simp only [entsN, List.mem_singleton] at h
    subst h
    simp at hn
  | .dir f cs, e, h, k', c', x', hn => by
    simp only [entsN, List.mem_cons] at h
    rcases h with h | h
    · subst h; simp at hn
    · simp only [eraseN, leaves]
      exact entsC_file_leaf f path cs e h k' c' x' hn
theorem entsC_file_leaf (parent : Bytes) (pre : Path) :
    (cs : FChildren) → ∀ e ∈ entsC parent pre cs, ∀ k c x, e.node = .file k c x → (k, c) ∈ leavesC (eraseC cs)
  | .nil, e, h, _, _, _, _ => by simp [entsC] at h
  | .cons name n rest, e, h, k, c, x, hn => by
    simp only [entsC, List.mem_append] at h
    simp only [eraseC, leavesC, List.mem_append]
    rcases h with h | h
    · exact Or.inl (entsN_file_leaf parent (pre ++ [name]) name n e h k c x hn)
    · exact Or.inr (entsC_file_leaf parent pre rest e h k c x hn)
end

theorem ftree_file_leaf (t : FTree) (e : Ent) (he : e ∈ t.ents) (k : Key) (c : Bytes) (x : Bool)
    (hn : e.node = .file k c x) : (k, c) ∈ leavesC (eraseC t.cs) := by
  simp only [FTree.ents, List.mem_cons] at he
  rcases he with he | he
  · subst he; simp at hn
  · exact entsC_file_leaf t.rootFid [] t.cs e he k c x hn

theorem findEnt_mem {es : List Ent} {fid : Bytes} {e : Ent} (h : findEnt es fid = some e) : e ∈ es :=
  List.mem_of_find?_eq_some h

theorem hitKey_file {e n : FNode} {k0 : Key} {c : Bytes} {x0 : Bool} {pk : Key}
    (h : hitKey e (.file k0 c x0) = some pk) : ∃ x, e = .file pk c x := by
  cases e with
  | file k c' x =>
    simp only [hitKey] at h
    split at h
    · rename_i hc
      simp only [Option.some.injEq] at h
      have : c' = c := by simpa using hc
      subst this; subst h
      exact ⟨x, rfl⟩
    · simp at h
  | link k t => simp [hitKey] at h
  | dir f cs => simp [hitKey] at h

/-- `find_unchanged_parent_ie` for a file returns the key of an identical text of another parent -/
theorem otherHit_file_mem : ∀ (others : List FTree) (fid : Bytes) (k0 : Key) (c : Bytes) (x0 : Bool) (pk : Key),
    otherHit others fid (.file k0 c x0) = some pk → (pk, c) ∈ others.flatMap fun o => leavesC (eraseC o.cs)
  | [], _, _, _, _, _, h => by simp [otherHit] at h
  | o :: rest, fid, k0, c, x0, pk, h => by
    simp only [List.flatMap_cons, List.mem_append]
    unfold otherHit at h
    split at h
    · rename_i k hk
      simp only [Option.some.injEq] at h
      subst h
      simp only [Option.bind_eq_some_iff] at hk
      obtain ⟨e, hf, hh⟩ := hk
      obtain ⟨x, hx⟩ := hitKey_file (n := .file k0 c x0) hh
      exact Or.inl (ftree_file_leaf o e (findEnt_mem hf) k c x hx)
    · exact Or.inr (otherHit_file_mem rest fid k0 c x0 pk h)

mutual
/-- the ids `directory_to_tree` is given while the dirty directories are rebuilt
are the from-scratch ones, for every SHA map that is correct for the leaves
that can be asked for -/
theorem yExpN_eq (H : GObj → Sha) (cache : Cache) (es0 : List Ent) (others : List FTree)
    (ls : List (Key × Bytes)) (hc : cacheOK H cache ls = true)
    (ho : ∀ x ∈ others.flatMap (fun o => leavesC (eraseC o.cs)), x ∈ ls) :
    (n : FNode) → (parent name : Bytes) → (∀ x ∈ leaves (eraseN n), x ∈ ls) →
      yExpN H cache es0 others parent name n = expNode H (eraseN n)
  | .file k c x, parent, name, hl => by
    have hk : (k, c) ∈ ls := hl _ (by simp [eraseN, leaves])
    simp only [yExpN, eraseN, expNode, exportMode]
    congr 2
    split
    · split
      · rename_i pk hp
        split
        · rename_i s hs
          exact cacheOK_get hc (ho _ (otherHit_file_mem others k.fid k c x pk hp)) hs
        · rfl
      · rfl
    · split
      · rename_i s hs
        exact cacheOK_get hc hk hs
      · rfl
  | .link k t, parent, name, hl => by
    have hk : (k, t) ∈ ls := hl _ (by simp [eraseN, leaves])
    simp only [yExpN, eraseN, expNode, exportMode]
    congr 2
    split
    · rfl
    · split
      · rename_i s hs
        exact cacheOK_get hc hk hs
      · rfl
  | .dir f cs, parent, name, hl => by
    simp only [yExpN, eraseN, expNode]
    rw [yExpC_eq H cache es0 others ls hc ho cs f (by simpa [eraseN, leaves] using hl)]
theorem yExpC_eq (H : GObj → Sha) (cache : Cache) (es0 : List Ent) (others : List FTree)
    (ls : List (Key × Bytes)) (hc : cacheOK H cache ls = true)
    (ho : ∀ x ∈ others.flatMap (fun o => leavesC (eraseC o.cs)), x ∈ ls) :
    (cs : FChildren) → (parent : Bytes) → (∀ x ∈ leavesC (eraseC cs), x ∈ ls) →
      yExpC H cache es0 others parent cs = expChildren H (eraseC cs)
  | .nil, _, _ => by simp [yExpC, eraseC, expChildren]
  | .cons name n rest, parent, hl => by
    have h1 : ∀ x ∈ leaves (eraseN n), x ∈ ls := fun x hx => hl x (by simp [eraseC, leavesC, hx])
    have h2 : ∀ x ∈ leavesC (eraseC rest), x ∈ ls := fun x hx => hl x (by simp [eraseC, leavesC, hx])
    simp only [yExpC, eraseC, expChildren]
    rw [yExpN_eq H cache es0 others ls hc ho n parent name h1, yExpC_eq H cache es0 others ls hc ho rest parent h2]
    rfl
end

theorem entAtPath_root (t : FTree) : entAtPath t.ents [] = some ⟨t.rootFid, [], [], [], .dir t.rootFid t.cs⟩ := by
  simp [entAtPath, FTree.ents]

mutual
/-- the leaves below a directory entry are leaves of the tree -/
theorem entsN_dir_leaves (parent : Bytes) (path : Path) (name : Bytes) :
    (n : FNode) → ∀ e ∈ entsN parent path name n, ∀ f cs, e.node = .dir f cs →
      ∀ x ∈ leavesC (eraseC cs), x ∈ leaves (eraseN n)
  | .file k c x, e, h, f, cs, hn => by
    simp only [entsN, List.mem_singleton] at h
    subst h; simp at hn
  | .link k t, e, h, f, cs, hn => by
    simp only [entsN, List.mem_singleton] at h
    subst h; simp at hn
  | .dir f0 cs0, e, h, f, cs, hn => by
    simp only [entsN, List.mem_cons] at h
    simp only [eraseN, leaves]
    rcases h with h | h
    · subst h
      simp only [FNode.dir.injEq] at hn
      obtain ⟨_, rfl⟩ := hn
      exact fun x hx => hx
    · exact entsC_dir_leaves f0 path cs0 e h f cs hn
theorem entsC_dir_leaves (parent : Bytes) (pre : Path) :
    (cs0 : FChildren) → ∀ e ∈ entsC parent pre cs0, ∀ f cs, e.node = .dir f cs →
      ∀ x ∈ leavesC (eraseC cs), x ∈ leavesC (eraseC cs0)
  | .nil, e, h, _, _, _ => by simp [entsC] at h
  | .cons name n rest, e, h, f, cs, hn => by
    simp only [entsC, List.mem_append] at h
    intro x hx
    simp only [eraseC, leavesC, List.mem_append]
    rcases h with h | h
    · exact Or.inl (entsN_dir_leaves parent (pre ++ [name]) name n e h f cs hn x hx)
    · exact Or.inr (entsC_dir_leaves parent pre rest e h f cs hn x hx)
end

theorem ftree_dir_leaves (t : FTree) (e : Ent) (he : e ∈ t.ents) (f : Bytes) (cs : FChildren)
    (hn : e.node = .dir f cs) : ∀ x ∈ leavesC (eraseC cs), x ∈ leavesC (eraseC t.cs) := by
  simp only [FTree.ents, List.mem_cons] at he
  rcases he with he | he
  · subst he
    simp only [FNode.dir.injEq] at hn
    obtain ⟨_, rfl⟩ := hn
    exact fun x hx => hx
  · exact entsC_dir_leaves t.rootFid [] t.cs e he f cs hn

theorem entAtPath_mem {es : List Ent} {p : Path} {e : Ent} (h : entAtPath es p = some e) : e ∈ es ∧ e.path = p := by
  refine ⟨List.mem_of_find?_eq_some h, ?_⟩
  have := List.find?_some h
  simpa using this

/-- the new entry of a reported change is an entry of the tree -/
theorem changes_new_mem (base : Option FTree) (t : FTree) (c : Change) (hc : c ∈ changes base t)
    (e : Ent) (he : c.new = some e) : e ∈ t.ents := by
  unfold changes at hc
  simp only [List.mem_append, List.mem_filterMap] at hc
  rcases hc with ⟨e1, h1, h2⟩ | ⟨e0, _, h2⟩
  · unfold entChange at h2
    split at h2
    · simp only [Option.some.injEq] at h2
      subst h2
      simp only [Option.some.injEq] at he
      subst he; exact h1
    · split at h2
      · simp at h2
      · simp only [Option.some.injEq] at h2
        subst h2
        simp only [Option.some.injEq] at he
        subst he; exact h1
  · split at h2
    · simp at h2
    · simp only [Option.some.injEq] at h2
      subst h2
      simp at he

/-- a yielded blob never has the empty path -/
theorem changeBlob_path_ne (fb : Variant) (H : GObj → Sha) (cache : Cache) (base : Option FTree) (others : List FTree)
    (t : FTree) (c : Change) (hc : c ∈ changes base t) (x : Path × Sha) (hx : changeBlob fb H cache others c = some x) :
    x.1 ≠ [] := by
  unfold changeBlob at hx
  split at hx
  · simp at hx
  · split at hx
    · rename_i fid path pa nm k content ex hnew
      have hm := changes_new_mem base t c hc _ hnew
      have hp : path ≠ [] := by
        simp only [FTree.ents, List.mem_cons] at hm
        rcases hm with hm | hm
        · simp at hm
        · exact entsC_path_ne t.rootFid [] t.cs _ hm
      repeat' split at hx
      all_goals first
        | (simp at hx; done)
        | (simp only [Option.some.injEq] at hx; subst hx; exact hp)
    · rename_i fid path pa nm k target hnew
      have hm := changes_new_mem base t c hc _ hnew
      have hp : path ≠ [] := by
        simp only [FTree.ents, List.mem_cons] at hm
        rcases hm with hm | hm
        · simp at hm
        · exact entsC_path_ne t.rootFid [] t.cs _ hm
      split at hx
      · simp only [Option.some.injEq] at hx; subst hx; exact hp
      · simp at hx
    · simp at hx

end BreezyVerif.C35
