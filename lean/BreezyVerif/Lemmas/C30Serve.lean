import BreezyVerif.Lemmas.C30V3G
import BreezyVerif.Lemmas.C30CK
import BreezyVerif.Lemmas.C30Req
/-! whole requests on the server's pipe (`_get_line` + dispatch + decoder) and whole
protocol 1/2 responses on the client's (`read_line`s + body reader): laws and completeness -/
namespace BreezyVerif.C30
open BreezyVerif.C29

/-! ### the line reader in front of another decoder -/

theorem seq_feed_line {S2 : Type} (M2 : Machine S2) (k : Line → S2) (l x : Bytes)
    (h : (10 : UInt8) ∉ l) :
    (seqMachine lineMachine M2 k).feed (.inl (.reading [])) (l ++ 10 :: x)
      = .inr (M2.feed (k (.done l x)) x) := by
  simp only [seqMachine, lineMachine, Line.feed, List.nil_append, splitLine_of_notMem x h,
    Line.finished, if_true, Line.unused]

theorem seq_inr_feed {S1 S2 : Type} (M1 : Machine S1) (M2 : Machine S2) (k : S1 → S2) (s : S2)
    (x : Bytes) : (seqMachine M1 M2 k).feed (.inr s) x = .inr (M2.feed s x) := rfl

theorem line_const_laws {S : Type} {M : Machine S} {wf : S → Prop} (L : Laws M wf) (init : S)
    (hwf : wf init) (hun : M.fin init = true → M.unused init = []) :
    Laws (seqMachine lineMachine M (const init)) (seqWf lineMachine lineWf wf) :=
  Laws.seq lineLaws L (const init) (fun _ _ _ => rfl) (fun _ _ _ => hwf) (fun _ _ _ h => hun h)

/-! ### server -/

def serveWf : Line ⊕ (V3 ⊕ Req) → Prop := seqWf lineMachine lineWf (altWf v3Wf reqWf)

theorem req_feed_line_nl (w : List Bytes → Bool) (l : Bytes) (h : (10 : UInt8) ∉ l) :
    Req.feed w (.line []) (l ++ [10]) =
      if w (splitSoh l) then .body (splitSoh l) (.expectingLength []) else .done (splitSoh l) none [] := by
  rw [Req.feed_line, List.nil_append, Req.lineStep, splitLine_of_notMem [] h]
  simp only
  split
  · simp [LP.feed, LP.init, LP.lengthStep, splitLine, Req.afterBody]
  · rfl

theorem serveLaws (w : List Bytes → Bool) (okH okS : Bytes → Bool) :
    Laws (serveMachine w okH okS) serveWf := by
  refine Laws.seq lineLaws (Laws.alt (v3gLaws okH okS) (reqLaws w)) (serveDispatch w) ?_ ?_ ?_
  · intro s1 x h
    cases s1 with
    | reading buf => simp [lineMachine, Line.finished] at h
    | done l u => rfl
  · intro s1 hwf h
    cases s1 with
    | reading buf => simp [lineMachine, Line.finished] at h
    | done l u =>
      simp only [serveDispatch]
      split
      · exact v3Wf_init false
      · split
        · exact reqWf_init
        · exact (reqLaws w).wf_feed _ _ reqWf_init
  · intro s1 hwf h hf
    cases s1 with
    | reading buf => simp [lineMachine, Line.finished] at h
    | done l u =>
      simp only [serveDispatch]
      split
      · simp [altMachine, v3gMachine, guardMachine, v3Machine, V3.init, V3.unused]
      · split
        · rfl
        · show Req.unused (Req.feed w (.line []) (l ++ [10])) = []
          rw [req_feed_line_nl w l hwf]
          split <;> rfl

theorem serveWf_init : serveWf serveInit := ⟨lineWf_init, rfl⟩

def marker3Line : Bytes := marker3.dropLast
def request2Line : Bytes := request2.dropLast
def response2Line : Bytes := response2.dropLast

theorem marker3_eq : marker3 = marker3Line ++ [10] := by decide
theorem request2_eq : request2 = request2Line ++ [10] := by decide
theorem response2_eq : response2 = response2Line ++ [10] := by decide
theorem marker3Line_nl : (10 : UInt8) ∉ marker3Line := by decide
theorem request2Line_nl : (10 : UInt8) ∉ request2Line := by decide
theorem response2Line_nl : (10 : UInt8) ∉ response2Line := by decide

/-- requests the pipe server can be sent: what the real client encoders write, any version -/
inductive WellFormedRequest (w : List Bytes → Bool) (okH okS : Bytes → Bool) : Bytes → Prop
  /-- `ProtocolThreeRequester`: marker, bencoded header dict, parts, `e` -/
  | v3 (headers : Bytes) (parts : List Part) (hh : headers.length < 4294967296)
      (hp : V3.partsOk parts = true) (hH : okH headers = true)
      (hS : parts.all (fun p => evOk okH okS p.ev) = true) :
      WellFormedRequest w okH okS (v3Encode headers parts)
  /-- `SmartClientRequestProtocolTwo`: marker, argument line, optional bulk body -/
  | v2 (args : List Bytes) (body : Option Bytes) (hok : Req.argsOk args = true)
      (hwb : w args = body.isSome) :
      WellFormedRequest w okH okS (request2 ++ reqEncode args body)
  /-- `SmartClientRequestProtocolOne`: the same without marker (an argument line that
  happens to spell a version marker is read as that marker) -/
  | v1 (args : List Bytes) (body : Option Bytes) (hok : Req.argsOk args = true)
      (hwb : w args = body.isSome) (h3 : encodeTuple args ≠ marker3)
      (h2 : encodeTuple args ≠ request2) :
      WellFormedRequest w okH okS (reqEncode args body)

theorem v3g_feed_encode (okH okS : Bytes → Bool) (headers : Bytes) (parts : List Part)
    (hh : headers.length < 4294967296) (hp : V3.partsOk parts = true) :
    V3.feed (V3.init false) (v3EncodeBody headers parts)
      = .done (.headers headers :: (parts.map Part.ev ++ [.end_])) [] := by
  have := V3.proc_headers_encode headers parts [] [] hh hp
  simp only [List.append_nil, List.nil_append] at this
  simp only [V3.init, Bool.false_eq_true, if_false, V3.feed_run, List.nil_append]
  exact this

theorem v3Ok_done (okH okS : Bytes → Bool) (headers : Bytes) (parts : List Part) (u : Bytes)
    (hH : okH headers = true) (hS : parts.all (fun p => evOk okH okS p.ev) = true) :
    v3Ok okH okS (.done (.headers headers :: (parts.map Part.ev ++ [.end_])) u) = true := by
  simp only [v3Ok, V3.events, List.all_cons, evOk, hH, Bool.true_and, List.all_append,
    List.all_map, List.all_nil, Bool.and_true]
  simpa [Function.comp_def] using hS

/-- a well-formed request is decoded completely by the server's machine, nothing left over -/
theorem serve_complete {w : List Bytes → Bool} {okH okS : Bytes → Bool} {msg : Bytes}
    (h : WellFormedRequest w okH okS msg) :
    (serveMachine w okH okS).fin ((serveMachine w okH okS).feed serveInit msg) = true ∧
    (serveMachine w okH okS).unused ((serveMachine w okH okS).feed serveInit msg) = [] := by
  cases h with
  | v3 headers parts hh hp hH hS =>
    have e : v3Encode headers parts = marker3Line ++ 10 :: v3EncodeBody headers parts := by
      simp [v3Encode, marker3_eq]
    rw [e]
    simp only [serveMachine, serveInit, seq_feed_line _ _ _ _ marker3Line_nl]
    simp only [serveDispatch, ← marker3_eq, if_true]
    simp only [seqMachine, altMachine, v3gMachine, guardMachine, v3Machine,
      v3g_feed_encode okH okS headers parts hh hp, V3.finished, V3.unused, Bool.true_and,
      v3Ok_done okH okS headers parts [] hH hS, and_self]
  | v2 args body hok hwb =>
    have e : request2 ++ reqEncode args body = request2Line ++ 10 :: reqEncode args body := by
      simp [request2_eq]
    rw [e]
    simp only [serveMachine, serveInit, seq_feed_line _ _ _ _ request2Line_nl]
    have hne : request2 ≠ marker3 := by decide
    simp only [serveDispatch, ← request2_eq, hne, if_false, if_true]
    have := Req.feed_init_encode w args body [] hok hwb
    simp only [List.append_nil] at this
    simp only [seqMachine, altMachine, reqMachine, this, Req.finished, Req.unused, and_self]
  | v1 args body hok hwb h3 h2 =>
    have hnl : (10 : UInt8) ∉ joinSoh args := by
      simp only [Req.argsOk, Bool.and_eq_true] at hok
      exact Req.joinSoh_no_nl hok.2
    obtain ⟨tail, e⟩ : ∃ tail, reqEncode args body = joinSoh args ++ 10 :: tail := by
      cases body <;> simp [reqEncode, encodeTuple]
    have := Req.feed_init_encode w args body [] hok hwb
    simp only [List.append_nil] at this
    rw [e] at this ⊢
    simp only [serveMachine, serveInit, seq_feed_line _ _ _ _ hnl]
    have e3 : joinSoh args ++ [10] ≠ marker3 := h3
    have e2 : joinSoh args ++ [10] ≠ request2 := h2
    simp only [serveDispatch, e3, e2, if_false]
    simp only [seqMachine, altMachine, reqMachine, Req.feed_append, List.append_assoc,
      List.singleton_append]
    rw [this]
    exact ⟨rfl, rfl⟩

/-! ### client, protocol 1 / 2 -/

def bodyWf : LP ⊕ (CK ⊕ Bytes) → Prop := altWf lpWf (altWf ckWf (fun _ => True))

theorem bodyLaws : Laws bodyMachine bodyWf := Laws.alt lpLaws (Laws.alt ckLaws nilLaws)

theorem bodyWf_init (bk : BodyKind) : bodyWf (bodyInit bk) := by
  cases bk
  · trivial
  · exact lpWf_init
  · exact ckWf_init

theorem bodyInit_unused (bk : BodyKind) : bodyMachine.unused (bodyInit bk) = [] := by
  cases bk <;> rfl

/-- what the three body readers expect on the wire -/
inductive WellFormedBody : BodyKind → Bytes → Prop
  | none : WellFormedBody .none []
  | bulk (body : Bytes) : WellFormedBody .bulk (lpEncode body)
  | stream (chunks : List Bytes) (err : Option (List Bytes)) :
      WellFormedBody .stream (ckEncode chunks err)

theorem body_complete {bk : BodyKind} {b : Bytes} (h : WellFormedBody bk b) :
    bodyMachine.fin (bodyMachine.feed (bodyInit bk) b) = true ∧
    bodyMachine.unused (bodyMachine.feed (bodyInit bk) b) = [] := by
  cases h with
  | none => exact ⟨rfl, rfl⟩
  | bulk body =>
    have := LP.feed_init_encode body []
    simp only [List.append_nil] at this
    simp only [bodyMachine, bodyInit, altMachine, lpMachine, this, LP.finished, LP.unused, and_self]
  | stream chunks err =>
    have := CK.feed_init_encode chunks err []
    simp only [List.append_nil] at this
    simp only [bodyMachine, bodyInit, altMachine, ckMachine, this, CK.finished, CK.unused, and_self]

def client1Wf : Line ⊕ (LP ⊕ (CK ⊕ Bytes)) → Prop := seqWf lineMachine lineWf bodyWf

theorem client1Laws (bk : BodyKind) : Laws (client1 bk) client1Wf :=
  line_const_laws bodyLaws _ (bodyWf_init bk) (fun _ => bodyInit_unused bk)

def client2Wf : Line ⊕ (Line ⊕ (Line ⊕ (LP ⊕ (CK ⊕ Bytes)))) → Prop :=
  seqWf lineMachine lineWf (seqWf lineMachine lineWf client1Wf)

theorem client1Wf_init : client1Wf (.inl (.reading [])) := ⟨lineWf_init, rfl⟩

theorem client2Laws (bk : BodyKind) : Laws (client2 bk) client2Wf :=
  line_const_laws (line_const_laws (client1Laws bk) _ client1Wf_init (fun h => by cases h))
    _ (show seqWf lineMachine lineWf client1Wf (.inl (.reading [])) from ⟨lineWf_init, rfl⟩)
    (fun h => by cases h)

/-- protocol 1 response: tuple line, then the body the caller reads -/
inductive WellFormedResponse1 (bk : BodyKind) : Bytes → Prop
  | mk (tuple body : Bytes) (ht : (10 : UInt8) ∉ tuple) (hb : WellFormedBody bk body) :
      WellFormedResponse1 bk (tuple ++ 10 :: body)

/-- protocol 2 response: `bzr response 2\n`, status line, tuple line, body -/
inductive WellFormedResponse2 (bk : BodyKind) : Bytes → Prop
  | mk (status tuple body : Bytes) (hs : (10 : UInt8) ∉ status) (ht : (10 : UInt8) ∉ tuple)
      (hb : WellFormedBody bk body) :
      WellFormedResponse2 bk (response2 ++ (status ++ 10 :: (tuple ++ 10 :: body)))


theorem client2Wf_init : client2Wf client2Init := ⟨lineWf_init, rfl⟩

theorem client1_complete {bk : BodyKind} {msg : Bytes} (h : WellFormedResponse1 bk msg) :
    (client1 bk).fin ((client1 bk).feed client1Init msg) = true ∧
    (client1 bk).unused ((client1 bk).feed client1Init msg) = [] := by
  cases h with
  | mk tuple body ht hb =>
    simp only [client1, client1Machine, client1Init, seq_feed_line _ _ _ _ ht, const]
    exact body_complete hb

theorem client2_complete {bk : BodyKind} {msg : Bytes} (h : WellFormedResponse2 bk msg) :
    (client2 bk).fin ((client2 bk).feed client2Init msg) = true ∧
    (client2 bk).unused ((client2 bk).feed client2Init msg) = [] := by
  cases h with
  | mk status tuple body hs ht hb =>
    have e : response2 ++ (status ++ 10 :: (tuple ++ 10 :: body))
        = response2Line ++ 10 :: (status ++ 10 :: (tuple ++ 10 :: body)) := by
      simp [response2_eq]
    rw [e]
    simp only [client2, client2Machine, client2Init, seq_feed_line _ _ _ _ response2Line_nl, const,
      seq_feed_line _ _ _ _ hs, seq_feed_line _ _ _ _ ht]
    exact body_complete hb

end BreezyVerif.C30
