import BreezyVerif.Model.C05
import BreezyVerif.Lemmas.C05
import BreezyVerif.Lemmas.C05Files
import BreezyVerif.Lemmas.C05Fine
/-!
C05 — concurrent pack writers and packers never lose committed data.

All theorems quantify over EVERY schedule (`List (pid × phase)`: any number of
processes, any phases in any order — a superset of all interleavings of all
programs), every initial consistent directory and every content assignment.
-/
namespace BreezyVerif.C05
open BreezyVerif.C04

/-- **The pack list a process writes is the three-way merge** of its own
changes with the changes made by others since it last read the list: a name is
listed after `save` iff (it was on disk and the process did not drop it) or
(the process added it). -/
theorem save_is_threeway_merge (s : Sys) (i : Nat) (clear : Bool) (n : Nat) :
    n ∈ (step s i (.save clear)).disk.names ↔
      (n ∈ s.disk.names ∧ ¬(n ∈ (s.procs i).atLoad ∧ n ∉ (s.procs i).names)) ∨
      (n ∈ (s.procs i).names ∧ n ∉ (s.procs i).atLoad ∧ n ∉ s.disk.names) := by
  simp only [step, names_saveStep]
  exact mem_mergeNames

/-- after the save the process' memory is synchronised with what it wrote -/
theorem save_synchronises (s : Sys) (i : Nat) (clear : Bool) :
    ((step s i (.save clear)).procs i).names = (step s i (.save clear)).disk.names ∧
    ((step s i (.save clear)).procs i).atLoad = (step s i (.save clear)).disk.names := by
  simp only [step, names_saveStep, upd_same, and_self]

/-- **Committed data is never lost.**  After every schedule every revision
whose write group's save completed is visible through the current
`pack-names`. -/
theorem committed_data_kept (chk : Bool) (d : Disk) (content : Nat → List Nat) (next : Nat)
    (hb : ∀ n ∈ d.names, n < next) (sched : Schedule) :
    ∀ r ∈ (exec (Sys.init chk d content next) sched).committed,
      r ∈ visible (exec (Sys.init chk d content next) sched) := by
  intro r hr
  have h := invA_exec _ sched (invA_init chk d content next hb)
  obtain ⟨n, hn, hrn⟩ := h.comm r hr
  obtain ⟨m, hm, hrm⟩ := h.kept n hn r hrn
  exact List.mem_flatMap.mpr ⟨m, hm, hrm⟩

/-- a pack operation may drop a listed name only together with listing a pack
that holds its data: whatever was ever listed stays visible -/
theorem listed_data_kept (chk : Bool) (d : Disk) (content : Nat → List Nat) (next : Nat)
    (hb : ∀ n ∈ d.names, n < next) (sched : Schedule) :
    let s := exec (Sys.init chk d content next) sched
    ∀ n ∈ s.ever, ∀ r ∈ s.content n, r ∈ visible s := by
  intro s n hn r hr
  have h := invA_exec _ sched (invA_init chk d content next hb)
  obtain ⟨m, hm, hrm⟩ := h.kept n hn r hr
  exact List.mem_flatMap.mpr ⟨m, hm, hrm⟩

/-- **A listed pack is findable**: after every schedule every pack listed in
`pack-names` has its `.pack` and all indices in `packs/` / `indices/` — because
a pack is obsoleted strictly after the save that removed its name, and only
then. -/
theorem listed_pack_findable (chk : Bool) (d : Disk) (content : Nat → List Nat) (next : Nat)
    (hb : ∀ n ∈ d.names, n < next) (hc : complete chk d = true) (sched : Schedule) :
    complete chk (exec (Sys.init chk d content next) sched).disk = true := by
  have h := inv_exec _ sched (invA_init chk d content next hb) (invB_init chk d content next hc)
  have hchk : ∀ (s : Sys) (sch : Schedule), (exec s sch).chk = s.chk := by
    intro s sch
    induction sch generalizing s with
    | nil => rfl
    | cons a rest ih =>
      show (exec (step s a.1 a.2) rest).chk = s.chk
      rw [ih]
      cases a.2 <;> simp only [step, doReload] <;> (try split) <;> rfl
  have := h.2.r1
  rw [hchk] at this
  have e : (Sys.init chk d content next).chk = chk := rfl
  rw [e] at this
  simpa [complete] using this

/-- **A reader with a stale view finds the data after reloading.**  In every
reachable state, for every process and every pack `n` in its (possibly
outdated) list: after `reload_pack_names` its list contains a pack that holds
each revision of `n`, and that pack's files are in place. -/
theorem reload_finds_data (chk : Bool) (d : Disk) (content : Nat → List Nat) (next : Nat)
    (hb : ∀ n ∈ d.names, n < next) (hc : complete chk d = true) (sched : Schedule) (p : Nat) :
    let s := exec (Sys.init chk d content next) sched
    let s' := step s p .reload
    ∀ n ∈ (s.procs p).names, ∀ r ∈ s.content n,
      ∃ m ∈ (s'.procs p).names, r ∈ s'.content m ∧ ready s'.chk s'.disk m = true := by
  intro s s' n hn r hr
  have hinv := inv_exec _ sched (invA_init chk d content next hb) (invB_init chk d content next hc)
  have h := hinv.1
  have g := hinv.2
  have hnames : (s'.procs p).names = mergeNames s.disk.names (s.procs p).atLoad (s.procs p).names := by
    simp [s', step, doReload, reloadProc_names]
  show ∃ m ∈ (s'.procs p).names, r ∈ s.content m ∧ ready s.chk s.disk m = true
  rw [hnames]
  have privCase : ∀ m, m ∈ (s.procs p).names → m ∉ (s.procs p).atLoad → r ∈ s.content m →
      ∃ m ∈ mergeNames s.disk.names (s.procs p).atLoad (s.procs p).names,
        r ∈ s.content m ∧ ready s.chk s.disk m = true := by
    intro m hm hma hrm
    have hmd : m ∉ s.disk.names := fun hd => (h.priv p m hm hma).2 (h.ev m hd)
    exact ⟨m, mem_mergeNames.mpr (Or.inr ⟨hm, hma, hmd⟩), hrm, g.r2 p m hm hma⟩
  by_cases ha : n ∈ (s.procs p).atLoad
  · obtain ⟨m, hm, hrm⟩ := h.kept n (h.al p n ha) r hr
    by_cases hdrop : m ∈ (s.procs p).atLoad ∧ m ∉ (s.procs p).names
    · obtain ⟨m', hm', hma', hrm'⟩ := h.covers p m hdrop.1 hdrop.2 r hrm
      exact privCase m' hm' hma' hrm'
    · exact ⟨m, mem_mergeNames.mpr (Or.inl ⟨hm, hdrop⟩), hrm, g.r1 m hm⟩
  · exact privCase n hn ha hr

/-- deleting files that are not `f` keeps `f` -/
theorem mem_run_deletes (f : File) (l : List File) (d : Disk) (hf : f ∈ d.files) (hl : f ∉ l) :
    f ∈ (run d (l.map Op.delete)).files := by
  induction l generalizing d with
  | nil => exact hf
  | cons g rest ih =>
    simp only [List.map_cons, run_cons]
    apply ih
    · exact mem_step_files hf (by simpa using fun e => hl (by simp [e]))
    · exact fun h => hl (by simp [h])

/-- **Cleanup preserves the just-obsoleted packs**: `_clear_obsolete_packs(preserve)`
leaves every file of a preserved pack in `obsolete_packs/` where it is, and
deletes nothing outside `obsolete_packs/`. -/
theorem clear_preserves_just_obsoleted (d : Disk) (preserve : List Nat) (f : File) (hf : f ∈ d.files)
    (h : f.dir ≠ .obsolete ∨ f.stem ∈ preserve) :
    f ∈ (run d (clearOps d preserve)).files := by
  apply mem_run_deletes f _ d hf
  simp only [clearTargets, List.mem_filter, List.mem_append, Bool.and_eq_true, decide_eq_true_eq,
    Bool.not_eq_eq_eq_not, Bool.not_true, List.contains_eq_mem, decide_eq_false_iff_not, not_and]
  intro _ hdir
  rcases h with h | h
  · exact absurd hdir h
  · exact fun hn => hn h

/-- and what it reports as found (`already_obsolete`) is skipped by the
following `_obsolete_packs`: a pack that is in `obsolete_packs/` already is not
moved again over the preserved copy -/
theorem save_skips_already_obsolete (s : Sys) (i : Nat) (clear : Bool) (n : Nat)
    (hn : n ∈ alreadyObsolete s.disk) (hold : n ∉ (s.procs i).toObsolete) :
    n ∉ ((step s i (.save clear)).procs i).toObsolete := by
  simp only [step, upd_same, List.mem_append, List.mem_filter, not_or]
  exact ⟨hold, fun h => by simp [hn] at h⟩

/-- **Committed data stays listed AND readable**: every committed revision is
held by a pack that is listed in `pack-names` and whose `.pack` and indices are
all in place (the join of `committed_data_kept` and `listed_pack_findable`). -/
theorem committed_readable (chk : Bool) (d : Disk) (content : Nat → List Nat) (next : Nat)
    (hb : ∀ n ∈ d.names, n < next) (hc : complete chk d = true) (sched : Schedule) :
    let s := exec (Sys.init chk d content next) sched
    ∀ r ∈ s.committed, ∃ m ∈ s.disk.names, r ∈ s.content m ∧ ready s.chk s.disk m = true := by
  intro s r hr
  have hinv := inv_exec _ sched (invA_init chk d content next hb) (invB_init chk d content next hc)
  obtain ⟨n, hn, hrn⟩ := hinv.1.comm r hr
  obtain ⟨m, hm, hrm⟩ := hinv.1.kept n hn r hrn
  exact ⟨m, hm, hrm, hinv.2.r1 m hm⟩

/-! ### transport-operation granularity (`Model/C05Fine.lean`)

The same statements when the deletes of `_clear_obsolete_packs` and the moves of
`_obsolete_packs` are single steps between which every other process may do
anything (begin phases, perform its own queued operations): for EVERY schedule
of `(process, begin phase | perform next queued operation)`. -/

theorem fine_inv (chk : Bool) (d : Disk) (content : Nat → List Nat) (next : Nat)
    (hb : ∀ n ∈ d.names, n < next) (hc : complete chk d = true) (sched : FSchedule) :
    FInv (fexec (FSys.init (Sys.init chk d content next)) sched) :=
  finv_exec _ sched (finv_init _ (invA_init chk d content next hb) (invB_init chk d content next hc))

/-- committed data is listed and readable after every operation-granularity schedule -/
theorem fine_committed_readable (chk : Bool) (d : Disk) (content : Nat → List Nat) (next : Nat)
    (hb : ∀ n ∈ d.names, n < next) (hc : complete chk d = true) (sched : FSchedule) :
    let s := (fexec (FSys.init (Sys.init chk d content next)) sched).s
    ∀ r ∈ s.committed, ∃ m ∈ s.disk.names, r ∈ s.content m ∧ ready s.chk s.disk m = true := by
  intro s r hr
  have hinv := fine_inv chk d content next hb hc sched
  obtain ⟨n, hn, hrn⟩ := hinv.a.comm r hr
  obtain ⟨m, hm, hrm⟩ := hinv.a.kept n hn r hrn
  exact ⟨m, hm, hrm, hinv.b.r1 m hm⟩

/-- **a listed pack never disappears, not even between two renames of
`_obsolete_packs` or two deletes of `_clear_obsolete_packs`** -/
theorem fine_listed_pack_findable (chk : Bool) (d : Disk) (content : Nat → List Nat) (next : Nat)
    (hb : ∀ n ∈ d.names, n < next) (hc : complete chk d = true) (sched : FSchedule) :
    complete chk (fexec (FSys.init (Sys.init chk d content next)) sched).s.disk = true := by
  have hinv := fine_inv chk d content next hb hc sched
  have := hinv.b.r1
  rw [fexec_chk] at this
  simpa [complete, FSys.init, Sys.init] using this

/-- **the reader clause at operation granularity**: whenever a process with a
stale list reloads — at any point between any two transport operations of the
others — its new list contains, for each revision of each pack it listed, a
pack holding it whose files are all in place. -/
theorem fine_reload_finds_data (chk : Bool) (d : Disk) (content : Nat → List Nat) (next : Nat)
    (hb : ∀ n ∈ d.names, n < next) (hc : complete chk d = true) (sched : FSchedule) (p : Nat) :
    let s := (fexec (FSys.init (Sys.init chk d content next)) sched).s
    let s' := step s p .reload
    ∀ n ∈ (s.procs p).names, ∀ r ∈ s.content n,
      ∃ m ∈ (s'.procs p).names, r ∈ s'.content m ∧ ready s'.chk s'.disk m = true := by
  intro s s'
  have hinv := fine_inv chk d content next hb hc sched
  exact reload_finds_of_inv s hinv.a hinv.b p

/-- the phase-granularity model (the one compared with the real code after every
phase) is the special case of the operation-granularity model in which a
process' queued operations run without interruption -/
theorem exec_refines_fine (s : Sys) (sched : Schedule) :
    ∃ fs : FSchedule, fexec (FSys.init s) fs = FSys.init (exec s sched) :=
  exec_is_fine_run s sched

/-- non-vacuity at operation granularity: the packer (process 2) has saved and
is moving its sources to `obsolete_packs/` one file at a time; in between, a
writer saves, the stale reader 1 reloads and another process cleans
`obsolete_packs/`: the directory is complete after every prefix -/
example :
    let s0 := Sys.init true ⟨[0, 1], packFiles true 0 ++ packFiles true 1, [], false⟩
      (fun n => if n = 0 then [100] else if n = 1 then [101] else []) 10
    let sched : FSchedule :=
      [(0, .begin .reload), (1, .begin .reload), (2, .begin .reload), (0, .begin (.finish [102])),
       (2, .begin (.repack [0, 1])), (2, .begin (.save true)), (2, .op), (2, .begin .obsolete), (2, .op), (2, .op),
       (0, .begin (.save false)), (2, .op), (1, .begin .reload), (3, .begin .clearAll), (2, .op), (3, .op), (0, .op),
       (2, .op), (3, .op), (2, .op), (2, .op), (2, .op), (2, .op), (2, .op), (2, .op), (2, .op), (3, .op), (3, .op)]
    (∀ k ≤ sched.length, complete true (fexec (FSys.init s0) (sched.take k)).s.disk = true) ∧
    (fexec (FSys.init s0) sched).s.disk.names = [13, 11] ∧
    ((fexec (FSys.init s0) sched).s.procs 1).names = [13, 11] ∧
    ((fexec (FSys.init s0) sched).s.procs 2).toObsolete = [] := by
  decide

/-! ### content-addressed names: what identical packs written by two processes do -/

/-- on schedules without name reuse `execX` (what the driver runs) is `exec` -/
theorem execX_base (s : Sys) (sched : Schedule) :
    execX s (sched.map (fun a => (a.1, XAct.base a.2))) = exec s sched := by
  induction sched generalizing s with
  | nil => rfl
  | cons a rest ih => exact ih _

/-- **Witness (reproduced on the real code, reported).**  Two processes fetch the
same revisions concurrently, so both write a pack with the same content hash
`11`.  Process 0 commits it, then packs: `11` is combined into `13` and is about
to be obsoleted.  Process 1 (which loaded the list before) finishes its
identical pack — `NewPack.finish` renames it over `packs/11.pack` — and saves:
the three-way merge lists `11` again (a new name for process 1).  Process 0 now
moves the files of `11` to `obsolete_packs/`: `11` is listed and its files are
gone.  All data is still held by `13`, but the directory lists a pack that
cannot be found, and reloading does not help. -/
theorem same_name_relisted_witness :
    let s0 := Sys.init true ⟨[0, 1], packFiles true 0 ++ packFiles true 1, [], false⟩
      (fun n => if n = 0 then [100] else if n = 1 then [101] else []) 10
    let sched : XSchedule :=
      [(1, .base .reload), (0, .base .reload), (0, .base (.finish [102])), (0, .base (.save false)),
       (0, .base .reload), (0, .base (.repack [0, 1, 11])), (0, .base (.save true)),
       (1, .finishAs 11 [102]), (1, .base (.save false)), (0, .base .obsolete)]
    let s := execX s0 sched
    s.disk.names = [13, 11] ∧ ready true s.disk 11 = false ∧ complete true s.disk = false ∧
    (∀ r ∈ [100, 101, 102], r ∈ s.content 13) := by
  decide

/-- **Witness, the other window.**  Process 1 has finished its identical pack
`11` but not saved yet; process 0 commits the same pack, packs and obsoletes
`11`; then process 1 saves and lists `11`, whose files are in
`obsolete_packs/`. -/
theorem same_name_obsoleted_before_save_witness :
    let s0 := Sys.init true ⟨[0, 1], packFiles true 0 ++ packFiles true 1, [], false⟩
      (fun n => if n = 0 then [100] else if n = 1 then [101] else []) 10
    let sched : XSchedule :=
      [(0, .base .reload), (1, .base .reload), (1, .base (.finish [102])), (0, .finishAs 11 [102]),
       (0, .base (.save false)), (0, .base .reload), (0, .base (.repack [0, 1, 11])), (0, .base (.save true)),
       (0, .base .obsolete), (1, .base (.save false))]
    let s := execX s0 sched
    s.disk.names = [15, 11] ∧ ready true s.disk 11 = false ∧ complete true s.disk = false := by
  decide

/-! ### why the merge is needed -/

/-- **Witness.**  Two writers that loaded the same list and each add a pack: if
the second simply wrote its own list (no merge with the disk), the first
writer's committed pack would no longer be listed; with the real three-way
merge both are. -/
theorem overwrite_loses_witness :
    let s0 := Sys.init true ⟨[0], packFiles true 0, [], false⟩ (fun n => if n = 0 then [100] else []) 10
    let sched : Schedule := [(0, .reload), (1, .reload), (0, .finish [101]), (1, .finish [102]), (0, .save false)]
    let s := exec s0 sched
    -- process 1's own list (what an overwrite would put on disk) lacks process 0's pack 11
    11 ∈ s.disk.names ∧ 11 ∉ (s.procs 1).names ∧
    -- the real save keeps it
    (step s 1 (.save false)).disk.names = [0, 11, 13] := by
  decide

/-! ### non-vacuity -/

/-- two writers and a packer interleaved: both commits survive the concurrent
pack, everything committed is visible at the end -/
example :
    let s0 := Sys.init true ⟨[0, 1], packFiles true 0 ++ packFiles true 1, [], false⟩
      (fun n => if n = 0 then [100] else if n = 1 then [101] else []) 10
    let sched : Schedule :=
      [(0, .reload), (1, .reload), (2, .reload), (0, .finish [102]), (2, .repack [0, 1]), (1, .finish [103]),
       (2, .save true), (0, .save false), (2, .obsolete), (1, .save false), (0, .reload)]
    let s := exec s0 sched
    s.disk.names = [13, 11, 15] ∧ (∀ r ∈ [100, 101, 102, 103], r ∈ visible s) ∧
    complete true s.disk = true ∧ (s.procs 2).toObsolete = [] ∧
    (∀ n ∈ s0.disk.names, n < 10) := by
  decide

/-- a packer whose view is stale (its sources were already replaced by another
packer) and that is asked to repack packs it no longer lists reloads instead
(`_restart_autopack`); one whose copy is already made writes its pack, and the
merge keeps both combined packs — nothing is lost -/
example :
    let s0 := Sys.init false ⟨[0, 1], packFiles false 0 ++ packFiles false 1, [], false⟩
      (fun n => if n = 0 then [100] else if n = 1 then [101] else []) 10
    let sched : Schedule :=
      [(0, .reload), (1, .reload), (0, .repack [0, 1]), (0, .save true), (0, .obsolete),
       (1, .repack [0, 1]), (1, .save true), (1, .obsolete), (1, .repack [0, 1])]
    let s := exec s0 sched
    s.disk.names = [11, 13] ∧ (s.procs 1).names = [11, 13] ∧ (∀ r ∈ [100, 101], r ∈ visible s) ∧
    complete false s.disk = true := by
  decide

end BreezyVerif.C05
