"""C47 — path and line utilities satisfy their algebraic laws
(crates/osutils/src/{path,lib,time}.rs, crates/osutils-py/src/lib.rs, seen
through breezy.osutils).

Model: lean/BreezyVerif/Model/C47.lean (literal `is_inside`, `is_inside_any`,
`minimum_path_selection`, `splitpath`, `joinpath`, `split_lines`,
`chunks_to_lines` — both the crate-internal one and the PyChunksToLinesIterator
that Python actually calls — `format_highres_date`, `unpack_highres_date` over
integer nanoseconds).  Theorems: Props/C47.lean.

T2 on every run:
  * the Python-visible functions, rebuilt from the working tree (RUST), against
    the Lean driver;
  * the crate-internal `split_lines` / `chunks_to_lines` of lib.rs (which no
    Python binding reaches) through a small Rust probe binary built from the
    working tree's crates/osutils on every run;
  * dates: timestamps with fraction k/512 s (exact in f64 and in 9 decimals)
    so that no float rounding is involved.  The model has two formatters: the
    code as written (`fmt`) and the intended behaviour (`fmtfix`, the proposed
    patch).  Where they agree the implementation must agree with both; where
    they differ (the two F11 defect families) the implementation must equal
    one of them, and the oracle reports the round-trip failure with the family.
Oracle (independent of the model): mps subset / exactly-one cover / antichain /
inside_any agreement, join∘split = id on normalised paths, split∘join = id on
valid components, concat(split_lines t) = t and line shape, chunking
independence, unpack(format(t, off)) == (t, off).

Mutants this was built against (all caught, see the final report):
  M1 path.rs  minimum_path_selection sorts by the path *string* instead of the
              component list ("a" < "a-b" < "a/b")           -> oracle (cover not unique)
  M2 path.rs  is_inside = byte-prefix (`as_os_str().as_bytes().starts_with`) -> oracle
  M3 path.rs  scan compares with sorted_paths[0] instead of search_paths.last() -> oracle (antichain)
  M4 lib.rs   split_lines returns None instead of the unterminated last line -> probe oracle
  M5 lib.rs   chunks_to_lines drops the `self.tail.is_empty()` guard of the well-formed fast path -> probe oracle
  M6 osutils-py PyChunksToLinesIterator: fast path `newline == len-1` -> `memchr(..).is_some()` -> oracle
  M7 time.rs  unpack: `offset_minutes = offset % 100` dropped from seconds_offset -> oracle
  M8 time.rs  format: fraction printed with 6 digits                     -> T2 + oracle (k/512 needs 9)
  M9 path.rs  splitpath keeps "." segments                                -> T2 mismatch + oracle
  M10 path.rs joinpath no longer rejects "" components                    -> T2 + oracle (accepted but not split back)
  M12 path.rs minimum_path_selection early return `len < 3`               -> oracle
  H1 (harmless) is_inside_any rewritten with `iter().any`                -> clean
"""
import itertools
import json
import os
import shutil
import subprocess
from fractions import Fraction

from vlib import env

THEOREMS = [
    "mps_subset", "mps_antichain", "mps_covers_exactly_one", "mps_characterisation",
    "inside_any_iff", "inside_any_mps",
    "split_join_id", "join_split_id", "split_join_split",
    "split_lines_concat", "split_lines_shape", "chunks_to_lines_eq", "chunks_to_lines_py_eq",
    "split_lines_py_eq", "chunks_to_lines_chunking_independent",
    "calendar_inverse", "date_roundtrip", "format_eq_fixed", "date_roundtrip_partial",
    "date_roundtrip_witness_offset", "date_roundtrip_witness_negfrac",
]
RUST = ("osutils-py",)
RULE = ("paths: sets of relative paths over components {a,b,ab,a-b,a+,-} (depth<=3; all sets of <=3 paths of "
        "depth<=2 enumerated), non-trivial = some path inside another or sharing a byte prefix; strings over "
        "{a,b,/,.} for splitpath (all up to a length), non-trivial = contains '/' or '.'; texts over {a,b,\\n,\\r} "
        "(all up to a length) with all chunkings of short texts, non-trivial = contains a newline; timestamps on a "
        "calendar-corner grid with fraction k/512 s x whole-minute offsets, non-trivial = fraction or offset non-zero")
ASSUMPTIONS = [
    "timestamps are compared in integer nanoseconds on the grid k/512 s, |t| < 2^43 s, where the f64 arithmetic of "
    "time.rs and the 9-digit fraction are exact; IEEE rounding of other f64 values is not modelled",
    "chrono's %a %Y-%m-%d %H:%M:%S formatter/parser is specified by the model's proleptic Gregorian calendar for "
    "years 0..9999 and compared with chrono on every generated date",
    "paths: relative, no '..' segment, no leading '.' segment (std::path::Component ordering of ParentDir/CurDir is "
    "not modelled)",
]
TRUSTED = [
    "std::path::Path::components / starts_with, PathBuf::push, memchr, chrono, f64 formatting are external and are "
    "modelled (split on '/', byte search, calendar arithmetic), tied by the correspondence run only",
    "the Rust probe (source embedded in harness/checks/c47.py) that exposes lib.rs split_lines/chunks_to_lines",
]

NS = 10 ** 9

# --------------------------------------------------------------------------
# encodings shared with lean/BreezyVerif/Driver/C47.lean


def hx(b):
    if isinstance(b, str):
        b = b.encode("utf-8")
    return b.hex() if b else "-"


def hxl(items):
    items = list(items)
    return ",".join(hx(x) for x in items) if items else "~"


def comps(p):
    """reference component list of a relative path string"""
    return tuple(c.encode() for c in p.split("/") if c not in ("", "."))


def rel_ok(p):
    segs = p.split("/")
    return not p.startswith("/") and segs[0] != "." and ".." not in segs


def is_prefix(a, b):
    return len(a) <= len(b) and tuple(b[:len(a)]) == tuple(a)


# --------------------------------------------------------------------------
# Rust probe for the crate-internal line functions

PROBE_MAIN = r'''
use std::io::{self, BufRead, Write};
fn unhex(s: &str) -> Vec<u8> {
    if s == "-" { return Vec::new(); }
    (0..s.len()).step_by(2).map(|i| u8::from_str_radix(&s[i..i + 2], 16).unwrap()).collect()
}
fn hex(b: &[u8]) -> String {
    if b.is_empty() { return "-".to_string(); }
    b.iter().map(|x| format!("{:02x}", x)).collect()
}
fn show(l: Vec<Vec<u8>>) -> String {
    if l.is_empty() { "~".to_string() } else { l.iter().map(|x| hex(x)).collect::<Vec<_>>().join(",") }
}
fn main() {
    let stdin = io::stdin();
    let out = io::stdout();
    let mut out = out.lock();
    for line in stdin.lock().lines() {
        let line = line.unwrap();
        let f: Vec<&str> = line.split(' ').collect();
        let r = match f[0] {
            "sl" => show(breezy_osutils::split_lines(&unhex(f[1])).map(|c| c.to_vec()).collect()),
            "cl" => {
                let chunks: Vec<Vec<u8>> = if f[1] == "~" { vec![] } else { f[1].split(',').map(unhex).collect() };
                show(breezy_osutils::chunks_to_lines(chunks.iter().map(|c| Ok::<_, std::io::Error>(c.as_slice())))
                    .map(|c| c.unwrap().to_vec()).collect())
            }
            _ => "bad-op".to_string(),
        };
        writeln!(out, "{}", r).unwrap();
    }
}
'''

_probe_exe = None


def build_probe():
    """cargo build (offline) a scratch crate that depends on the working tree's
    crates/osutils by path; returns the executable (copied to scratch)."""
    global _probe_exe
    if _probe_exe:
        return _probe_exe
    d = env.subdir("c47probe")
    os.makedirs(os.path.join(d, "src"), exist_ok=True)
    with open(os.path.join(d, "Cargo.toml"), "w") as f:
        f.write('[package]\nname = "c47probe"\nversion = "0.0.0"\nedition = "2021"\n\n[dependencies]\n'
                'breezy-osutils = { path = "%s/crates/osutils" }\n\n[workspace]\n' % env.REPO)
    with open(os.path.join(d, "src", "main.rs"), "w") as f:
        f.write(PROBE_MAIN)
    shutil.copy2(os.path.join(env.REPO, "Cargo.lock"), os.path.join(d, "Cargo.lock"))
    target = os.environ.get("CARGO_TARGET_DIR") or os.path.join(env.REPO, "target")
    cargo, e = env.cargo_cmd_env()
    e["CARGO_TARGET_DIR"] = target
    r = subprocess.run([cargo, "build", "--offline", "-q"], cwd=d, env=e, capture_output=True, text=True)
    if r.returncode != 0:
        raise env.InfraError("cargo build of the C47 probe failed:\n%s" % r.stderr[-3000:])
    exe = os.path.join(d, "c47probe.bin")
    shutil.copy2(os.path.join(target, "debug", "c47probe"), exe)
    _probe_exe = exe
    return exe


def probe(lines):
    if not lines:
        return []
    r = subprocess.run([build_probe()], input=("\n".join(lines) + "\n").encode(), capture_output=True, timeout=600)
    if r.returncode != 0:
        raise env.InfraError("C47 probe failed: %s" % r.stderr.decode()[-2000:])
    out = r.stdout.decode().split("\n")
    if out and out[-1] == "":
        out.pop()
    if len(out) != len(lines):
        raise env.InfraError("C47 probe answered %d lines for %d" % (len(out), len(lines)))
    return out


# --------------------------------------------------------------------------
# paths

COMPS = ["a", "b", "ab", "a-b", "a+", "-"]


def _all_paths(depth, alphabet=COMPS):
    out = []
    for d in range(1, depth + 1):
        for t in itertools.product(alphabet, repeat=d):
            out.append("/".join(t))
    return out


def gen_path_sets(ctx):
    rng = ctx.rng
    small = _all_paths(2, ["a", "b", "a-"])          # 12 paths
    for k in range(0, 4):
        for s in itertools.combinations(small, k):
            yield list(s)
    big = _all_paths(3)
    for _ in range(ctx.pick(4000, 40000)):
        n = rng.choice([2, 3, 3, 4, 5, 6, 8])
        # cluster around a few stems so that containment is frequent
        stems = rng.sample(big, 3)
        s = set()
        while len(s) < n:
            st = rng.choice(stems)
            r = rng.random()
            if r < 0.35:
                s.add(st)
            elif r < 0.6:
                s.add(st + "/" + rng.choice(COMPS))
            elif r < 0.75:
                s.add(st + rng.choice(["-", "+", "b", "-b"]))       # byte prefix, not component prefix
            elif r < 0.85:
                s.add(st.rsplit("/", 1)[0])
            else:
                s.add(rng.choice(big))
        l = sorted(s)
        rng.shuffle(l)
        yield l
    # a few non-normalised spellings (compared by component list)
    for _ in range(ctx.pick(100, 1000)):
        n = rng.choice([2, 3, 4])
        l = []
        for _ in range(n):
            p = rng.choice(big)
            r = rng.random()
            if r < 0.3:
                p = p.replace("/", "//", 1)
            elif r < 0.5:
                p = p + "/"
            elif r < 0.7:
                p = p.replace("/", "/./", 1)
            l.append(p)
        if len({comps(p) for p in l}) == len(l):
            yield l
    yield [""]
    yield ["", "a"]


def path_nontrivial(paths):
    for p in paths:
        for q in paths:
            if p != q and (q.startswith(p)):
                return True
    return False


def mps_case(osu, paths):
    """impl output (canonical), oracle failures"""
    res = osu.minimum_path_selection(set(paths))
    fails = []
    rc = sorted({comps(p) for p in res})
    ic = [comps(p) for p in paths]
    if not all(c in ic for c in rc):
        fails.append("selected %r is not a subset of the input" % (sorted(res),))
    for p in paths:
        cover = [q for q in res if osu.is_inside(q, p)]
        ref = [q for q in rc if is_prefix(q, comps(p))]
        if len(cover) != 1 or len(ref) != 1:
            fails.append("input path %r lies inside %d selected paths %r (selected=%r)"
                         % (p, len(cover), sorted(cover), sorted(res)))
        if not osu.is_inside_any(list(res), p):
            fails.append("is_inside_any(selected, %r) is False" % (p,))
    for q in res:
        for q2 in res:
            if q != q2 and (osu.is_inside(q, q2) or is_prefix(comps(q), comps(q2))):
                fails.append("selected %r lies inside selected %r" % (q2, q))
    canon = hxl(b"/".join(c) for c in rc)
    return canon, fails


def run_paths(ctx, osu):
    cases, lines, outs = [], [], []
    for paths in gen_path_sets(ctx):
        if not all(rel_ok(p) for p in paths):
            continue
        canon, fails = mps_case(osu, paths)
        case = dict(op="mps", paths=paths)
        for f in fails[:1]:
            ctx.violation(case, "minimum_path_selection(%r): %s" % (paths, f))
        ctx.case(case, nontrivial=path_nontrivial(paths))
        ctx.count("mps:n=%d" % len(paths))
        ctx.count("mps:kept=%d" % (canon.count(",") + 1 if canon != "~" else 0))
        cases.append(case); lines.append("mps " + hxl(paths)); outs.append(canon)
        # inside / inside_any on probes drawn from the same neighbourhood
        probes = list(paths[:3])
        if paths:
            probes.append(paths[0] + "/a")
            probes.append(paths[-1] + "-")
        for f in probes:
            if not rel_ok(f):
                continue
            ia = osu.is_inside_any(paths, f)
            ref = any(is_prefix(comps(d), comps(f)) for d in paths)
            c2 = dict(op="insideany", dirs=paths, f=f)
            if ia != ref:
                ctx.violation(c2, "is_inside_any(%r, %r)=%r but component containment says %r" % (paths, f, ia, ref))
            sel = osu.minimum_path_selection(set(paths))
            if osu.is_inside_any(list(sel), f) != ia:
                ctx.violation(c2, "is_inside_any differs between %r and its minimum selection %r on %r"
                              % (paths, sorted(sel), f))
            ctx.case(c2, nontrivial=bool(ia))
            ctx.count("insideany:%s" % ia)
            cases.append(c2); lines.append("insideany %s %s" % (hxl(paths), hx(f))); outs.append("T" if ia else "F")
            iop = osu.is_inside_or_parent_of_any(paths, f)
            c3 = dict(op="insideorparent", dirs=paths, f=f)
            cases.append(c3); lines.append("insideorparent %s %s" % (hxl(paths), hx(f))); outs.append("T" if iop else "F")
            ctx.case(c3, nontrivial=bool(iop))
    # is_inside on all ordered pairs of a small universe, normalised and not
    uni = _all_paths(2, ["a", "ab", "a-"]) + ["", "a/", "a//a", "a/./a", "ab/", "a/a/"]
    for d in uni:
        for f in uni:
            r = osu.is_inside(d, f)
            ref = is_prefix(comps(d), comps(f))
            c = dict(op="inside", d=d, f=f)
            if r != ref:
                ctx.violation(c, "is_inside(%r, %r)=%r but component containment says %r" % (d, f, r, ref))
            ctx.case(c, nontrivial=f.startswith(d) and d != "")
            ctx.count("inside:%s" % r)
            cases.append(c); lines.append("inside %s %s" % (hx(d), hx(f))); outs.append("T" if r else "F")
    ctx.diff(cases, lines, outs)


# --------------------------------------------------------------------------
# splitpath / joinpath


def _err(fn, *a):
    try:
        return fn(*a), None
    except ValueError as e:
        return None, "E:Invalid" if "Invalid path segment" in str(e) else "E:Other:%s" % e


def normalised(p):
    return p == "" or all(s not in ("", ".", "..") for s in p.split("/"))


def valid_comp(c):
    return c != "" and "/" not in c and c not in (".", "..")


def run_splitjoin(ctx, osu):
    cases, lines, outs = [], [], []
    L = ctx.pick(5, 7)
    strings = [""]
    for n in range(1, L + 1):
        strings += ["".join(t) for t in itertools.product("ab/.", repeat=n)]
    for _ in range(ctx.pick(300, 3000)):
        strings.append("".join(ctx.rng.choice("aab/./") for _ in range(ctx.rng.randrange(6, 14))))
    for p in strings:
        r, e = _err(osu.splitpath, p)
        out = e if e else hxl(r)
        case = dict(op="splitpath", p=p)
        if e is None:
            bad = [c for c in r if not valid_comp(c)]
            if bad:
                ctx.violation(case, "splitpath(%r) returned invalid components %r" % (p, bad))
            j, e2 = _err(osu.joinpath, r)
            if e2 or _err(osu.splitpath, j)[0] != r:
                ctx.violation(case, "splitpath(joinpath(splitpath(%r))) != splitpath(%r): %r -> %r" % (p, p, r, j))
            if normalised(p) and j != p:
                ctx.violation(case, "normalised path %r: joinpath(splitpath(p)) = %r" % (p, j))
        elif normalised(p):
            ctx.violation(case, "splitpath rejects the normalised path %r: %s" % (p, e))
        ctx.case(case, nontrivial=("/" in p or "." in p))
        ctx.count("splitpath:%s" % ("err" if e else "n=%d" % len(r)))
        cases.append(case); lines.append("splitpath " + hx(p)); outs.append(out)
    atoms = ["a", "b", "ab", "", "..", ".", "a/b", "/a", "a/", "a.b"]
    lists = [[]]
    for n in range(1, ctx.pick(3, 4) + 1):
        lists += [list(t) for t in itertools.product(atoms, repeat=n)]
    for cs in lists:
        r, e = _err(osu.joinpath, cs)
        out = e if e else hx(r)
        case = dict(op="joinpath", parts=cs)
        if all(valid_comp(c) for c in cs):
            if e:
                ctx.violation(case, "joinpath rejects valid components %r" % (cs,))
            elif osu.splitpath(r) != cs:
                ctx.violation(case, "splitpath(joinpath(%r)) = %r" % (cs, osu.splitpath(r)))
        elif e is None and all("/" not in c and c != "." for c in cs) and _err(osu.splitpath, r)[0] != cs:
            # whatever joinpath accepts (apart from embedded separators and '.') must split back
            ctx.violation(case, "joinpath(%r) = %r is accepted but splits back to %r" % (cs, r, _err(osu.splitpath, r)))
        ctx.case(case, nontrivial=len(cs) > 1)
        ctx.count("joinpath:%s" % ("err" if e else "ok"))
        cases.append(case); lines.append("joinpath " + hxl(cs)); outs.append(out)
    ctx.diff(cases, lines, outs)


# --------------------------------------------------------------------------
# lines


def compositions(t):
    """all ways to cut t into non-empty consecutive chunks"""
    n = len(t)
    if n == 0:
        yield []
        return
    for mask in range(1 << (n - 1)):
        out, start = [], 0
        for i in range(n - 1):
            if mask >> i & 1:
                out.append(t[start:i + 1]); start = i + 1
        out.append(t[start:])
        yield out


def lines_oracle(text, lines):
    if b"".join(lines) != text:
        return "concatenation of the lines is %r, not the text" % (b"".join(lines),)
    for i, l in enumerate(lines):
        if not l:
            return "empty line at index %d" % i
        if l.count(b"\n") > 1 or (b"\n" in l and not l.endswith(b"\n")):
            return "line %d = %r contains a newline before its end" % (i, l)
        if i < len(lines) - 1 and not l.endswith(b"\n"):
            return "line %d = %r (not the last) does not end in a newline" % (i, l)
    return None


def gen_texts(ctx):
    L = ctx.pick(6, 8)
    for n in range(0, L + 1):
        for t in itertools.product(b"a\nb", repeat=n):
            yield bytes(t)
    for _ in range(ctx.pick(1500, 12000)):
        n = ctx.rng.randrange(7, 40)
        yield bytes(ctx.rng.choice(b"ab\n\n\r") for _ in range(n))


def gen_chunkings(ctx, text):
    if len(text) <= ctx.pick(5, 7):
        for c in compositions(text):
            yield c
        # with empty chunks sprinkled in
        for c in itertools.islice(compositions(text), 0, None, 3):
            c = list(c)
            c.insert(ctx.rng.randrange(len(c) + 1), b"")
            if ctx.rng.random() < 0.3:
                c.insert(ctx.rng.randrange(len(c) + 1), b"")
            yield c
    else:
        for _ in range(3):
            cuts = sorted(ctx.rng.sample(range(len(text) + 1), min(len(text), ctx.rng.randrange(0, 6))))
            out, prev = [], 0
            for c in cuts + [len(text)]:
                out.append(text[prev:c]); prev = c
            yield out
        # cut after every newline: all chunks well-formed (fast path)
        yield text.splitlines(True)


def run_lines(ctx, osu):
    cases, lines, outs = [], [], []
    pcases, plines = [], []
    for text in gen_texts(ctx):
        ref = osu.split_lines(text)
        why = lines_oracle(text, ref)
        case = dict(op="split_lines", text=text.hex())
        if why:
            ctx.violation(case, "split_lines(%r) = %r: %s" % (text, ref, why))
        ctx.case(case, nontrivial=b"\n" in text)
        ctx.count("split_lines:len=%d" % min(len(text), 10))
        cases.append(case); lines.append("slpy " + hx(text)); outs.append(hxl(ref))
        pcases.append(case); plines.append("sl " + hx(text))
        for chunks in gen_chunkings(ctx, text):
            got = osu.chunks_to_lines(list(chunks))
            c2 = dict(op="chunks_to_lines", chunks=[c.hex() for c in chunks])
            if got != ref:
                ctx.violation(c2, "chunks_to_lines(%r) = %r but split_lines of the concatenation = %r"
                              % (chunks, got, ref))
            ctx.case(c2, nontrivial=(b"\n" in text and len(chunks) > 1))
            ctx.count("chunks:n=%d" % min(len(chunks), 8))
            cases.append(c2); lines.append("clpy " + hxl(chunks)); outs.append(hxl(got))
            pcases.append(c2); plines.append("cl " + hxl(chunks))
    ctx.diff(cases, lines, outs)
    # crate-internal versions through the probe: model `sl` / `cl`
    pouts = probe(plines)
    for c, l, o in zip(pcases, plines, pouts):
        got = [] if o == "~" else [bytes.fromhex(x) if x != "-" else b"" for x in o.split(",")]
        if c["op"] == "split_lines":
            text = bytes.fromhex(c["text"])
        else:
            text = b"".join(bytes.fromhex(x) for x in c["chunks"])
        cc = dict(c, op="core." + c["op"])
        why = lines_oracle(text, got)
        if why:
            ctx.violation(cc, "lib.rs %s on %r = %r: %s" % (c["op"], c.get("chunks", c.get("text")), got, why))
        ctx.case(cc, nontrivial=b"\n" in text)
    ctx.diff([dict(c, op="core." + c["op"]) for c in pcases], plines, pouts, tie="T2-probe")
    ctx.count("probe_lines", len(plines))


# --------------------------------------------------------------------------
# dates

DAY = 86400


def days_from_civil(y, m, d):
    import datetime
    return (datetime.date(y, m, d) - datetime.date(1970, 1, 1)).days


def gen_seconds(ctx):
    corners = [(1970, 1, 1), (1969, 12, 31), (2000, 2, 29), (2000, 3, 1), (1900, 2, 28), (1900, 3, 1),
               (2100, 2, 28), (2100, 3, 1), (2024, 2, 29), (2023, 12, 31), (2024, 1, 1), (1600, 2, 29),
               (1, 1, 1), (1, 12, 31), (9999, 12, 30), (2038, 1, 19), (1901, 12, 13), (400, 2, 29), (1999, 12, 31),
               (2001, 9, 9), (1972, 6, 30)]
    out = []
    for (y, m, d) in corners:
        z = days_from_civil(y, m, d)
        for s in (0, 1, 59, 3599, 3600, 43200, 86399):
            out.append(z * DAY + s)
    for _ in range(ctx.pick(1000, 10000)):
        out.append(ctx.rng.randrange(-62135596800 + 2 * DAY, 253402300800 - 2 * DAY))
    for _ in range(ctx.pick(800, 8000)):
        out.append(ctx.rng.randrange(-3 * DAY, 3 * DAY))
    for _ in range(ctx.pick(600, 6000)):
        out.append(ctx.rng.randrange(0, 2 ** 32))
    return out


def gen_offsets(ctx):
    base = [0, 60, -60, 1800, -1800, 3600, -3600, 5400, -5400, 19800, -19800, 20700, 34200, -34200, 43200, -43200,
            50400, 86340, -86340, -9000, -12600, 45900]
    return base


FRACS = [0, 0, 256, 1, 511, 128, 384, 3, 64]


def classify_date(ns, off):
    """family of the two known F11 defect input classes, from the concrete input"""
    if off < 0 and off % 3600 != 0:
        return "highres-neg-offset-not-whole-hours"
    if ns < 0 and ns % NS != 0:
        return "highres-neg-fractional-timestamp"
    return None


def to_ns(t):
    f = Fraction(t) * NS
    return int(f) if f.denominator == 1 else None


ERRMAP = [
    ("does not contain a day of week", "E:noWeekday"),
    ("does not contain a valid day of week", "E:badWeekday"),
    ("does not contain high-precision seconds", "E:noFraction"),
    ("does not contain a timezone", "E:noTimezone"),
    ("Failed to parse datetime string", "E:badDatetime"),
    ("Failed to parse high-precision seconds", "E:badFraction"),
    ("Failed to parse offset", "E:badOffset"),
]


def unpack_canon(osu, s):
    try:
        t, off = osu.unpack_highres_date(s)
    except ValueError as e:
        for k, v in ERRMAP:
            if k in str(e):
                return v
        return "E:Other:%s" % e
    ns = to_ns(t)
    return "%s %d" % (ns if ns is not None else "inexact:%r" % t, off)


def date_case(ctx, osu, ns, off, oracle=True):
    """returns (case, fmt-impl-string, line-fmt, line-fmtfix)"""
    t = ns / NS if ns % NS else float(ns // NS)
    assert to_ns(t) == ns
    s = osu.format_highres_date(t, off)
    case = dict(op="date", ns=ns, offset=off)
    if oracle and off % 60 == 0:
        back = unpack_canon(osu, s)
        if back != "%d %d" % (ns, off):
            ctx.violation(case, "unpack_highres_date(format_highres_date(%r, %d) = %r) gives %s, expected (%r, %d)"
                          % (t, off, s, back, t, off), family=classify_date(ns, off))
    return case, s


def run_dates(ctx, osu):
    secs = gen_seconds(ctx)
    offs = gen_offsets(ctx)
    rng = ctx.rng
    items = []
    for s in secs:
        for _ in range(2):
            off = rng.choice(offs) if rng.random() < 0.7 else 60 * rng.randrange(-1439, 1440)
            k = rng.choice(FRACS) if rng.random() < 0.6 else rng.randrange(512)
            items.append((s * NS + k * 1953125, off))
    # a dense small box around the epoch: every offset sign x fraction x sign of t
    for s in (-2, -1, 0, 1):
        for k in (0, 256, 511):
            for off in offs:
                items.append((s * NS + k * 1953125, off))
    # offsets that are not whole minutes: compared with the model only
    odd = [(rng.choice(secs) * NS + rng.choice(FRACS) * 1953125, rng.choice([1, -1, 59, -59, 61, -61, 90, -90, 3599, -3601, 5430]))
           for _ in range(ctx.pick(100, 1000))]
    cases, impl, l_fmt, l_fix = [], [], [], []
    for ns, off in items + odd:
        case, s = date_case(ctx, osu, ns, off)
        cases.append(case); impl.append(s)
        l_fmt.append("fmt %d %d" % (ns, off)); l_fix.append("fmtfix %d %d" % (ns, off))
    m_fmt = ctx.model(l_fmt)
    m_fix = ctx.model(l_fix)
    for case, s, a, b, la in zip(cases, impl, m_fmt, m_fix, l_fmt):
        ns, off = case["ns"], case["offset"]
        ctx.traces += 1
        h = hx(s)
        fam = classify_date(ns, off) if off % 60 == 0 else ("odd-offset" if off < 0 or (ns < 0 and ns % NS) else None)
        ctx.case(case, nontrivial=(ns % NS != 0 or off != 0))
        ctx.count("date:%s" % ("agree" if a == b else "defect-family"))
        ctx.count("date:offsign=%s frac=%s tsign=%s" % ("-" if off < 0 else "+", "y" if ns % NS else "n", "-" if ns < 0 else "+"))
        if "unsupported" in (a, b):
            if a == b:
                ctx.count("date:out-of-model-range")
                continue
        if a == b:
            if h != a:
                ctx.mismatch(case, h, a, line=la)
        else:
            # the two formatters differ only on the F11 families: the code must be one of them
            if fam is None:
                ctx.mismatch(case, h, "fmt=%s fmtfix=%s (models differ outside the defect families)" % (a, b), line=la)
            elif h == a:
                ctx.count("date:impl=as-written")
            elif h == b:
                ctx.count("date:impl=intended")
            else:
                ctx.mismatch(case, h, "fmt=%s | fmtfix=%s" % (a, b), line=la)
    # unpack: every string the implementation produced + the intended strings + malformed ones
    ustr = []
    seen = set()
    for s in impl:
        if s not in seen:
            seen.add(s); ustr.append(s)
    for b in m_fix:
        if b != "unsupported":
            s = bytes.fromhex(b).decode()
            if s not in seen:
                seen.add(s); ustr.append(s)
    good = [s for s in ustr[:400]]
    mal = []
    for s in good[:ctx.pick(150, 400)]:
        wd, rest = s.split(" ", 1)
        r = rng.randrange(12)
        if r == 0:
            mal.append(rest)                                   # no weekday
        elif r == 1:
            mal.append("Xyz " + rest)
        elif r == 2:
            mal.append(s.replace(".", "", 1))
        elif r == 3:
            mal.append(s.rsplit(" ", 1)[0])                    # no timezone
        elif r == 4:
            mal.append(s[:9] + "13" + s[11:])                  # month 13
        elif r == 5:
            mal.append(s[:12] + "32" + s[14:])                 # day 32
        elif r == 6:
            mal.append(s[:15] + "24" + s[17:])                 # hour 24
        elif r == 7:
            mal.append(s[:-2] + "x0")                          # bad offset
        elif r == 8:
            mal.append(s.replace(" ", "", 1))
        elif r == 9:
            mal.append(s[:12] + "00" + s[14:])                 # day 00
        elif r == 10:
            mal.append(wd.lower() + " " + rest)
        else:
            mal.append(s[:18] + "61" + s[20:])                 # minute 61
    mal += ["", " ", "Mon", "Mon ", "Thu 1970-01-01 00:00:00", "Thu 1970-01-01 00:00:00.5", "Thu 1970-01-01 00:00:00.5 ",
            "Thu 1970-01-01 00:00:00.5 +", "Thu 1970-01-01 00:00:00.5 -", "Thu 1970-01-01 00:00:00.500000000 99999999999"]
    cases, lines, outs = [], [], []
    for s in ustr:
        c = dict(op="unpack", s=s)
        cases.append(c); lines.append("unp " + hx(s)); outs.append(unpack_canon(osu, s))
        ctx.case(c, nontrivial=True)
    ctx.diff(cases, lines, outs)
    # malformed stream: accept/reject + error kind only
    cases, lines, outs = [], [], []
    for s in mal:
        c = dict(op="unpack-malformed", s=s)
        o = unpack_canon(osu, s)
        cases.append(c); lines.append("unp " + hx(s)); outs.append(o if o.startswith("E:") else "accept")
        ctx.case(c, nontrivial=True)
        ctx.count("unpack-malformed:%s" % (o if o.startswith("E:") else "accept"))
    mo = ctx.model(lines)
    for c, l, i, m in zip(cases, lines, outs, mo):
        ctx.traces += 1
        mm = m if m.startswith("E:") else "accept"
        if i != mm:
            ctx.mismatch(c, i, mm, line=l)


# --------------------------------------------------------------------------


def run_corpus(ctx, osu):
    d = os.path.join(env.VERIF, "corpus", "C47")
    if not os.path.isdir(d):
        return
    for fn in sorted(os.listdir(d)):
        if fn.endswith(".json"):
            case = json.load(open(os.path.join(d, fn)))
            case = case.get("case", case)
            _replay_one(ctx, osu, case)
            ctx.count("corpus")


def _replay_one(ctx, osu, case):
    op = case["op"]
    if op == "mps":
        canon, fails = mps_case(osu, case["paths"])
        for f in fails[:1]:
            ctx.violation(case, "minimum_path_selection(%r): %s" % (case["paths"], f))
        m = ctx.model(["mps " + hxl(case["paths"])])[0]
        ctx.traces += 1
        if m != canon:
            ctx.mismatch(case, canon, m)
        return dict(impl=canon, model=m)
    if op in ("insideany", "insideorparent"):
        fn = osu.is_inside_any if op == "insideany" else osu.is_inside_or_parent_of_any
        r = fn(case["dirs"], case["f"])
        if op == "insideany":
            ref = any(is_prefix(comps(d), comps(case["f"])) for d in case["dirs"])
            if r != ref:
                ctx.violation(case, "is_inside_any(%r, %r)=%r but component containment says %r"
                              % (case["dirs"], case["f"], r, ref))
            sel = osu.minimum_path_selection(set(case["dirs"]))
            if osu.is_inside_any(list(sel), case["f"]) != r:
                ctx.violation(case, "is_inside_any differs between the set and its minimum selection %r" % (sorted(sel),))
        m = ctx.model(["%s %s %s" % (op, hxl(case["dirs"]), hx(case["f"]))])[0]
        return dict(impl="T" if r else "F", model=m)
    if op == "inside":
        r = osu.is_inside(case["d"], case["f"])
        ref = is_prefix(comps(case["d"]), comps(case["f"]))
        if r != ref:
            ctx.violation(case, "is_inside(%r, %r)=%r but component containment says %r" % (case["d"], case["f"], r, ref))
        m = ctx.model(["inside %s %s" % (hx(case["d"]), hx(case["f"]))])[0]
        return dict(impl="T" if r else "F", model=m)
    if op == "splitpath":
        p = case["p"]
        r, e = _err(osu.splitpath, p)
        if e is None:
            j, e2 = _err(osu.joinpath, r)
            if normalised(p) and j != p:
                ctx.violation(case, "normalised path %r: joinpath(splitpath(p)) = %r" % (p, j))
            if e2 or _err(osu.splitpath, j)[0] != r or [c for c in r if not valid_comp(c)]:
                ctx.violation(case, "splitpath(%r) = %r does not survive join/split" % (p, r))
        elif normalised(p):
            ctx.violation(case, "splitpath rejects the normalised path %r" % (p,))
        m = ctx.model(["splitpath " + hx(p)])[0]
        return dict(impl=e if e else hxl(r), model=m)
    if op == "joinpath":
        cs = case["parts"]
        r, e = _err(osu.joinpath, cs)
        if all(valid_comp(c) for c in cs) and (e or osu.splitpath(r) != cs):
            ctx.violation(case, "splitpath(joinpath(%r)) is not the identity: %r" % (cs, e or osu.splitpath(r)))
        elif e is None and all("/" not in c and c != "." for c in cs) and _err(osu.splitpath, r)[0] != cs:
            ctx.violation(case, "joinpath(%r) = %r is accepted but splits back to %r" % (cs, r, _err(osu.splitpath, r)))
        m = ctx.model(["joinpath " + hxl(cs)])[0]
        return dict(impl=e if e else hx(r), model=m)
    if op in ("split_lines", "core.split_lines"):
        text = bytes.fromhex(case["text"])
        if op.startswith("core."):
            o = probe(["sl " + hx(text)])[0]
            got = [] if o == "~" else [bytes.fromhex(x) for x in o.split(",")]
            m = ctx.model(["sl " + hx(text)])[0]
        else:
            got = osu.split_lines(text)
            m = ctx.model(["slpy " + hx(text)])[0]
        why = lines_oracle(text, got)
        if why:
            ctx.violation(case, "%s(%r) = %r: %s" % (op, text, got, why))
        return dict(impl=hxl(got), model=m)
    if op in ("chunks_to_lines", "core.chunks_to_lines"):
        chunks = [bytes.fromhex(x) for x in case["chunks"]]
        text = b"".join(chunks)
        if op.startswith("core."):
            o = probe(["cl " + hxl(chunks)])[0]
            got = [] if o == "~" else [bytes.fromhex(x) for x in o.split(",")]
            m = ctx.model(["cl " + hxl(chunks)])[0]
        else:
            got = osu.chunks_to_lines(list(chunks))
            m = ctx.model(["clpy " + hxl(chunks)])[0]
        why = lines_oracle(text, got)
        if why or got != osu.split_lines(text):
            ctx.violation(case, "%s(%r) = %r: %s" % (op, chunks, got, why or "differs from split_lines of the concatenation"))
        return dict(impl=hxl(got), model=m)
    if op == "date":
        c, s = date_case(ctx, osu, case["ns"], case["offset"])
        a, b = ctx.model(["fmt %d %d" % (case["ns"], case["offset"]), "fmtfix %d %d" % (case["ns"], case["offset"])])
        dec = lambda h: bytes.fromhex(h).decode() if h not in ("unsupported", "-") else h
        return dict(impl=s, model_as_written=dec(a), model_intended=dec(b), unpacked=unpack_canon(osu, s))
    if op in ("unpack", "unpack-malformed"):
        o = unpack_canon(osu, case["s"])
        m = ctx.model(["unp " + hx(case["s"])])[0]
        return dict(impl=o, model=m)
    raise ValueError("unknown op %r" % op)


def run(ctx):
    from breezy import osutils as osu
    build_probe()
    run_corpus(ctx, osu)
    run_paths(ctx, osu)
    run_splitjoin(ctx, osu)
    run_lines(ctx, osu)
    run_dates(ctx, osu)
    # report violations outside the known defect families first (stable)
    ctx.violations.sort(key=lambda v: v.get("family") is not None)


def widen(ctx):
    ctx.tier = "thorough"
    run(ctx)


def replay(ctx, case):
    from breezy import osutils as osu
    r = _replay_one(ctx, osu, case)
    r = dict(r or {}, case=case, oracle_failures=[v["what"] for v in ctx.violations])
    return r
