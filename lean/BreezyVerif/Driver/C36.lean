import BreezyVerif.Common
import BreezyVerif.Model.C36
namespace BreezyVerif.C36

/-! Line protocol.  bytes: lowercase hex (`-` empty); str: code points in
decimal separated by `,` (`-` empty); `~` = Python `None`. -/

def pBytes (s : String) : Option NBytes := (fromHex s).map (·.map UInt8.toNat)
def pStr (s : String) : Option Str := parseNatList s
def pOptBytes (s : String) : Option (Option NBytes) := if s == "~" then some none else (pBytes s).map some
def pOptStr (s : String) : Option (Option Str) := if s == "~" then some none else (pStr s).map some

def sBytes (b : NBytes) : String :=
  if isBytes b then toHex (b.map UInt8.ofNat) else "not-bytes"
def sStr (s : Str) : String := joinList (s.map toString)
def sOptBytes : Option NBytes → String | none => "~" | some b => sBytes b
def sOptStr : Option Str → String | none => "~" | some b => sStr b

def sExcept {α : Type} (f : α → String) : Except Err α → String
  | .ok a => f a
  | .error e => e.toString

def pCfg (s : String) : Option Cfg :=
  -- entries `sec.sub.name=value` (all hex) separated by `;`, `-` = empty
  if s == "-" then some [] else
  (s.splitOn ";").mapM fun e =>
    match e.splitOn "=" with
    | [k, v] =>
      match k.splitOn "." with
      | [a, b, c] =>
        match pBytes a, pBytes b, pBytes c, pBytes v with
        | some a, some b, some c, some v => some ((a, b, c), v)
        | _, _, _, _ => none
      | _ => none
    | _ => none

def sCfg (c : Cfg) : String :=
  if c.isEmpty then "-" else
  ";".intercalate (c.map fun e => sBytes e.1.1 ++ "." ++ sBytes e.1.2.1 ++ "." ++ sBytes e.1.2.2 ++ "=" ++ sBytes e.2)

def handle : List String → String
  | ["esc", b] => match pBytes b with | some b => sBytes (escapeFileId b) | none => "bad-op"
  | ["unesc", b] =>
    match pBytes b with
    | some b => (match unescapeFileId b with | some r => sBytes r | none => "E:Value")
    | none => "bad-op"
  | ["decse", b] => match pBytes b with | some b => sStr (decodeSE b) | none => "bad-op"
  | ["decst", b] =>
    match pBytes b with
    | some b => (match decodeStrict b with | some r => sStr r | none => "E:UnicodeDecode")
    | none => "bad-op"
  | ["enc", se, s] =>
    match parseBool se, pStr s with
    | some se, some s => (match encodeUtf8 se s with | some r => sBytes r | none => "E:UnicodeEncode")
    | _, _ => "bad-op"
  | ["genb", b] => match pBytes b with | some b => sBytes (generateFileId b) | none => "bad-op"
  | ["gens", s] =>
    match pStr s with
    | some s => (match generateFileIdStr s with | some r => sBytes r | none => "E:UnicodeEncode")
    | none => "bad-op"
  | ["parse", b] =>
    match pBytes b with
    | some b => (match parseFileId b with | some r => sStr r | none => "E:Value")
    | none => "bad-op"
  | ["f2b", p, s] =>
    match pBytes p, pBytes s with
    | some p, some s => sBytes (foreignToBzr p s)
    | _, _ => "bad-op"
  | ["b2f", p, r] =>
    match pBytes p, pBytes r with
    | some p, some r => sExcept sBytes (mappingBzrToForeign p r)
    | _, _ => "bad-op"
  | ["reg", r] =>
    match pBytes r with
    | some r => sExcept (fun x => sBytes x.1 ++ " " ++ sOptBytes x.2) (registryBzrToForeign r)
    | none => "bad-op"
  | ["b2r", s] =>
    match pStr s with
    | some s => (match branchNameToRef s with | some r => sBytes r | none => "E:UnicodeEncode")
    | none => "bad-op"
  | ["t2r", s] =>
    match pStr s with
    | some s => (match tagNameToRef s with | some r => sBytes r | none => "E:UnicodeEncode")
    | none => "bad-op"
  | ["r2b", b] =>
    match pOptBytes b with
    | some b => sExcept sOptStr (refToBranchName b)
    | none => "bad-op"
  | ["r2t", b] =>
    match pBytes b with
    | some b => sExcept sStr (refToTagName b)
    | none => "bad-op"
  | ["escs", s] =>
    match pStr s with
    | some s => (match escapeStr s with | some r => sStr r | none => "E:UnicodeEncode")
    | none => "bad-op"
  | ["unescs", s] => match pStr s with | some s => sExcept sStr (unescapeStr s) | none => "bad-op"
  | ["quoteb", b] => match pBytes b with | some b => sStr (pctEncode [] b) | none => "bad-op"
  | ["unquoteb", s] => match pStr s with | some s => sBytes (pctDecode s) | none => "bad-op"
  | ["splitseg", s] =>
    match pStr s with
    | some s =>
      (match splitSegParams s with
       | some (b, ps) => sStr b ++ " " ++ (if ps.isEmpty then "-" else
           ";".intercalate (ps.map fun kv => sStr kv.1 ++ "=" ++ sStr kv.2))
       | none => "E:Value")
    | none => "bad-op"
  | ["joinseg", u, k, v] =>
    match pStr u, pStr k, pStr v with
    | some u, some k, some v => (match joinSegParam u k v with | some r => sStr r | none => "E:Value")
    | _, _, _ => "bad-op"
  | ["g2b", loc, br, rf] =>
    match pStr loc, pOptStr br, pOptBytes rf with
    | some loc, some br, some rf => sExcept sStr (gitUrlToBzrUrl loc br rf)
    | _, _, _ => "bad-op"
  | ["g2bL", loc, br, rf] =>
    match pStr loc, pOptStr br, pOptBytes rf with
    | some loc, some br, some rf => sExcept sStr (gitUrlToBzrUrlLegacy loc br rf)
    | _, _, _ => "bad-op"
  | ["b2g", u] =>
    match pStr u with
    | some u => sExcept (fun x => sStr x.1 ++ " " ++ sOptStr x.2.1 ++ " " ++ sOptBytes x.2.2) (bzrUrlToGitUrl u)
    | none => "bad-op"
  | ["b2gL", u] =>
    match pStr u with
    | some u => sExcept (fun x => sStr x.1 ++ " " ++ sOptStr x.2.1 ++ " " ++ sOptStr x.2.2) (bzrUrlToGitUrlLegacy u)
    | none => "bad-op"
  | ["setp", cfg, name, loc] =>
    match pCfg cfg, pStr name, pStr loc with
    | some c, some n, some l => sExcept sCfg (setParent c n l)
    | _, _, _ => "bad-op"
  | ["setpf", cfg, name, loc] =>
    -- `set_parent`, then the configuration as `from_file` reads what `write_to_file` wrote
    match pCfg cfg, pStr name, pStr loc with
    | some c, some n, some l =>
      sExcept (fun c' => match cfgRereadAll c' with | some c'' => sCfg c'' | none => "E:Value") (setParent c n l)
    | _, _, _ => "bad-op"
  | ["getp", cfg, name] =>
    match pCfg cfg, pStr name with
    | some c, some n => sExcept sOptStr (getParentLocation c n)
    | _, _ => "bad-op"
  | ["getpL", cfg, name] =>
    match pCfg cfg, pStr name with
    | some c, some n => sExcept sOptStr (getParentLocationLegacy c n)
    | _, _ => "bad-op"
  | ["cfgfmt", b] => match pBytes b with | some b => sBytes (cfgFormat b) | none => "bad-op"
  | ["cfgparse", b] =>
    match pBytes b with
    | some b => (match cfgParse b with | some r => sBytes r | none => "E:Value")
    | none => "bad-op"
  | ["cfgreread", b] =>
    match pBytes b with
    | some b => (match cfgReread b with | some r => sBytes r | none => "E:Value")
    | none => "bad-op"
  | ["cfgsafe", b] => match pBytes b with | some b => showBool (cfgValueSafe b) | none => "bad-op"
  | ["subesc", b] => match pBytes b with | some b => sBytes (subsecEscape b) | none => "bad-op"
  | ["subunesc", b] => match pBytes b with | some b => sBytes (subsecUnescape b) | none => "bad-op"
  | ["consts"] =>
    " ".intercalate [sBytes rootId, sBytes fileIdPrefix, sBytes nullRevision, sBytes zeroSha, sBytes headRef,
      sBytes headsPrefix, sBytes tagsPrefix, ";".intercalate (knownMappings.map sBytes),
      ";".intercalate (knownSchemes.map sBytes), sBytes kBranch, sBytes kRef]
  | _ => "bad-op"

end BreezyVerif.C36

def main : IO Unit := BreezyVerif.runDriver BreezyVerif.C36.handle
