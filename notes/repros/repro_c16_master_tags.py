#!/venv/bin/python
"""C16 family unsynced-master-tags-removed-by-name: in a bound branch uncommit computes the tags to drop from the
BOUND BRANCH's tag dict and deletes them in the master BY NAME.  When the two tag dicts disagree
 (a) a master tag on a revision that stays is deleted (same name, different revision), and
 (b) a master tag on a removed revision is kept (no tag of that name on a removed revision in the bound branch).
usage: [VERIF_REPO=/path] /venv/bin/python repro_c16_master_tags.py   (exit 1 when the defect is present)"""
import os, sys, tempfile, shutil
base = tempfile.mkdtemp(prefix="c16repro-", dir="/var/tmp/imp-C15C16")
os.environ.update(HOME=base, BRZ_HOME=base, BRZ_EMAIL="T <t@e.c>", BRZ_PLUGIN_PATH="-user:-site")
sys.path.insert(0, os.environ.get("VERIF_REPO", "/repo"))
import breezy; breezy.initialize()
import breezy.bzr, breezy.bzr.bzrdir, breezy.bzr.workingtree_4, breezy.bzr.groupcompress_repo
from breezy import ui, trace
from breezy.controldir import ControlDir, format_registry
from breezy.branch import Branch
from breezy.uncommit import uncommit
ui.ui_factory = ui.SilentUIFactory(); trace.be_quiet(True)
fmt = format_registry.make_controldir("2a")
m = ControlDir.create_standalone_workingtree(base + "/master", format=fmt)
open(base + "/master/f", "w").write("1\n"); m.add(["f"]); m.commit("one", rev_id=b"r1")
open(base + "/master/f", "w").write("2\n"); m.commit("two", rev_id=b"r2")
co = m.branch.create_checkout(base + "/co")          # bound branch + tree
# unsynced tag dicts (a tag conflict between the bound branch and its master)
co.branch.tags._set_tag_dict({"a": b"r2"})
Branch.open(base + "/master").tags._set_tag_dict({"a": b"r1", "b": b"r2"})
uncommit(co.branch, tree=co)                          # removes r2 from both
got = Branch.open(base + "/master").tags.get_tag_dict()
print("master tags after uncommit of r2:", got)
bad = 0
if "a" not in got:
    print("FAILS (a): master tag a -> r1 deleted although r1 is still in the history"); bad = 1
if "b" in got:
    print("FAILS (b): master tag b -> r2 kept although r2 was removed"); bad = 1
shutil.rmtree(base, ignore_errors=True)
sys.exit(bad)
