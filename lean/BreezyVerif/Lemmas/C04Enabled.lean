import BreezyVerif.Model.C04
import BreezyVerif.Lemmas.C04
/-!
C04 — enabledness: the total `step` treats a transport call whose precondition
fails (closing a stream that is not open, moving / deleting a missing file,
taking a held lock) as a no-op.  `runT` runs an operation list and FAILS at the
first call whose precondition does not hold — except for the calls whose failure
the real code tolerates (`except (errors.PathError, errors.TransportError)`
around every `delete` of `_clear_obsolete_packs` and every `move` of
`_obsolete_packs`).  The lemmas show that the operation lists of the model never
take a "missing file" branch of `step` outside those tolerated calls.
-/
namespace BreezyVerif.C04

/-- calls whose failure the real code catches and logs -/
def tolerated : Op → Bool
  | .delete f => f.dir == .obsolete
  | .move _ b => b.dir == .obsolete
  | _ => false

/-- run, failing at the first non-tolerated call whose precondition fails -/
def runT (d : Disk) : List Op → Option Disk
  | [] => some d
  | op :: rest => if Enabled d op || tolerated op then runT (step d op) rest else none

theorem runT_append_some (d : Disk) (a b : List Op)
    (ha : runT d a = some (run d a)) (hb : runT (run d a) b = some (run (run d a) b)) :
    runT d (a ++ b) = some (run d (a ++ b)) := by
  induction a generalizing d with
  | nil => simpa [run] using hb
  | cons op rest ih =>
    simp only [runT, List.cons_append] at ha ⊢
    split at ha
    · rename_i h
      simp only [h, if_true]
      rw [run_cons] at ha hb ⊢
      exact ih (step d op) ha hb
    · cases ha

theorem runT_tolerated (d : Disk) (l : List Op) (h : ∀ op ∈ l, tolerated op = true) :
    runT d l = some (run d l) := by
  induction l generalizing d with
  | nil => rfl
  | cons op rest ih =>
    simp only [runT, h op (by simp), Bool.or_true, if_true, run_cons]
    exact ih _ (fun o ho => h o (by simp [ho]))

/-- an operation that is neither lock nor unlock -/
def noLock : Op → Bool
  | .lock => false
  | .unlock => false
  | _ => true

theorem step_locked {d : Disk} {op : Op} (h : noLock op = true) : (step d op).locked = d.locked := by
  cases op <;> simp [step, noLock] at h ⊢ <;> (repeat' split) <;> rfl

theorem run_locked (l : List Op) (d : Disk) (h : ∀ op ∈ l, noLock op = true) : (run d l).locked = d.locked := by
  induction l generalizing d with
  | nil => rfl
  | cons op rest ih =>
    rw [run_cons, ih _ (fun o ho => h o (by simp [ho])), step_locked (h op (by simp))]

theorem clearOps_tolerated (d : Disk) (p : List Nat) : ∀ op ∈ clearOps d p, tolerated op = true := by
  intro op hop
  simp only [clearOps, clearTargets, List.mem_map, List.mem_filter] at hop
  obtain ⟨f, ⟨_, hf⟩, rfl⟩ := hop
  simp only [Bool.and_eq_true, decide_eq_true_eq] at hf
  simp [tolerated, hf.1]

theorem clearOps_noLock (d : Disk) (p : List Nat) : ∀ op ∈ clearOps d p, noLock op = true := by
  intro op hop
  simp only [clearOps, List.mem_map] at hop
  obtain ⟨f, _, rfl⟩ := hop; rfl

theorem obsoleteOps_tolerated (chk : Bool) (n : Nat) : ∀ op ∈ obsoleteOps chk n, tolerated op = true := by
  intro op hop
  simp only [obsoleteOps, List.mem_cons, List.mem_map] at hop
  rcases hop with rfl | ⟨e, _, rfl⟩ <;> rfl

theorem newPackOps_noLock (chk : Bool) (tmp : File) (name : Nat) :
    ∀ op ∈ newPackOps chk tmp name, noLock op = true := by
  intro op hop
  simp only [newPackOps, finishOps, List.mem_cons, List.mem_append, List.mem_flatMap,
    List.not_mem_nil, or_false] at hop
  rcases hop with rfl | ⟨e, _, rfl | rfl⟩ | rfl | rfl <;> rfl

/-- **No call of "write a new pack and `finish()` it" can fail**, from any
directory state: every stream that is closed was opened, the upload file that
is renamed exists. -/
theorem newPackOps_enabled (chk : Bool) (d : Disk) (t : Nat) (auto : Bool) (name : Nat) :
    runT d (newPackOps chk (upTmp t auto) name) = some (run d (newPackOps chk (upTmp t auto) name)) := by
  cases chk <;> cases auto <;>
    simp [newPackOps, finishOps, idxExts, upTmp, runT, run, step, Enabled, rm, List.mem_filter]

def sClear (d : Disk) (obs : Option (List Nat)) : List Op :=
  match obs with
  | none => []
  | some s => clearOps d s

def sObsol (chk : Bool) (d : Disk) (obs : Option (List Nat)) : List Op :=
  match obs with
  | none => []
  | some s => (s.filter (fun n => !(alreadyObsolete d).contains n)).flatMap (obsoleteOps chk)

theorem saveOps_split (chk : Bool) (d : Disk) (v : View) (obs : Option (List Nat)) :
    saveOps chk d v obs = [Op.lock, Op.putNames (mergeNames d.names v.atLoad v.names)]
      ++ (sClear d obs ++ ([Op.unlock] ++ sObsol chk d obs)) := by
  cases obs <;> simp [saveOps, sClear, sObsol]

theorem sClear_ok (d : Disk) (obs : Option (List Nat)) :
    ∀ op ∈ sClear d obs, tolerated op = true ∧ noLock op = true := by
  intro op hop
  cases obs with
  | none => cases hop
  | some s => exact ⟨clearOps_tolerated d s op hop, clearOps_noLock d s op hop⟩

theorem sObsol_ok (chk : Bool) (d : Disk) (obs : Option (List Nat)) :
    ∀ op ∈ sObsol chk d obs, tolerated op = true := by
  intro op hop
  cases obs with
  | none => cases hop
  | some s =>
    simp only [sObsol, List.mem_flatMap] at hop
    obtain ⟨n, _, hop⟩ := hop
    exact obsoleteOps_tolerated chk n op hop

/-- **No non-tolerated call of `_save_pack_names` can fail** when the names lock
is free: the lock is taken before `put_file`, and is still held when it is
released (the deletions in between do not touch it). -/
theorem saveOps_enabled (chk : Bool) (d0 d : Disk) (v : View) (obs : Option (List Nat)) (hl : d0.locked = false) :
    runT d0 (saveOps chk d v obs) = some (run d0 (saveOps chk d v obs)) := by
  rw [saveOps_split]
  apply runT_append_some
  · simp [runT, run, step, Enabled, hl]
  · apply runT_append_some
    · exact runT_tolerated _ _ (fun op h => (sClear_ok d obs op h).1)
    · apply runT_append_some
      · have hlk : (run (run d0 [Op.lock, Op.putNames (mergeNames d.names v.atLoad v.names)])
            (sClear d obs)).locked = true := by
          rw [run_locked _ _ (fun op h => (sClear_ok d obs op h).2)]
          rfl
        simp only [runT, Enabled, hlk, Bool.true_or, if_true]
        rfl
      · exact runT_tolerated _ _ (sObsol_ok chk d obs)

end BreezyVerif.C04
