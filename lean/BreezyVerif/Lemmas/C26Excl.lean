import BreezyVerif.Lemmas.C26Inv
/-!
C26 — a decidable form of "no two break windows overlap" for runs that only
mention lockers `< n`, and its link to `Excl`.
-/
namespace BreezyVerif.C26

def Ev.locker : Ev → Nat
  | .start i _ | .step i | .fault i _ | .crash i => i

/-- among lockers `< n` at most one is inside a break window -/
def exclUpTo (n : Nat) (s : Sys) : Bool :=
  (List.range n).all fun i => (List.range n).all fun j =>
    !((s.lk i).pc.inWindow && (s.lk j).pc.inWindow) || i == j

/-- in every state the run `evs` passes through (from `s`), at most one locker `< n` is inside a break window -/
def exclusiveBreaks (n : Nat) (s : Sys) (evs : List Ev) : Bool :=
  (List.range (evs.length + 1)).all fun k => exclUpTo n (s.run (evs.take k))

/-- lockers `≥ n` have never done anything -/
def Quiet (n : Nat) (s : Sys) : Prop := ∀ i, n ≤ i → (s.lk i).pc = .idle

theorem Quiet.init (n : Nat) (cfg : Nat → Cfg) (h : Option Dir) : Quiet n (Sys.init cfg h) :=
  fun _ _ => rfl

theorem Quiet.step {n : Nat} {s : Sys} (q : Quiet n s) (e : Ev) (he : e.locker < n) : Quiet n (s.step e) := by
  intro i hi
  have hne : ∀ c, c < n → i ≠ c := fun c hc => by omega
  cases e with
  | crash c => exact q i hi
  | fault c k =>
    simp only [Sys.step]; split
    · exact q i hi
    · simp only [upd_other _ _ (hne c he)]; exact q i hi
  | start c op =>
    simp only [Sys.step]; split
    · exact q i hi
    · split
      · simp only [upd_other _ _ (hne c he)]; exact q i hi
      · exact q i hi
  | step c =>
    simp only [Sys.step]; split
    · exact q i hi
    · simp only [upd_other _ _ (hne c he)]; exact q i hi

theorem Quiet.run {n : Nat} {s : Sys} (q : Quiet n s) (evs : List Ev) (he : ∀ e ∈ evs, e.locker < n) :
    Quiet n (s.run evs) := by
  induction evs generalizing s with
  | nil => exact q
  | cons e es ih =>
    rw [run_cons]
    exact ih (q.step e (he e (by simp))) (fun e' he' => he e' (by simp [he']))

theorem excl_of_upTo {n : Nat} {s : Sys} (q : Quiet n s) (h : exclUpTo n s = true) : Excl s := by
  intro i j hi hj
  have lt : ∀ a, (s.lk a).pc.inWindow = true → a < n := by
    intro a ha
    by_cases hlt : a < n
    · exact hlt
    · have := q a (by omega)
      simp [this, Pc.inWindow, Pc.expects] at ha
  simp only [exclUpTo, List.all_eq_true, List.mem_range] at h
  have := h i (lt i hi) j (lt j hj)
  simpa [hi, hj] using this

/-- the decidable hypothesis implies `Excl` at every prefix -/
theorem excl_prefixes {n : Nat} {s : Sys} (q : Quiet n s) (evs : List Ev) (he : ∀ e ∈ evs, e.locker < n)
    (h : exclusiveBreaks n s evs = true) (k : Nat) : Excl (s.run (evs.take k)) := by
  have hq : Quiet n (s.run (evs.take k)) :=
    q.run (evs.take k) (fun e hm => he e (List.mem_of_mem_take hm))
  apply excl_of_upTo hq
  simp only [exclusiveBreaks, List.all_eq_true, List.mem_range] at h
  by_cases hk : k < evs.length + 1
  · exact h k hk
  · have : evs.take k = evs.take evs.length := by
      rw [List.take_length, List.take_of_length_le (by omega)]
    rw [this]
    exact h evs.length (by omega)

end BreezyVerif.C26
