"""C38 — all git SHA-map cache backends answer identically.

Mechanism: breezy/git/cache.py — DictGitShaMap/DictCacheUpdater,
SqliteGitShaMap/SqliteCacheUpdater, IndexGitShaMap/IndexCacheUpdater
(TdbGitShaMap is exercised when the `tdb` module can be imported; it cannot in
this environment and is then counted as unavailable), GitShaMap.missing_revisions,
BzrGitCacheFormat.from_transport.

Model (lean/BreezyVerif/Model/C38.lean): one state (git rows, blob map, tree
map, commit map) and the update policy of each backend (`dict` = the
specification: later adds override, every entry of a sha is kept; `sqlite` =
`replace into` with the tables' unique indices; `index` = add a node only when
its key is absent, one node per sha, no tree ids), the queries, the hypotheses
`okSqlite` / `okIndex` under which the policies coincide, and the layered
storage of the index backend (files + builder, reopen with the files in any
order).

T2 (every run): update sequences = (a) the add_object calls recorded while a
real BazaarObjectStore converts generated native histories (C35's history
generator: copies of a text under a second file id, reverted texts, pointless
commits, merges), (b) synthetic functional sequences over small pools (shared
shas: duplicate blobs under several file ids and revisions, the same tree —
including the empty tree — under several keys, re-adds of identical rows),
(c) synthetic non-functional sequences (a key re-added with another sha;
compared with the model only).  Each sequence is split into sessions
(get_updater / add_object* / finish) and write groups and applied to every
available backend (blob/tree objects randomly as ShaFile or as the
`(type, hexsha)` tuple form); after every write group and again after closing
and re-opening the persistent backends (sqlite: connection dropped from
cache.mapdbs() and closed; index: a new IndexGitShaMap on the transport; both
also through BzrGitCacheFormat.from_transport) the full query set —
lookup_git_sha of every sha seen and of unknown ones, lookup_blob_id /
lookup_tree_id of every key, lookup_commit, revids, sha1s, missing_revisions of
sets/lists with duplicates and unknown ids — is canonicalised and compared with
the model of *that* backend.  Raw `_add_node` / `_get_entry` / write-group /
reopen scripts against IndexGitShaMap are compared with the layered model.

Added in the improvement round: (i) cross-kind queries (lookup_blob_id of a key
recorded only for a tree and vice versa) are issued to every backend; the
in-memory backend is compared with a literal model of its ONE shared
`_by_fileid` dict (`run dictshared`, chosen by a probe; `run dict` once blob and
tree ids are kept apart); (ii) the `_add_node` calls IndexCacheUpdater.add_object
makes for every kind of op are recorded and compared with the model's `opNodes`
(key tuples and space-joined values); (iii) after every checkpoint the raw index
entries (`_get_entry` of every git / blob / commit key, on the live map and on a
re-opened IndexGitShaMap) are compared with the layered model run on the same
write groups (`groups`: IdxStore.runGroups, reopen with the files reversed) —
the executable side of index_store_refines / index_reopen_answers; (iv) the
hypothesis cross-check uses both flags: `okSeq okSqlite` true with sqlite
disagreeing, or `okSeq okIndex` true with index disagreeing, is a tie failure
(same-kind queries only).

Oracle (independent of the model): for the functional sequences every backend's
answers are compared with the in-memory backend's, query by query, before and
after reopen (NotImplementedError of lookup_tree_id counts as an abstention);
"lookup after add" (every added entry is among lookup_git_sha(sha), every key
maps to its sha, every revid to its commit), missing_revisions(s) = s \\ revids,
and answers after reopen = answers before.

Known findings (committed in known_findings.json; families computed from the
update sequence and the query — both are properties of the on-disk formats):
  index-one-entry-per-sha       lookup_git_sha on the index backend returns only
                                the first entry ever recorded for a sha (same text
                                under two file ids / in two revisions, unchanged
                                root tree in two revisions);
  sqlite-tree-sha-unique        the sqlite `trees` table has a unique index on
                                sha1: recording a tree id for a second
                                (fileid, revid) deletes the first row
                                (lookup_tree_id -> KeyError, lookup_git_sha shows
                                only the newest key).
New finding of the improvement round (family computed from the ops and the query):
  dict-blob-tree-ids-shared     DictGitShaMap answers lookup_blob_id for a key that
                                only a TREE add used (and lookup_tree_id for a blob
                                key) with that object's sha — one dict holds both —
                                while sqlite and index raise KeyError.
Fixed in /repo (26ff82f) and therefore plain VIOLATIONs if they return:
SqliteGitShaMap.sha1s() raising AttributeError on a non-empty map, and
IndexGitShaMap overwriting the .rix file of an earlier write group when the
same revision is converted again (entries lost after reopen).  A probe at the
start of the run (`index_survives_name_clash`) confirms the fixed behaviour;
when it fails the probe itself is reported and the clash sequences are compared
by the oracle only (the flat model describes the fixed behaviour).

Mutants this was built against (scratch worktree; a mutant counts as caught
when it produces violations outside the two known families or model mismatches; all caught on seeds 0 and 1 by the oracle with a
concrete sequence + query, and by T2):
  M1 SqliteGitShaMap.lookup_blob_id binds (revision, fileid) to (fileid, revid);
  M2 IndexGitShaMap._add_node adds to the builder although the key exists in a
     committed file (needs two write groups);
  M3 GitShaMap.missing_revisions returns revids & present;
  M4 IndexGitShaMap.lookup_commit `[:40]` -> `[:39]`;
  M5 SqliteCacheUpdater.finish `replace into blobs` -> `insert or ignore`
     (needs a re-bound key: non-functional stream, override law on dict/sqlite);
  M6 DictGitShaMap.revids yields for every entry type;
  M7 IndexGitShaMap.missing_revisions consults only the newest index file
     (needs two write groups);
  M8 IndexGitShaMap._add_git_sha drops the testament;
  M9 SqliteGitShaMap.commit_write_group does not commit (reopen);
  M10 IndexGitShaMap.__init__ skips some .rix files (reopen);
  R3 fix 26ff82f reverted: sha1s() of the sqlite backend raises AttributeError
     and a write group applied twice wipes the index file — plain VIOLATIONs
     (probe + corpus/C38/same-revision-converted-twice.json + every sha1s query);
  improvement round (on the tree with blob/tree ids kept apart): MA DictGitShaMap.lookup_blob_id
     falling back to the tree ids, MB SqliteGitShaMap.lookup_blob_id falling back to the trees
     table (both need a cross-kind query), MC IndexCacheUpdater writing a blob node for trees
     (cross-kind query, `nodes` and raw index entries) — all caught by oracle and T2;
  harmless: DictCacheUpdater's setdefault + assignment split in two statements;
  Sqlite lookup_blob_id with the WHERE conjuncts (and bindings) swapped — clean.
"""
import hashlib
import os

from vlib import env

THEOREMS = [
    "dict_model_laws", "dict_override", "dict_frame", "missing_spec",
    "backends_agree_partial", "agree_queries_partial",
    "index_shared_sha_witness", "sqlite_tree_sha_witness",
    "reopen_id", "commit_get", "addNode_keeps_keys_unique", "addNode_get",
    "commitNamed_fresh", "name_clash_witness",
    "index_store_refines", "index_reopen_answers", "index_gitSha_first",
    "index_shared_sha_differs", "index_rebound_key_differs", "sqlite_shared_tree_sha_differs",
    "dict_shared_lookup_partial", "dict_cross_kind_witness",
]
RULE = ("case = (source: native history | synthetic functional | synthetic non-functional, digest of the op sequence, "
        "checkpoint index, backend, before/after reopen); non-trivial = the prefix contains a sha recorded for two "
        "different entries or spans >= 2 write groups; raw index scripts: one case per script")
ASSUMPTIONS = [
    "file ids and revision ids contain no whitespace or NUL (breezy's id rules); the index backend's value format relies on it",
    "update sequences produced from native histories are functional: a (fileid, revision) key and a revid always get the same sha (checked per recorded sequence)",
    "queries are made between write groups and never between add_object and finish",
    "cross-kind queries are issued only for keys used by one kind (generated and native sequences never use a (fileid, revision) for both a blob and a tree)",
]
TRUSTED = [
    "sqlite3, bzrformats' BTreeGraphIndex / CombinedGraphIndex / BTreeBuilder and the tdb module are exercised, not modelled; the model describes the tables' unique indices and _add_node's add-if-absent rule",
    "the decoding of index node values (split on spaces, value[:40]) is exercised through the queries, not modelled; the refinement theorems speak about the encoded node values; commit shas are 40 bytes (Op.wf)",
]

SHAS = [hashlib.sha1(b"obj%d" % i).hexdigest().encode() for i in range(10)]
EMPTY_TREE = b"4b825dc642cb6eb9a060e54bf8d69288fbee4904"
FIDS = [b"fid-a", b"fid-b", b"dir-1", b"TREE_ROOT", b"f\xc3\xa9-3"]
REVS = [b"rev-1", b"rev-2", b"a@b-2009-xyz", b"r\xc3\xa9v"]
TESTAMENTS = [None, b"ab" * 20, b"cd" * 20]


def hx(b):
    return b.hex() or "-"


def _b(x):
    """canonical byte form; a str answer is marked (the backends must agree on the type)"""
    if isinstance(x, bytes):
        return hx(x)
    if isinstance(x, str):
        return "s!" + hx(x.encode("utf-8", "surrogateescape"))
    return "?" + repr(x)


# --------------------------------------------------------------------------
# op sequences.  op = ("c", revid, sha, tree, testament) | ("b", sha, fid, rev) | ("t", sha, fid, rev)
# a sequence = list of write groups, a write group = list of sessions (revid, [ops])

def enc_op(o):
    if o[0] == "c":
        return "c:%s:%s:%s:%s" % (hx(o[1]), hx(o[2]), hx(o[3]), "~" if o[4] is None else hx(o[4]))
    return "%s:%s:%s:%s" % (o[0], hx(o[1]), hx(o[2]), hx(o[3]))


def flat_ops(groups):
    return [o for g in groups for (_r, ops) in g for o in ops]


def is_functional(ops):
    seen = {}
    for o in ops:
        k = ("c", o[1]) if o[0] == "c" else (o[0], o[2], o[3])
        v = (o[2], o[3], o[4]) if o[0] == "c" else o[1]
        if seen.setdefault(k, v) != v:
            return False
    return True


def gen_synthetic(rng, nsess, functional=True):
    keymap = {}
    used = []
    groups, cur = [], []
    nrev = 0
    for _ in range(nsess):
        revid = rng.choice(REVS) if rng.random() < 0.15 and not functional else b"%s-%d" % (rng.choice(REVS), nrev)
        nrev += 1
        ops = []
        for _ in range(rng.randrange(0, 5)):
            kind = rng.choice("bbt")
            fid = rng.choice(FIDS)
            rev = rng.choice([revid, revid, rng.choice(REVS), b"%s-%d" % (rng.choice(REVS), rng.randrange(max(1, nrev)))])
            sha = rng.choice(SHAS[:6] + ([EMPTY_TREE] if kind == "t" else []))
            if not functional and used and rng.random() < 0.35:
                kind, fid, rev = rng.choice(used)            # re-bind a key that is already recorded
            used.append((kind, fid, rev))
            # a (fileid, revision) key belongs to one kind (DictGitShaMap shares one dict for both)
            if keymap.setdefault(("kind", fid, rev), kind) != kind:
                continue
            if functional:
                sha = keymap.setdefault((kind, fid, rev), sha)
                # a sha belongs to one object type
                if keymap.setdefault(("type", sha), kind) != kind:
                    continue
            ops.append((kind, sha, fid, rev))
        csha = rng.choice(SHAS[6:]) if not functional else hashlib.sha1(b"commit" + revid).hexdigest().encode()
        tree = rng.choice(SHAS[:6] + [EMPTY_TREE])
        if functional:
            csha, tree, tm = keymap.setdefault(("c", revid), (csha, tree, rng.choice(TESTAMENTS)))
        else:
            tm = rng.choice(TESTAMENTS)
        ops.insert(rng.randrange(len(ops) + 1) if rng.random() < 0.2 else len(ops), ("c", revid, csha, tree, tm))
        if functional and rng.random() < 0.15 and ops:
            ops.append(rng.choice(ops))           # identical re-add
        cur.append((revid, ops))
        if rng.random() < 0.4:
            groups.append(cur)
            cur = []
    if cur:
        groups.append(cur)
    if functional and groups and rng.random() < 0.12:
        # the same revisions converted once more in a later write group (identical rows)
        groups.insert(rng.randrange(1, len(groups) + 1), list(rng.choice(groups)))
    return groups


class _Recorder:
    """CacheUpdater wrapper recording the add_object calls"""

    def __init__(self, inner, log):
        self.inner = inner
        self.log = log
        self.ops = []
        log.append((inner.revid, self.ops))

    def add_object(self, obj, bzr_key_data, path):
        if isinstance(obj, tuple):
            tn, sha = obj
        else:
            tn, sha = obj.type_name.decode(), obj.id
        if tn == "commit":
            self.ops.append(("c", self.inner.revid, sha, obj.tree, bzr_key_data.get("testament3-sha1")))
        elif bzr_key_data is not None:
            self.ops.append((tn[0], sha, bzr_key_data[0], bzr_key_data[1]))
        return self.inner.add_object(obj, bzr_key_data, path)

    def finish(self):
        return self.inner.finish()


def record_native(seed_tuple, nsteps):
    """sessions recorded from a real conversion of a generated native history"""
    import shutil
    from checks import c35
    from breezy.git.cache import DictBzrGitCache
    from breezy.git.object_store import BazaarObjectStore
    script, lanes, root = c35.build_history(seed_tuple, nsteps)
    try:
        repo = lanes[0].wt.branch.repository
        for l in lanes.values():
            if l is not lanes[0] and l.commits:
                repo.fetch(l.wt.branch.repository)
        store = BazaarObjectStore(repo)
        cache = DictBzrGitCache()
        store._cache = cache
        store.start_write_group = cache.idmap.start_write_group
        store.abort_write_group = cache.idmap.abort_write_group
        store.commit_write_group = cache.idmap.commit_write_group
        log = []
        orig = cache.get_updater
        cache.get_updater = lambda rev: _Recorder(orig(rev), log)
        with store.lock_read():
            store._update_sha_map()
        # generated file ids carry a time stamp and random characters: rename them in order of appearance
        names = {}

        def fid(x):
            return names.setdefault(x, b"fid%d" % len(names))
        return [(r, [o if o[0] == "c" else (o[0], o[1], fid(o[2]), o[3]) for o in ops]) for r, ops in log]
    finally:
        shutil.rmtree(root, ignore_errors=True)


def regroup(rng, sessions):
    groups, cur = [], []
    for s in sessions:
        cur.append(s)
        if rng.random() < 0.35:
            groups.append(cur)
            cur = []
    if cur:
        groups.append(cur)
    return groups


# --------------------------------------------------------------------------
# backends

class _Rev:
    def __init__(self, revid):
        self.revision_id = revid
        self.parent_ids = []


class _Obj:
    """what the updaters read from a ShaFile"""

    def __init__(self, type_name, sha, tree=None):
        self.type_name = type_name
        self.id = sha
        self.tree = tree

    def sha(self):
        class _S:
            def __init__(s, h):
                s.h = h

            def digest(s):
                return bytes.fromhex(s.h.decode())

            def hexdigest(s):
                return s.h.decode()
        return _S(self.id)


class Backend:
    def __init__(self, name):
        from breezy.git import cache as C
        from dromedary import get_transport_from_path
        self.name = name
        self.dir = env.fresh_dir("c38" + name)
        self.C = C
        self.via_format = False
        if name == "dict":
            self.cache = C.DictBzrGitCache()
        elif name == "sqlite":
            self.path = os.path.join(self.dir, "idmap.db")
            self.cache = C.SqliteBzrGitCache(self.path)
        elif name == "index":
            self.t = get_transport_from_path(self.dir)
            C.IndexGitCacheFormat().initialize(self.t)
            self.cache = C.IndexBzrGitCache(self.t)
        elif name == "tdb":
            self.path = os.path.join(self.dir, "idmap.tdb")
            self.cache = C.TdbBzrGitCache(self.path)
        else:
            raise ValueError(name)

    persistent = property(lambda self: self.name != "dict")

    def reopen(self, via_format):
        C = self.C
        from dromedary import get_transport_from_path
        if self.name == "sqlite":
            db = C.mapdbs().pop(self.path, None)
            if db is not None:
                db.close()
            if via_format:
                t = get_transport_from_path(self.dir)
                if not t.has("format"):
                    t.put_bytes("format", C.SqliteGitCacheFormat().get_format_string())
                self.cache = C.BzrGitCacheFormat.from_transport(t)
            else:
                self.cache = C.SqliteBzrGitCache(self.path)
        elif self.name == "index":
            t = get_transport_from_path(self.dir)
            self.cache = C.BzrGitCacheFormat.from_transport(t) if via_format else C.IndexBzrGitCache(t)
        elif self.name == "tdb":
            db = C.mapdbs().pop(self.path, None)
            if db is not None:
                db.close()
            self.cache = C.TdbBzrGitCache(self.path)

    def apply_group(self, group, rng):
        m = self.cache.idmap
        m.start_write_group()
        try:
            for revid, ops in group:
                u = self.cache.get_updater(_Rev(revid))
                for o in ops:
                    if o[0] == "c":
                        verifiers = {} if o[4] is None else {"testament3-sha1": o[4]}
                        u.add_object(_Obj(b"commit", o[2], o[3]), verifiers, None)
                    else:
                        tn = "blob" if o[0] == "b" else "tree"
                        obj = (tn, o[1]) if rng.random() < 0.5 else _Obj(tn.encode(), o[1])
                        u.add_object(obj, (o[2], o[3]), "p")
                u.finish()
        except BaseException:
            m.abort_write_group()
            raise
        m.commit_write_group()

    def close(self):
        if self.name in ("sqlite", "tdb"):
            db = self.C.mapdbs().pop(self.path, None)
            if db is not None:
                db.close()


def available_backends():
    names = ["dict", "sqlite", "index"]
    try:
        import tdb  # noqa: F401
        names.append("tdb")
    except ImportError:
        pass
    return names


def ask(idmap, q):
    """canonical answer of one query"""
    try:
        if q[0] == "g":
            out = []
            for typ, data in idmap.lookup_git_sha(q[1]):
                if typ == "commit":
                    revid, tree, verifiers = data
                    tm = verifiers.get("testament3-sha1")
                    extra = sorted(k for k in verifiers if k != "testament3-sha1")
                    out.append("c:%s:%s:%s%s" % (_b(revid), _b(tree), "~" if tm is None else _b(tm), "+%r" % extra if extra else ""))
                elif typ in ("blob", "tree"):
                    if len(data) != 2:
                        out.append("%s:?%r" % (typ[0], data))
                    else:
                        out.append("%s:%s:%s" % (typ[0], _b(data[0]), _b(data[1])))
                else:
                    out.append("?" + repr(typ))
            return ",".join(sorted(out)) if out else "E"
        if q[0] == "b":
            return _b(idmap.lookup_blob_id(q[1], q[2]))
        if q[0] == "t":
            return _b(idmap.lookup_tree_id(q[1], q[2]))
        if q[0] == "c":
            return _b(idmap.lookup_commit(q[1]))
        if q[0] == "R":
            return ",".join(sorted(set(_b(r) for r in idmap.revids()))) or "-"
        if q[0] == "S":
            return ",".join(sorted(set(_b(s) for s in idmap.sha1s()))) or "-"
        if q[0] == "m":
            arg = q[1] if q[2] == "list" else set(q[1])
            r = idmap.missing_revisions(arg)
            if not isinstance(r, (set, frozenset)):
                return "?notaset:" + ",".join(sorted(_b(x) for x in r))
            return ",".join(sorted(_b(x) for x in r)) or "-"
    except KeyError:
        return "E"
    except NotImplementedError:
        return "N"
    except Exception as e:
        return "X:" + type(e).__name__
    raise ValueError(q)


def enc_query(q):
    if q[0] == "g":
        return "g:" + hx(q[1])
    if q[0] in "bt":
        return "%s:%s:%s" % (q[0], hx(q[1]), hx(q[2]))
    if q[0] == "c":
        return "c:" + hx(q[1])
    if q[0] == "m":
        return "m:" + (",".join(hx(x) for x in q[1]) or "-")
    return q[0]


def queries_for(rng, ops):
    shas, bkeys, tkeys, revids = [], [], [], []
    for o in ops:
        if o[0] == "c":
            revids.append(o[1]); shas.append(o[2]); shas.append(o[3])
        else:
            shas.append(o[1])
            (bkeys if o[0] == "b" else tkeys).append((o[2], o[3]))
            revids.append(o[3])
    uniq = lambda l: sorted(set(l))
    qs = [("g", s) for s in uniq(shas)] + [("g", b"0" * 40), ("g", SHAS[9])]
    qs += [("b", f, r) for f, r in uniq(bkeys)] + [("b", b"nofid", b"rev-1")]
    qs += [("t", f, r) for f, r in uniq(tkeys)] + [("t", b"nofid", b"rev-1")]
    qs += [("c", r) for r in uniq(revids)] + [("c", b"norev")]
    # cross-kind: lookup_blob_id of a key recorded for a tree and the other way round
    bset, tset = set(bkeys), set(tkeys)
    cross = [("b", f, r) for f, r in uniq(tkeys) if (f, r) not in bset] + [("t", f, r) for f, r in uniq(bkeys) if (f, r) not in tset]
    rng.shuffle(cross)
    qs += cross[:4]
    qs += [("R",), ("S",)]
    pool = uniq(revids) + [b"norev", b"null:", b"other-1"]
    for form in ("set", "list", "list"):
        xs = [rng.choice(pool) for _ in range(rng.randrange(0, 6))]
        qs.append(("m", xs if form == "list" else sorted(set(xs)), form))
    return qs


# --------------------------------------------------------------------------
# oracle helpers (input-based classification)

def entries_of(ops, sha):
    out = []
    for o in ops:
        if o[0] == "c" and o[2] == sha:
            e = "c:%s:%s:%s" % (hx(o[1]), hx(o[3]), "~" if o[4] is None else hx(o[4]))
        elif o[0] != "c" and o[1] == sha:
            e = "%s:%s:%s" % (o[0], hx(o[2]), hx(o[3]))
        else:
            continue
        if e not in out:
            out.append(e)
    return out


def group_name_clash(groups, upto):
    """does some write group among groups[:upto+1] feed IndexGitShaMap._name with the
    same sha sequence as an earlier one (its .rix file then replaces the earlier file)"""
    seen = set()
    for g in groups[:upto + 1]:
        key = tuple((o[2] if o[0] == "c" else o[1]) for _r, ops in g for o in ops)
        if key in seen:
            return True
        seen.add(key)
    return False


_CLASH_SAFE = [None]


def index_survives_name_clash():
    """probe (once per run): does re-applying a write group keep the earlier index file?
    When it does, name clashes are ordinary cases for the flat model."""
    if _CLASH_SAFE[0] is None:
        import random
        b = Backend("index")
        g = [(b"probe-rev", [("b", SHAS[0], b"probe-fid", b"probe-rev"), ("c", b"probe-rev", SHAS[7], SHAS[1], None)])]
        try:
            b.apply_group(g, random.Random(0))
            b.apply_group(g, random.Random(0))
            b.reopen(False)
            _CLASH_SAFE[0] = ask(b.cache.idmap, ("c", b"probe-rev")) == hx(SHAS[7])
        except Exception:
            _CLASH_SAFE[0] = False
    return _CLASH_SAFE[0]


def cross_kind(ops, q):
    """a blob-id query for a key that only tree adds use, or a tree-id query for a key only blob adds use"""
    if q[0] not in ("b", "t"):
        return False
    kinds = set(o[0] for o in ops if o[0] != "c" and (o[2], o[3]) == (q[1], q[2]))
    return bool(kinds) and q[0] not in kinds


def classify(ops, q, name, ans, ref):
    """family of a disagreement between backend `name` (answer `ans`) and the
    in-memory backend (answer `ref`) on query q after `ops`; None = unexplained"""
    if cross_kind(ops, q) and ans in ("E", "N"):
        last = [o[1] for o in ops if o[0] != "c" and (o[2], o[3]) == (q[1], q[2])][-1]
        if ref == hx(last):
            return "dict-blob-tree-ids-shared"
    if name == "index" and q[0] == "g":
        es = entries_of(ops, q[1])
        if len(es) >= 2 and ans == es[0] and set(ref.split(",")) == set(es):
            return "index-one-entry-per-sha"
    if name == "sqlite" and q[0] == "g":
        es = entries_of(ops, q[1])
        trees = [e for e in es if e.startswith("t:")]
        if len(trees) >= 2:
            expect = sorted([e for e in es if not e.startswith("t:")] + [trees[-1]])
            # the newest *add* wins, which may be a re-add of an older key
            last = [e for e in (("t:%s:%s" % (hx(o[2]), hx(o[3]))) for o in ops if o[0] == "t" and o[1] == q[1])][-1]
            expect2 = sorted([e for e in es if not e.startswith("t:")] + [last])
            if ans in (",".join(expect), ",".join(expect2)):
                return "sqlite-tree-sha-unique"
    if name == "sqlite" and q[0] == "t" and ans == "E":
        sha = None
        for o in ops:
            if o[0] == "t" and (o[2], o[3]) == (q[1], q[2]):
                sha = o[1]
        if sha is not None:
            later = [o for o in ops if o[0] == "t" and o[1] == sha]
            if later and (later[-1][2], later[-1][3]) != (q[1], q[2]):
                return "sqlite-tree-sha-unique"
    return None


def direct_laws(ops, qs, answers, rows=True):
    """'lookup after add' on one backend's answers; returns [(query, what)]"""
    bad = []
    amap = {enc_query(q): a for q, a in zip(qs, answers)}
    last_b, last_t, last_c = {}, {}, {}
    for o in ops:
        if o[0] == "c":
            last_c[o[1]] = o[2]
        elif o[0] == "b":
            last_b[(o[2], o[3])] = o[1]
        else:
            last_t[(o[2], o[3])] = o[1]
    for (f, r), sha in last_b.items():
        a = amap.get("b:%s:%s" % (hx(f), hx(r)))
        if a is not None and a != hx(sha):
            bad.append((("b", f, r), "lookup_blob_id(%r, %r) = %s after adding %s" % (f, r, a, sha)))
    for (f, r), sha in last_t.items():
        a = amap.get("t:%s:%s" % (hx(f), hx(r)))
        if a is not None and a not in (hx(sha), "N"):
            bad.append((("t", f, r), "lookup_tree_id(%r, %r) = %s after adding %s" % (f, r, a, sha)))
    for r, sha in last_c.items():
        a = amap.get("c:" + hx(r))
        if a is not None and a != hx(sha):
            bad.append((("c", r), "lookup_commit(%r) = %s after adding %s" % (r, a, sha)))
    known = set(last_c)
    for q, a in zip(qs, answers):
        if q[0] == "m":
            want = ",".join(sorted(hx(x) for x in set(q[1]) - known)) or "-"
            if a != want:
                bad.append((q, "missing_revisions(%r) = %s, expected %s" % (q[1], a, want)))
        if q[0] == "R":
            want = ",".join(sorted(hx(x) for x in known)) or "-"
            if a != want:
                bad.append((q, "revids() = %s, expected %s" % (a, want)))
        if q[0] == "g" and rows:
            es = entries_of(ops, q[1])
            got = [] if a == "E" else a.split(",")
            miss = [e for e in es if e not in got]
            extra = [e for e in got if e not in es]
            if extra:
                bad.append((q, "lookup_git_sha(%r) yields %s which was never added" % (q[1], extra[:2])))
            elif miss:
                bad.append((q, "lookup_git_sha(%r) lacks %s (added earlier)" % (q[1], miss[:2])))
    return bad


# --------------------------------------------------------------------------
# one sequence on all backends

def _environment_error(e):
    """disk full / out of file descriptors / out of memory: infrastructure (exit 2), never a finding"""
    import errno
    import sqlite3
    if isinstance(e, MemoryError):
        return True
    if isinstance(e, OSError) and e.errno in (errno.ENOSPC, errno.EDQUOT, errno.EMFILE, errno.ENFILE, errno.ENOMEM):
        return True
    return isinstance(e, sqlite3.OperationalError) and any(w in str(e) for w in ("disk", "full", "unable to open"))


def run_sequence(ctx, source, groups, functional, sink):
    names = available_backends()
    backs = {}
    ops_all = flat_ops(groups)
    seq_id = hashlib.sha1(";".join(enc_op(o) for o in ops_all).encode()).hexdigest()[:12]
    jgroups = [[[r.hex(), [enc_op(o) for o in ops]] for r, ops in g] for g in groups]
    base_case = dict(source=source, groups=jgroups, functional=functional)
    try:
        for n in names:
            backs[n] = Backend(n)
        prefix = []
        for gi, group in enumerate(groups):
            for n in names:
                try:
                    backs[n].apply_group(group, ctx.rng)
                except Exception as e:
                    if _environment_error(e):
                        raise env.InfraError("C38: %s while applying a write group: %s" % (type(e).__name__, e))
                    ctx.violation(dict(base_case, backend=n, group=gi),
                                  "%s backend: applying write group %d raised %s: %s" % (n, gi, type(e).__name__, str(e)[:200]))
                    ctx.count("apply-raised:%s" % n)
                    return
            prefix += [o for _r, ops in group for o in ops]
            if gi < len(groups) - 1 and ctx.rng.random() < 0.4:
                continue                       # not every write group is a checkpoint
            qs = queries_for(ctx.rng, prefix)
            qline = ";".join(enc_query(q) for q in qs)
            opline = ";".join(enc_op(o) for o in prefix) or "-"
            shared = any(len(entries_of(prefix, s)) >= 2 for s in set(o[2] if o[0] == "c" else o[1] for o in prefix))
            answers = {}
            # a write group that feeds IndexGitShaMap._name with the same shas as an earlier one
            # overwrites that group's .rix file: outside the flat model, left to the oracle
            clash = group_name_clash(groups, gi) and not index_survives_name_clash()
            if clash:
                ctx.count("index-name-clash-checkpoints")
            for phase in ("live", "reopen", "reopen-format"):
                for n in names:
                    if phase != "live":
                        if not backs[n].persistent:
                            continue
                        backs[n].reopen(via_format=(phase == "reopen-format"))
                    a = [ask(backs[n].cache.idmap, q) for q in qs]
                    case = dict(base_case, backend=n, checkpoint=gi, phase=phase)
                    ctx.case(dict(seq=seq_id, cp=gi, backend=n, phase=phase), nontrivial=shared or gi >= 1)
                    ctx.count("phase:%s:%s" % (phase, n))
                    mname = n if n != "tdb" else "dict"
                    if mname == "dict" and dict_shares_fileid_map():
                        mname = "dictshared"
                    if not (clash and n == "index"):
                        sink[0].append(case); sink[1].append("run %s %s %s" % (mname, opline, qline)); sink[2].append(";".join(a))
                    if phase == "live":
                        answers[n] = a
                    elif a != answers[n]:
                        i = next(i for i in range(len(a)) if a[i] != answers[n][i])
                        ctx.violation(dict(case, query=enc_query(qs[i])),
                                      "%s backend answers %s to %s after close/reopen, %s before" % (n, a[i], enc_query(qs[i]), answers[n][i]))
            if not functional:
                ctx.count("nonfunctional-checkpoints")
                # the override rule (the newest add of a key wins) on the two backends that implement it
                for n in ("dict", "sqlite"):
                    for q, what in direct_laws(prefix, qs, answers[n], rows=False)[:4]:
                        i = [enc_query(x) for x in qs].index(enc_query(q))
                        fam = classify(prefix, q, n, answers[n][i], answers["dict"][i]) if n != "dict" else None
                        ctx.violation(dict(base_case, backend=n, checkpoint=gi, query=enc_query(q)), "%s backend: %s" % (n, what), family=fam)
                continue
            ctx.count("functional-checkpoints")
            if shared:
                ctx.count("checkpoints-with-shared-sha")
            ref = answers["dict"]
            for n in names:
                for q, what in direct_laws(prefix, qs, answers[n])[:6]:
                    i = [enc_query(x) for x in qs].index(enc_query(q))
                    fam = classify(prefix, q, n, answers[n][i], ref[i]) if n != "dict" else None
                    ctx.violation(dict(base_case, backend=n, checkpoint=gi, query=enc_query(q)), "%s backend: %s" % (n, what), family=fam)
                if n == "dict":
                    continue
                reported = 0
                for i, q in enumerate(qs):
                    if answers[n][i] == ref[i] or (q[0] == "t" and answers[n][i] == "N"):
                        if q[0] == "t" and answers[n][i] == "N":
                            ctx.count("tree-id-abstention:%s" % n)
                        continue
                    fam = classify(prefix, q, n, answers[n][i], ref[i])
                    ctx.count("disagree:%s:%s" % (n, fam or "unexplained"))
                    if reported < 4:
                        reported += 1
                        ctx.violation(dict(base_case, backend=n, checkpoint=gi, query=enc_query(q)),
                                      "%s backend answers %s to %s, the in-memory backend %s" % (n, answers[n][i][:120], enc_query(q), ref[i][:120]),
                                      family=fam)
            # hypotheses of the agreement theorem, evaluated by the model
            same = [i for i in range(len(qs)) if not cross_kind(prefix, qs[i])]      # the theorem speaks about same-kind queries
            sink[3].append((dict(base_case, checkpoint=gi, clash=clash), opline,
                            all(answers[n][i] == ref[i] or answers[n][i] == "N" for n in names if n in ("sqlite",) for i in same),
                            all(answers[n][i] == ref[i] or answers[n][i] == "N" for n in names if n in ("index",) for i in same)))
            # the index backend's files against the layered model run on the write groups (refinement + reopen theorems)
            if "index" in names and not clash:
                raw_index_check(ctx, backs["index"], groups[:gi + 1], prefix, base_case, gi, sink)
    finally:
        for b in backs.values():
            b.close()


# --------------------------------------------------------------------------
# the index backend's nodes: encoding (opNodes) and the files after write groups (IdxStore.runGroups)

_SHARED = [None]


def dict_shares_fileid_map():
    """probe (once per run): does DictGitShaMap answer lookup_blob_id from the dict that tree ids are written to?"""
    if _SHARED[0] is None:
        import random
        b = Backend("dict")
        b.apply_group([(b"probe-rev", [("t", SHAS[0], b"probe-dir", b"probe-rev"), ("c", b"probe-rev", SHAS[7], SHAS[0], None)])],
                      random.Random(0))
        _SHARED[0] = ask(b.cache.idmap, ("b", b"probe-dir", b"probe-rev")) == hx(SHAS[0])
    return _SHARED[0]


def raw_key(q):
    if q[0] == "G":
        return (b"git", q[1], b"X")
    if q[0] == "B":
        return (b"blob", q[1], q[2])
    return (b"commit", q[1], b"X")


def raw_index_check(ctx, back, groups, prefix, base_case, gi, sink):
    """_get_entry of every git / blob / commit key, on the live map and on a re-opened one, against the
    layered model applied to the same write groups"""
    from dromedary import get_transport_from_path
    shas = sorted(set(o[2] if o[0] == "c" else o[1] for o in prefix)) + [SHAS[9]]
    keys = [("G", s) for s in shas]
    keys += [("B", o[2], o[3]) for o in prefix if o[0] != "c"]        # tree keys too: no blob node must exist for them
    keys += [("C", r) for r in sorted(set(o[1] for o in prefix if o[0] == "c"))] + [("C", b"norev")]
    keys = sorted(set(keys))

    def raw(m):
        out = []
        for q in keys:
            try:
                out.append(hx(m._get_entry(raw_key(q))))
            except KeyError:
                out.append("E")
        return ";".join(out)
    live = raw(back.cache.idmap)
    reopened = raw(back.C.IndexGitShaMap(get_transport_from_path(back.dir).clone("index")))
    gline = "|".join(";".join(enc_op(o) for _r, ops in g for o in ops) or "-" for g in groups)
    if any(not [o for _r, ops in g for o in ops] for g in groups):
        return                      # an empty write group has no encoding in the line protocol
    qline = ";".join(":".join([q[0]] + [hx(x) for x in q[1:]]) for q in keys)
    case = dict(base_case, backend="index", checkpoint=gi, raw_nodes=True)
    ctx.count("raw-index-checkpoints")
    sink[4].append((case, "groups %s %s" % (gline, qline), "%s %s" % (live, reopened)))
    if live != reopened:
        ctx.violation(case, "index backend: raw index entries differ after re-opening the directory")


def nodes_check(ctx, ops, sink):
    """the _add_node calls IndexCacheUpdater.add_object makes for one op, against opNodes"""
    b = Backend("index")
    m = b.cache.idmap
    m.start_write_group()
    rec = []
    orig = m._add_node

    def spy(key, value):
        rec.append((key, value))
        return orig(key, value)
    m._add_node = spy
    try:
        for o in ops:
            del rec[:]
            u = b.cache.get_updater(_Rev(o[1] if o[0] == "c" else o[3]))
            if o[0] == "c":
                u.add_object(_Obj(b"commit", o[2], o[3]), {} if o[4] is None else {"testament3-sha1": o[4]}, None)
            else:
                u.add_object(("blob" if o[0] == "b" else "tree", o[1]), (o[2], o[3]), "p")
            impl = ";".join("%s:%s:%s=%s" % (hx(k[0]), hx(k[1]), hx(k[2]), hx(v)) for k, v in rec)
            sink[0].append(dict(nodes_of=enc_op(o))); sink[1].append("nodes " + enc_op(o)); sink[2].append(impl)
            ctx.count("nodes-ops")
    finally:
        m.abort_write_group()


# --------------------------------------------------------------------------
# raw index scripts

IK1 = [b"git", b"commit", b"blob"]
IK2 = [b"k1", b"k2", b"k3", b"rev-1"]
IK3 = [b"X", b"rev-1"]


def gen_idx_script(rng, n):
    items, open_ = [], False
    for _ in range(n):
        r = rng.random()
        if not open_ and r < 0.35:
            items.append(("s",)); open_ = True
        elif open_ and r < 0.25:
            items.append(("w",)); open_ = False
        elif open_ and r < 0.75:
            items.append(("a", rng.choice(IK1), rng.choice(IK2), rng.choice(IK3), rng.choice(SHAS)[:8]))
        elif not open_ and r < 0.5:
            items.append(("o",))
        else:
            items.append(("q", rng.choice(IK1), rng.choice(IK2), rng.choice(IK3)))
    if open_:
        items.append(("w",))
    for k1 in IK1[:2]:
        for k2 in IK2[:3]:
            items.append(("q", k1, k2, b"X"))
    return items


def run_idx_script(ctx, items, sink):
    from breezy.git import cache as C
    from dromedary import get_transport_from_path
    d = env.fresh_dir("c38idx")
    t = get_transport_from_path(d)
    m = C.IndexGitShaMap(t)
    out, toks, nfiles = [], [], 0
    for it in items:
        if it[0] == "s":
            m.start_write_group(); toks.append("s")
        elif it[0] == "w":
            m.commit_write_group(); toks.append("w"); nfiles += 1
        elif it[0] == "a":
            # _add_git_sha feeds the file name of the write group; keep it unique per script position
            m._name.update(b"%d:" % len(toks) + it[4])
            m._add_node((it[1], it[2], it[3]), it[4]); toks.append("a:%s:%s:%s:%s" % tuple(hx(x) for x in it[1:]))
        elif it[0] == "o":
            m = C.IndexGitShaMap(get_transport_from_path(d))
            perm = list(range(nfiles))
            ctx.rng.shuffle(perm)
            toks.append("o:" + (",".join(map(str, perm)) or "-"))
        else:
            try:
                out.append(hx(m._get_entry((it[1], it[2], it[3]))))
            except KeyError:
                out.append("E")
            toks.append("q:%s:%s:%s" % tuple(hx(x) for x in it[1:]))
    case = dict(idx_script=toks)
    ctx.case(case, nontrivial=nfiles >= 2)
    ctx.count("idx-files:%d" % min(nfiles, 5))
    sink[0].append(case); sink[1].append("idx " + ";".join(toks)); sink[2].append(";".join(out) or "-")


# --------------------------------------------------------------------------

def run(ctx, nnative=None, nsyn=None):
    nnative = nnative or ctx.pick(4, 40)
    nsyn = nsyn or ctx.pick(40, 500)
    sink = ([], [], [], [], [])
    ctx.extra["backends"] = available_backends()
    ctx.extra["index_survives_name_clash"] = index_survives_name_clash()
    if not index_survives_name_clash():
        ctx.violation(dict(probe="index-name-clash", groups="the write group [blob, commit of probe-rev] applied twice, then reopen"),
                      "index backend: converting the same revision again in a later write group loses its entries after reopen "
                      "(the second write group's .rix file replaces the first)")
    ctx.extra["tdb"] = "available" if "tdb" in available_backends() else "module not importable: backend not exercised"
    for c in _corpus():
        groups = [[(bytes.fromhex(r), [dec_op(o) for o in ops]) for r, ops in g] for g in c["groups"]]
        run_sequence(ctx, "corpus", groups, c.get("functional", True), sink)
    for i in range(nnative):
        try:
            sessions = record_native((ctx.seed, "c38", i), ctx.rng.choice([12, 20, 30]))
        except Exception as e:
            ctx.count("native-build-failed:" + type(e).__name__)
            continue
        ops = [o for _r, os_ in sessions for o in os_]
        if not is_functional(ops):
            ctx.violation(dict(source="native", seed=[ctx.seed, "c38", i]),
                          "a conversion recorded two different shas for one key (assumption 'functional' broken)")
            continue
        ctx.count("native-sessions", len(sessions))
        run_sequence(ctx, "native", regroup(ctx.rng, sessions), True, sink)
    for i in range(nsyn):
        functional = ctx.rng.random() < 0.75
        run_sequence(ctx, "synthetic", gen_synthetic(ctx.rng, ctx.rng.randrange(1, 7), functional), functional, sink)
    for i in range(ctx.pick(30, 300)):
        run_idx_script(ctx, gen_idx_script(ctx.rng, ctx.rng.randrange(4, 30)), sink)
    # the agreement theorem's hypotheses against the observed agreement
    hyp_lines = ["hyp " + opline for (_c, opline, _s, _i) in sink[3]]
    if hyp_lines:
        reps = ctx.model(hyp_lines)
        for (case, opline, sq_agrees, ix_agrees), rep in zip(sink[3], reps):
            ok_sq, ok_ix = rep.split(" ") if " " in rep else ("?", "?")
            ctx.traces += 1
            ctx.count("hyp:sqlite=%s,index=%s" % (ok_sq, ok_ix))
            if ok_ix == "T" and not ix_agrees and not case.get("clash"):
                ctx.mismatch(case, "index disagrees with dict", "okSeq okIndex holds (agreement proved)", line="hyp " + opline)
            if ok_sq == "T" and not sq_agrees:
                ctx.mismatch(case, "sqlite disagrees with dict", "okSeq okSqlite holds (agreement proved)", line="hyp " + opline)
            # converse theorems (index_shared_sha_differs, index_rebound_key_differs, sqlite_shared_tree_sha_differs):
            # for functional sequences a failed hypothesis means a visible disagreement at the first failing add;
            # counted, since a checkpoint may lie after later adds
            if ok_ix == "F":
                ctx.count("hyp-converse:index:%s" % ("disagrees" if not ix_agrees else "agrees"))
            if ok_sq == "F":
                ctx.count("hyp-converse:sqlite:%s" % ("disagrees" if not sq_agrees else "agrees"))
    # node encoding of every kind of op (commit with / without testament, blob, tree)
    seen_ops = {}
    for line in sink[1]:
        if line.startswith("run "):
            for tok in line.split(" ")[2].split(";"):
                if tok != "-":
                    seen_ops.setdefault(tok, dec_op(tok))
    sample = sorted(seen_ops)
    ctx.rng.shuffle(sample)
    nodes_check(ctx, [seen_ops[k] for k in sample[:ctx.pick(150, 1500)]], sink)
    if sink[4]:
        reps = ctx.model([x[1] for x in sink[4]])
        for (case, line, impl), rep in zip(sink[4], reps):
            ctx.traces += 1
            if " ".join(rep.split(" ")[:2]) != impl:
                ctx.mismatch(case, impl, rep, line=line, tie="T2 index files vs IdxStore.runGroups (live and re-opened)")
    if sink[1]:
        ctx.diff(sink[0], sink[1], sink[2])
    ctx.extra["dict_shares_fileid_map"] = dict_shares_fileid_map()


def dec_op(s):
    p = s.split(":")
    un = lambda x: b"" if x == "-" else bytes.fromhex(x)
    if p[0] == "c":
        return ("c", un(p[1]), un(p[2]), un(p[3]), None if p[4] == "~" else un(p[4]))
    return (p[0], un(p[1]), un(p[2]), un(p[3]))


def _corpus():
    import json
    d = os.path.join(env.VERIF, "corpus", "C38")
    out = []
    if os.path.isdir(d):
        for f in sorted(os.listdir(d)):
            if f.endswith(".json"):
                out.append(json.load(open(os.path.join(d, f))))
    return out


def widen(ctx):
    run(ctx, nnative=10, nsyn=300)


def replay(ctx, case):
    sink = ([], [], [], [], [])
    if "idx_script" in case:
        items = []
        for t in case["idx_script"]:
            p = t.split(":")
            un = lambda x: b"" if x == "-" else bytes.fromhex(x)
            items.append((p[0],) + tuple(un(x) for x in p[1:]) if p[0] != "o" else ("o",))
        run_idx_script(ctx, items, sink)
    else:
        groups = [[(bytes.fromhex(r), [dec_op(o) for o in ops]) for r, ops in g] for g in case["groups"]]
        run_sequence(ctx, case.get("source", "replay"), groups, case.get("functional", True), sink)
    outs = ctx.model(sink[1]) if sink[1] else []
    diffs = [dict(backend=c.get("backend"), checkpoint=c.get("checkpoint"), phase=c.get("phase"), impl=i[:400], model=m[:400])
             for c, i, m in zip(sink[0], sink[2], outs) if i != m]
    return dict(query=case.get("query"), backend=case.get("backend"), lines=len(sink[1]), model_differences=diffs[:5],
                oracle_failures=[(v["family"], v["what"]) for v in ctx.violations][:10])
