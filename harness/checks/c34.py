"""C34 -- importing then exporting a git commit reproduces it byte for byte
(breezy/git/mapping.py: BzrGitMappingv1.import_commit / export_commit,
fix_person_identifier; breezy/git/roundtrip.py is not reached by the v1 mapping
in lossy mode, the only mode it supports).

Model: lean/BreezyVerif/Model/C34.lean; theorems: Props/C34.lean.

Every run:

* T2 -- commits are drawn from a grammar over the fields the mapping handles
  (encoding header none / utf-8 / latin-1 / ascii aliases / `false` / unknown,
  bytes valid or invalid in it, author = or != committer, equal / different
  times and zones, `-0000` zones, gpgsig, mergetags, HG:rename-source and
  HG:extra headers (known / unknown keys, no colon, multi-line and
  line-boundary values), unknown headers, empty and missing message, canonical
  and malformed person identifiers), serialised by dulwich, parsed back, passed
  through the real `import_commit` (parent lookup = revision_id_foreign_to_bzr)
  and `export_commit(rev, tree, revision_id_bzr_to_foreign, lossy=True, None)`.
  The exported commit's fields, the revision id, the decoded committer and
  message and the complete property dict are compared with the model, as are
  the exception kinds of refused imports / failing exports.
  `fix_person_identifier` is compared exhaustively on all strings of length
  <= 5 over `<`, `>`, space, comma, `a`.
* Oracle (model independent) -- for every commit `import_commit` accepts (strict):
  the export must succeed, `as_raw_string()` and the SHA-1 must be identical
  to the original, and `get_revision_id(commit)` = revision id of the imported
  revision = `git-v1:<sha>` (stable under re-import).

Findings (`_classify`, family slug computed from the concrete commit):
missing-message, person-ident-noncanonical, git-extra-embedded-newline.
Fixed in /repo b3a449a (now modelled as working, no family): `encoding false`
(export and get_revision_id), extra-header values containing a str.splitlines()
boundary other than "\n".

Mutants this was built against (scratch worktree, breezy/git/mapping.py); "oracle" = a
concrete commit whose re-export differs, T2 = model/implementation mismatch:
  M1 `commit.commit_time != commit.author_time` -> `<` ................................. oracle + T2
  M2 export ignores `git-implicit-encoding` (always utf-8) ............................. oracle + T2
  M3 `_author_timezone_neg_utc` read from `commit-timezone-neg-utc` .................... oracle + T2
  M4 import compares only the first 3 bytes of committer/author (needs a shared prefix)  oracle + T2
  M5 fix_person_identifier: `username[:-1]` unconditionally ............................ T2 (fix stream;
       behaviour-preserving on canonical identifiers)
  M6 mergetag loop starts at `git-mergetag-1` ......................................... oracle + T2
  M7 git-extra `l.split(" ", 1)` -> `l.split(" ")[:2]` (values with spaces) ............. oracle + T2
  M8 author-timezone compared with `commit_time` (wrong field) ......................... oracle + T2
  harmless: neg-utc property assignments swapped; encoding loop over a list slice -> clean
  after fix b3a449a: R1 fix reverted (all three hunks) -> oracle (LookupError / ValueError on export,
       get_revision_id raises) + T2;  R2 `.split("\n")[:-1]` -> `.split("\n")` (trailing empty line) -> oracle + T2
       R3 in the `encoding == "false"` branch `git-implicit-encoding` ignored (needs `encoding false` + latin-1 bytes) -> oracle + T2
"""
import itertools

THEOREMS = [
    "exp_imp_id_partial",
    "revid_stable",
    "revid_independent",
    "imp_rejects_unknown_extra",
    "imp_rejects_unknown_hg_extra",
    "fixPerson_canonical",
    "canon_example_ok",
    "missing_message_witness",
    "encoding_false_roundtrips",
    "person_ident_witness",
    "git_extra_embedded_newline_witness",
    "git_extra_formfeed_roundtrips",
]
RULE = ("commits drawn from a field grammar (see module docstring); a case is one commit in one "
        "strictness mode; non-trivial = anything beyond tree+idents+message is present or the "
        "commit is refused")
ASSUMPTIONS = [
    "dulwich parses back what it serialised (checked per case; other cases are skipped and counted)",
    "bytes.decode(c).encode(c) is the identity for utf-8, latin-1, ascii and utf-8/surrogateescape "
    "(checked per case on every decoded field)",
    "str(int) / int(str) round-trip (int-valued properties keep the integer in the model)",
]
TRUSTED = [
    "dulwich Commit/Tag parsing and serialisation and SHA-1 are external (exercised, not modelled)",
    "a decoded Python str is modelled as (codec, bytes); ASCII-only string operations are done on the bytes",
    "the revision property dict is modelled as a record with one field per key the mapping writes",
]

HEX = "0123456789abcdef"
ENC_UTF8 = [b"utf-8", b"UTF-8", b"utf8"]
ENC_LATIN = [b"latin1", b"latin-1", b"iso-8859-1", b"ISO-8859-1"]
ENC_ASCII = [b"ascii", b"us-ascii"]
ENC_BOGUS = [b"klingon", b"x-none", b"utf-99"]
HG_KEYS = [b"amend_source", b"rebase_source", b"absorb_source", b"intermediate-source", b"source", b"topic",
           b"_rewrite_noise"]
PY_CODEC = {"utf-8": "utf-8", "latin1": "latin-1", "ascii": "ascii"}


def _mapping():
    from breezy.git.mapping import BzrGitMappingv1
    return BzrGitMappingv1()


# --------------------------------------------------------------------------
# generator
# --------------------------------------------------------------------------

def _sha(rng):
    return "".join(rng.choice(HEX) for _ in range(40)).encode()


def _text(rng, kind, lo, hi, alph=None):
    """bytes of the given flavour: ascii | utf8 (valid multibyte) | high (invalid utf-8)"""
    out = []
    base = alph or [b"a", b"b", b"Z", b" ", b".", b"-"]
    for _ in range(rng.randint(lo, hi)):
        r = rng.random()
        if kind == "utf8" and r < 0.3:
            out.append(rng.choice([b"\xc3\xa9", b"\xe4\xb8\xad", b"\xf0\x9f\x98\x80", b"\xc2\x85"]))
        elif kind == "high" and r < 0.3:
            out.append(bytes([rng.choice([0xe9, 0xff, 0x80, 0xc3])]))
        else:
            out.append(rng.choice(base))
    return b"".join(out)


def _person(rng, kind, canonical):
    name = _text(rng, kind, 0, 6, [b"A", b"b", b" ", b".", b",", b">"] if rng.random() < 0.15 else [b"A", b"b", b" ", b"."])
    email = _text(rng, kind, 0, 5, [b"a", b"@", b"x", b"."])
    if canonical:
        return name + b" <" + email + b">"
    form = rng.choice(["nospace", "trailing", "two", "noname", "gtonly", "comma", "lt-in-email"])
    if form == "nospace":
        return (name.rstrip(b" ") or b"N") + b"<" + email + b">"
    if form == "trailing":
        return name + b" <" + email + b"> x>"
    if form == "two":
        return name + b" <" + email + b"> <" + email + b">"
    if form == "noname":
        return b"<" + email + b">"
    if form == "gtonly":
        return (name.replace(b">", b"") or b"n") + b">"
    if form == "comma":
        return b"A <a>, B <b>"
    return name + b" <" + email + b"<" + email + b">"


def _tag(rng):
    t = b"object " + _sha(rng) + b"\ntype commit\ntag v" + str(rng.randint(0, 9)).encode() + \
        b"\ntagger T <t@x> %d +0000\n\n" % rng.randint(0, 10**9) + _text(rng, "utf8", 0, 6) + b"\n"
    if rng.random() < 0.4:
        t += b"-----BEGIN PGP SIGNATURE-----\n\nabc" + bytes([rng.choice([0x41, 0xff])]) + b"\n-----END PGP SIGNATURE-----\n"
    return t


def gen_commit(rng):
    """a dict of commit fields (bytes as latin-1 str so that the case is JSON-able)"""
    r = rng.random()
    if r < 0.45:
        enc, kind = None, rng.choice(["ascii", "utf8", "utf8", "high"])
    elif r < 0.6:
        enc, kind = rng.choice(ENC_UTF8), rng.choice(["ascii", "utf8", "utf8", "high"])
    elif r < 0.75:
        enc, kind = rng.choice(ENC_LATIN), rng.choice(["ascii", "high", "high", "utf8"])
    elif r < 0.82:
        enc, kind = rng.choice(ENC_ASCII), rng.choice(["ascii", "ascii", "high"])
    elif r < 0.9:
        enc, kind = b"false", rng.choice(["ascii", "utf8", "high"])
    elif r < 0.97:
        enc, kind = rng.choice(ENC_BOGUS), "ascii"
    else:
        enc, kind = b"utf-\xe9", "ascii"
    canonical = rng.random() < 0.88
    committer = _person(rng, kind, canonical or rng.random() < 0.5)
    author = committer if rng.random() < 0.4 else _person(rng, kind, canonical or rng.random() < 0.5)
    ctime = rng.choice([0, 1, 4, 10**9, rng.randint(0, 2**31)])
    atime = ctime if rng.random() < 0.5 else rng.choice([0, 5, ctime + 1, max(0, ctime - 1), rng.randint(0, 2**31)])
    zones = [0, 0, 60, -60, 3600, -3600, 19800, -34200, 99 * 3600 + 59 * 60, -(99 * 3600 + 59 * 60)]
    ctz = rng.choice(zones)
    atz = ctz if rng.random() < 0.5 else rng.choice(zones)
    cneg = ctz == 0 and rng.random() < 0.4
    aneg = atz == 0 and rng.random() < 0.4
    gpgsig = None
    if rng.random() < 0.25:
        gpgsig = b"-----BEGIN PGP SIGNATURE-----\n\n" + _text(rng, rng.choice(["ascii", "high", "utf8"]), 1, 8) + \
            b"\n-----END PGP SIGNATURE-----"
    mergetags = [_tag(rng) for _ in range(rng.choice([0, 0, 0, 1, 2]))]
    extra = []
    for _ in range(rng.choice([0, 0, 0, 1, 1, 2, 3])):
        x = rng.random()
        if x < 0.4:
            v = _text(rng, rng.choice(["ascii", "utf8", "high"]), 0, 6, [b"a", b"/", b" ", b"b", b"."])
            if rng.random() < 0.2:
                i = rng.randint(0, len(v))
                v = v[:i] + rng.choice([b"\x0c", b"\x0b", b"\xe2\x80\xa8", b"\xc2\x85", b"\r", b"\n", b"\n", b"\nk v", b"\x1c", b"\x1e"]) + v[i:]
            extra.append([b"HG:rename-source", v])
        elif x < 0.8:
            key = rng.choice(HG_KEYS) if rng.random() < 0.85 else rng.choice([b"foo", b"branch", b""])
            v = key + b":" + _text(rng, "ascii", 0, 6, [b"a", b"0", b":", b" ", b"f"])
            if rng.random() < 0.05:
                v = key          # no colon
            extra.append([b"HG:extra", v])
        else:
            extra.append([rng.choice([b"foo", b"x-bar", b"HG:other"]), _text(rng, "ascii", 0, 4)])
    m = rng.random()
    if m < 0.08:
        message = None
    elif m < 0.16:
        message = b""
    else:
        message = _text(rng, kind, 0, 12, [b"a", b"b", b" ", b"\n", b"\n", b"\r", b".", b"-"])
        if rng.random() < 0.5:
            message += b"\n"
    c = dict(tree=_sha(rng), parents=[_sha(rng) for _ in range(rng.choice([0, 1, 1, 2, 3]))],
             author=author, atime=atime, atz=atz, aneg=aneg, committer=committer, ctime=ctime, ctz=ctz, cneg=cneg,
             encoding=enc, mergetags=mergetags, extra=extra, gpgsig=gpgsig, message=message)
    return c


def jsonable(c):
    def j(v):
        if isinstance(v, bytes):
            return v.decode("latin-1")
        if isinstance(v, list):
            return [j(x) for x in v]
        return v
    return {k: j(v) for k, v in c.items()}


def unjson(c):
    def u(v):
        if isinstance(v, str):
            return v.encode("latin-1")
        if isinstance(v, list):
            return [u(x) for x in v]
        return v
    return {k: u(v) for k, v in c.items()}


def build_raw(c):
    """serialise with dulwich; a missing message is the same text without the blank line"""
    from dulwich.objects import Commit, Tag
    o = Commit()
    o.tree = c["tree"]
    o.parents = list(c["parents"])
    o.author, o.author_time, o.author_timezone = c["author"], c["atime"], c["atz"]
    o.committer, o.commit_time, o.commit_timezone = c["committer"], c["ctime"], c["ctz"]
    o._author_timezone_neg_utc = c["aneg"]
    o._commit_timezone_neg_utc = c["cneg"]
    if c["encoding"] is not None:
        o.encoding = c["encoding"]
    for t in c["mergetags"]:
        o.mergetag.append(Tag.from_string(t))
    try:
        ex = o._extra
    except AttributeError:
        ex = o.extra
    for k, v in c["extra"]:
        ex.append((k, v))
    if c["gpgsig"] is not None:
        o.gpgsig = c["gpgsig"]
    o.message = c["message"] if c["message"] is not None else b""
    raw = o.as_raw_string()
    if c["message"] is None:
        if not raw.endswith(b"\n\n"):
            return None
        raw = raw[:-1]
    return raw


def fields_of(o):
    try:
        ex = o._extra
    except AttributeError:
        ex = o.extra
    return dict(tree=o.tree, parents=list(o.parents), author=o.author, atime=o.author_time, atz=o.author_timezone,
                aneg=bool(o._author_timezone_neg_utc), committer=o.committer, ctime=o.commit_time,
                ctz=o.commit_timezone, cneg=bool(o._commit_timezone_neg_utc), encoding=o.encoding,
                mergetags=[t.as_raw_string() for t in o.mergetag], extra=[[k, v] for k, v in ex],
                gpgsig=o.gpgsig, message=o.message)


# --------------------------------------------------------------------------
# protocol
# --------------------------------------------------------------------------

def hx(b):
    return b.hex() if b else "-"


def hopt(b):
    return "~" if b is None else hx(b)


def hl(items):
    return ",".join(items) if items else "-"


def tf(b):
    return "T" if b else "F"


def commit_fields_line(f):
    return " ".join([
        hx(f["tree"]), hl([hx(p) for p in f["parents"]]), hx(f["author"]), str(f["atime"]), str(f["atz"]),
        tf(f["aneg"]), hx(f["committer"]), str(f["ctime"]), str(f["ctz"]), tf(f["cneg"]), hopt(f["encoding"]),
        hl([hx(t) for t in f["mergetags"]]), hl([hx(k) + ":" + hx(v) for k, v in f["extra"]]),
        hopt(f["gpgsig"]), hopt(f["message"])])


def model_line(strict, cid, f):
    return "rt %s %s %s" % (tf(strict), hx(cid), commit_fields_line(f))


IMPORT_ERR = [("UnicodeDecodeError", "UnicodeDecode"), ("UnknownCommitEncoding", "UnknownEncoding"),
              ("UnknownMercurialCommitExtra", "UnknownHgExtra"), ("UnknownCommitExtra", "UnknownExtra"),
              ("ValueError", "Value")]
EXPORT_ERR = [("LookupError", "Lookup"), ("UnicodeEncodeError", "CodecMismatch"), ("ValueError", "Value"),
              ("IndexError", "Index"), ("AttributeError", "Attr"), ("AssertionError", "Assert")]


def _errname(e, table):
    for cls in type(e).__mro__:
        for n, short in table:
            if cls.__name__ == n:
                return short
    return "Other:" + type(e).__name__


def props_render(props, codec):
    """the property dict in the driver's format (values encoded back with the codec
    the model says they were decoded with)"""
    items = []
    for k in sorted(props):
        v = props[k]
        if k in ("author-timestamp", "author-timezone"):
            items.append("%s=%d" % (k, int(v)))
        elif k in ("author",):
            items.append("%s=%s" % (k, hx(v.encode(PY_CODEC[codec]))))
        elif k in ("git-explicit-encoding", "git-implicit-encoding", "git-missing-message"):
            items.append("%s=%s" % (k, hx(v.encode("ascii"))))
        elif k in ("author-timezone-neg-utc", "commit-timezone-neg-utc"):
            items.append("%s=%s" % (k, hx(v.encode("ascii"))))
        else:
            items.append("%s=%s" % (k, hx(v.encode("utf-8", "surrogateescape"))))
    return hl(items)


def run_real(m, raw, strict):
    """(stage, payload): ('I', errname) | ('X', errname, rev) | ('ok', commit2, rev)"""
    from dulwich.objects import Commit
    c1 = Commit.from_string(raw)
    try:
        rev, rrid, ver = m.import_commit(c1, m.revision_id_foreign_to_bzr, strict=strict)
    except Exception as e:
        return c1, ("I", _errname(e, IMPORT_ERR))
    try:
        c2 = m.export_commit(rev, c1.tree, lambda revid: m.revision_id_bzr_to_foreign(revid)[0], True, None)
        c2.as_raw_string()
    except Exception as e:
        return c1, ("X", _errname(e, EXPORT_ERR), rev)
    return c1, ("ok", c2, rev)


def impl_out(res, model_reply):
    """implementation output in the driver's format; the codec tag for str values is taken from
    the model's reply (a wrong tag makes the encode fail or differ -> mismatch)"""
    if res[0] == "I":
        return "I:" + res[1]
    rev = res[-1]
    parts = model_reply.split(" ")
    codec = None
    for cand in ("utf-8", "latin1", "ascii"):
        if cand in parts:
            codec = cand
            break
    if codec is None:
        return "?no-codec-in-model-reply"
    try:
        tail = " ".join([hx(rev.revision_id), codec, hx(rev.committer.encode(PY_CODEC[codec])),
                         hx(rev.message.encode(PY_CODEC[codec])), props_render(rev.properties, codec)])
    except UnicodeEncodeError:
        tail = "?cannot-encode-with-" + codec
    if res[0] == "X":
        return "X:%s %s" % (res[1], tail)
    return "ok %s %s" % (commit_fields_line(fields_of(res[1])), tail)


# --------------------------------------------------------------------------
# oracle
# --------------------------------------------------------------------------

def _canonical_person(p):
    import re
    if re.fullmatch(rb"[^<]* <[^<>]*>", p, re.S) is None:
        return False
    return not (b"," in p and p.count(b">") > 1)


def _classify(f):
    """family slug of a failing round trip, computed from the concrete commit fields.
    (`encoding false` and the non-"\n" splitlines boundaries in extra headers were fixed in
    /repo b3a449a: if they fail again they are plain violations, family None.)"""
    if f["message"] is None:
        return "missing-message"
    if not _canonical_person(f["author"]) or not _canonical_person(f["committer"]):
        return "person-ident-noncanonical"
    if any(k in (b"HG:rename-source", b"HG:extra") and b"\n" in v for k, v in f["extra"]):
        return "git-extra-embedded-newline"
    return None


def oracle(ctx, m, case, raw, c1, res, strict):
    if res[0] == "I":
        return
    f = fields_of(c1)
    if not strict and any(k not in (b"HG:rename-source", b"HG:extra") for k, v in f["extra"]):
        return      # non-strict import drops unknown headers by design
    if not strict:
        for k, v in f["extra"]:
            if k == b"HG:extra" and v.split(b":", 1)[0] not in HG_KEYS:
                pass
    rev = res[-1]
    want = b"git-v1:" + c1.id
    try:
        gid = m.get_revision_id(c1)
    except Exception as e:
        gid = "raised %r" % (e,)
    if rev.revision_id != want or gid != want:
        ctx.count("revid-unstable")
        ctx.violation(case, "revision id not derived from the sha alone: import gives %r, get_revision_id %r, sha %r"
                      % (rev.revision_id, gid, c1.id), family=None)
    if res[0] == "X":
        fam = _classify(f)
        ctx.count("roundtrip-fails:" + str(fam))
        ctx.violation(case, "import_commit accepts the commit but export_commit raises %s (%s)" % (res[1], fam or "unclassified"),
                      family=fam)
        return
    c2 = res[1]
    raw2 = c2.as_raw_string()
    if raw2 != raw or c2.id != c1.id:
        fam = _classify(f)
        ctx.count("roundtrip-fails:" + str(fam))
        ctx.violation(case, "export(import(commit)) differs from the commit (%s): %r -> %r" % (fam or "unclassified", raw, raw2),
                      family=fam)


# --------------------------------------------------------------------------
# run
# --------------------------------------------------------------------------

def _features(f):
    out = []
    if f["encoding"] is not None:
        out.append("enc")
    if f["author"] != f["committer"]:
        out.append("author")
    if f["atime"] != f["ctime"]:
        out.append("atime")
    if f["atz"] != f["ctz"]:
        out.append("atz")
    if f["aneg"] or f["cneg"]:
        out.append("negutc")
    if f["gpgsig"]:
        out.append("gpgsig")
    if f["mergetags"]:
        out.append("mergetag")
    if f["extra"]:
        out.append("extra")
    if f["message"] is None:
        out.append("nomsg")
    return out


def one_case(ctx, m, c, strict, batch):
    raw = build_raw(c)
    if raw is None:
        ctx.count("skip:unserialisable")
        return
    from dulwich.objects import Commit
    try:
        c1 = Commit.from_string(raw)
        f = fields_of(c1)
    except Exception:
        ctx.count("skip:dulwich-parse-error")
        return
    if f != c:
        # dulwich did not parse back what it serialised: outside the assumption
        ctx.count("skip:dulwich-not-faithful")
        return
    c1, res = run_real(m, raw, strict)
    case = dict(strict=strict, commit=jsonable(c))
    feats = _features(f)
    ctx.case(case, nontrivial=bool(feats) or res[0] != "ok")
    for ft in feats:
        ctx.count("feature:" + ft)
    ctx.count("result:" + (res[0] if res[0] == "ok" else res[0] + ":" + res[1]))
    ctx.count("strict" if strict else "non-strict")
    if res[0] != "I":
        # assumption check: every decoded field re-encodes to the bytes it came from
        rev = res[-1]
        for v in rev.properties.values():
            if isinstance(v, str):
                v.encode("utf-8", "surrogateescape")
    oracle(ctx, m, case, raw, c1, res, strict)
    batch.append((case, model_line(strict, c1.id, f), res))


def flush(ctx, batch):
    if not batch:
        return
    replies = ctx.model([b[1] for b in batch])
    for (case, line, res), rep in zip(batch, replies):
        ctx.traces += 1
        out = impl_out(res, rep)
        if out != rep:
            ctx.mismatch(case, out, rep, line=line)
    del batch[:]


def fix_stream(ctx):
    from breezy.git.mapping import fix_person_identifier
    alph = [b"<", b">", b" ", b",", b"a"]
    cases, lines, outs = [], [], []
    for n in range(0, ctx.pick(5, 6) + 1):
        for t in itertools.product(alph, repeat=n):
            s = b"".join(t)
            try:
                o = hx(fix_person_identifier(s))
            except ValueError:
                o = "E:Value"
            cases.append(dict(kind="fix", s=s.decode()))
            lines.append("fix " + hx(s))
            outs.append(o)
            ctx.case(cases[-1], nontrivial=(b"<" in s or b">" in s))
            if o != "E:Value" and o == hx(s) != "-":
                ctx.count("fix:fixpoint")
    ctx.count("fix:total", len(cases))
    ctx.diff(cases, lines, outs)


def run(ctx, n=None):
    m = _mapping()
    rng = ctx.rng
    fix_stream(ctx)
    batch = []
    for i in range(n or ctx.pick(6000, 80000)):
        c = gen_commit(rng)
        strict = rng.random() < 0.85
        one_case(ctx, m, c, strict, batch)
        if len(batch) >= 4000:
            flush(ctx, batch)
    flush(ctx, batch)


def widen(ctx):
    run(ctx, n=40000)


def replay(ctx, case):
    m = _mapping()
    if case.get("kind") == "fix":
        from breezy.git.mapping import fix_person_identifier
        s = case["s"].encode()
        try:
            o = hx(fix_person_identifier(s))
        except ValueError:
            o = "E:Value"
        return dict(impl=o, model=ctx.model(["fix " + hx(s)])[0])
    c = unjson(case["commit"])
    strict = case["strict"]
    raw = build_raw(c)
    c1, res = run_real(m, raw, strict)
    oracle(ctx, m, case, raw, c1, res, strict)
    rep = ctx.model([model_line(strict, c1.id, fields_of(c1))])[0]
    out = impl_out(res, rep)
    return dict(raw=repr(raw), result=res[0] if res[0] == "ok" else list(res[:2]),
                exported=repr(res[1].as_raw_string()) if res[0] == "ok" else None,
                impl=out, model=rep, model_agrees=out == rep,
                oracle_failures=[dict(what=v["what"], family=v["family"]) for v in ctx.violations])
