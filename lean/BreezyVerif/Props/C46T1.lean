import BreezyVerif.Model.C46
import BreezyVerif.Generated.C46
/-! C46 — T1 tie: `is_detritus` regenerated from the current source equals the model. -/
namespace BreezyVerif.C46

/-- T1: the function transcribed from `breezy/clean_tree.py: is_detritus` equals the model -/
theorem is_detritus_gen_eq (s : String) : isDetritusGen s = isDetritus s := by
  unfold isDetritusGen isDetritus
  cases endsWith s ".THIS" <;> cases endsWith s ".BASE" <;> cases endsWith s ".OTHER" <;>
    cases endsWith s "~" <;> cases endsWith s ".tmp" <;> simp

end BreezyVerif.C46
