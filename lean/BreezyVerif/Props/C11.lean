import BreezyVerif.Lemmas.C11
/-!
C11 — adding files versions exactly the intended paths.

Theorems about `smartAdd` (`Model/C11.lean`: `_SmartAddHelper.add` for bzr,
`GitWorkingTree.smart_add` for git) for every layout (no bound on size or
depth), every list of named paths, recurse on and off, both formats.  `f` is
the layout before, `f'` the layout after a successful call.  No hypothesis on
the layout is needed: lookups take the first entry with a given name, and the
pass keeps names in place.
-/
namespace BreezyVerif.C11
open BreezyVerif.C46 Forest

variable {c : Cfg} {f f' : Forest} {q : Path} {i : Info} {k : Forest}

theorem smartAdd_ok (h : smartAdd c f = .ok f') :
    checkNames c.fmt c.gitRefusesCtl f c.names = none ∧ f' = pass c [] (rootMode c) f := by
  unfold smartAdd at h
  split at h
  · cases h
  · rename_i hn
    cases h
    exact ⟨hn, rfl⟩

/-- the call fails iff validation of the named paths fails, with that error -/
theorem smartAdd_error (e : Err) : smartAdd c f = .error e ↔ checkNames c.fmt c.gitRefusesCtl f c.names = some e := by
  unfold smartAdd
  split
  · rename_i e' he
    rw [he]
    constructor
    · intro h; cases h; rfl
    · intro h; cases h; rfl
  · rename_i he
    rw [he]
    constructor <;> intro h <;> cases h

/-- nothing but `versioned` flags changes: same entries, names, kinds, other
flags, and no path appears -/
theorem pass_shape (h : smartAdd c f = .ok f') :
    clearV f' = clearV f ∧ ∀ p, f.get p = none → f'.get p = none := by
  obtain ⟨_, rfl⟩ := smartAdd_ok h
  exact ⟨pass_clearV _ _ _ _, fun _ hp => pass_get_none hp⟩

/-- exact characterisation: after the call the entry at `q` is the same entry
with `versioned` = `step` evaluated at the mode `modeOf` hands down along `q`
(idle / walk / dead, decided level by level by ignore flags, control names,
nested trees and conflict helpers — see `walk_child_exact`) -/
theorem add_exact (h : smartAdd c f = .ok f') (hg : f.get q = some (i, k)) :
    ∃ m' k', modeOf c [] (rootMode c) f q = some m' ∧
      f'.get q = some ({ i with versioned := (step c q m' i k).1 }, k') := by
  obtain ⟨_, rfl⟩ := smartAdd_ok h
  obtain ⟨m', h1, h2⟩ := pass_get (c := c) (here := []) (m := rootMode c) hg
  exact ⟨m', _, h1, by simpa using h2⟩

/-- already-versioned paths are left unchanged -/
theorem versioned_untouched (h : smartAdd c f = .ok f') (hg : f.get q = some (i, k))
    (hv : i.versioned = true) : ∃ k', f'.get q = some (i, k') := by
  obtain ⟨m', k', _, h2⟩ := add_exact h hg
  refine ⟨k', ?_⟩
  rw [h2, step_of_v1 c q m' i k (by simp [hv])]
  cases i; simp_all

theorem onPath_bzr_of_prefix (hf : c.fmt = .bzr) {n : Path} (hn : n ∈ c.names) (hq : q <+: n) :
    onPath c q i = true := by
  simp only [onPath, hf, List.any_eq_true]
  exact ⟨n, hn, List.isPrefixOf_iff_prefix.mpr hq⟩

/-- bzr: every named path and each of its parents is versioned afterwards,
whatever the ignore rules, helper flags or nested trees say -/
theorem add_named (h : smartAdd c f = .ok f') (hf : c.fmt = .bzr) {n : Path} (hn : n ∈ c.names)
    (hq : q <+: n) (hg : f.get q = some (i, k)) :
    ∃ k', f'.get q = some ({ i with versioned := true }, k') := by
  obtain ⟨m', k', _, h2⟩ := add_exact h hg
  refine ⟨k', ?_⟩
  rw [h2, step_of_v1 c q m' i k (by simp [onPath_bzr_of_prefix hf hn hq])]

/-- git: every named file or link is in the index afterwards (directories are not index entries) -/
theorem add_named_git (h : smartAdd c f = .ok f') (hf : c.fmt = .git) (hn : q ∈ c.names)
    (hk : i.kind ≠ .dir) (hg : f.get q = some (i, k)) :
    ∃ k', f'.get q = some ({ i with versioned := true }, k') := by
  obtain ⟨m', k', _, h2⟩ := add_exact h hg
  refine ⟨k', ?_⟩
  have : onPath c q i = true := by
    simp only [onPath, hf, Bool.and_eq_true, List.contains_eq_mem, decide_eq_true_eq, bne_iff_ne, ne_eq]
    exact ⟨hn, hk⟩
  rw [h2, step_of_v1 c q m' i k (by simp [this])]

/-- one level of the recursive walk, spelled out: a child `p` of a directory
being scanned (that is not itself a scheduled named directory) ends up
versioned iff it was, or was named, or (bzr) is not in the control directory,
not ignored, not a conflict helper and not a nested tree; (git) is a file or
link not in the control directory, not ignored and not a conflict helper.  Its
own content is scanned iff it is a real directory that is not in the control
directory, not ignored (bzr: unless versioned), not a helper (bzr) and not a
nested tree. -/
theorem walk_child_exact (p : Path) (hs : startsWalk c p i .walk = false) :
    let v1 := i.versioned || onPath c p i
    (c.fmt = .bzr →
      (step c p .walk i k).1 =
        (v1 || (!(p.head? == some ".bzr") && !i.ignored && !i.helper && !isNestedTree i k)) ∧
      ((step c p .walk i k).2 = .walk ↔
        (!(p.head? == some ".bzr") && (v1 || !i.ignored) && !i.helper && i.kind == .dir && !hasCtl k) = true)) ∧
    (c.fmt = .git →
      (step c p .walk i k).1 =
        (v1 || (!(p.head? == some ".git") && !i.ignored && !i.helper && i.kind != .dir)) ∧
      ((step c p .walk i k).2 = .walk ↔
        (!(p.head? == some ".git") && !i.ignored && i.kind == .dir && !hasCtl k) = true)) := by
  intro v1
  constructor
  · intro hf
    simp only [step, hs, listed, visitFlag, visitKids, hf, isNestedTree, v1]
    cases (i.versioned || onPath c p i) <;> cases (p.head? == some ".bzr") <;> cases i.ignored <;>
      cases i.helper <;> cases (i.kind == Kind.dir) <;> cases hasCtl k <;> simp
  · intro hf
    simp only [step, hs, listed, visitFlag, visitKids, hf, v1]
    cases (i.versioned || onPath c p i) <;> cases (p.head? == some ".git") <;> cases i.ignored <;>
      cases i.helper <;> cases hk : (i.kind == Kind.dir) <;> cases hasCtl k <;> simp [hk, bne]

/-- outside the scanned regions nothing but the named paths changes -/
theorem idle_child_exact (p : Path) (m : Mode) (hm : m ≠ .walk) (hs : startsWalk c p i m = false) :
    step c p m i k = (i.versioned || onPath c p i, m) := by
  cases m <;> simp_all [step]

theorem onPath_of_named_bzr (hf : c.fmt = .bzr) (hn : c.names.contains q = true) : onPath c q i = true := by
  simp only [onPath, hf, List.any_eq_true]
  exact ⟨q, by simpa using hn, List.isPrefixOf_iff_prefix.mpr (List.prefix_refl _)⟩

/-- nothing else becomes versioned: a path that is newly versioned was named
(bzr: or is a parent of a named path), or is reached by the walk (its listing
is scanned) and is not in the control directory, not ignored, not a conflict
helper and (bzr) not a nested tree / (git) not a directory -/
theorem add_nothing_else (h : smartAdd c f = .ok f') (hg : f.get q = some (i, k))
    (hv : i.versioned = false) {i' : Info} {k' : Forest} (hg' : f'.get q = some (i', k'))
    (hv' : i'.versioned = true) :
    onPath c q i = true ∨
      (modeOf c [] (rootMode c) f q = some .walk ∧ i.ignored = false ∧ i.helper = false ∧
        (c.fmt = .bzr → (q.head? == some ".bzr") = false ∧ isNestedTree i k = false) ∧
        (c.fmt = .git → (q.head? == some ".git") = false ∧ i.kind ≠ .dir)) := by
  obtain ⟨m', k'', hm, h2⟩ := add_exact h hg
  rw [h2] at hg'
  simp only [Option.some.injEq, Prod.mk.injEq] at hg'
  have hflag : (step c q m' i k).1 = true := by rw [← hg'.1] at hv'; exact hv'
  by_cases hp : onPath c q i = true
  · exact Or.inl hp
  · right
    have hp' : onPath c q i = false := by simpa using hp
    have hsw : startsWalk c q i m' = false := by
      cases hsw : startsWalk c q i m' with
      | false => rfl
      | true =>
        exfalso
        simp only [startsWalk, Bool.and_eq_true, Bool.or_eq_true, beq_iff_eq] at hsw
        cases hf : c.fmt with
        | bzr => rw [onPath_of_named_bzr hf hsw.1.1.2] at hp'; cases hp'
        | git =>
          simp only [step, startsWalk, hsw, visitFlag, hf, hv, hp'] at hflag
          cases hn : namedTreeRef c i k <;> simp [hn] at hflag
    cases m' with
    | idle => rw [idle_child_exact q .idle (by simp) hsw] at hflag; simp [hv, hp'] at hflag
    | dead => rw [idle_child_exact q .dead (by simp) hsw] at hflag; simp [hv, hp'] at hflag
    | walk =>
      refine ⟨hm, ?_⟩
      have hw := walk_child_exact (c := c) (i := i) (k := k) q hsw
      simp only [hv, hp', Bool.or_false, Bool.false_or] at hw
      cases hf : c.fmt with
      | bzr =>
        have := (hw.1 hf).1
        rw [hflag] at this
        have this := this.symm
        simp only [Bool.and_eq_true, Bool.not_eq_true'] at this
        refine ⟨this.1.1.2, this.1.2, fun _ => ⟨this.1.1.1, this.2⟩, fun h => by cases h⟩
      | git =>
        have := (hw.2 hf).1
        rw [hflag] at this
        have this := this.symm
        simp only [Bool.and_eq_true, Bool.not_eq_true', bne_iff_ne, ne_eq] at this
        refine ⟨this.1.1.2, this.1.2, fun h => (by cases h), fun _ => ⟨this.1.1.1, this.2⟩⟩

/-! ### witnesses -/

private def fl (n : String) (v : Bool := false) : Info :=
  { name := n, kind := .file, versioned := v, ignored := false, valid := false }
private def dr (n : String) (v : Bool := false) (valid : Bool := false) : Info :=
  { name := n, kind := .dir, versioned := v, ignored := false, valid := valid }
private def added (c : Cfg) (f : Forest) : Option (List Path) :=
  match smartAdd c f with
  | .ok f' => some ((versionedPaths f').filter fun p => !(versionedPaths f).contains p)
  | .error _ => none

/-- git trees: an explicitly named file of the control directory is put into
the index (bzr trees refuse: `ForbiddenControlFileError`) -/
theorem git_named_control_file_witness :
    let f := cons (dr ".git" false true) (cons (fl "HEAD") nil nil) (cons (fl "a") nil nil)
    added { fmt := .git, names := [[".git", "HEAD"]], recurse := true } f = some [[".git", "HEAD"]] ∧
    added { fmt := .bzr, names := [[".bzr", "README"]], recurse := true }
      (cons (dr ".bzr" false true) (cons (fl "README") nil nil) nil) = none := by
  decide

/-- bzr: `add . w/e` where `w` is a versioned directory that is also a nested
tree: `w/e` is dropped from the scan list (it lies inside the named root), the
scan of the root stops at `w`, so `w/e/y` stays unversioned — although
`add w/e` alone versions it -/
theorem bzr_named_dir_below_blocked_witness :
    let f := cons (dr ".bzr" false true) nil <|
      cons (dr "w" true) (cons (dr ".git" false true) nil (cons (dr "e") (cons (fl "y") nil nil) nil)) nil
    added { fmt := .bzr, names := [["w", "e"], []], recurse := true } f = some [["w", "e"]] ∧
    added { fmt := .bzr, names := [["w", "e"]], recurse := true } f = some [["w", "e"], ["w", "e", "y"]] := by
  decide

/-! ### non-vacuity -/

private def sample : Forest :=
  cons (dr ".bzr" false true) nil <|
  cons (dr "src") (cons (fl "main.c") nil <| cons { fl "main.o" with ignored := true } nil <|
    cons { fl "x.THIS" with helper := true } nil <|
    cons (dr "nest") (cons (dr ".bzr" false true) nil (cons (fl "inner") nil nil)) <|
    cons { dr "build" with ignored := true } (cons (fl "out") nil nil) nil) <|
  cons (fl "README" true) nil nil

/-- every branch of the walk on one layout: ignored file and directory, helper,
nested tree are skipped; the named ignored file is versioned -/
example :
    added { fmt := .bzr, names := [["src"]], recurse := true } sample = some [["src"], ["src", "main.c"]] ∧
    added { fmt := .bzr, names := [["src", "main.o"]], recurse := true } sample
      = some [["src"], ["src", "main.o"]] ∧
    added { fmt := .bzr, names := [["src"]], recurse := false } sample = some [["src"]] ∧
    added { fmt := .bzr, names := [["nope"]], recurse := true } sample = none := by
  decide

end BreezyVerif.C11
