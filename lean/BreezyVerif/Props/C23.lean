import BreezyVerif.Model.C23
import BreezyVerif.Lemmas.C23C
/-!
C23 — checkouts and their master branches stay in step.

The per-operation theorems quantify over *every* state (any graph, any tips,
any tree parents, any log); the `run_…` theorems over every operation sequence
of any length (induction, invariants of reachable states).  Everything stated
for the first heavyweight checkout holds for the second one by the symmetry
`h2_symmetry` (the second checkout is the first one with the roles exchanged).
-/
namespace BreezyVerif.C23

/-! ### commits -/

/-- **master first**: a successful commit in the bound checkout ends with
master tip = local tip = the new revision; the master's tip is written first,
the local tip directly after it; the tree is based on the new revision -/
theorem bound_commit_master_first (s : St) (r : Rev) (hb : s.bound = true)
    (h : (step s (.commit .H r false)).2 = .ok) :
    (step s (.commit .H r false)).1.master = r ∧ (step s (.commit .H r false)).1.loc = r ∧
    (step s (.commit .H r false)).1.log = ⟨.loc, r, .boundCommit⟩ :: ⟨.master, r, .boundCommit⟩ :: s.log ∧
    (step s (.commit .H r false)).1.tH = ⟨r, []⟩ := by
  simp only [step, commitH, hb] at h ⊢
  by_cases h0 : s.masterBound = true
  · simp [h0] at h
  · by_cases h1 : s.loc != s.master
    · simp [h0, h1] at h
    · by_cases h2 : !treeUpToDate s.tH s.master
      · simp [h0, h1, h2] at h
      · simp [h0, h1, h2]

/-- **refused**: when the master has moved or diverged (its tip differs from
the local tip) the bound commit is refused and nothing changes -/
theorem bound_commit_refused_noop (s : St) (r : Rev) (hb : s.bound = true) (hne : s.loc ≠ s.master) :
    (step s (.commit .H r false)).2 ≠ .ok ∧ (step s (.commit .H r false)).1 = s ∧
    (s.masterBound = false → (step s (.commit .H r false)).2 = .boundOutOfDate) := by
  have : (s.loc != s.master) = true := by simpa using hne
  by_cases h0 : s.masterBound = true
  · simp [step, commitH, hb, h0]
  · simp [step, commitH, hb, this, h0]

/-- **a bound master**: a commit through a checkout whose master is itself
bound is refused with `CommitToDoubleBoundBranch`; nothing changes -/
theorem double_bound_commit_refused (s : St) (r : Rev) (hb : s.bound = true) (hm : s.masterBound = true) :
    step s (.commit .H r false) = (s, .doubleBound) := by
  simp [step, commitH, hb, hm]

/-- **--local**: a successful local commit needs a bound branch and changes
only the local branch (and the checkout's tree) -/
theorem local_commit_only_local (s : St) (r : Rev) (h : (step s (.commit .H r true)).2 = .ok) :
    s.bound = true ∧
    (step s (.commit .H r true)).1.master = s.master ∧ (step s (.commit .H r true)).1.loc = r ∧
    (step s (.commit .H r true)).1.log = ⟨.loc, r, .commit⟩ :: s.log ∧
    (step s (.commit .H r true)).1.tM = s.tM ∧ (step s (.commit .H r true)).1.tL = s.tL ∧
    (step s (.commit .H r true)).1.loc2 = s.loc2 := by
  simp only [step, commitH] at h ⊢
  by_cases hb : s.bound = true
  · by_cases h2 : !treeUpToDate s.tH s.loc
    · simp [hb, h2] at h
    · simp [hb, h2]
  · have hb' : s.bound = false := by simpa using hb
    simp [hb'] at h

/-- an unbound branch commits to itself only -/
theorem unbound_commit_only_local (s : St) (r : Rev) (hb : s.bound = false)
    (h : (step s (.commit .H r false)).2 = .ok) :
    (step s (.commit .H r false)).1.master = s.master ∧ (step s (.commit .H r false)).1.loc = r := by
  simp only [step, commitH, hb] at h ⊢
  by_cases h2 : !treeUpToDate s.tH s.loc
  · simp [h2] at h
  · simp [h2]

/-- commits in the master's tree or in the lightweight checkout move only the
master -/
theorem master_commit_only_master (s : St) (w : Who) (r : Rev) (l : Bool) (hw : w ≠ .H)
    (h : (step s (.commit w r l)).2 = .ok) :
    (step s (.commit w r l)).1.master = r ∧ (step s (.commit w r l)).1.loc = s.loc ∧
    (step s (.commit w r l)).1.tH = s.tH ∧ (step s (.commit w r l)).1.bound = s.bound ∧
    (step s (.commit w r l)).1.loc2 = s.loc2 := by
  cases w with
  | H => exact absurd rfl hw
  | M =>
    simp only [step, commitMaster] at h ⊢
    grind
  | L =>
    simp only [step, commitMaster] at h ⊢
    grind

/-! ### update -/

/-- **update equalises** (*partial*: for a master that has at least one
revision, see `update_empty_master_witness`): update in the bound checkout
leaves the local tip equal to the master tip, the tree based on it, and the
master untouched -/
theorem update_equalises_partial (s : St) (hb : s.bound = true) (hm : s.master ≠ null) :
    (step s (.update .H)).2 = .ok ∧ (step s (.update .H)).1.loc = s.master ∧
    (step s (.update .H)).1.master = s.master ∧ (step s (.update .H)).1.tH.basis = s.master := by
  have hm' : (s.master == null) = false := by simpa using hm
  simp only [step, updateH, hb, hm']
  refine ⟨rfl, rfl, rfl, ?_⟩
  simp only [updateTree]
  by_cases h : s.tH.basis = s.master
  · simp [h]
  · have h' : (s.tH.basis != s.master) = true := by simpa using h
    simp [h']

/-- **Witness (statement violated)**: a checkout bound to an *empty* master
with a local commit: `update` pulls nothing (`_update_revisions` returns early
for a null source tip, even with overwrite) and the local tip stays different
from the master tip -/
theorem update_empty_master_witness :
    let s := (run init [.commit .H "r1" true])
    s.bound = true ∧ s.master = null ∧ s.loc = "r1" ∧
    (step s (.update .H)).2 = .ok ∧ (step s (.update .H)).1.loc = "r1" ∧
    (step s (.update .H)).1.loc ≠ (step s (.update .H)).1.master := by decide

/-! ### pull from the master -/

/-- **pull** (*partial*: the third alternative leaves the local tip different
from the master tip, see `pull_local_ahead_witness`): pulling from the master
either is refused as diverged (nothing changes), or leaves the local tip equal
to the master tip, or changes nothing because the master is empty or its tip is
already in the local branch -/
theorem pull_equalises_or_refuses_partial (s : St) :
    ((step s .pull).2 = .diverged ∧ (step s .pull).1 = s) ∨
    ((step s .pull).2 = .ok ∧ (step s .pull).1.master = s.master ∧
      ((step s .pull).1.loc = s.master ∨
       ((step s .pull).1 = s ∧ (s.master = null ∨ isAncestor s.graph s.master s.loc = true)))) := by
  simp only [step, pullH]
  by_cases h1 : s.master == null
  · right; simp [h1]; right; left; simpa using h1
  · by_cases h2 : isAncestor s.graph s.master s.loc
    · right; simp [h1, h2]
    · by_cases h3 : !isAncestor s.graph s.loc s.master
      · left; simp [h1, h2, h3]
      · right; simp [h1, h2, h3]

/-- **pull equalises**: when the local branch does not already contain the
master's (non-null) tip, a pull that is not refused leaves local tip = master
tip, the tree based on it, and the master untouched -/
theorem pull_equalises (s : St) (hm : s.master ≠ null) (hna : isAncestor s.graph s.master s.loc = false)
    (hok : (step s .pull).2 = .ok) :
    (step s .pull).1.loc = s.master ∧ (step s .pull).1.master = s.master ∧ (step s .pull).1.tH.basis = s.master := by
  have hm' : (s.master == null) = false := by simpa using hm
  simp only [step, pullH, hm', hna] at hok ⊢
  by_cases h3 : !isAncestor s.graph s.loc s.master
  · simp [h3] at hok
  · simp [h3]

/-- **Witness (local ahead)**: after a `--local` commit on top of the master's
tip a pull from the master succeeds, changes nothing and leaves the local tip
*different* from the master tip (the local branch already contains it) - the
"leave the local branch equal to the master" of the statement does not hold for
pull in this case; it is `update` that equalises -/
theorem pull_local_ahead_witness :
    let s := run init [.commit .M "r1" false, .update .H, .commit .H "r2" true]
    s.bound = true ∧ s.master = "r1" ∧ s.loc = "r2" ∧
    (step s .pull).2 = .ok ∧ (step s .pull).1 = s ∧ (step s .pull).1.loc ≠ (step s .pull).1.master := by decide

/-! ### refused operations -/

/-- **refused operations change nothing** — EVERY operation, in either
checkout: a refused operation leaves the whole state as it was, with one
exception: `DivergedBranches` may have been raised after the master's tip (and
nothing else but the log of tip writes) was moved; `pull_other_refused_exact`
says exactly when -/
theorem refused_noop (s : St) (op : Op) (h : (step s op).2 ≠ .ok) :
    (step s op).1 = s ∨
    ((step s op).2 = .diverged ∧ ∃ m l, (step s op).1 = { s with master := m, log := l }) :=
  step_refused s op h

/-- a refused pull from another branch into the checkout: nothing has changed,
or — the checkout is bound, the pull is not `--local`, the master accepted the
revision and the local branch has diverged from it — exactly the master's tip
has moved (finding pull-into-bound-branch-master-moved-before-local-diverged) -/
theorem pull_other_refused_exact (s : St) (stop : Option Rev) (ow l : Bool)
    (h : (step s (.pullOther .H stop ow l)).2 ≠ .ok) :
    (step s (.pullOther .H stop ow l)).1 = s ∨
    (l = false ∧ s.bound = true ∧ s.masterBound = false ∧ (step s (.pullOther .H stop ow l)).2 = .diverged ∧
      ∃ m', updateRevisions s.graph s.master s.other stop ow = some m' ∧
        updateRevisions s.graph s.loc s.other stop ow = none ∧
        (step s (.pullOther .H stop ow l)).1 =
          { s with master := m', log := logIf (m' != s.master) ⟨.master, m', .pull⟩ s.log }) :=
  pullOtherH_refused s stop ow l h

/-- every refused operation other than a pull from another branch into a
heavyweight checkout leaves the whole state unchanged -/
theorem refused_noop_strict (s : St) (op : Op) (hop : ∀ st ow l, op ≠ .pullOther .H st ow l)
    (hop2 : ∀ o, op ≠ .onH2 o) (h : (step s op).2 ≠ .ok) : (step s op).1 = s :=
  step_refused_basic s op hop hop2 h

/-! ### pull from another branch -/

/-- **pull from another branch, master first to the SAME revision**: a
successful non-local pull (any stop revision, with or without overwrite) in a
bound checkout that is in step with its master leaves it in step; when the tip
moves, the master's tip is written first and the local tip directly after it,
both to the same revision -/
theorem bound_pull_other_same_revision (s : St) (stop : Option Rev) (ow : Bool)
    (hb : s.bound = true) (hl : s.loc = s.master)
    (h : (step s (.pullOther .H stop ow false)).2 = .ok) :
    (step s (.pullOther .H stop ow false)).1.loc = (step s (.pullOther .H stop ow false)).1.master ∧
    ((step s (.pullOther .H stop ow false)).1.loc ≠ s.loc →
      (step s (.pullOther .H stop ow false)).1.log =
        ⟨.loc, (step s (.pullOther .H stop ow false)).1.loc, .pull⟩ ::
        ⟨.master, (step s (.pullOther .H stop ow false)).1.loc, .pull⟩ :: s.log) := by
  simp only [step, pullOtherH, hb, hl] at h ⊢
  cases hmb : s.masterBound
  · cases hu : updateRevisions s.graph s.master s.other stop ow with
    | none => simp [hmb, hu] at h
    | some m' =>
      simp only [Bool.not_true, Bool.and_false, Bool.false_eq_true, if_false, Bool.not_false,
        Bool.and_true, if_true]
      refine ⟨trivial, ?_⟩
      intro hne
      have : (m' != s.master) = true := by simpa using hne
      simp [logIf, this]
  · simp [hmb] at h

/-- a refused pull from another branch never touches the local branch, the
checkout's tree or the binding -/
theorem pull_other_refused_local_unchanged (s : St) (stop : Option Rev) (ow l : Bool)
    (h : (step s (.pullOther .H stop ow l)).2 ≠ .ok) :
    (step s (.pullOther .H stop ow l)).1.loc = s.loc ∧ (step s (.pullOther .H stop ow l)).1.tH = s.tH ∧
    (step s (.pullOther .H stop ow l)).1.bound = s.bound := by
  have e : step s (.pullOther .H stop ow l) = pullOtherH s stop ow l := rfl
  rcases pullOtherH_refused s stop ow l h with h1 | ⟨_, _, _, _, m', _, _, h3⟩
  · rw [e, h1]; exact ⟨rfl, rfl, rfl⟩
  · rw [e, h3]; exact ⟨rfl, rfl, rfl⟩

/-- **Witness (statement violated)**: the checkout has a local-only commit, the
other branch is ahead of the master: the pull moves the master and then raises
`DivergedBranches` for the local branch — a refused operation that changed the
master -/
theorem pull_other_master_moved_witness :
    let s := run init [.commit .M "r1" false, .update .H, .syncO, .commitO "r2", .commit .H "r3" true]
    (step s (.pullOther .H none false false)).2 = .diverged ∧
    s.master = "r1" ∧ (step s (.pullOther .H none false false)).1.master = "r2" ∧
    (step s (.pullOther .H none false false)).1.loc = "r3" := by decide

/-- `pull --local` never touches the master -/
theorem pull_other_local_only (s : St) (stop : Option Rev) (ow : Bool) :
    (step s (.pullOther .H stop ow true)).1.master = s.master := by
  simp only [step, pullOtherH]
  grind

/-! ### the second checkout -/

/-- **symmetry**: an operation in the second heavyweight checkout is the same
operation in the first one with the roles of the two checkouts exchanged; so
every theorem about `H` holds for `H2` (instantiate it at `swapH s`) -/
theorem h2_symmetry (s : St) (op : Op) :
    step s (.onH2 op) = (swapH (step (swapH s) op).1, (step (swapH s) op).2) ∧ swapH (swapH s) = s :=
  ⟨rfl, swapH_swapH s⟩

/-- master first, for the second checkout: a successful bound commit there ends
with master tip = its tip = the new revision, written master first; the first
checkout is not touched (and is now behind the master) -/
theorem bound_commit_master_first_h2 (s : St) (r : Rev) (hb : s.bound2 = true)
    (h : (step s (.onH2 (.commit .H r false))).2 = .ok) :
    (step s (.onH2 (.commit .H r false))).1.master = r ∧ (step s (.onH2 (.commit .H r false))).1.loc2 = r ∧
    (step s (.onH2 (.commit .H r false))).1.loc = s.loc ∧ (step s (.onH2 (.commit .H r false))).1.tH = s.tH ∧
    (step s (.onH2 (.commit .H r false))).1.log =
      ⟨.loc2, r, .boundCommit⟩ :: ⟨.master, r, .boundCommit⟩ :: s.log := by
  have hb' : (swapH s).bound = true := hb
  obtain ⟨h1, h2, h3, h4⟩ := bound_commit_master_first (swapH s) r hb' h
  have hf := (commitH_tree (swapH s) r false)
  refine ⟨h1, h2, ?_, ?_, ?_⟩
  · show (swapH (step (swapH s) (.commit .H r false)).1).loc = s.loc
    have : (commitH (swapH s) r false).1.loc2 = (swapH s).loc2 := by unfold commitH; grind
    exact this
  · show (swapH (step (swapH s) (.commit .H r false)).1).tH = s.tH
    have : (commitH (swapH s) r false).1.tH2 = (swapH s).tH2 := by unfold commitH; grind
    exact this
  · show ((step (swapH s) (.commit .H r false)).1.log.map Entry.swap) = _
    rw [h3]
    simp [swapH, swap_comp_swap, Entry.swap]

/-! ### invariants over operation sequences -/

/-- **master first, always**: in the log of tip writes of *any* sequence of
operations (commits through the master, either checkout, with --local, updates,
pulls from the master and from other branches, pushes, binds and unbinds) every
write to a checkout's branch made by a bound commit directly follows the master
write of the same revision -/
theorem run_master_first (ops : List Op) (s : St) (h : masterFirst s.log = true) :
    masterFirst (run s ops).log = true := by
  induction ops generalizing s with
  | nil => exact h
  | cons op rest ih => exact ih (step s op).1 (step_master_first s op h)

/-- **in step, one operation**: a bound checkout whose tip equals the master's
tip is still bound and in step after any operation made through it that is not
local-only, and after any operation that writes neither the master nor its
branch (`Op.keepsStep`: this includes local commits, updates, pulls from the
master, local pulls, pushes, binds and unbinds in the SECOND checkout) —
whether the operation succeeds or is refused -/
theorem in_step_preserved (s : St) (op : Op) (hop : op.keepsStep = true)
    (hb : s.bound = true) (hl : s.loc = s.master) :
    (step s op).1.bound = true ∧ (step s op).1.loc = (step s op).1.master :=
  step_inStep s op hop ⟨hb, hl⟩

/-- **in step, always**: along any sequence of such operations (any length, any
stop revisions, overwrite or not, successful or refused, whatever the other
branch does) a checkout that is in step stays in step -/
theorem run_in_step_invariant (ops : List Op) (hops : ∀ op ∈ ops, op.keepsStep = true) (s : St)
    (hb : s.bound = true) (hl : s.loc = s.master) :
    (run s ops).bound = true ∧ (run s ops).loc = (run s ops).master := by
  induction ops generalizing s with
  | nil => exact ⟨hb, hl⟩
  | cons op rest ih =>
    obtain ⟨h1, h2⟩ := step_inStep s op (hops op (by simp)) ⟨hb, hl⟩
    exact ih (fun o ho => hops o (by simp [ho])) (step s op).1 h1 h2

/-- a new checkout is in step, and stays so as long as it is used without
`--local` and nobody else commits to the master -/
theorem run_in_step_from_init (ops : List Op) (hops : ∀ op ∈ ops, op.keepsStep = true) :
    (run init ops).loc = (run init ops).master :=
  (run_in_step_invariant ops hops init rfl rfl).2

/-- **getting back in step**: from ANY state with a bound checkout and a
non-empty master, `update` followed by any sequence of step-keeping operations
ends in step; so does a successful bound commit followed by such a sequence -/
theorem run_in_step_after_update (s : St) (hb : s.bound = true) (hm : s.master ≠ null)
    (ops : List Op) (hops : ∀ op ∈ ops, op.keepsStep = true) :
    (run s (.update .H :: ops)).loc = (run s (.update .H :: ops)).master := by
  obtain ⟨_, h2, h3, _⟩ := update_equalises_partial s hb hm
  have hb' : (step s (.update .H)).1.bound = true := by simp [step, updateH, hb]
  exact (run_in_step_invariant ops hops (step s (.update .H)).1 hb' (h2.trans h3.symm)).2

theorem run_in_step_after_commit (s : St) (r : Rev) (hb : s.bound = true)
    (hok : (step s (.commit .H r false)).2 = .ok)
    (ops : List Op) (hops : ∀ op ∈ ops, op.keepsStep = true) :
    (run s (.commit .H r false :: ops)).loc = (run s (.commit .H r false :: ops)).master := by
  obtain ⟨h1, h2, _, _⟩ := bound_commit_master_first s r hb hok
  have hb' : (step s (.commit .H r false)).1.bound = true := by
    simp only [step]; unfold commitH; grind
  exact (run_in_step_invariant ops hops (step s (.commit .H r false)).1 hb' (h2.trans h1.symm)).2

/-- **tree basis = branch tip** is an invariant of every reachable state: after
any sequence of any operations (from a state where it holds, e.g. `init`) the
working tree of each heavyweight checkout is based on the tip of its branch -/
theorem run_tree_basis_invariant (ops : List Op) (s : St)
    (h : s.tH.basis = s.loc ∧ s.tH2.basis = s.loc2) :
    (run s ops).tH.basis = (run s ops).loc ∧ (run s ops).tH2.basis = (run s ops).loc2 := by
  induction ops generalizing s with
  | nil => exact h
  | cons op rest ih => exact ih (step s op).1 (step_treeInv s op h)

/-- **tree parents are duplicate-free**, one operation: whatever the operation
(any checkout, any outcome), if no working tree lists a revision twice among
its parents before, none does afterwards — `set_parent_trees` keeps the basis
and drops a pending merge that was listed already or is an ancestor of another
parent -/
theorem step_tree_parents_nodup (s : St) (op : Op) (h : AllTreesOK s) :
    AllTreesOK (step s op).1 ∧
    (step s op).1.tM.parents.Nodup ∧ (step s op).1.tH.parents.Nodup ∧ (step s op).1.tL.parents.Nodup ∧
    (step s op).1.tO.parents.Nodup ∧ (step s op).1.tH2.parents.Nodup := by
  have h' := step_treesOK s op h
  obtain ⟨a, b, c, d, e⟩ := h'
  exact ⟨⟨a, b, c, d, e⟩, treeOK_parents _ a, treeOK_parents _ b, treeOK_parents _ c, treeOK_parents _ d,
    treeOK_parents _ e⟩

/-- … and after every step of every operation sequence from `init`: the parent
list (`get_parent_ids`) of each of the five working trees never repeats a
revision -/
theorem run_tree_parents_nodup (ops : List Op) :
    (run init ops).tM.parents.Nodup ∧ (run init ops).tH.parents.Nodup ∧ (run init ops).tL.parents.Nodup ∧
    (run init ops).tO.parents.Nodup ∧ (run init ops).tH2.parents.Nodup := by
  have key : ∀ (ops : List Op) (s : St), AllTreesOK s → AllTreesOK (run s ops) := by
    intro ops
    induction ops with
    | nil => intro s h; exact h
    | cons op rest ih => intro s h; exact ih (step s op).1 (step_treesOK s op h)
  have h0 : AllTreesOK init := by
    refine ⟨?_, ?_, ?_, ?_, ?_⟩ <;> exact ⟨by simp [init], by simp [init]⟩
  obtain ⟨a, b, c, d, e⟩ := key ops init h0
  exact ⟨treeOK_parents _ a, treeOK_parents _ b, treeOK_parents _ c, treeOK_parents _ d, treeOK_parents _ e⟩

/-- the corpus case: the local tip is overwritten from the other branch, pivoted
out by `update`, and overwritten again — the basis is not listed again as a
pending merge -/
example :
    let s := run init [.push .H, .commit .H "r1" false, .pull, .commitO "r2", .pullOther .H none true true, .bind,
                       .update .M, .update .H, .pullOther .H none true true]
    s.tH.parents = ["r2"] ∧ s.loc = "r2" ∧ s.master = "r1" := by decide

/-! ### revnos -/

/-- **revnos of a bound commit**: when the checkout's tree is based on its
branch tip (which holds in every reachable state) a successful bound commit
leaves master and local branch with the same tip whose revno — the length of
its left-hand history — is the master's old revno plus one -/
theorem bound_commit_revnos (s : St) (r : Rev) (hr : r ≠ null) (hb : s.bound = true)
    (ht : s.tH.basis = s.loc) (h : (step s (.commit .H r false)).2 = .ok) :
    revno (step s (.commit .H r false)).1.graph (step s (.commit .H r false)).1.master = revno s.graph s.master + 1 ∧
    revno (step s (.commit .H r false)).1.graph (step s (.commit .H r false)).1.loc = revno s.graph s.master + 1 := by
  obtain ⟨h1, h2, _, _⟩ := bound_commit_master_first s r hb h
  have hg : (step s (.commit .H r false)).1.graph = addRev s.graph r s.tH.parents ∧ s.loc = s.master := by
    simp only [step] at h ⊢
    unfold commitH at h ⊢
    grind
  rw [h1, h2, hg.1, revno_addRev_self s.graph r s.tH hr, ht, hg.2]
  exact ⟨rfl, rfl⟩

/-- the same in every state reachable from `init` -/
theorem run_bound_commit_revnos (ops : List Op) (r : Rev) (hr : r ≠ null)
    (hb : (run init ops).bound = true) (h : (step (run init ops) (.commit .H r false)).2 = .ok) :
    revno (step (run init ops) (.commit .H r false)).1.graph (step (run init ops) (.commit .H r false)).1.master
      = revno (run init ops).graph (run init ops).master + 1 ∧
    revno (step (run init ops) (.commit .H r false)).1.graph (step (run init ops) (.commit .H r false)).1.loc
      = revno (run init ops).graph (run init ops).master + 1 :=
  bound_commit_revnos _ r hr hb (run_tree_basis_invariant ops init ⟨rfl, rfl⟩).1 h

/-! ### non-vacuity -/

example : masterFirst init.log = true := rfl

example :
    let s := run init [.commit .M "r1" false, .update .H, .commit .H "r2" false, .commit .H "r3" true,
                       .update .M, .commit .M "r4" false, .commit .H "r5" false, .update .H]
    (s.master, s.loc, s.tH.parents, s.log.map (fun e => (e.br, e.rev))) =
      ("r4", "r4", ["r4", "r3"],
       [(.loc, "r4"), (.master, "r4"), (.loc, "r3"), (.loc, "r2"), (.master, "r2"), (.loc, "r1"), (.master, "r1")]) := by
  decide

/-- the hypotheses of `bound_commit_refused_noop` and `update_equalises_partial`
hold in a reachable state (the master moved on after a local commit) -/
example :
    let s := run init [.commit .M "r1" false, .update .H, .commit .H "r2" true, .update .M]
    s.bound = true ∧ s.loc ≠ s.master ∧ s.master ≠ null ∧
    (step s (.commit .H "r3" false)).2 = .boundOutOfDate := by decide

/-- the hypotheses of `bound_pull_other_same_revision` hold in a reachable state
and the pull stops at the requested revision for master and local alike -/
example :
    let s := run init [.commit .M "r1" false, .update .H, .syncO, .commitO "r2", .commitO "r3", .commitO "r4"]
    s.bound = true ∧ s.loc = s.master ∧
    (step s (.pullOther .H (some "r3") false false)).2 = .ok ∧
    (step s (.pullOther .H (some "r3") false false)).1.master = "r3" ∧
    (step s (.pullOther .H (some "r3") false false)).1.loc = "r3" := by decide

/-- a diverged pull is refused; `pull_equalises` applies to a checkout that is behind -/
example :
    let s := run init [.commit .M "r1" false, .update .H, .commit .H "r2" true, .commit .M "r3" false]
    (step s .pull).2 = .diverged := by decide
example :
    let s := run init [.commit .M "r1" false, .update .H, .commit .M "r2" false]
    s.master ≠ null ∧ isAncestor s.graph s.master s.loc = false ∧ (step s .pull).2 = .ok ∧
    (step s .pull).1.loc = "r2" := by decide

/-- two checkouts: a commit through the second one takes the first one out of
date; after `update` it commits again; the revnos are the left-hand lengths -/
example :
    let s := run init [.commit .M "r1" false, .update .H, .onH2 (.update .H), .onH2 (.commit .H "r2" false),
                       .commit .H "r3" false, .update .H, .commit .H "r4" false, .onH2 (.commit .H "r5" false)]
    (s.master, s.loc, s.loc2) = ("r4", "r4", "r2") ∧ revno s.graph s.master = 3 ∧ revno s.graph s.loc2 = 2 ∧
    s.log.map (fun e => (e.br, e.rev)) =
       [(.loc, "r4"), (.master, "r4"), (.loc, "r2"), (.loc2, "r2"), (.master, "r2"), (.loc2, "r1"), (.loc, "r1"),
        (.master, "r1")] := by
  decide

/-- a step-keeping sequence with commits, pulls with a stop revision and pushes -/
example :
    let ops := [Op.commit .H "r1" false, .syncO, .commitO "r2", .commitO "r3", .pullOther .H (some "r2") false false,
                .onH2 (.update .H), .onH2 (.commit .H "r9" true), .commit .H "r4" false, .push .H, .pull, .update .H,
                .onH2 .pull, .pullOther .H none false false]
    (∀ op ∈ ops, op.keepsStep = true) ∧ (run init ops).loc = "r4" ∧ (run init ops).master = "r4" ∧
    (run init ops).loc2 = "r9" := by decide

/-- a bound master: the commit through the checkout is refused, and accepted again after `unbindM` -/
example :
    let s := run init [.commit .M "r1" false, .update .H, .bindM]
    (step s (.commit .H "r2" false)).2 = .doubleBound ∧
    (step (step s .unbindM).1 (.commit .H "r2" false)).2 = .ok := by decide

end BreezyVerif.C23
