import BreezyVerif.Common
import BreezyVerif.Model.C33
/-
C32 — operations through a smart server match local operations.

Abstract state of a branch + repository (revision graph, tip, tags file, config,
physical branch lock) with, for every modelled operation,

* `localStep`  : what the operation does on a local branch object, and
* `remoteStep` : what `RemoteBranch` / `RemoteRepository` do — a sequence of
  verb calls, each of which is encoded to a tuple of byte strings (+ body),
  decoded and executed by the server (`serve`, built from the same primitive
  state transitions as `localStep`), its response encoded and decoded again.

Wire forms modelled (breezy/bzr/remote.py ↔ breezy/bzr/smart/branch.py, repository.py):
lock tokens with b"" for "no token", revnos as decimal ASCII, the
`Repository.get_parent_map` response lines (`key SP parent…`, `missing:key`,
no parents = the key alone, NULL_REVISION never on the wire), the
`include-missing:` marker.  Tag and config payloads travel as opaque byte
strings (the same (de)serialisers run on both sides), bz2 is omitted.

`fx` selects `RemoteRepository._get_parent_map_rpc` as found (false: the
`{NULL_REVISION: ()}` entry computed for a request that also names other keys is
dropped) or with the proposed fix (true).
-/
namespace BreezyVerif.C32

open BreezyVerif.C33 (split join toDec parseDec SP NL)

abbrev RevId := Bytes
abbrev Graph := List (RevId × List RevId)

def nullRev : RevId := [110, 117, 108, 108, 58]              -- b"null:"
def missingPfx : Bytes := [109, 105, 115, 115, 105, 110, 103, 58]   -- b"missing:"
def includeMissing : Bytes := [105, 110, 99, 108, 117, 100, 101, 45, 109, 105, 115, 115, 105, 110, 103, 58]

inductive Err
  | lockContention | tokenMismatch | noSuchRevision | noSuchTag | protocol
  | readOnly | lockNotHeld | diverged          -- session model (Model/C32S.lean)
  | notWriteLocked | ownerBusy | ownerNotHeld | ownerLent | ownerLockGone   -- harness-level guards of the session streams
  deriving DecidableEq, Repr

def Err.toString : Err → String
  | .lockContention => "E:LockContention"
  | .tokenMismatch => "E:TokenMismatch"
  | .noSuchRevision => "E:NoSuchRevision"
  | .noSuchTag => "E:NoSuchTag"
  | .protocol => "E:Protocol"
  | .readOnly => "E:ReadOnlyError"
  | .lockNotHeld => "E:LockNotHeld"
  | .diverged => "E:DivergedBranches"
  | .notWriteLocked => "E:NotWriteLocked"
  | .ownerBusy => "E:OwnerBusy"
  | .ownerNotHeld => "E:OwnerNotHeld"
  | .ownerLent => "E:OwnerLent"
  | .ownerLockGone => "E:OwnerLockGone"

structure St where
  revs : Graph                       -- revisions stored in the target repository
  tip : Nat × RevId
  tags : List (Bytes × RevId)        -- the tag dictionary (stored serialised; opaque on the wire)
  conf : List (Bytes × Bytes)
  lock : Option Nat                  -- token of the physical branch lock, if held
  nextTok : Nat
  known : Option Nat                 -- the token the script remembers from its last `lockLeave`
  owner : Option Nat := none         -- session model: token held by a SECOND holder object (Model/C32S.lean)
  deriving DecidableEq, Repr

def St.init : St :=
  { revs := [], tip := (0, nullRev), tags := [], conf := [], lock := none, nextTok := 0, known := none }

/-! ### dictionaries and graphs -/

def lookup {β : Type} (k : Bytes) : List (Bytes × β) → Option β
  | [] => none
  | (a, b) :: r => if a = k then some b else lookup k r

def dset {β : Type} (d : List (Bytes × β)) (k : Bytes) (v : β) : List (Bytes × β) :=
  match d with
  | [] => [(k, v)]
  | (a, b) :: r => if a = k then (k, v) :: r else (a, b) :: dset r k v

def ddel {β : Type} (d : List (Bytes × β)) (k : Bytes) : List (Bytes × β) :=
  d.filter (fun e => e.1 ≠ k)

/-- ancestry of `r` in `g` (fuel = number of nodes is enough) -/
def ancestry (g : Graph) : Nat → List RevId → List RevId → List RevId
  | 0, _, seen => seen
  | fuel + 1, todo, seen =>
    match todo with
    | [] => seen
    | r :: rest =>
      if r ∈ seen then ancestry g fuel rest seen
      else match lookup r g with
        | none => ancestry g fuel rest seen
        | some ps => ancestry g fuel (ps ++ rest) (r :: seen)

def addRevs (src : Graph) (st : St) (rs : List RevId) : St :=
  { st with revs := rs.foldl (fun g r =>
      match lookup r g, lookup r src with
      | none, some ps => g ++ [(r, ps)]
      | _, _ => g) st.revs }

/-! ### operations and results -/

inductive Op
  | tipSet (revno : Nat) (rev : RevId)
  | tagSet (name : Bytes) (rev : RevId)
  | tagDel (name : Bytes)
  | tagDict
  | confSet (name value : Bytes)
  | confGet (name : Bytes)
  | lockLeave                                   -- lock_write(); leave_lock_in_place(); unlock()
  | relockRelease (good : Bool)                 -- lock_write(token); dont_leave_lock_in_place(); unlock()
  | tipSetTok (good : Bool) (revno : Nat) (rev : RevId)
  | parentMap (keys : List RevId)
  | tip
  | fetch (rev : RevId)
  deriving DecidableEq, Repr

inductive Res
  | ok
  | token
  | err (e : Err)
  | tags (d : List (Bytes × RevId))
  | value (v : Option Bytes)
  | pmap (m : List (RevId × List RevId))
  | info (revno : Nat) (rev : RevId)
  | moved (old new : Nat × RevId) (conflicts : Nat)     -- tip before / after (+ tag conflicts) of a pull / tip change
  deriving DecidableEq, Repr

/-- token the script presents: the remembered one, or one that was never issued -/
def presented (st : St) (good : Bool) : Option Nat := if good then st.known else none

/-! ### primitive transitions (what the branch / repository objects do on disk) -/

/-- `Branch.lock_write(token)` on the physical lock -/
def primLock (st : St) (tok : Option Nat) : Except Err (Nat × St) :=
  match tok with
  | none =>
    match st.lock with
    | some _ => .error .lockContention
    | none => .ok (st.nextTok, { st with lock := some st.nextTok, nextTok := st.nextTok + 1 })
  | some t =>
    if st.lock = some t then .ok (t, st) else .error .tokenMismatch

/-- release the physical lock held with `t` -/
def primRelease (st : St) (t : Nat) : Except Err St :=
  if st.lock = some t then .ok { st with lock := none } else .error .tokenMismatch

/-- one entry of `get_parent_map`: no stored parents is `(NULL_REVISION,)` -/
def parentsEntry (g : Graph) (k : RevId) : Option (List RevId) :=
  match lookup k g with
  | none => none
  | some [] => some [nullRev]
  | some ps => some ps

def dedupKeys : List RevId → List RevId
  | [] => []
  | k :: r => if k ∈ r then dedupKeys r else k :: dedupKeys r

/-- `Repository.get_parent_map(keys)` locally -/
def localParentMap (g : Graph) (keys : List RevId) : List (RevId × List RevId) :=
  (dedupKeys keys).filterMap fun k =>
    if k = nullRev then some (k, []) else (parentsEntry g k).map fun ps => (k, ps)

/-! ### the local step -/

def localStep (src : Graph) (st : St) : Op → Res × St
  | .tipSet n r =>
    match primLock st none with
    | .error e => (.err e, st)
    | .ok (t, s1) =>
      let s2 := { s1 with tip := (n, r) }
      match primRelease s2 t with
      | .error e => (.err e, s2)
      | .ok s3 => (.ok, s3)
  | .tagSet name r =>
    match primLock st none with
    | .error e => (.err e, st)
    | .ok (t, s1) =>
      let s2 := { s1 with tags := dset s1.tags name r }
      match primRelease s2 t with
      | .error e => (.err e, s2)
      | .ok s3 => (.ok, s3)
  | .tagDel name =>
    match primLock st none with
    | .error e => (.err e, st)
    | .ok (t, s1) =>
      match lookup name s1.tags with
      | none =>
        match primRelease s1 t with
        | .error e => (.err e, s1)
        | .ok s3 => (.err .noSuchTag, s3)
      | some _ =>
        let s2 := { s1 with tags := ddel s1.tags name }
        match primRelease s2 t with
        | .error e => (.err e, s2)
        | .ok s3 => (.ok, s3)
  | .tagDict => (.tags st.tags, st)
  | .confSet name v =>
    match primLock st none with
    | .error e => (.err e, st)
    | .ok (t, s1) =>
      let s2 := { s1 with conf := dset s1.conf name v }
      match primRelease s2 t with
      | .error e => (.err e, s2)
      | .ok s3 => (.ok, s3)
  | .confGet name => (.value (lookup name st.conf), st)
  | .lockLeave =>
    match primLock st none with
    | .error e => (.err e, st)
    | .ok (t, s1) => (.token, { s1 with known := some t })
  | .relockRelease good =>
    match primLock st (some ((presented st good).getD st.nextTok)) with
    | .error e => (.err e, st)
    | .ok (t, s1) =>
      match primRelease s1 t with
      | .error e => (.err e, s1)
      | .ok s2 => (.ok, s2)
  | .tipSetTok good n r =>
    match primLock st (some ((presented st good).getD st.nextTok)) with
    | .error e => (.err e, st)
    | .ok (_, s1) => (.ok, { s1 with tip := (n, r) })
  | .parentMap keys => (.pmap (localParentMap st.revs keys), st)
  | .tip => (.info st.tip.1 st.tip.2, st)
  | .fetch r =>
    if r = nullRev then (.ok, st)
    else match lookup r src with
      | none => (.err .noSuchRevision, st)
      | some _ => (.ok, addRevs src st (ancestry src (src.length + 1) [r] []).reverse)

/-! ### the wire -/

/-- a request: verb arguments (byte strings) and an optional body; payloads
that are opaque to the protocol (tag dictionary, config triple, revision
stream) are carried as structured values -/
inductive Payload
  | none
  | tags (d : List (Bytes × RevId))
  | revs (rs : List RevId)     -- a revision stream: these revisions of the source repository
  deriving DecidableEq, Repr

inductive Verb
  | lockWrite | unlock | setLastRevisionInfo | lastRevisionInfo | getTagsBytes | setTagsBytes
  | setConfigOption | getConfigFile | getParentMap | insertStream
  deriving DecidableEq, Repr

structure Req where
  verb : Verb
  args : List Bytes
  payload : Payload := .none
  deriving DecidableEq, Repr

structure Resp where
  okay : Bool
  args : List Bytes
  body : Bytes := []
  payload : Payload := .none
  deriving DecidableEq, Repr

/-- lock tokens on the wire: the nonce as decimal digits, `b""` = no token -/
def encTok : Option Nat → Bytes
  | none => []
  | some t => toDec t

def decTok (b : Bytes) : Option (Option Nat) :=
  if b.isEmpty then some none else (parseDec b).map some

def errName : Err → Bytes
  | .lockContention => [76, 111, 99, 107, 67, 111, 110, 116, 101, 110, 116, 105, 111, 110]
  | .tokenMismatch => [84, 111, 107, 101, 110, 77, 105, 115, 109, 97, 116, 99, 104]
  | .noSuchRevision => [78, 111, 83, 117, 99, 104, 82, 101, 118, 105, 115, 105, 111, 110]
  | .noSuchTag => [78, 111, 83, 117, 99, 104, 84, 97, 103]
  | .protocol => [101, 114, 114, 111, 114]
  | .readOnly => [82, 101, 97, 100, 79, 110, 108, 121, 69, 114, 114, 111, 114]
  | .lockNotHeld => [76, 111, 99, 107, 78, 111, 116, 72, 101, 108, 100]
  | .diverged => [68, 105, 118, 101, 114, 103, 101, 100]
  | .notWriteLocked => [78, 87, 76]
  | .ownerBusy => [79, 66]
  | .ownerNotHeld => [79, 78, 72]
  | .ownerLent => [79, 76]
  | .ownerLockGone => [79, 76, 71]

def decErr (b : Bytes) : Err :=
  if b = errName .lockContention then .lockContention
  else if b = errName .tokenMismatch then .tokenMismatch
  else if b = errName .noSuchRevision then .noSuchRevision
  else if b = errName .noSuchTag then .noSuchTag
  else if b = errName .readOnly then .readOnly
  else if b = errName .lockNotHeld then .lockNotHeld
  else if b = errName .diverged then .diverged
  else if b = errName .notWriteLocked then .notWriteLocked
  else if b = errName .ownerBusy then .ownerBusy
  else if b = errName .ownerNotHeld then .ownerNotHeld
  else if b = errName .ownerLent then .ownerLent
  else if b = errName .ownerLockGone then .ownerLockGone
  else .protocol

def okBytes : Bytes := [111, 107]

def failResp (e : Err) : Resp := { okay := false, args := [errName e] }

/-- the line of one revision in the `Repository.get_parent_map` response -/
def pmLine (g : Graph) (k : RevId) : Bytes :=
  match lookup k g with
  | none => missingPfx ++ k
  | some ps => join SP (k :: ps)

/-- client side decoding of one response line (remote.py) -/
def pmParse (line : Bytes) : Option (RevId × Option (List RevId)) :=
  match split SP line with
  | [] => none
  | [d0] =>
    if missingPfx.isPrefixOf d0 then some (d0.drop missingPfx.length, none)
    else some (d0, some [nullRev])
  | d0 :: ps => some (d0, some ps)

/-! ### the server: verbs executed on the stored state -/

/-- `SmartServerLockedBranchRequest`: take the lock with the client's token for
the duration of the verb (the physical lock is left as it was) -/
def withToken (st : St) (tokb : Bytes) (f : St → Resp × St) : Resp × St :=
  match decTok tokb with
  | some (some t) => if st.lock = some t then f st else (failResp .tokenMismatch, st)
  | _ => (failResp .tokenMismatch, st)

def serve (src : Graph) (st : St) (extra : List RevId) (rq : Req) : Resp × St :=
  match rq.verb, rq.args, rq.payload with
  | .lockWrite, [tokb], .none =>
    (match decTok tokb with
     | none => (failResp .protocol, st)
     | some tok =>
       match primLock st tok with
       | .error e => (failResp e, st)
       | .ok (t, s1) => ({ okay := true, args := [okBytes, encTok (some t)] }, s1))
  | .unlock, [tokb], .none =>
    (match decTok tokb with
     | some (some t) =>
       (match primRelease st t with
        | .error e => (failResp e, st)
        | .ok s1 => ({ okay := true, args := [okBytes] }, s1))
     | _ => (failResp .tokenMismatch, st))
  | .setLastRevisionInfo, [tokb, revno, rev], .none =>
    withToken st tokb fun s =>
      match parseDec revno with
      | none => (failResp .protocol, s)
      | some n => ({ okay := true, args := [okBytes] }, { s with tip := (n, rev) })
  | .lastRevisionInfo, [], .none =>
    ({ okay := true, args := [okBytes, toDec st.tip.1, st.tip.2] }, st)
  | .getTagsBytes, [], .none =>
    ({ okay := true, args := [], payload := .tags st.tags }, st)
  | .setTagsBytes, [tokb], .tags d =>
    withToken st tokb fun s => ({ okay := true, args := [] }, { s with tags := d })
  | .setConfigOption, [tokb, value, name], .none =>
    withToken st tokb fun s => ({ okay := true, args := [] }, { s with conf := dset s.conf name value })
  | .getConfigFile, [name], .none =>
    -- the file travels as opaque bytes and is parsed by the same code on both sides:
    -- modelled as the answer to the one lookup the client makes
    (match lookup name st.conf with
     | none => ({ okay := true, args := [] }, st)
     | some v => ({ okay := true, args := [v] }, st))
  | .getParentMap, marker :: keys, .none =>
    if marker = includeMissing then
      -- the requested keys first, then whatever else of their ancestry the server adds
      let all := dedupKeys (keys ++ extra)
      ({ okay := true, args := [okBytes], body := join NL (all.map (pmLine st.revs)) }, st)
    else (failResp .protocol, st)
  | .insertStream, [], .revs rs =>
    ({ okay := true, args := [okBytes] }, addRevs src st rs)
  | _, _, _ => (failResp .protocol, st)

/-! ### the client: remote objects -/

def respErr (r : Resp) : Err :=
  match r.args with
  | e :: _ => decErr e
  | [] => .protocol

/-- `RemoteBranch.lock_write(token)` → the branch token -/
def rLock (src : Graph) (st : St) (ex : List RevId) (tok : Option Nat) : Except Err (Nat × St) :=
  let (r, s1) := serve src st ex { verb := .lockWrite, args := [encTok tok] }
  if r.okay then
    match r.args with
    | [_, tb] =>
      (match decTok tb with
       | some (some t) => .ok (t, s1)
       | _ => .error .protocol)
    | _ => .error .protocol
  else .error (respErr r)

def rUnlock (src : Graph) (st : St) (ex : List RevId) (t : Nat) : Except Err St :=
  let (r, s1) := serve src st ex { verb := .unlock, args := [encTok (some t)] }
  if r.okay then .ok s1 else .error (respErr r)

/-- a locked verb call: lock, call, unlock (what `with branch.lock_write():` amounts to) -/
def rLocked (src : Graph) (st : St) (ex : List RevId) (mk : Nat → Req) : Res × St :=
  match rLock src st ex none with
  | .error e => (.err e, st)
  | .ok (t, s1) =>
    let (r, s2) := serve src s1 ex (mk t)
    if r.okay then
      match rUnlock src s2 ex t with
      | .error e => (.err e, s2)
      | .ok s3 => (.ok, s3)
    else
      match rUnlock src s2 ex t with
      | .error _ => (.err (respErr r), s2)
      | .ok s3 => (.err (respErr r), s3)

/-- `RemoteRepository.get_parent_map` -/
def remoteParentMap (fx : Bool) (src : Graph) (st : St) (ex : List RevId) (keys : List RevId) : List (RevId × List RevId) :=
  let want := dedupKeys keys
  let ks := want.filter (· ≠ nullRev)
  let foundNull : List (RevId × List RevId) := if nullRev ∈ want then [(nullRev, [])] else []
  if ks.isEmpty then foundNull
  else
    let (r, _) := serve src st ex { verb := .getParentMap, args := includeMissing :: ks }
    let got : List (RevId × Option (List RevId)) :=
      if r.body.isEmpty then [] else (split NL r.body).filterMap pmParse
    let found := want.filterMap fun k =>
      if k = nullRev then (if fx then some (k, []) else none)
      else match lookup k got with
        | some (some ps) => some (k, ps)
        | _ => none
    found

def remoteStep (fx : Bool) (src : Graph) (ex : List RevId) (st : St) : Op → Res × St
  | .tipSet n r =>
    rLocked src st ex fun t => { verb := .setLastRevisionInfo, args := [encTok (some t), toDec n, r] }
  | .tagSet name r =>
    -- set_tag: lock, read the dictionary, write the changed dictionary, unlock
    match rLock src st ex none with
    | .error e => (.err e, st)
    | .ok (t, s1) =>
      let (g, s2) := serve src s1 ex { verb := .getTagsBytes, args := [] }
      match g.payload with
      | .tags d =>
        let (r2, s3) := serve src s2 ex { verb := .setTagsBytes, args := [encTok (some t)], payload := .tags (dset d name r) }
        (match rUnlock src s3 ex t with
         | .error e => (.err e, s3)
         | .ok s4 => (if r2.okay then .ok else .err (respErr r2), s4))
      | _ => (.err .protocol, s2)
  | .tagDel name =>
    match rLock src st ex none with
    | .error e => (.err e, st)
    | .ok (t, s1) =>
      let (g, s2) := serve src s1 ex { verb := .getTagsBytes, args := [] }
      match g.payload with
      | .tags d =>
        (match lookup name d with
         | none =>
           (match rUnlock src s2 ex t with
            | .error e => (.err e, s2)
            | .ok s4 => (.err .noSuchTag, s4))
         | some _ =>
           let (r2, s3) := serve src s2 ex { verb := .setTagsBytes, args := [encTok (some t)], payload := .tags (ddel d name) }
           (match rUnlock src s3 ex t with
            | .error e => (.err e, s3)
            | .ok s4 => (if r2.okay then .ok else .err (respErr r2), s4)))
      | _ => (.err .protocol, s2)
  | .tagDict =>
    let (g, s1) := serve src st ex { verb := .getTagsBytes, args := [] }
    (match g.payload with
     | .tags d => (.tags d, s1)
     | _ => (.err .protocol, s1))
  | .confSet name v =>
    rLocked src st ex fun t => { verb := .setConfigOption, args := [encTok (some t), v, name] }
  | .confGet name =>
    let (g, s1) := serve src st ex { verb := .getConfigFile, args := [name] }
    (match g.args with
     | [] => (.value none, s1)
     | [v] => (.value (some v), s1)
     | _ => (.err .protocol, s1))
  | .lockLeave =>
    match rLock src st ex none with
    | .error e => (.err e, st)
    | .ok (t, s1) => (.token, { s1 with known := some t })
  | .relockRelease good =>
    match rLock src st ex (some ((presented st good).getD st.nextTok)) with
    | .error e => (.err e, st)
    | .ok (t, s1) =>
      match rUnlock src s1 ex t with
      | .error e => (.err e, s1)
      | .ok s2 => (.ok, s2)
  | .tipSetTok good n r =>
    match rLock src st ex (some ((presented st good).getD st.nextTok)) with
    | .error e => (.err e, st)
    | .ok (t, s1) =>
      let (r2, s2) := serve src s1 ex { verb := .setLastRevisionInfo, args := [encTok (some t), toDec n, r] }
      (if r2.okay then .ok else .err (respErr r2), s2)
  | .parentMap keys => (.pmap (remoteParentMap fx src st ex keys), st)
  | .tip =>
    let (g, s1) := serve src st ex { verb := .lastRevisionInfo, args := [] }
    (match g.args with
     | [_, n, r] =>
       (match parseDec n with
        | some n => (.info n r, s1)
        | none => (.err .protocol, s1))
     | _ => (.err .protocol, s1))
  | .fetch r =>
    if r = nullRev then (.ok, st)
    else match lookup r src with
      | none => (.err .noSuchRevision, st)
      | some _ =>
        -- the stream source is the local repository; the revisions of the ancestry travel as the stream
        let rs := (ancestry src (src.length + 1) [r] []).reverse
        let (_, s1) := serve src st ex { verb := .insertStream, args := [], payload := .revs rs }
        (.ok, s1)

/-- run a script -/
def runWith (step : St → Op → Res × St) : St → List Op → List Res × St
  | st, [] => ([], st)
  | st, op :: ops =>
    let (r, s1) := step st op
    let (rs, s2) := runWith step s1 ops
    (r :: rs, s2)

end BreezyVerif.C32
