import BreezyVerif.Model.C14
import BreezyVerif.Lemmas.C14
/-! Helper lemmas for the git index theorems of C14: an entry nothing touches keeps its tree path. -/
namespace BreezyVerif.C14

theorem alookup_none_of_ahas_false {β : Type} {l : List (Tid × β)} {k : Tid} (h : ahas l k = false) : alookup l k = none := by
  unfold alookup
  unfold ahas at h
  rw [List.any_eq_false] at h
  have : l.find? (fun e => e.1 == k) = none := by
    rw [List.find?_eq_none]; intro x hx; exact h x hx
  simp [this]

/-- an id whose path the transform does not change has the tree's directory entry -/
theorem final_of_unchanged (tt : TT) (t : Tid) (h : tt.pathChanged t = false) :
    tt.finalParent t = (tt.base[t]?).map (·.parent) ∧ tt.finalName t = (tt.base[t]?).map (·.name) := by
  simp only [TT.pathChanged, Bool.or_eq_false_iff] at h
  simp [TT.finalParent, TT.finalName, alookup_none_of_ahas_false h.1, alookup_none_of_ahas_false h.2]

theorem baseWf_parent (tt : TT) (h : tt.baseWf = true) (t : Tid) (ht : t < tt.nbase) (h0 : t ≠ 0) :
    ∃ (b : Base) (p : Nat), tt.base[t]? = some b ∧ b.parent = some p ∧ p < t := by
  simp only [TT.baseWf, Bool.and_eq_true, List.all_eq_true, List.mem_range, Bool.or_eq_true, beq_iff_eq] at h
  have := h.2 t ht
  rcases this with h1 | h1
  · exact absurd h1 h0
  · cases hb : tt.base[t]? with
    | none => simp [hb] at h1
    | some b =>
      cases hp : b.parent with
      | none => simp [hb, hp] at h1
      | some p => exact ⟨b, p, rfl, hp, by simpa [hb, hp] using h1⟩

theorem baseDirs_parent (tt : TT) (h : tt.baseDirs = true) (t : Tid) (ht : t < tt.nbase) (h0 : t ≠ 0)
    (hk : (tt.treeKind t).isSome = true) (p : Tid) (hp : (tt.base[t]?).bind (·.parent) = some p) :
    tt.treeKind p = some .dir := by
  simp only [TT.baseDirs, List.all_eq_true, List.mem_range, Bool.or_eq_true, beq_iff_eq, Bool.not_eq_eq_eq_not,
    Bool.not_true] at h
  have := h t ht
  rcases this with (h1 | h1) | h1
  · exact absurd h1 h0
  · simp [hk] at h1
  · simpa [hp] using h1

/-- **an untouched entry keeps its tree path**: a tree id that exists, whose own path and whose
base ancestors' paths the transform does not change, has as final path its tree path — for any
fuels that exceed the id (parents are registered before children). -/
theorem finalPath_eq_treePath (tt : TT) (hb : tt.baseWf = true) (hd : tt.baseDirs = true) :
    ∀ (n t f1 f2 f3 : Nat), t ≤ n → t < tt.nbase → t < f1 → t < f2 → t < f3 →
      (t = 0 ∨ ((tt.treeKind t).isSome = true ∧ tt.pathChanged t = false)) →
      tt.belowMovedDir f3 t = false →
      tt.finalPath f1 t = tt.treePath f2 t := by
  intro n
  induction n with
  | zero =>
    intro t f1 f2 f3 hle _ h1 h2 _ _ _
    have : t = 0 := by omega
    subst this
    cases f1 with
    | zero => omega
    | succ f1 =>
      cases f2 with
      | zero => omega
      | succ f2 => simp [TT.finalPath, TT.treePath, TT.root]
  | succ n ih =>
    intro t f1 f2 f3 hle hnb h1 h2 h3 hok hbm
    by_cases h0 : t = 0
    · subst h0
      cases f1 with
      | zero => omega
      | succ f1 =>
        cases f2 with
        | zero => omega
        | succ f2 => simp [TT.finalPath, TT.treePath, TT.root]
    · obtain ⟨b, p, hbt, hbp, hpt⟩ := baseWf_parent tt hb t hnb h0
      have hpt' : p < t := hpt
      rcases hok with hz | ⟨hk, hpc⟩
      · exact absurd hz h0
      · cases f1 with
        | zero => omega
        | succ f1 =>
          cases f2 with
          | zero => omega
          | succ f2 =>
            cases f3 with
            | zero => omega
            | succ f3 =>
              obtain ⟨hfp, hfn⟩ := final_of_unchanged tt t hpc
              have hpar : (tt.base[t]?).bind (·.parent) = some p := by simp [hbt, hbp]
              have hpk := baseDirs_parent tt hd t hnb h0 hk p hpar
              -- what `belowMovedDir` says about the parent
              unfold TT.belowMovedDir at hbm
              simp only [hpar, Bool.or_eq_false_iff] at hbm
              obtain ⟨hbm1, hbm2⟩ := hbm
              have hpok : p = 0 ∨ ((tt.treeKind p).isSome = true ∧ tt.pathChanged p = false) := by
                by_cases hp0 : p = 0
                · exact Or.inl hp0
                · right
                  refine ⟨by simp [hpk], ?_⟩
                  have : (p != TT.root) = true := by simpa [TT.root] using hp0
                  simpa [this, hpk] using hbm1
              have hrec := ih p f1 f2 f3 (by omega) (by omega) (by omega) (by omega) (by omega) hpok hbm2
              unfold TT.finalPath TT.treePath
              have hr : t ≠ TT.root := by simpa [TT.root] using h0
              simp only [hr, if_false, hfp, hfn, hbt, hbp, Option.map_some, hrec]

/-- the same with the fuels `pathOf` and the index code use -/
theorem pathOf_eq_treePath (tt : TT) (hb : tt.baseWf = true) (hd : tt.baseDirs = true) (hn : tt.nbase ≤ tt.next)
    (t : Nat) (ht : t < tt.nbase) (hk : (tt.treeKind t).isSome = true) (hpc : tt.pathChanged t = false)
    (hbm : tt.belowMovedDir (tt.nbase + 1) t = false) :
    tt.pathOf t = tt.treePath (tt.nbase + 1) t := by
  unfold TT.pathOf
  have ht' : (t : Nat) < tt.nbase := ht
  have hn' : (tt.nbase : Nat) ≤ tt.next := hn
  exact finalPath_eq_treePath tt hb hd t t (tt.next + 1) (tt.nbase + 1) (tt.nbase + 1) (Nat.le_refl _) ht (by omega)
    (by omega) (by omega) (Or.inr ⟨hk, hpc⟩) hbm

theorem finalPath_nil (tt : TT) (fuel : Nat) (t : Tid) (h : tt.finalPath fuel t = some []) : t = TT.root := by
  cases fuel with
  | zero => simp [TT.finalPath] at h
  | succ n =>
    unfold TT.finalPath at h
    by_cases hr : t = TT.root
    · exact hr
    · simp only [hr, if_false] at h
      split at h
      · rename_i pp nn _ _
        cases hq : tt.finalPath n pp with
        | none => simp [hq] at h
        | some q => simp [hq] at h
      · cases h

theorem treePath_some_lt (tt : TT) (fuel : Nat) (t : Tid) (p : List String) (h : tt.treePath fuel t = some p)
    (hr : t ≠ TT.root) : t < tt.nbase := by
  cases fuel with
  | zero => simp [TT.treePath] at h
  | succ n =>
    unfold TT.treePath at h
    simp only [hr, if_false] at h
    cases hb : tt.base[t]? with
    | none => simp [hb] at h
    | some b =>
      have := (List.getElem?_eq_some_iff.mp hb).1
      exact this

theorem mem_livePaths_iff (tt : TT) (t : Tid) (p : List String) :
    (t, p) ∈ tt.livePaths ↔ t < tt.next ∧ t ≠ TT.root ∧ tt.live t = true ∧ tt.pathOf t = some p := by
  simp only [TT.livePaths, List.mem_filterMap, TT.ids, List.mem_range]
  constructor
  · rintro ⟨t', ht', hx⟩
    split at hx
    · cases hx
    · rename_i hr
      split at hx
      · rename_i hl
        cases hp : tt.pathOf t' with
        | none => simp [hp] at hx
        | some q =>
          simp only [hp, Option.map_some, Option.some.injEq, Prod.mk.injEq] at hx
          obtain ⟨rfl, rfl⟩ := hx
          exact ⟨ht', hr, hl, hp⟩
      · cases hx
  · rintro ⟨ht, hr, hl, hp⟩
    exact ⟨t, ht, by simp [hr, hl, hp]⟩

end BreezyVerif.C14
