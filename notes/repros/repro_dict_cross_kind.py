"""C38 repro: the in-memory SHA map answers lookup_blob_id for a key that was only recorded as a TREE
(blob and tree ids share DictGitShaMap._by_fileid); the sqlite and index backends raise KeyError.

Run:  HOME=/var/tmp/x /venv/bin/python repro_dict_cross_kind.py [repo-root]     exit 1 = backends disagree
"""
import os, sys, tempfile
sys.path.insert(0, sys.argv[1] if len(sys.argv) > 1 else "/repo")
import breezy.bzr, breezy.git  # noqa
from breezy.git import cache as C
from dromedary import get_transport_from_path


class Rev:
    revision_id = b"rev-1"
    parent_ids = []


class Commit:
    type_name = b"commit"
    id = b"c" * 40
    tree = b"a" * 40


d = tempfile.mkdtemp(dir="/var/tmp")
t = get_transport_from_path(d + "/idx"); os.mkdir(d + "/idx"); C.IndexGitCacheFormat().initialize(t)
backs = {"dict": C.DictBzrGitCache(), "sqlite": C.SqliteBzrGitCache(d + "/map.db"), "index": C.IndexBzrGitCache(t)}
ans = {}
for name, cache in backs.items():
    cache.idmap.start_write_group()
    u = cache.get_updater(Rev())
    u.add_object(("tree", b"a" * 40), (b"TREE_ROOT", b"rev-1"), "")
    u.add_object(Commit(), {}, None)
    u.finish()
    cache.idmap.commit_write_group()
    try:
        ans[name] = cache.idmap.lookup_blob_id(b"TREE_ROOT", b"rev-1")
    except KeyError:
        ans[name] = "KeyError"
    print("%-6s lookup_blob_id(TREE_ROOT, rev-1) ->" % name, ans[name])
sys.exit(0 if len(set(map(str, ans.values()))) == 1 else 1)
