import BreezyVerif.Common
import BreezyVerif.Driver.C26Lib
namespace BreezyVerif.C26

def KillRes.show : KillRes → String
  | .ok => "ok" | .esrch => "ESRCH" | .eperm => "EPERM" | .other => "other"

/-- two real processes on one lock: locker 0 acquires (and is killed if `dead`), locker 1 attempts
(contention: 6 calls, steal: 11 calls), the surviving holder confirms -/
def xuidEvs (dead : Bool) : List Ev :=
  [.start 0 .attempt, .step 0, .step 0, .step 0, .step 0] ++ (if dead then [.crash 0] else []) ++
  (.start 1 .attempt :: List.replicate 12 (.step 1)) ++ [.start 0 .confirm, .step 0]

/-- `run n cfgs held events` | `kd hostEq isLocalhost userEq pidRecorded pidDead`
| `kdp hostEq isLocalhost userEq pidRecorded procExists permitted` (the table composed with the errno decision)
| `pd procExists permitted` → `<kill(pid,0) result> <is_local_pid_dead>`
| `xuid cfg0 cfg1 dead` → `<result of 1's attempt> <1 is_held> <result of 0's confirm | ->` -/
def handle : List String → String
  | ["run", n, cfgs, held, evs] =>
    match n.toNat?, (splitList cfgs).mapM parseCfg, parseHeld held, (splitList evs).mapM parseEv with
    | some n, some cs, some h, some evs =>
      if cs.length = n then "|".intercalate (traceWith (·.show n) (Sys.init (cfgFun cs) h) evs) else "bad-op"
    | _, _, _, _ => "bad-op"
  | ["kd", a, b, c, d, e] =>
    match parseBool a, parseBool b, parseBool c, parseBool d, parseBool e with
    | some a, some b, some c, some d, some e => showBool (knownDead a b c d e)
    | _, _, _, _, _ => "bad-op"
  | ["kdp", a, b, c, d, e, p] =>
    match parseBool a, parseBool b, parseBool c, parseBool d, parseBool e, parseBool p with
    | some a, some b, some c, some d, some e, some p => showBool (knownDead a b c d (pidDeadOf (killZero e p)))
    | _, _, _, _, _, _ => "bad-op"
  | ["pd", e, p] =>
    match parseBool e, parseBool p with
    | some e, some p => (killZero e p).show ++ " " ++ showBool (pidDeadOf (killZero e p))
    | _, _ => "bad-op"
  | ["xuid", c0, c1, dead] =>
    match parseCfg c0, parseCfg c1, parseBool dead with
    | some c0, some c1, some dead =>
      let s := (Sys.init (cfgFun [c0, c1])).run (xuidEvs dead)
      (s.lk 1).last.show ++ " " ++ showBool (s.lk 1).held ++ " " ++ (if dead then "-" else (s.lk 0).last.show)
    | _, _, _ => "bad-op"
  | _ => "bad-op"

end BreezyVerif.C26

def main : IO Unit := BreezyVerif.runDriver BreezyVerif.C26.handle
