import BreezyVerif.Model.C39
import BreezyVerif.Lemmas.C39Apply
import BreezyVerif.Lemmas.C39Parse
/-! C39 helper lemmas: the hunks `internal_diff` builds are well formed; line statistics. -/
namespace BreezyVerif.C39

def insCount (hl : List HLine) : Nat := (hl.filter (fun l => match l with | .ins _ => true | _ => false)).length
def remCount (hl : List HLine) : Nat := (hl.filter (fun l => match l with | .rem _ => true | _ => false)).length
def ctxCount (hl : List HLine) : Nat := (hl.filter (fun l => match l with | .ctx _ => true | _ => false)).length

theorem counts_append (x y : List HLine) :
    origCount (x ++ y) = origCount x + origCount y ∧ modCount (x ++ y) = modCount x + modCount y ∧
    insCount (x ++ y) = insCount x + insCount y ∧ remCount (x ++ y) = remCount x + remCount y ∧
    ctxCount (x ++ y) = ctxCount x + ctxCount y := by
  simp [origCount, modCount, insCount, remCount, ctxCount]

theorem counts_ctx (xs : List Line) :
    origCount (xs.map .ctx) = xs.length ∧ modCount (xs.map .ctx) = xs.length ∧
    insCount (xs.map .ctx) = 0 ∧ remCount (xs.map .ctx) = 0 ∧ ctxCount (xs.map .ctx) = xs.length := by
  induction xs with
  | nil => simp [origCount, modCount, insCount, remCount, ctxCount]
  | cons x xs ih =>
    simp only [origCount, modCount, insCount, remCount, ctxCount] at ih ⊢
    simp [cOrig, cMod, ih.1, ih.2.1, ih.2.2.1, ih.2.2.2.1, ih.2.2.2.2]; omega

theorem counts_rem (xs : List Line) :
    origCount (xs.map .rem) = xs.length ∧ modCount (xs.map .rem) = 0 ∧
    insCount (xs.map .rem) = 0 ∧ remCount (xs.map .rem) = xs.length ∧ ctxCount (xs.map .rem) = 0 := by
  induction xs with
  | nil => simp [origCount, modCount, insCount, remCount, ctxCount]
  | cons x xs ih =>
    simp only [origCount, modCount, insCount, remCount, ctxCount] at ih ⊢
    simp [cOrig, cMod, ih.1, ih.2.1, ih.2.2.1, ih.2.2.2.1, ih.2.2.2.2]; omega

theorem counts_ins (xs : List Line) :
    origCount (xs.map .ins) = 0 ∧ modCount (xs.map .ins) = xs.length ∧
    insCount (xs.map .ins) = xs.length ∧ remCount (xs.map .ins) = 0 ∧ ctxCount (xs.map .ins) = 0 := by
  induction xs with
  | nil => simp [origCount, modCount, insCount, remCount, ctxCount]
  | cons x xs ih =>
    simp only [origCount, modCount, insCount, remCount, ctxCount] at ih ⊢
    simp [cOrig, cMod, ih.1, ih.2.1, ih.2.2.1, ih.2.2.2.1, ih.2.2.2.2]; omega

/-- line counts of one valid opcode -/
theorem counts_op (a b : List Line) (o : Op) (hv : validOp a b o = true) :
    origCount (opLines a b o) = o.i2 - o.i1 ∧ modCount (opLines a b o) = o.j2 - o.j1 ∧
    insCount (opLines a b o) + ctxCount (opLines a b o) = o.j2 - o.j1 ∧
    remCount (opLines a b o) + ctxCount (opLines a b o) = o.i2 - o.i1 := by
  simp only [validOp, Bool.and_eq_true, decide_eq_true_eq] at hv
  obtain ⟨⟨⟨⟨hi, hj⟩, hia⟩, hjb⟩, htag⟩ := hv
  have la := length_slice a o.i1 o.i2 hia
  have lb := length_slice b o.j1 o.j2 hjb
  unfold opLines
  cases ht : o.tag with
  | equal =>
    simp only [ht, Bool.and_eq_true, decide_eq_true_eq] at htag
    obtain ⟨c1, c2, c3, c4, c5⟩ := counts_ctx (slice a o.i1 o.i2)
    simp only []
    omega
  | replace =>
    obtain ⟨c1, c2, c3, c4, c5⟩ := counts_rem (slice a o.i1 o.i2)
    obtain ⟨d1, d2, d3, d4, d5⟩ := counts_ins (slice b o.j1 o.j2)
    obtain ⟨e1, e2, e3, e4, e5⟩ := counts_append ((slice a o.i1 o.i2).map .rem) ((slice b o.j1 o.j2).map .ins)
    simp only []
    omega
  | delete =>
    simp only [ht, decide_eq_true_eq] at htag
    obtain ⟨c1, c2, c3, c4, c5⟩ := counts_rem (slice a o.i1 o.i2)
    simp only []
    omega
  | insert =>
    simp only [ht, decide_eq_true_eq] at htag
    obtain ⟨c1, c2, c3, c4, c5⟩ := counts_ins (slice b o.j1 o.j2)
    simp only []
    omega

theorem counts_chain (a b : List Line) (ops : List Op) (i j ei ej : Nat)
    (hv : validChain a b i j ops = some (ei, ej)) :
    origCount (ops.flatMap (opLines a b)) = ei - i ∧ modCount (ops.flatMap (opLines a b)) = ej - j ∧
    insCount (ops.flatMap (opLines a b)) + ctxCount (ops.flatMap (opLines a b)) = ej - j ∧
    remCount (ops.flatMap (opLines a b)) + ctxCount (ops.flatMap (opLines a b)) = ei - i ∧
    (∀ l, ops.getLast? = some l → l.i2 = ei ∧ l.j2 = ej ∧ ei ≤ a.length ∧ ej ≤ b.length) := by
  induction ops generalizing i j with
  | nil =>
    simp only [validChain, Option.some.injEq, Prod.mk.injEq] at hv
    obtain ⟨rfl, rfl⟩ := hv
    simp [origCount, modCount, insCount, remCount, ctxCount]
  | cons o os ih =>
    have hle := validChain_le a b (o :: os) i j ei ej hv
    unfold validChain at hv
    split at hv
    · rename_i hc
      obtain ⟨hi1, hj1, hvo⟩ := hc
      have hvo' := hvo
      simp only [validOp, Bool.and_eq_true, decide_eq_true_eq] at hvo'
      obtain ⟨⟨⟨⟨hi, hj⟩, hia⟩, hjb⟩, _⟩ := hvo'
      have hle2 := validChain_le a b os _ _ ei ej hv
      obtain ⟨r1, r2, r3, r4, r5⟩ := ih _ _ hv
      obtain ⟨o1, o2, o3, o4⟩ := counts_op a b o hvo
      obtain ⟨e1, e2, e3, e4, e5⟩ := counts_append (opLines a b o) (os.flatMap (opLines a b))
      simp only [List.flatMap_cons]
      refine ⟨by omega, by omega, by omega, by omega, ?_⟩
      intro l hl
      cases os with
      | nil =>
        simp only [List.getLast?_singleton, Option.some.injEq] at hl
        simp only [validChain, Option.some.injEq, Prod.mk.injEq] at hv
        subst hl
        exact ⟨hv.1, hv.2, by omega, by omega⟩
      | cons o' os' =>
        rw [List.getLast?_cons_cons] at hl
        exact r5 l hl
    · simp at hv

end BreezyVerif.C39
