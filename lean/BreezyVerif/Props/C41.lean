import BreezyVerif.Lemmas.C41B
/-!
C41 — testaments are deterministic and sensitive to every attested field.

All theorems quantify over *every* revision record (ids, messages, trees and
property maps of any size, any characters), for each of the three classes
`Testament` (`.v1`), `StrictTestament` (`.strict`), `StrictTestament3`
(`.strict3`).

* determinism: the text does not depend on the storage order of inventory
  entries, revision properties or parents (`testament_storage_order_independent`);
* sensitivity: the text determines everything it attests *after the
  normalisations the code applies* (`testament_injective_partial`), hence any
  change of an attested value changes the text (`testament_sensitive_partial`,
  `testament_sensitive_scalars`), and on records that avoid the normalised
  families the raw fields themselves (`testament_sensitive_raw_partial`);
* the normalisations are real collisions of the unchanged code
  (`…_witness`): message / property line boundaries, `\` vs `/` in paths and
  symlink targets, sub-second timestamps, parent order, and the executable bit
  in the base class.  They are why the positive theorems carry `_partial`.
-/
namespace BreezyVerif.C41

/-! ### determinism -/

/-- **Determinism / storage-order independence.**  Two records with the same
scalar fields whose parents, inventory entries and revision properties are
permutations of each other (any storage order, any dict order) produce the
same result — the same text or the same exception — in every class.
Hypotheses: paths and property names are unique (they are keys). -/
theorem testament_storage_order_independent (v : Variant) (r r' : Rev)
    (hid : r.revisionId = r'.revisionId) (hc : r.committer = r'.committer)
    (hts : r.timestampMs = r'.timestampMs) (htz : r.timezone = r'.timezone)
    (hm : r.message = r'.message)
    (hpar : r.parents.Perm r'.parents)
    (hent : r.entries.Perm r'.entries) (hprops : r.props.Perm r'.props)
    (hpaths : (r.entries.map Entry.path).Nodup) (hnames : (r.props.map Prod.fst).Nodup) :
    text v r = text v r' ∧ textLines v r = textLines v r' := by
  have s1 := sortStrs_perm hpar
  have s2 := sortEntries_perm hent hpaths
  have s3 := sortProps_perm hprops hnames
  have hnil : (r.props = []) ↔ (r'.props = []) := by
    constructor
    · intro h; rw [h] at hprops; exact hprops.symm.eq_nil
    · intro h; rw [h] at hprops; exact hprops.eq_nil
  have hcheck : check r = check r' := by
    unfold check; rw [hid, hc, s1, s2, s3]
  have hrev : revpropsLines r.props = revpropsLines r'.props := by
    unfold revpropsLines
    rw [s3]
    by_cases h : r.props = []
    · rw [if_pos h, if_pos (hnil.mp h)]
    · rw [if_neg h, if_neg (fun h' => h (hnil.mpr h'))]
  have hrender : render v r = render v r' := by
    unfold render timestampOf timezoneOf
    rw [hid, hc, hts, htz, hm, s1, s2, hrev]
  unfold text textLines
  rw [hcheck, hrender]
  exact ⟨rfl, rfl⟩

example : ([1, 2, 3] : List Nat).Perm [3, 1, 2] := by decide

/-- **Parent order.**  The same merge recorded with its parents in any other
stored order (which parent is the left-hand one) has the same testament - long
form, line list and, for every digest function, short form - or raises the same
exception, in every class -/
theorem testament_parent_order_independent (sha : Str → Str) (v : Variant) (r : Rev) (ps : List Str)
    (hpar : r.parents.Perm ps) :
    text v r = text v { r with parents := ps } ∧ textLines v r = textLines v { r with parents := ps } ∧
    shortText sha v r = shortText sha v { r with parents := ps } := by
  have s1 := sortStrs_perm hpar
  have hcheck : check r = check { r with parents := ps } := by
    unfold check; simp only [s1]
  have hrender : render v r = render v { r with parents := ps } := by
    unfold render timestampOf timezoneOf; simp only [s1]
  have ht : text v r = text v { r with parents := ps } := by
    unfold text; rw [hcheck, hrender]
  refine ⟨ht, ?_, ?_⟩
  · unfold textLines; rw [hcheck, hrender]
  · unfold shortText; rw [ht]

example : (["rev-b".toList, "rev-a".toList] : List Str).Perm ["rev-a".toList, "rev-b".toList] ∧
    (["rev-b".toList, "rev-a".toList] : List Str) ≠ ["rev-a".toList, "rev-b".toList] := by decide


/-! ### sensitivity -/

/-- **Injectivity modulo normalisation** (partial: see the `_witness`
theorems — the *raw* message, paths, timestamp and parent list are not
determined).  If two records both render (no exception) to the same text then
they agree on `attested`: revision id, committer, whole-second timestamp,
timezone, sorted parents, message as `splitlines`, every inventory entry in
`list_files` order (path and symlink target up to `\`→`/`, kind, file id,
sha1; plus last-changed revision and executable bit in the strict classes)
and every revision property (values as `splitlines`).
`RevWF` = the two facts `_entry_to_line` relies on without checking
(sha1 / last-changed revision contain no space or newline). -/
theorem testament_injective_partial (v : Variant) (r r' : Rev) (t : Str)
    (hw : RevWF v r = true) (hw' : RevWF v r' = true)
    (h : text v r = .ok t) (h' : text v r' = .ok t) : attested v r = attested v r' := by
  unfold text at h h'
  split at h <;> try contradiction
  split at h' <;> try contradiction
  rename_i hc _ hc'
  simp only [Except.ok.injEq] at h h'
  exact attested_of_render_eq hc hc' hw hw' (h.trans h'.symm)

/-- contrapositive: a change of anything attested changes the text -/
theorem testament_sensitive_partial (v : Variant) (r r' : Rev) (t t' : Str)
    (hw : RevWF v r = true) (hw' : RevWF v r' = true)
    (h : text v r = .ok t) (h' : text v r' = .ok t')
    (hne : attested v r ≠ attested v r') : t ≠ t' := by
  intro e
  subst e
  exact hne (testament_injective_partial v r r' t hw hw' h h')

/-- the scalar fields are attested verbatim: changing the revision id, the
committer, the whole-second timestamp or the timezone changes the text -/
theorem testament_sensitive_scalars (v : Variant) (r r' : Rev) (t t' : Str)
    (hw : RevWF v r = true) (hw' : RevWF v r' = true)
    (h : text v r = .ok t) (h' : text v r' = .ok t')
    (hne : r.revisionId ≠ r'.revisionId ∨ r.committer ≠ r'.committer ∨
      timestampOf r ≠ timestampOf r' ∨ timezoneOf r ≠ timezoneOf r') : t ≠ t' := by
  apply testament_sensitive_partial v r r' t t' hw hw' h h'
  intro e
  have e1 := congrArg Attested.revisionId e
  have e2 := congrArg Attested.committer e
  have e3 := congrArg Attested.timestamp e
  have e4 := congrArg Attested.timezone e
  simp only [attested] at e1 e2 e3 e4
  rcases hne with x | x | x | x
  · exact x e1
  · exact x e2
  · exact x e3
  · exact x e4

/-- the record avoids the normalised families: parents stored in sorted order,
whole-second timestamp, no `\` in paths and symlink targets, no path `.`,
message and property values canonical for `splitlines` (`msgCanon`: the only
line boundary is `\n`, none at the end) -/
def Canon (r : Rev) : Bool :=
  decide (sortStrs r.parents = r.parents) &&
  decide (r.timestampMs % 1000 = 0) &&
  r.entries.all (fun e => !e.path.contains '\\' && !e.target.contains '\\' &&
    e.path != ['.'] && (e.kind != .symlink || e.target != [])) &&
  msgCanon r.message &&
  r.props.all (fun nv => msgCanon nv.2)

/-- `splitlines` loses nothing on canonical texts (the inverse is `"\n".join`) -/
theorem splitlines_injective_canon (a b : Str) (ha : msgCanon a = true) (hb : msgCanon b = true)
    (h : splitlines a = splitlines b) : a = b := splitlines_inj_canon ha hb h

example : msgCanon "two\n\nlines, an empty one between".toList = true ∧ msgCanon [] = true ∧
    msgCanon "a\n".toList = false ∧ msgCanon "a\rb".toList = false := by decide

theorem map_inj_on {α β : Type} (f : α → β) :
    ∀ {l l' : List α}, (∀ a ∈ l, ∀ b ∈ l', f a = f b → a = b) → l.map f = l'.map f → l = l' := by
  intro l
  induction l with
  | nil => intro l' _ h; cases l' <;> simp_all
  | cons a l ih =>
    intro l' hf h
    cases l' with
    | nil => simp at h
    | cons b l' =>
      simp only [List.map_cons, List.cons.injEq] at h
      rw [hf a (by simp) b (by simp) h.1,
        ih (fun x hx y hy => hf x (by simp [hx]) y (by simp [hy])) h.2]

theorem replBackslash_id {p : Str} (h : p.contains '\\' = false) : replBackslash p = p := by
  unfold replBackslash
  induction p with
  | nil => rfl
  | cons c t ih =>
    simp only [List.contains_cons, Bool.or_eq_false_iff, beq_eq_false_iff_ne, ne_eq] at h
    have hc : c ≠ '\\' := fun e => h.1 e.symm
    simp only [List.map_cons, List.cons.injEq]
    exact ⟨by simp [hc], ih h.2⟩

theorem dotRoot_inj {v : Variant} {p p' : Str} (hp : p ≠ ['.']) (hp' : p' ≠ ['.'])
    (h : dotRoot v p = dotRoot v p') : p = p' := by
  unfold dotRoot at h
  split at h <;> split at h <;> simp_all

/-- **Raw-field sensitivity** on canonical records (partial only because the
base class does not attest the executable bit or the last-changed revision:
those are covered by `testament_injective_partial` for the strict classes).
When both records avoid the normalised families (`Canon`), equal texts force
equal raw parent lists, equal millisecond timestamps, equal RAW messages, equal
RAW revision properties (as name-sorted lists) and, entry by entry in
`list_files` order, equal raw paths, kinds, file ids, sha1s (files) and raw
symlink targets (symlinks). -/
theorem testament_sensitive_raw_partial (v : Variant) (r r' : Rev) (t : Str)
    (hw : RevWF v r = true) (hw' : RevWF v r' = true)
    (hcn : Canon r = true) (hcn' : Canon r' = true)
    (h : text v r = .ok t) (h' : text v r' = .ok t) :
    r.parents = r'.parents ∧ r.timestampMs = r'.timestampMs ∧
    r.message = r'.message ∧ sortProps r.props = sortProps r'.props ∧
    (sortEntries r.entries).map (fun e => (e.path, e.kind, e.fileId,
        (if e.kind = .file then e.sha1 else []), (if e.kind = .symlink then e.target else []))) =
      (sortEntries r'.entries).map (fun e => (e.path, e.kind, e.fileId,
        (if e.kind = .file then e.sha1 else []), (if e.kind = .symlink then e.target else []))) := by
  have ha := testament_injective_partial v r r' t hw hw' h h'
  simp only [Canon, Bool.and_eq_true, decide_eq_true_eq, List.all_eq_true, Bool.not_eq_true',
    bne_iff_ne, ne_eq, Bool.or_eq_true] at hcn hcn'
  obtain ⟨⟨⟨⟨hp, hts⟩, hent⟩, hmsg⟩, hprops⟩ := hcn
  obtain ⟨⟨⟨⟨hp', hts'⟩, hent'⟩, hmsg'⟩, hprops'⟩ := hcn'
  have e5 := congrArg Attested.parents ha
  have e3 := congrArg Attested.timestamp ha
  have e6 := congrArg Attested.message ha
  have e7 := congrArg Attested.entries ha
  have e8 := congrArg Attested.props ha
  simp only [attested] at e5 e3 e6 e7 e8
  refine ⟨by rw [← hp, ← hp', e5], ?ts, splitlines_inj_canon hmsg hmsg' e6, ?props, ?ents⟩
  case props =>
    apply map_inj_on _ _ e8
    intro a ha' b hb' hab
    simp only [Prod.mk.injEq] at hab
    exact Prod.ext hab.1 (splitlines_inj_canon (hprops a (List.mem_mergeSort.mp ha'))
      (hprops' b (List.mem_mergeSort.mp hb')) hab.2)
  · unfold timestampOf at e3
    have d1 : (1000 : Int) ∣ r.timestampMs := Int.dvd_of_emod_eq_zero hts
    have d2 : (1000 : Int) ∣ r'.timestampMs := Int.dvd_of_emod_eq_zero hts'
    rw [← Int.tdiv_mul_cancel d1, ← Int.tdiv_mul_cancel d2, e3]
  · have key : ∀ {l l' : List Entry},
        (∀ e ∈ l, ((e.path.contains '\\' = false ∧ e.target.contains '\\' = false) ∧ ¬ e.path = ['.']) ∧
          (¬ e.kind = .symlink ∨ ¬ e.target = [])) →
        (∀ e ∈ l', ((e.path.contains '\\' = false ∧ e.target.contains '\\' = false) ∧ ¬ e.path = ['.']) ∧
          (¬ e.kind = .symlink ∨ ¬ e.target = [])) →
        l.map (normEntry v) = l'.map (normEntry v) →
        l.map (fun e => (e.path, e.kind, e.fileId,
          (if e.kind = .file then e.sha1 else []), (if e.kind = .symlink then e.target else []))) =
        l'.map (fun e => (e.path, e.kind, e.fileId,
          (if e.kind = .file then e.sha1 else []), (if e.kind = .symlink then e.target else []))) := by
      intro l
      induction l with
      | nil => intro l' _ _ hh; cases l' <;> simp_all
      | cons a l ih =>
        intro l' ha hb hh
        cases l' with
        | nil => simp at hh
        | cons b l' =>
          simp only [List.map_cons, List.cons.injEq] at hh ⊢
          refine ⟨?_, ih (fun e he => ha e (by simp [he])) (fun e he => hb e (by simp [he])) hh.2⟩
          obtain ⟨⟨⟨a1, a2⟩, a3⟩, a4⟩ := ha a (by simp)
          obtain ⟨⟨⟨b1, b2⟩, b3⟩, b4⟩ := hb b (by simp)
          have hn := hh.1
          simp only [normEntry, Entry.mk.injEq] at hn
          obtain ⟨np, nk, nf, ns, nt, _, _⟩ := hn
          have pp : a.path = b.path := by
            have := replBackslash_id (p := dotRoot v a.path)
            have hda : (dotRoot v a.path).contains '\\' = false := by
              unfold dotRoot; split <;> simp_all
            have hdb : (dotRoot v b.path).contains '\\' = false := by
              unfold dotRoot; split <;> simp_all
            rw [replBackslash_id hda, replBackslash_id hdb] at np
            exact dotRoot_inj a3 b3 np
          refine Prod.ext pp (Prod.ext nk (Prod.ext nf (Prod.ext ns ?_)))
          simp only
          rw [← nk] at nt ⊢
          by_cases hk : a.kind = .symlink
          · simp only [hk, if_true] at nt ⊢
            have ta : a.target ≠ [] := by rcases a4 with x | x; exact absurd hk x; exact x
            have tb : b.target ≠ [] := by rcases b4 with x | x; exact absurd (nk ▸ hk) x; exact x
            have hda : dotRoot v a.target = a.target := by unfold dotRoot; simp [ta]
            have hdb : dotRoot v b.target = b.target := by unfold dotRoot; simp [tb]
            rw [hda, hdb, replBackslash_id a2, replBackslash_id b2] at nt
            exact nt
          · simp [hk]
    exact key (fun e he => hent e (List.mem_mergeSort.mp he))
      (fun e he => hent' e (List.mem_mergeSort.mp he)) e7

/-! ### the short form (`as_short_text()`, the property's point of observation) -/

/-- **The short form determines the long form**: if `sha` (UTF-8 encoding +
SHA-1 + hex digest) is injective, two records with the same `as_short_text()`
have the same `as_text()`.  (The revision-id line cannot hide a difference:
ids are whitespace free, so the digest line is found unambiguously.) -/
theorem short_text_determines_text (sha : Str → Str) (hinj : Function.Injective sha) (v : Variant)
    (r r' : Rev) (s : Str) (h : shortText sha v r = .ok s) (h' : shortText sha v r' = .ok s) :
    ∃ t, text v r = .ok t ∧ text v r' = .ok t := shortText_text hinj h h'

/-- hence the short form attests everything the long form attests … -/
theorem short_text_injective_partial (sha : Str → Str) (hinj : Function.Injective sha) (v : Variant)
    (r r' : Rev) (s : Str) (hw : RevWF v r = true) (hw' : RevWF v r' = true)
    (h : shortText sha v r = .ok s) (h' : shortText sha v r' = .ok s) : attested v r = attested v r' := by
  obtain ⟨t, ht, ht'⟩ := shortText_text hinj h h'
  exact testament_injective_partial v r r' t hw hw' ht ht'

/-- … and changes whenever anything attested changes -/
theorem short_text_sensitive_partial (sha : Str → Str) (hinj : Function.Injective sha) (v : Variant)
    (r r' : Rev) (s s' : Str) (hw : RevWF v r = true) (hw' : RevWF v r' = true)
    (h : shortText sha v r = .ok s) (h' : shortText sha v r' = .ok s')
    (hne : attested v r ≠ attested v r') : s ≠ s' := by
  intro e
  subst e
  exact hne (short_text_injective_partial sha hinj v r r' s hw hw' h h')

/-- the short form is as deterministic as the long form (any `sha`) -/
theorem short_text_storage_order_independent (sha : Str → Str) (v : Variant) (r r' : Rev)
    (hid : r.revisionId = r'.revisionId) (ht : text v r = text v r') :
    shortText sha v r = shortText sha v r' := by
  unfold shortText
  rw [ht, hid]

example : Function.Injective (fun s : Str => 'h' :: s) := fun _ _ h => by simpa using h

/-! ### the building blocks, restated -/

/-- no line produced by `splitlines` contains a newline (or any other line boundary) -/
theorem splitlines_no_newline (s : Str) : ∀ l ∈ splitlines s, ∀ c ∈ l, isBreak c = false :=
  splitlines_no_break s

/-- `_escape_path` identifies exactly the paths that agree after `\`→`/`
(and `""`→`"."` in `StrictTestament3`) -/
theorem escape_inj_iff (v : Variant) (p p' : Str) :
    escapePath v p = escapePath v p' ↔
      replBackslash (dotRoot v p) = replBackslash (dotRoot v p') := by
  constructor
  · intro h
    unfold escapePath at h
    have hh : escSpace (replBackslash (dotRoot v p)) ++ ' ' :: [] =
        escSpace (replBackslash (dotRoot v p')) ++ ' ' :: [] := by rw [h]
    exact (escSpace_delim (d := ' ') (by decide) (replBackslash_noBs _)
      (replBackslash_noBs _) (fun x => absurd rfl x) (fun x => absurd rfl x) hh).1
  · intro h; unfold escapePath; rw [h]

/-- an inventory line determines the normalised entry -/
theorem entryLine_inj (v : Variant) (e e' : Entry)
    (he : entryErr e = none) (he' : entryErr e' = none)
    (hw : EntryWF v e = true) (hw' : EntryWF v e' = true)
    (h : entryLine v e = entryLine v e') : normEntry v e = normEntry v e' :=
  normEntry_of_fields he he' hw hw' h


/-! ### the normalisations are collisions of the real format (findings) -/

/-- any two messages with the same `splitlines` give the same testament -/
theorem message_line_boundaries_collision (v : Variant) (r : Rev) (m' : Str)
    (h : splitlines r.message = splitlines m') : text v r = text v { r with message := m' } := by
  unfold text check render timestampOf timezoneOf
  simp only [h]

theorem message_trailing_newline_witness (v : Variant) (r : Rev) (h : r.message = "a".toList) :
    r.message ≠ "a\n".toList ∧ text v r = text v { r with message := "a\n".toList } :=
  ⟨by rw [h]; decide, message_line_boundaries_collision v r _ (by rw [h]; decide)⟩

/-- `\n` vs U+2028 LINE SEPARATOR (stored faithfully by 2a and pack-0.92) -/
theorem message_separator_witness (v : Variant) (r : Rev) (h : r.message = "a\nb".toList) :
    r.message ≠ ['a', Char.ofNat 0x2028, 'b'] ∧
    text v r = text v { r with message := ['a', Char.ofNat 0x2028, 'b'] } :=
  ⟨by rw [h]; decide, message_line_boundaries_collision v r _ (by rw [h]; decide)⟩

/-- timestamps that differ by less than a second are not distinguished -/
theorem timestamp_subsecond_witness (v : Variant) (r : Rev) (h : r.timestampMs = 1200) :
    r.timestampMs ≠ 1700 ∧ text v r = text v { r with timestampMs := 1700 } := by
  refine ⟨by rw [h]; decide, ?_⟩
  unfold text check render timestampOf timezoneOf
  simp only [h]
  rfl

/-- the order of the parents (which one is the left-hand parent) is not attested -/
theorem parents_order_witness (v : Variant) (r : Rev) (a b : Str) (hab : a ≠ b)
    (h : r.parents = [a, b]) :
    r.parents ≠ [b, a] ∧ text v r = text v { r with parents := [b, a] } := by
  refine ⟨by rw [h]; simp [hab], ?_⟩
  unfold text check render timestampOf timezoneOf
  have : sortStrs r.parents = sortStrs [b, a] := sortStrs_perm (by rw [h]; exact List.Perm.swap b a [])
  simp only [this]

/-- the base class `Testament` does not attest the executable bit -/
theorem v1_exec_witness (r : Rev) (e : Entry) (h : r.entries = [e]) :
    text .v1 r = text .v1 { r with entries := [{ e with executable := !e.executable }] } := by
  unfold text check render timestampOf timezoneOf
  simp only [h, sortEntries, List.mergeSort_singleton, List.findSome?_cons, List.map_cons]
  rfl

def wDir : Entry :=
  { path := "d".toList, kind := .directory, fileId := "d-id".toList, sha1 := [], target := [],
    revision := "r0".toList, executable := false }

def wFile (path : Str) : Entry :=
  { path := path, kind := .file, fileId := "f-id".toList,
    sha1 := "da39a3ee5e6b4b0d3255bfef95601890afd80709".toList, target := [],
    revision := "r1".toList, executable := false }

/-- a file `f` inside directory `d` and a file literally named `d\f` next to
`d` give the same testament in every class -/
theorem path_backslash_witness (v : Variant) (r : Rev) (h : r.entries = [wDir, wFile "d/f".toList]) :
    text v r = text v { r with entries := [wDir, wFile "d\\f".toList] } := by
  have s1 : sortEntries [wDir, wFile "d/f".toList] = [wDir, wFile "d/f".toList] :=
    List.mergeSort_of_pairwise (by decide)
  have s2 : sortEntries [wDir, wFile "d\\f".toList] = [wDir, wFile "d\\f".toList] :=
    List.mergeSort_of_pairwise (by decide)
  have l : entryLine v (wFile "d/f".toList) = entryLine v (wFile "d\\f".toList) := by
    cases v <;> decide
  unfold text check render timestampOf timezoneOf
  simp only [h, s1, s2, List.map_cons, l, List.findSome?_cons]
  rfl


/-- `a\b` and `a/b` as symlink targets are not distinguished -/
theorem symlink_target_backslash_witness (v : Variant) (r : Rev) (e : Entry)
    (hk : e.kind = .symlink) (ht : e.target = "a\\b".toList) (h : r.entries = [e]) :
    e.target ≠ "a/b".toList ∧
    text v r = text v { r with entries := [{ e with target := "a/b".toList }] } := by
  refine ⟨by rw [ht]; decide, ?_⟩
  have l : entryLine v e = entryLine v { e with target := "a/b".toList } := by
    unfold entryLine contentPart strictPart
    simp only [hk, ht]
    cases v <;> rfl
  have c : entryErr e = entryErr { e with target := "a/b".toList } := by
    unfold entryErr
    simp only [hk, ht]
    rfl
  unfold text check render timestampOf timezoneOf
  simp only [h, sortEntries, List.mergeSort_singleton, List.findSome?_cons, List.map_cons, l, c]

/-- revision property values are attested only up to `splitlines` -/
theorem revprop_line_boundaries_witness (v : Variant) (r : Rev) (n val val' : Str)
    (hs : splitlines val = splitlines val') (h : r.props = [(n, val)]) :
    text v r = text v { r with props := [(n, val')] } := by
  unfold text check render timestampOf timezoneOf revpropsLines
  simp only [h, sortProps, List.mergeSort_singleton, List.findSome?_cons, propLines, hs]
  rfl

/-! ### non-vacuity -/

/-- a small non-trivial record: two parents, a directory, an executable file
inside it, a symlink with a space in its target, one property -/
def rec0 : Rev :=
  { revisionId := "r1".toList, committer := "C <c@x>".toList, timestampMs := 2000, timezone := some 3600,
    parents := ["a".toList, "b".toList], message := "a\nb".toList,
    entries := [
      { path := "d".toList, kind := .directory, fileId := "d-id".toList, sha1 := [], target := [],
        revision := "r0".toList, executable := false },
      { path := "d/f".toList, kind := .file, fileId := "f-id".toList,
        sha1 := "da39a3ee5e6b4b0d3255bfef95601890afd80709".toList, target := [],
        revision := "r1".toList, executable := true },
      { path := "l".toList, kind := .symlink, fileId := "l-id".toList, sha1 := [],
        target := "d/f x".toList, revision := "r1".toList, executable := false } ],
    props := [("k".toList, "v".toList)] }

theorem rec0_sorted : sortStrs rec0.parents = rec0.parents ∧ sortEntries rec0.entries = rec0.entries ∧
    sortProps rec0.props = rec0.props :=
  ⟨List.mergeSort_of_pairwise (by decide), List.mergeSort_of_pairwise (by decide),
   List.mergeSort_of_pairwise (by decide)⟩

/-- the hypotheses of the theorems above are satisfiable by a non-trivial record -/
theorem rec0_ok : check rec0 = none ∧ (∀ v, RevWF v rec0 = true) ∧ Canon rec0 = true ∧
    (rec0.entries.map Entry.path).Nodup ∧ (rec0.props.map Prod.fst).Nodup := by
  obtain ⟨s1, s2, s3⟩ := rec0_sorted
  refine ⟨?_, fun v => by cases v <;> decide, ?_, by decide, by decide⟩
  · unfold check; rw [s1, s2, s3]; decide
  · unfold Canon; rw [s1]; decide

example : ∀ v, ∃ t, text v rec0 = .ok t := fun v => ⟨_, by unfold text; rw [rec0_ok.1]⟩

/-- and the result is not insensitive for a trivial reason: changing the committer
of `rec0` is a change of `attested` -/
example : ∀ v, attested v rec0 ≠ attested v { rec0 with committer := "D".toList } := by
  intro v h
  have := congrArg Attested.committer h
  simp only [attested] at this
  exact absurd this (by decide)

end BreezyVerif.C41
