"""C23 — checkouts and their master branches stay in step.

Mechanism: breezy/commit.py (Commit._check_bound_branch, _check_out_of_date_tree,
_update_branches: master first, then local), breezy/bzr/branch.py
(BzrBranch.update, bind, unbind, get_master_branch, set_last_revision_info),
breezy/branch.py (GenericInterBranch.pull / _update_revisions,
import_last_revision_info_and_tags), breezy/bzr/workingtree.py
(InventoryWorkingTree.update / _update_tree / pull).

Cases: random operation sequences (<= 15 ops; thorough <= 25) over ONE master
branch with its own working tree (M), a heavyweight checkout (H: own branch,
bound) and a lightweight checkout (L: the branch is the master) with real 2a
trees: commit in M / H / L, commit --local, update in each tree, pull from the
master in H, unbind / bind of H; plus an independent branch O (own repository
and tree: commit in O, O pulls the master with overwrite), pull from O into H /
L / M with stop_revision = every revision of O's left-hand line or none, with
and without overwrite and local=True, and push of H's branch / the master into
a third branch P.  Sequences are generated adaptively (stop revisions are read
from the real branch O); fixed and corpus sequences run first.  Every commit adds a new file whose name is
unique to the step, so tree merges never conflict (update and pull run real
merges).

T2: the whole sequence is replayed by the Lean model (Model/C23.lean, `step`);
    after every step both sides are compared on: outcome (ok / error kind),
    master (revno, tip), local (revno, tip), bound flag, the parent ids of the
    three working trees, and the tip writes of the step in order (which branch
    got which revision - from Branch.hooks['post_change_branch_tip']).
Oracle (independent of the model, after every step): P1 a successful commit in
    the bound checkout ends with master tip = local tip = new revision and the
    tip writes are exactly [master, local] in this order; P2 a commit in the
    bound checkout while master tip != local tip is refused with
    BoundBranchOutOfDate; every refused operation leaves both tips, the bound
    flag and all tree parents unchanged; P3 a successful commit --local moves
    only the local tip; commits in M / L move only the master tip; P4 update in
    the bound checkout leaves local tip = master tip and the tree based on it;
    P5 pull from the master leaves the local tip = master tip unless the local
    branch already contains the master's tip (then nothing changes) or the
    two have diverged (then DivergedBranches and nothing changes); update of
    M / L bases the tree on the master tip; P6 a commit from a tree that is not
    based on the (non-null) tip it commits to is refused; P7 local commits that
    update pivots out of the local branch stay referenced as a pending merge.

Oracle P8: a successful non-local operation (commit, update, pull from the
master, pull from O with any stop revision) in a bound checkout that was in
step with its master leaves local tip == master tip; a pull with a stop
revision moves tips only to that revision; master written before local.

Finding on the unchanged code (family pull-into-bound-branch-master-moved-before-local-diverged):
pull from another branch into a bound checkout that has local-only commits pulls
the MASTER first and then raises DivergedBranches for the local branch - a refused
operation that moved the master (model: pull_other_master_moved_witness).

Finding on the unchanged code (family update-bound-to-empty-master-keeps-local-tip):
update in a checkout bound to an EMPTY master after commit --local leaves the
local tip ahead of the master (_update_revisions returns early for a null source
tip even with overwrite) - model: update_empty_master_witness.

Mutants tried in a scratch worktree (the family above ignored):
 m1 _update_branches: local tip written before the master            -> oracle P1 (order of tip writes) + T2
 m2 _check_bound_branch: the local/master comparison removed           -> oracle P2 + T2
 m3 _check_bound_branch: master looked up also for --local              -> oracle P3 + T2
 m4 BzrBranch.update: pull without overwrite                            -> oracle P4 (DivergedBranches) + T2
 m5 _check_out_of_date_tree: null test applied to the tree parent        -> oracle P6 + T2
 m6 _update_tree: old tip not kept as pending merge                     -> oracle P7 + T2 (tree parents)
 harmless: _update_branches with the progress-stage calls removed        -> clean
 seeded (coordinator): GenericInterBranch.pull does not pass stop_revision to the master pull
                                                                        -> oracle P8 + stop-revision check + T2 (corpus 01, every seed)
"""
import os
import shutil

from vlib import env

THEOREMS = [
    "bound_commit_master_first", "bound_commit_refused_noop", "local_commit_only_local", "master_commit_only_master",
    "update_equalises_partial", "update_empty_master_witness", "pull_equalises_or_refuses", "refused_noop",
    "run_master_first", "unbound_commit_only_local",
    "bound_pull_other_same_revision", "pull_other_refused_local_unchanged", "pull_other_master_moved_witness",
    "pull_other_local_only",
]
RULE = ("case = operation sequence over (M, H, L), compared after every step; distinct by op list; non-trivial = at least "
        "one successful commit through the bound checkout and one of (refused commit, --local commit, update that moves a tip, pull)")
ASSUMPTIONS = [
    "tree merges are conflict-free (every commit adds a fresh file); conflicts during update are the subject of C17/C19",
    "one master, one heavyweight and one lightweight checkout, local transports; sequences <= 25 ops (theorems: any length)",
]
TRUSTED = ["Branch.hooks['post_change_branch_tip'] as the observation point of tip writes"]

NULL = "null:"


class World:
    def __init__(self):
        from breezy.branch import Branch
        self.m = env.make_tree("2a")
        self.m.set_root_id(b"root")
        self.mdir = self.m.basedir
        self.hdir = env.fresh_dir("h")
        self.ldir = env.fresh_dir("l")
        os.rmdir(self.hdir)
        os.rmdir(self.ldir)
        b = self.m.branch
        h = b.create_checkout(self.hdir, lightweight=False)
        l_ = b.create_checkout(self.ldir, lightweight=True)
        for t in (h, l_):
            with t.lock_write():
                if t.path2id("") != b"root":
                    t.set_root_id(b"root")
        self.mbase = b.base
        self.hbase = h.branch.base
        # an independent branch O with its own repository and tree, and an empty third branch P (push target)
        self.o = env.make_tree("2a")
        self.o.set_root_id(b"root")
        self.odir = self.o.basedir
        self.pdir = env.fresh_dir("p")
        from breezy.controldir import ControlDir, format_registry
        ControlDir.create_branch_convenience(self.pdir, format=format_registry.make_controldir("2a"), force_new_tree=False)
        self.n = 0
        self.log = []
        self.hook_name = "c23-%d-%d" % (os.getpid(), id(self))

        def hook(params):
            if params.old_revid != params.new_revid:
                base = params.branch.base
                if base in (self.mbase, self.hbase):
                    self.log.append(("m" if base == self.mbase else "h") + ":" + params.new_revid.decode())
        Branch.hooks.install_named_hook("post_change_branch_tip", hook, self.hook_name)

    def close(self):
        from breezy.branch import Branch
        Branch.hooks.uninstall_named_hook("post_change_branch_tip", self.hook_name)
        for d in (self.mdir, self.hdir, self.ldir, self.odir, self.pdir):
            shutil.rmtree(d, ignore_errors=True)

    def tree(self, who):
        from breezy.workingtree import WorkingTree
        return WorkingTree.open({"M": self.mdir, "H": self.hdir, "L": self.ldir, "O": self.odir}[who])

    def observe(self):
        from breezy.branch import Branch
        mb = Branch.open(self.mdir)
        hb = Branch.open(self.hdir)
        par = {}
        for who in "MHLO":
            par[who] = [p.decode() for p in self.tree(who).get_parent_ids()]
        mi, hi = mb.last_revision_info(), hb.last_revision_info()
        return dict(master=(mi[0], mi[1].decode()), local=(hi[0], hi[1].decode()),
                    bound=hb.get_bound_location() is not None, parents=par,
                    other=Branch.open(self.odir).last_revision().decode(), third=Branch.open(self.pdir).last_revision().decode())

    def other_line(self):
        """left-hand history of O, tip first"""
        from breezy.branch import Branch
        ob = Branch.open(self.odir)
        with ob.lock_read():
            g = ob.repository.get_graph()
            return [r.decode() for r in g.iter_lefthand_ancestry(ob.last_revision(), [b"null:"])]

    def do(self, op):
        """returns the outcome string"""
        from breezy.branch import Branch
        self.log = []
        k = op.split(":")[0]
        try:
            if k[0] in "cl":
                who, rev = k[1], op.split(":")[1]
                wt = self.tree(who)
                self.n += 1
                name = "%s%d" % (who.lower(), self.n)
                with open(os.path.join(wt.basedir, name), "w") as f:
                    f.write(name)
                wt.add([name])
                try:
                    wt.commit("c " + rev, rev_id=rev.encode(), local=(k[0] == "l"))
                except Exception:
                    wt = self.tree(who)
                    wt.remove([name], keep_files=False, force=True)
                    raise
            elif k == "sO":
                self.tree("O").pull(Branch.open(self.mdir), overwrite=True)
            elif k in ("qH", "qL", "qM"):
                _, rev, ow, lo = op.split(":")
                self.tree(k[1]).pull(Branch.open(self.odir), overwrite=(ow == "T"), local=(lo == "T"),
                                     stop_revision=None if rev == "~" else rev.encode())
            elif k in ("shH", "shL"):
                Branch.open(self.hdir if k == "shH" else self.mdir).push(Branch.open(self.pdir))
            elif k[0] == "u":
                n = self.tree(k[1]).update()
                if n:
                    return "E:conflicts:%d" % n
            elif k == "p":
                self.tree("H").pull(Branch.open(self.mdir))
            elif k == "b":
                Branch.open(self.hdir).bind(Branch.open(self.mdir))
            elif k == "x":
                Branch.open(self.hdir).unbind()
            else:
                raise AssertionError(op)
        except Exception as e:  # noqa
            return "E:" + type(e).__name__
        return "ok"


def show(out, ob, log):
    return "|".join([out, "%d:%s" % ob["master"], "%d:%s" % ob["local"], "T" if ob["bound"] else "F",
                     "+".join(ob["parents"]["M"]) or "-", "+".join(ob["parents"]["H"]) or "-",
                     "+".join(ob["parents"]["L"]) or "-", "+".join(log) or "-",
                     ob["other"], "+".join(ob["parents"]["O"]) or "-", ob["third"]])


def next_op(rng, w, r):
    """one op drawn from the alphabet; stop revisions of pulls from O range over O's whole left-hand line"""
    k = rng.choices(["cH", "cM", "cL", "lH", "uH", "uM", "uL", "p", "x", "b", "lM", "cO", "sO", "qH", "qL", "qM", "shH", "shL"],
                    [22, 10, 8, 9, 13, 7, 5, 7, 3, 4, 1, 12, 6, 14, 4, 2, 3, 2])[0]
    if k in ("cH", "cM", "cL", "lH", "lM", "cO"):
        return "%s:r%d" % (k, r + 1), r + 1
    if k in ("qH", "qL", "qM"):
        line = w.other_line()
        rev = rng.choice(line + ["~"]) if line else "~"
        return "%s:%s:%s:%s" % (k, rev, "T" if rng.random() < 0.2 else "F", "T" if rng.random() < 0.15 else "F"), r
    return k, r


def is_anc(w, a, b):
    """a is an ancestor of (or equal to) b in the master+local repositories"""
    from breezy.branch import Branch
    if a == NULL:
        return True
    hb, mb = Branch.open(w.hdir), Branch.open(w.mdir)
    with hb.lock_read(), mb.lock_read():
        g = hb.repository.get_graph(mb.repository)
        return g.is_ancestor(a.encode(), b.encode())


def run_sequence(ops, seed=None, n=0):
    """execute on real trees (ops given, or generated adaptively from `seed`); returns (ops, step strings, violations)"""
    import random
    w = World()
    outs, viol = [], []
    rng = random.Random(seed) if ops is None else None
    given = ops
    ops = [] if ops is None else list(ops)
    r = 0
    try:
        ob = w.observe()
        idx = -1
        while True:
            idx += 1
            if given is None:
                if idx >= n:
                    break
                op, r = next_op(rng, w, r)
                ops.append(op)
            else:
                if idx >= len(ops):
                    break
                op = ops[idx]
            before = ob
            local_ahead = diverged = None
            if op == "p":
                local_ahead = is_anc(w, before["master"][1], before["local"][1])
                diverged = not local_ahead and not is_anc(w, before["local"][1], before["master"][1])
            pivot = None
            if op == "uH" and before["bound"] and before["master"][1] != NULL:
                pivot = not is_anc(w, before["local"][1], before["master"][1])
            out = w.do(op)
            log = list(w.log)
            ob = w.observe()
            outs.append(show(out, ob, log))
            k = op.split(":")[0]
            rev = op.split(":")[1] if ":" in op else None
            tag = "step %d %s: " % (idx, op)

            def unchanged(what):
                if (ob["master"], ob["local"], ob["bound"], ob["parents"]) != (
                        before["master"], before["local"], before["bound"], before["parents"]):
                    viol.append((tag + "%s but the state changed: %r -> %r" % (what, before, ob), None))
            in_step = before["bound"] and before["master"] == before["local"]
            if out != "ok":
                if k == "qH" and out == "E:DivergedBranches" and before["bound"] and ob["master"] != before["master"] and (
                        ob["local"], ob["bound"], ob["parents"]) == (before["local"], before["bound"], before["parents"]):
                    viol.append((tag + "pull into the bound checkout raised DivergedBranches for the local branch after the master "
                                 "had already been moved %r -> %r" % (before["master"], ob["master"]),
                                 "pull-into-bound-branch-master-moved-before-local-diverged"))
                else:
                    unchanged("refused with %s" % out)
                    if log:
                        viol.append((tag + "refused with %s but tips were written: %r" % (out, log), None))
            # P8: a successful non-local operation in a bound checkout that was in step leaves it in step
            if out == "ok" and in_step and (k in ("cH", "uH", "p") or (k == "qH" and op.split(":")[3] == "F")):
                if ob["local"] != ob["master"]:
                    viol.append((tag + "checkout was in step with its master, afterwards master %r != local %r" % (
                        ob["master"], ob["local"]), None))
            if k == "qH" and out == "ok":
                _, rev, ow, lo = op.split(":")
                if lo == "T":
                    if ob["master"] != before["master"]:
                        viol.append((tag + "pull --local moved the master", None))
                    if not before["bound"]:
                        viol.append((tag + "pull --local succeeded in an unbound branch", None))
                elif before["bound"]:
                    mch, lch = ob["master"] != before["master"], ob["local"] != before["local"]
                    if mch and lch and log != ["m:" + ob["master"][1], "h:" + ob["local"][1]]:
                        viol.append((tag + "tip writes of the pull are %r, expected master then local" % (log,), None))
                    if rev != "~":
                        for nm in ("master", "local"):
                            if ob[nm] != before[nm] and ob[nm][1] != rev:
                                viol.append((tag + "pull with stop revision %s moved the %s tip to %s" % (rev, nm, ob[nm][1]), None))
                else:
                    if ob["master"] != before["master"]:
                        viol.append((tag + "pull into the unbound branch moved the master", None))
            if k in ("qL", "qM") and out == "ok":
                rev = op.split(":")[1]
                if ob["local"] != before["local"] or (rev != "~" and ob["master"] != before["master"] and ob["master"][1] != rev):
                    viol.append((tag + "pull into the master: local %r -> %r, master %r" % (before["local"], ob["local"], ob["master"]), None))
            if k in ("shH", "shL", "sO", "cO") and (ob["master"], ob["local"], ob["bound"]) != (before["master"], before["local"], before["bound"]):
                viol.append((tag + "%s changed the master / checkout branches" % k, None))
            if k[0] in "cl" and k[1] in "MHL":
                # P6: a tree that is not based on the tip it commits to must be refused
                who = k[1]
                ref = before["master"] if (who in "ML" or (who == "H" and before["bound"] and k[0] == "c")) else before["local"]
                tp = (before["parents"][who][:1] or [NULL])[0]
                if ref[1] != NULL and ref[1] != tp and out == "ok":
                    viol.append((tag + "commit accepted although the tree is based on %s and the branch tip is %s" % (tp, ref[1]), None))
            if k == "cH":
                if before["bound"] and before["master"][1] != before["local"][1]:
                    if out != "E:BoundBranchOutOfDate":
                        viol.append((tag + "master %s != local %s but the bound commit gave %s" % (
                            before["master"][1], before["local"][1], out), None))
                if out == "ok" and before["bound"]:
                    if not (ob["master"][1] == ob["local"][1] == rev):
                        viol.append((tag + "bound commit ended with master %r local %r" % (ob["master"], ob["local"]), None))
                    if log != ["m:" + rev, "h:" + rev]:
                        viol.append((tag + "tip writes of the bound commit are %r, expected master then local" % (log,), None))
                    if ob["master"][0] != before["master"][0] + 1 or ob["local"][0] != ob["master"][0]:
                        viol.append((tag + "revnos after the bound commit: %r %r" % (ob["master"], ob["local"]), None))
                if out == "ok" and not before["bound"]:
                    if ob["master"] != before["master"] or ob["local"][1] != rev:
                        viol.append((tag + "unbound commit: master %r -> %r, local %r" % (before["master"], ob["master"], ob["local"]), None))
            elif k == "lH" and out == "ok":
                if ob["master"] != before["master"] or ob["local"][1] != rev or log != ["h:" + rev]:
                    viol.append((tag + "commit --local: master %r -> %r, local %r, writes %r" % (
                        before["master"], ob["master"], ob["local"], log), None))
                if not before["bound"]:
                    viol.append((tag + "commit --local succeeded in an unbound branch", None))
            elif k in ("cM", "cL") and out == "ok":
                if ob["local"] != before["local"] or ob["master"][1] != rev or log != ["m:" + rev]:
                    viol.append((tag + "commit to the master: local %r -> %r, master %r, writes %r" % (
                        before["local"], ob["local"], ob["master"], log), None))
            elif k == "uH" and out == "ok":
                if before["bound"]:
                    if ob["local"][1] != ob["master"][1] or ob["master"] != before["master"]:
                        fam = None
                        if before["master"][1] == NULL and before["local"][1] != NULL and ob["local"] == before["local"]:
                            fam = "update-bound-to-empty-master-keeps-local-tip"
                        viol.append((tag + "update in the bound checkout left local %r, master %r" % (ob["local"], ob["master"]), fam))
                    elif (ob["parents"]["H"][:1] or [NULL]) != [ob["master"][1]]:
                        viol.append((tag + "update left the tree based on %r, master tip %r" % (ob["parents"]["H"], ob["master"]), None))
                    elif pivot and before["local"][1] not in ob["parents"]["H"]:
                        # P7: local commits pivoted out of the branch must stay referenced as a pending merge
                        viol.append((tag + "update dropped the old local tip %s: tree parents %r" % (before["local"][1], ob["parents"]["H"]), None))
                else:
                    if ob["local"] != before["local"] or ob["master"] != before["master"]:
                        viol.append((tag + "update of an unbound tree moved a branch tip", None))
            elif k in ("uM", "uL") and out == "ok":
                if (ob["parents"][k[1]][:1] or [NULL]) != [ob["master"][1]] or ob["master"] != before["master"] or ob["local"] != before["local"]:
                    viol.append((tag + "update left tree %s at %r, master %r" % (k[1], ob["parents"][k[1]], ob["master"]), None))
            elif k == "p":
                if ob["master"] != before["master"]:
                    viol.append((tag + "pull from the master changed the master", None))
                if diverged:
                    if out != "E:DivergedBranches":
                        viol.append((tag + "pull of diverged branches gave %s" % out, None))
                elif local_ahead:
                    if out != "ok" or ob["local"] != before["local"]:
                        viol.append((tag + "pull although the local branch contains the master tip: %s, local %r -> %r" % (
                            out, before["local"], ob["local"]), None))
                elif out != "ok" or ob["local"] != ob["master"]:
                    viol.append((tag + "pull left local %r, master %r (%s)" % (ob["local"], ob["master"], out), None))
            elif k in ("b", "x"):
                if out != "ok" or ob["bound"] != (k == "b") or (ob["master"], ob["local"], ob["parents"]) != (
                        before["master"], before["local"], before["parents"]):
                    viol.append((tag + "bind/unbind: %s, state %r -> %r" % (out, before, ob), None))
    finally:
        w.close()
    return ops, outs, viol


def worker(job):
    ops = job.get("ops")
    try:
        ops, outs, viol = run_sequence(ops, job.get("seed"), job.get("n", 0))
        return dict(ops=ops, impl=";".join(outs), viol=viol)
    except Exception as e:
        import traceback
        return dict(ops=ops or [], error="%s: %s\n%s" % (type(e).__name__, e, traceback.format_exc()[-1200:]))


FIXED = [
    ["cM:r1", "uH", "cH:r2", "cM:r3", "uM", "cM:r4", "cH:r5", "uH", "cH:r6"],
    ["cH:r1", "lH:r2", "cH:r3", "uH", "cH:r4", "cL:r5", "uL", "cL:r6", "cH:r7", "p", "cH:r8"],
    ["cH:r1", "lH:r2", "uM", "cM:r3", "p", "uH", "cH:r4"],
    ["lH:r1", "uH", "cH:r2"],
    ["cH:r1", "x", "cH:r2", "lH:r3", "uM", "cM:r4", "b", "cH:r5", "uH", "cH:r6"],
    ["cM:r1", "uL", "cL:r2", "cM:r3", "uH", "x", "cH:r4", "p", "b", "uH", "cH:r5"],
    # pull from a branch other than the master with an explicit stop revision (master first, same revision)
    ["cM:r1", "uH", "sO", "cO:r2", "cO:r3", "cO:r4", "qH:r3:F:F", "cH:r5", "shH", "qL:~:F:F", "uH"],
    ["cM:r1", "uH", "sO", "cO:r2", "cO:r3", "qH:r2:F:T", "qH:r3:F:F", "uH", "qH:r3:T:F", "cH:r4"],
    ["cM:r1", "uH", "sO", "cO:r2", "lH:r3", "qH:~:F:F", "qH:r2:T:F", "x", "qH:~:T:F", "shL", "shH"],
]


def absorb(ctx, res):
    if res.get("error"):
        ctx.extra.setdefault("scenario_errors", []).append(res["error"][:800])
        ctx.count("scenario-error")
        ctx.mismatch(dict(ops=res["ops"]), res["error"][:300], "sequence ran")
        return None
    ops = res["ops"]
    steps = res["impl"].split(";")
    okH = sum(1 for o, s in zip(ops, steps) if o.startswith("cH") and s.startswith("ok|"))
    other = any((s.startswith("E:") and o[0] in "cl") or (o.startswith("lH") and s.startswith("ok|")) or
                (o in ("uH", "p") and not s.endswith("|-")) for o, s in zip(ops, steps))
    ctx.case(dict(ops=ops), nontrivial=bool(okH and other))
    ctx.count("len:%d" % (5 * (len(ops) // 5)))
    for o, s in zip(ops, steps):
        ctx.count("op:%s:%s" % (o.split(":")[0], s.split("|")[0]))
        if o[0] == "q":
            ctx.count("pull-other:stop=%s:overwrite=%s:local=%s" % ("none" if o.split(":")[1] == "~" else "rev", o.split(":")[2], o.split(":")[3]))
    for what, fam in res["viol"]:
        ctx.violation(dict(ops=ops), what, family=fam)
    return "run " + (",".join(ops) or "-")


def run(ctx):
    nseq = ctx.pick(60, 300)
    maxlen = ctx.pick(15, 25)
    seqs = [dict(ops=list(f)) for f in FIXED]
    cdir = os.path.join(env.VERIF, "corpus", "C23")
    if os.path.isdir(cdir):
        import json
        for f in sorted(os.listdir(cdir)):
            if f.endswith(".json"):
                seqs.append(dict(ops=json.load(open(os.path.join(cdir, f)))["ops"]))
    for _ in range(nseq):
        seqs.append(dict(seed=ctx.rng.randrange(1 << 30), n=ctx.rng.randrange(3, maxlen + 1)))
    results = ctx.pmap(worker, seqs, chunksize=1)
    lines, cases, impls = [], [], []
    for res in results:
        line = absorb(ctx, res)
        if line is not None:
            lines.append(line)
            cases.append(dict(ops=res["ops"]))
            impls.append(res["impl"])
    outs = ctx.model(lines)
    for c, l, i, m in zip(cases, lines, impls, outs):
        ctx.traces += len(c["ops"])
        if i != m:
            si, sm = i.split(";"), m.split(";")
            k = next((j for j in range(min(len(si), len(sm))) if si[j] != sm[j]), min(len(si), len(sm)))
            ctx.mismatch(dict(c, first_differing_step=k), si[k] if k < len(si) else None, sm[k] if k < len(sm) else None,
                         line=l, tie="T2 step %d (%s)" % (k, c["ops"][k] if k < len(c["ops"]) else "?"))


def replay(ctx, case):
    res = worker(dict(ops=case["ops"]))
    if res.get("error"):
        return dict(case=case, error=res["error"])
    for what, fam in res["viol"]:
        ctx.violation(case, what, family=fam)
    m = ctx.model(["run " + ",".join(case["ops"])])[0] if ctx.model_available else None
    return dict(case=case, impl=res["impl"].split(";"), model=m.split(";") if m else None, agree=(m == res["impl"]),
                oracle_failures=[v["what"] for v in ctx.violations])
