import BreezyVerif.Lemmas.C06
/-
C06 — the object's missing-compression-parent bookkeeping tracks the open
group (`StaleOK`), suspend → new object → resume restores the group, and the
closed form of "insert a chunk, suspend, reopen, resume everything" repeated
any number of times.
-/
namespace BreezyVerif.C06

/-! ### the compression parents the records of a pack lack -/

def lacking (own recs : Pack) : List Key :=
  recs.filterMap fun rec => match rec.cparent with
    | some p => if hasKey own ⟨rec.key.kind, p⟩ then none else some ⟨rec.key.kind, p⟩
    | none => none

theorem mem_lacking {own recs : Pack} {x : Key} :
    x ∈ lacking own recs ↔
      ∃ rec ∈ recs, ∃ p, rec.cparent = some p ∧ x = ⟨rec.key.kind, p⟩ ∧ hasKey own x = false := by
  simp only [lacking, List.mem_filterMap]
  constructor
  · rintro ⟨rec, hm, h⟩
    cases hc : rec.cparent with
    | none => simp [hc] at h
    | some p =>
      simp only [hc] at h
      by_cases hk : hasKey own ⟨rec.key.kind, p⟩ = true
      · simp [hk] at h
      · simp only [hk] at h
        simp only [Bool.false_eq_true, if_false, Option.some.injEq] at h
        subst h
        exact ⟨rec, hm, p, hc, rfl, by simpa using hk⟩
  · rintro ⟨rec, hm, p, hc, rfl, hk⟩
    exact ⟨rec, hm, by simp [hc, hk]⟩

theorem mcp_eq_lacking (own recs : Pack) :
    missingCompressionParent own recs = !(lacking own recs).isEmpty := by
  induction recs with
  | nil => rfl
  | cons rec recs ih =>
    simp only [missingCompressionParent, List.any_cons] at ih ⊢
    rw [ih]
    cases hc : rec.cparent with
    | none => simp [lacking, List.filterMap_cons, hc]
    | some p =>
      by_cases hk : hasKey own ⟨rec.key.kind, p⟩ = true
      · simp [lacking, List.filterMap_cons, hc, hk]
      · simp [lacking, List.filterMap_cons, hc, hk]

theorem hasKey_append (a b : Pack) (k : Key) : hasKey (a ++ b) k = (hasKey a k || hasKey b k) := by
  simp [hasKey, List.any_append]

theorem hasKey_single (rec : Rec) (k : Key) : hasKey [rec] k = (rec.key == k) := by
  simp [hasKey]

/-- the object's bookkeeping describes exactly what the records inserted through
this object lack -/
def StaleOK (r : Repo) (g : Group) : Prop :=
  ∀ x, x ∈ r.stale ↔ x ∈ lacking (r.packs.flatten ++ groupRecs g) g.fresh

theorem stale_isEmpty_of_ok {r : Repo} {g : Group} (h : StaleOK r g) :
    r.stale.isEmpty = !missingCompressionParent (r.packs.flatten ++ groupRecs g) g.fresh := by
  rw [mcp_eq_lacking, Bool.not_not]
  by_cases he : r.stale = []
  · have : lacking (r.packs.flatten ++ groupRecs g) g.fresh = [] := by
      apply List.eq_nil_iff_forall_not_mem.mpr
      intro x hx
      have := (h x).mpr hx
      rw [he] at this; cases this
    rw [he, this]
  · have hne : lacking (r.packs.flatten ++ groupRecs g) g.fresh ≠ [] := by
      intro hl
      apply he
      apply List.eq_nil_iff_forall_not_mem.mpr
      intro x hx
      have := (h x).mp hx
      rw [hl] at this; cases this
    cases hs : r.stale with
    | nil => exact absurd hs he
    | cons a l =>
      cases hl : lacking (r.packs.flatten ++ groupRecs g) g.fresh with
      | nil => exact absurd hl hne
      | cons b m => rfl

/-- inserting a record keeps the bookkeeping exact -/
theorem staleOK_insert (fmt : Fmt) (r : Repo) (g : Group) (rec : Rec) (h : r.wg = some g) (ok : StaleOK r g) :
    StaleOK (step fmt r (.insert rec)).1 { g with fresh := g.fresh ++ [rec] } := by
  have hs : (step fmt r (.insert rec)).1 =
      { r with wg := some { g with fresh := g.fresh ++ [rec] }, stale := staleAfter r g rec } := by
    simp only [step, h]
  rw [hs]
  intro x
  show x ∈ staleAfter r g rec ↔
    x ∈ lacking (r.packs.flatten ++ groupRecs { g with fresh := g.fresh ++ [rec] }) (g.fresh ++ [rec])
  have hown : r.packs.flatten ++ groupRecs { g with fresh := g.fresh ++ [rec] }
      = (r.packs.flatten ++ groupRecs g) ++ [rec] := by
    simp [groupRecs, List.append_assoc]
  rw [hown]
  -- presence after the insertion
  have hk : ∀ y, hasKey ((r.packs.flatten ++ groupRecs g) ++ [rec]) y
      = (hasKey (r.packs.flatten ++ groupRecs g) y || (rec.key == y)) := by
    intro y; rw [hasKey_append, hasKey_single]
  -- right-hand side, split into the old records and the new one
  have rhs : x ∈ lacking ((r.packs.flatten ++ groupRecs g) ++ [rec]) (g.fresh ++ [rec]) ↔
      (x ∈ lacking (r.packs.flatten ++ groupRecs g) g.fresh ∧ x ≠ rec.key) ∨
      (∃ p, rec.cparent = some p ∧ x = ⟨rec.key.kind, p⟩ ∧
        hasKey ((r.packs.flatten ++ groupRecs g) ++ [rec]) x = false) := by
    simp only [mem_lacking, List.mem_append, List.mem_singleton]
    constructor
    · rintro ⟨rc, hm | rfl, p, hc, hx, hkx⟩
      · left
        rw [hk] at hkx
        simp only [Bool.or_eq_false_iff, beq_eq_false_iff_ne, ne_eq] at hkx
        exact ⟨⟨rc, hm, p, hc, hx, hkx.1⟩, fun e => hkx.2 e.symm⟩
      · right; exact ⟨p, hc, hx, hkx⟩
    · rintro (⟨⟨rc, hm, p, hc, hx, hkx⟩, hne⟩ | ⟨p, hc, hx, hkx⟩)
      · refine ⟨rc, Or.inl hm, p, hc, hx, ?_⟩
        rw [hk]
        simp only [Bool.or_eq_false_iff, beq_eq_false_iff_ne, ne_eq]
        exact ⟨hkx, fun e => hne e.symm⟩
      · exact ⟨rec, Or.inr rfl, p, hc, hx, hkx⟩
  rw [rhs]
  -- left-hand side
  have hst : ∀ y, y ∈ r.stale.filter (· != rec.key) ↔ (y ∈ lacking (r.packs.flatten ++ groupRecs g) g.fresh ∧ y ≠ rec.key) := by
    intro y
    simp only [List.mem_filter, bne_iff_ne, ne_eq]
    rw [ok y]
  simp only [staleAfter]
  cases hc : rec.cparent with
  | none =>
    simp only [hst]
    constructor
    · intro hx; exact Or.inl hx
    · rintro (hx | ⟨p, hp, _⟩)
      · exact hx
      · cases hp
  | some p =>
    simp only []
    split
    · rename_i hcond
      simp only [hst]
      constructor
      · intro hx; exact Or.inl hx
      · rintro (hx | ⟨p', hp, hx, hkx⟩)
        · exact hx
        · cases hp
          simp only [Bool.or_eq_true, List.contains_iff_mem] at hcond
          rcases hcond with hpres | hin
          · subst hx; rw [hpres] at hkx; cases hkx
          · subst hx; exact (hst _).mp hin
    · rename_i hcond
      simp only [Bool.or_eq_true, List.contains_iff_mem, not_or, Bool.not_eq_true] at hcond
      simp only [List.mem_append, List.mem_singleton, hst]
      constructor
      · rintro (hx | hx)
        · exact Or.inl hx
        · exact Or.inr ⟨p, rfl, hx, by rw [hx]; exact hcond.1⟩
      · rintro (hx | ⟨p', hp, hx, _⟩)
        · exact Or.inl hx
        · cases hp; exact Or.inr hx

theorem staleOK_inserts (fmt : Fmt) (recs : List Rec) (r : Repo) (g : Group) (h : r.wg = some g) (ok : StaleOK r g) :
    StaleOK (exec fmt r (recs.map Op.insert)) { g with fresh := g.fresh ++ recs } := by
  induction recs generalizing r g with
  | nil => simpa [exec_nil] using ok
  | cons rec recs ih =>
    simp only [List.map_cons, exec_cons]
    have hs : (step fmt r (.insert rec)).1.wg = some { g with fresh := g.fresh ++ [rec] } := by
      simp only [step, h]
    have := ih (step fmt r (.insert rec)).1 { g with fresh := g.fresh ++ [rec] } hs (staleOK_insert fmt r g rec h ok)
    simpa [List.append_assoc] using this

/-- a group opened on a clean object: nothing inserted, nothing remembered -/
theorem staleOK_clean (r : Repo) (resumed : List Pack) (hs : r.stale = []) : StaleOK r ⟨[], resumed⟩ := by
  intro x
  rw [hs]
  simp [lacking]

/-! ### suspend → new object → resume -/

theorem suspend_reopen_resume (fmt : Fmt) (r : Repo) (g : Group) (h : r.wg = some g)
    (hin : ∀ p ∈ g.resumed, p ∈ r.upload) (hnd : g.resumed.Nodup) (hf : g.fresh ∉ g.resumed) :
    ∃ toks r1, step fmt r .suspend = (r1, .tokens toks) ∧ r1.packs = r.packs ∧ r1.wg = none ∧
      toks = (if g.fresh.isEmpty then g.resumed else g.resumed ++ [g.fresh]) ∧
      (∀ p ∈ toks, p ∈ r1.upload) ∧
      step fmt (step fmt r1 .reopen).1 (.resume (toks.map Tok.pack))
        = ({ (step fmt r1 .reopen).1 with wg := some ⟨[], toks⟩ }, .ok) := by
  by_cases he : g.fresh.isEmpty = true
  · refine ⟨g.resumed, { r with wg := none }, by simp only [step, h, he, if_true], rfl, rfl,
      by simp [he], hin, ?_⟩
    have := resumeToks_ok r.upload g.resumed [] hin (by simpa using hnd)
    simp only [step, this, List.nil_append]
  · have hup : ∀ p ∈ g.resumed ++ [g.fresh], p ∈ addNew r.upload g.fresh := by
      intro p hp
      simp only [addNew]
      rcases List.mem_append.mp hp with h1 | h1
      · split
        · exact hin p h1
        · exact List.mem_append_left _ (hin p h1)
      · simp only [List.mem_singleton] at h1
        subst h1
        split
        · rename_i hc; exact List.contains_iff_mem.mp hc
        · exact List.mem_append_right _ (List.mem_singleton.mpr rfl)
    refine ⟨g.resumed ++ [g.fresh], { r with upload := addNew r.upload g.fresh, wg := none },
      by simp only [step, h, he]; rfl, rfl, rfl, by simp [he], hup, ?_⟩
    have hnd' : ([] ++ (g.resumed ++ [g.fresh])).Nodup := by
      simp only [List.nil_append]
      rw [List.nodup_append]
      refine ⟨hnd, by simp, ?_⟩
      intro a ha b hb e
      simp only [List.mem_singleton] at hb
      subst hb; subst e
      exact hf ha
    have := resumeToks_ok (addNew r.upload g.fresh) (g.resumed ++ [g.fresh]) [] hup hnd'
    simp only [step, this, List.nil_append]

/-! ### any number of suspend / resume cycles -/

/-- the non-empty chunks: the packs a sequence of suspends leaves in `upload/` -/
def nonempty (cs : List Pack) : List Pack := cs.filter fun c => !c.isEmpty

theorem flatten_nonempty (cs : List Pack) : (nonempty cs).flatten = cs.flatten := by
  induction cs with
  | nil => rfl
  | cons c cs ih =>
    by_cases he : c.isEmpty = true
    · have : c = [] := List.isEmpty_iff.mp he
      simp [nonempty, this] at ih ⊢
      exact ih
    · simp only [nonempty, List.filter_cons, he, Bool.not_false, if_true, List.flatten_cons] at ih ⊢
      simp only [Bool.false_eq_true, Bool.not_eq_true] at he
      simp [he, ih, nonempty]

/-- for every chunk: insert its records, suspend, drop the object, open a new one,
resume with all tokens; then insert the last records (no commit yet) -/
def cyclePrefix (done : List Pack) : List Pack → Pack → List Op
  | [], last => last.map Op.insert
  | c :: rest, last =>
    let done' := if c.isEmpty then done else done ++ [c]
    c.map Op.insert ++ [.suspend, .reopen, .resume (done'.map Tok.pack)] ++ cyclePrefix done' rest last

theorem nonempty_cons (done : List Pack) (c : Pack) (rest : List Pack) :
    done ++ nonempty (c :: rest) = (if c.isEmpty then done else done ++ [c]) ++ nonempty rest := by
  by_cases he : c.isEmpty = true
  · simp [nonempty, he]
  · simp [nonempty, he]

theorem exec_cyclePrefix (fmt : Fmt) (cs : List Pack) (last : Pack) (done : List Pack) (r : Repo)
    (hw : r.wg = some ⟨[], done⟩) (hs : r.stale = []) (hin : ∀ p ∈ done, p ∈ r.upload)
    (hne : ∀ p ∈ done, p.isEmpty = false) (hnd : (done ++ nonempty cs).Nodup) :
    (exec fmt r (cyclePrefix done cs last)).packs = r.packs ∧
    (exec fmt r (cyclePrefix done cs last)).wg = some ⟨last, done ++ nonempty cs⟩ ∧
      StaleOK (exec fmt r (cyclePrefix done cs last)) ⟨last, done ++ nonempty cs⟩ := by
  induction cs generalizing done r with
  | nil =>
    simp only [cyclePrefix, nonempty, List.filter_nil, List.append_nil]
    obtain ⟨h1, _, h3⟩ := exec_inserts fmt last r ⟨[], done⟩ hw
    have ok := staleOK_inserts fmt last r ⟨[], done⟩ hw (staleOK_clean r done hs)
    simp only [List.nil_append] at h3 ok
    exact ⟨h1, h3, ok⟩
  | cons c rest ih =>
    obtain ⟨h1, h2, h3⟩ := exec_inserts fmt c r ⟨[], done⟩ hw
    simp only [List.nil_append] at h3
    have hdone : done.Nodup := (List.nodup_append.mp hnd).1
    have hf : c ∉ done := by
      intro hm
      by_cases he : c.isEmpty = true
      · have := hne c hm
        rw [he] at this; cases this
      · have hc : c ∈ nonempty (c :: rest) := by simp [nonempty, he]
        exact (List.nodup_append.mp hnd).2.2 c hm c hc rfl
    obtain ⟨toks, r1, hsus, hp1, hw1, htoks, hup, hres⟩ :=
      suspend_reopen_resume fmt (exec fmt r (c.map Op.insert)) ⟨c, done⟩ h3
        (fun p hp => by rw [h2]; exact hin p hp) hdone hf
    simp only at htoks
    have hops : cyclePrefix done (c :: rest) last =
        c.map Op.insert ++ (Op.suspend :: Op.reopen :: Op.resume (toks.map Tok.pack) :: cyclePrefix toks rest last) := by
      simp only [cyclePrefix, htoks, List.append_assoc, List.cons_append, List.nil_append]
    have e1 : (step fmt (exec fmt r (c.map Op.insert)) .suspend).1 = r1 := by rw [hsus]
    have e2 : (step fmt r1 .reopen).1 = { r1 with stale := [] } := by simp only [step, hw1]
    have e3 : (step fmt { r1 with stale := [] } (.resume (toks.map Tok.pack))).1 =
        { { r1 with stale := [] } with wg := some ⟨[], toks⟩ } := by
      rw [e2] at hres; rw [hres]
    rw [hops, exec_append, exec_cons, exec_cons, exec_cons, e1, e2, e3]
    have hnd' : (toks ++ nonempty rest).Nodup := by
      rw [htoks, ← nonempty_cons]; exact hnd
    have hne' : ∀ p ∈ toks, p.isEmpty = false := by
      intro p hp
      rw [htoks] at hp
      by_cases he : c.isEmpty = true
      · simp only [he, if_true] at hp; exact hne p hp
      · simp only [he, Bool.false_eq_true, if_false, List.mem_append, List.mem_singleton] at hp
        rcases hp with hp | rfl
        · exact hne p hp
        · simpa using he
    obtain ⟨g1, g2, g3⟩ := ih toks { { r1 with stale := [] } with wg := some ⟨[], toks⟩ } rfl rfl hup hne' hnd'
    have hl : done ++ nonempty (c :: rest) = toks ++ nonempty rest := by rw [htoks, nonempty_cons]
    rw [hl]
    exact ⟨by rw [g1]; show r1.packs = r.packs; rw [hp1, h1], g2, g3⟩

end BreezyVerif.C06
