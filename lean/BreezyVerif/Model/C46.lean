/-
C46 — clean-tree deletes only what was asked for.

The on-disk layout of a working tree is a forest (first-child / next-sibling
encoding of a rose tree, so that every function below is a plain structural
recursion): one entry per directory entry, with the flags the code looks at.
The same layout model is used by C11 (`Model/C11.lean` imports this file).

Modelled code (as it is, not as it should be):
* `breezy/bzr/workingtree.py: InventoryWorkingTree.extras` — `extrasB`
* `breezy/git/workingtree.py: GitWorkingTree.extras` / `_iter_files_recursive` — `filesG`, `extrasG`
* `breezy/clean_tree.py: is_detritus, iter_deletables, _filter_out_nested_controldirs,
  delete_items, clean_tree` — `isDetritus`, `wanted`, `keepNested`, `selected`,
  `deleteItems`, `cleanTree`
-/
namespace BreezyVerif.C46

abbrev Path := List String

/-- what `lstat` + (for symbolic links) `stat` say about a directory entry.
`linkDir` = a symbolic link whose target is a directory (inside or outside the
tree), `linkFile` = any other symbolic link (file target or dangling). -/
inductive Kind where
  | file | dir | linkDir | linkFile
  deriving DecidableEq, Repr

inductive Fmt where
  | bzr | git
  deriving DecidableEq, Repr

structure Info where
  name : String
  kind : Kind
  /-- bzr: the path is in the inventory; git: the path is in the index (for a
  directory: some index entry lies below it) -/
  versioned : Bool
  /-- `tree.is_ignored(path)` is not `None` (the semantics of ignore rules is
  property C48; here it is a parameter evaluated by the real tree) -/
  ignored : Bool
  /-- for an entry named `.bzr` / `.git`: the control-directory probers
  recognise it (`ControlDir.open(parent)` succeeds because of it) -/
  valid : Bool
  /-- C11: the path is an associated file name of a recorded conflict -/
  helper : Bool := false
  deriving DecidableEq, Repr

/-- `cons i kids rest`: entry `i` with directory content `kids`, followed by its
siblings `rest` -/
inductive Forest where
  | nil
  | cons (i : Info) (kids rest : Forest)
  deriving DecidableEq, Repr

namespace Forest

/-- names of the entries of this directory -/
def names : Forest → List String
  | nil => []
  | cons i _ rest => i.name :: rest.names

/-- the entry at a relative path (first match) with its directory content -/
def get : Forest → Path → Option (Info × Forest)
  | nil, _ => none
  | cons i kids rest, p =>
    match p with
    | [] => none
    | n :: q =>
      if i.name = n then (match q with | [] => some (i, kids) | _ :: _ => kids.get q)
      else rest.get p

/-- every path present in the layout -/
def paths : Forest → List Path
  | nil => []
  | cons i kids rest => [i.name] :: (kids.paths.map (i.name :: ·)) ++ rest.paths

/-- remove the entry at `p` with everything below it (`shutil.rmtree` for a
directory, `os.unlink` otherwise); `none` = the path does not exist (ENOENT) -/
def remove : Forest → Path → Option Forest
  | nil, _ => none
  | cons i kids rest, p =>
    match p with
    | [] => none
    | n :: q =>
      if i.name = n then
        (match q with
         | [] => some rest
         | _ :: _ => (kids.remove q).map fun k => cons i k rest)
      else (rest.remove p).map fun r => cons i kids r

/-- is there an entry with this name (any kind) in the directory: `lexists(dir + "/" + n)` -/
def hasName (n : String) : Forest → Bool
  | nil => false
  | cons i _ rest => i.name == n || rest.hasName n

/-- is there a real directory with this name: `osutils.isdir(dir + "/" + n)` (lstat) -/
def hasDir (n : String) : Forest → Bool
  | nil => false
  | cons i _ rest => (i.name == n && i.kind == .dir) || rest.hasDir n

/-- no entry at any depth is versioned -/
def allUnversioned : Forest → Bool
  | nil => true
  | cons i kids rest => !i.versioned && kids.allUnversioned && rest.allUnversioned

/-- well-formed layout: sibling names are distinct, non-empty, not `.`/`..`,
without `/`; only real directories have content -/
def wf : Forest → Bool
  | nil => true
  | cons i kids rest =>
    !rest.names.contains i.name && i.name != "" && i.name != "." && i.name != ".."
      && !i.name.toList.contains '/'
      && (i.kind == .dir || kids == nil) && kids.wf && rest.wf

/-- everything below an unversioned entry is unversioned (bzr: an inventory
entry's parent is an inventory entry; git: a directory counts as versioned iff
an index entry lies below it) -/
def unvClosed : Forest → Bool
  | nil => true
  | cons i kids rest => (i.versioned || kids.allUnversioned) && kids.unvClosed && rest.unvClosed

end Forest

def isCtlName (n : String) : Bool := n == ".bzr" || n == ".git"

/-- `ControlDir.open(dir)` succeeds (does not raise `NotBranchError`): the
directory has an entry `.bzr` or `.git` that the probers recognise.  A control
directory opened *itself* (`ControlDir.open("x/.git")`) is not recognised. -/
def hasCtl : Forest → Bool
  | .nil => false
  | .cons i _ rest => (isCtlName i.name && i.valid) || hasCtl rest

/-- a candidate yielded by `extras()`: tree-relative path, the entry, its content -/
structure Item where
  path : Path
  info : Info
  kids : Forest
  deriving DecidableEq, Repr

def Item.push (n : String) (it : Item) : Item := { it with path := n :: it.path }

/-- every entry of the layout as an item -/
def items : Forest → List Item
  | .nil => []
  | .cons i kids rest => ⟨[i.name], i, kids⟩ :: ((items kids).map (Item.push i.name)) ++ items rest

/-- `InventoryWorkingTree.extras()`: for every versioned directory that is on
disk a real directory and has not become a tree reference (`isdir(d/.bzr)`),
the entries that are not in the inventory and are not named `.bzr`.
Unversioned directories are yielded, never entered. -/
def extrasB : Forest → List Item
  | .nil => []
  | .cons i kids rest =>
    (if i.name == ".bzr" then []
     else if !i.versioned then [⟨[i.name], i, kids⟩]
     else if i.kind == .dir && !kids.hasDir ".bzr" then (extrasB kids).map (Item.push i.name)
     else []) ++ extrasB rest

/-- `BzrGitMapping.is_special_file`: `filename in (self.BZR_DUMMY_FILE,)`; the
default mapping of a local git tree has `BZR_DUMMY_FILE = None`, so no name is
special (the generator keeps producing `.bzrdummy`, the experimental mapping's
value, so that a change of the default shows up in T2) -/
def isSpecialG (_n : String) : Bool := false

/-- `GitWorkingTree._iter_files_recursive(include_dirs=False)`: `os.walk`
without following links; a directory named `.git` or containing an entry `.git`
(tree reference) is pruned; symbolic links to directories are in `dirnames`
and therefore never yielded; `.git` files and the mapping's special file are
skipped. -/
def filesG : Forest → List Item
  | .nil => []
  | .cons i kids rest =>
    (match i.kind with
     | .dir => if i.name == ".git" || kids.hasName ".git" then [] else (filesG kids).map (Item.push i.name)
     | .linkDir => []
     | _ => if i.name == ".git" || isSpecialG i.name then [] else [⟨[i.name], i, kids⟩]) ++ filesG rest

/-- `GitWorkingTree.extras()`: walked files minus index paths -/
def extrasG (f : Forest) : List Item := (filesG f).filter fun it => !it.info.versioned

def extras : Fmt → Forest → List Item
  | .bzr, f => extrasB f
  | .git, f => extrasG f

def detritusSuffixes : List String := [".THIS", ".BASE", ".OTHER", "~", ".tmp"]

def endsWith (s suf : String) : Bool := suf.toList.isSuffixOf s.toList

/-- `clean_tree.is_detritus` -/
def isDetritus (s : String) : Bool :=
  endsWith s ".THIS" || endsWith s ".BASE" || endsWith s ".OTHER" || endsWith s "~" || endsWith s ".tmp"

def joinPath (p : Path) : String := "/".intercalate p

structure Opts where
  unknown : Bool
  ignored : Bool
  detritus : Bool
  dryRun : Bool
  /-- `none`: `no_prompt=True`; `some a`: the user is asked and answers `a` -/
  prompt : Option Bool := none
  deriving DecidableEq, Repr

/-- `iter_deletables`: the per-candidate decision -/
def wanted (o : Opts) (it : Item) : Bool :=
  if o.detritus && isDetritus (joinPath it.path) then true
  else if it.info.ignored then o.ignored
  else o.unknown

/-- `_filter_out_nested_controldirs`: only the candidate itself is probed -/
def keepNested (it : Item) : Bool := !(it.info.kind == .dir && hasCtl it.kids)

/-- some entry of this directory has a control-directory name (any kind) -/
def hasCtlName : Forest → Bool
  | .nil => false
  | .cons i _ rest => isCtlName i.name || hasCtlName rest

/-- some entry at any depth has a control-directory name (`os.walk`, links not followed) -/
def containsCtlName : Forest → Bool
  | .nil => false
  | .cons i kids rest => isCtlName i.name || containsCtlName kids || containsCtlName rest

/-- one of the directories strictly between the tree root and `p` holds a control-directory name -/
def insideNested (f : Forest) (p : Path) : Bool :=
  (List.range p.length).any fun n =>
    n != 0 && match f.get (p.take n) with
      | some (_, k) => hasCtlName k
      | none => false

/-- the filter of the *proposed repair* of `_filter_out_nested_controldirs`
(see the check's report): a candidate is dropped if a component of its path is
a control name, if it lies in a directory (below the root) that holds a control
name, or if it is a directory with a control name anywhere below it -/
def keepFixed (f : Forest) (it : Item) : Bool :=
  !it.path.any isCtlName && !insideNested f it.path &&
    !(it.info.kind == .dir && containsCtlName it.kids)

/-- which `_filter_out_nested_controldirs` the tree implements (probed by the
harness on every run) -/
inductive Filter where
  | asFound | fixed
  deriving DecidableEq, Repr

def keepOf : Filter → Forest → Item → Bool
  | .asFound, _ => keepNested
  | .fixed, f => keepFixed f

/-- the list handed to `delete_items`, for an arbitrary final filter -/
def selectedWith (keep : Item → Bool) (fmt : Fmt) (o : Opts) (f : Forest) : List Item :=
  ((extras fmt f).filter (wanted o)).filter keep

/-- the list handed to `delete_items` by the code as found -/
def selected (fmt : Fmt) (o : Opts) (f : Forest) : List Item := selectedWith keepNested fmt o f

/-- `delete_items(dry_run=False)`: one after the other; a missing path raises
(`os.unlink` → `FileNotFoundError`, not caught) and aborts the loop.  Returns
the layout reached and whether an error was raised. -/
def deleteItems (f : Forest) : List Path → Forest × Bool
  | [] => (f, false)
  | p :: ps =>
    match f.remove p with
    | none => (f, true)
    | some f' => deleteItems f' ps

/-- `clean_tree(...)`: layout afterwards, error flag (for an arbitrary final filter) -/
def cleanTreeWith (keep : Item → Bool) (fmt : Fmt) (o : Opts) (f : Forest) : Forest × Bool :=
  let sel := selectedWith keep fmt o f
  if sel.isEmpty then (f, false)
  else if o.prompt = some false then (f, false)
  else if o.dryRun then (f, false)
  else deleteItems f (sel.map (·.path))

/-- `clean_tree(...)` of the code as found -/
def cleanTree (fmt : Fmt) (o : Opts) (f : Forest) : Forest × Bool := cleanTreeWith keepNested fmt o f

/-- the directories of the layout on which `ControlDir.open` succeeds (checked
against the real function on every generated layout) -/
def nestedRoots (f : Forest) : List Path :=
  ((items f).filter fun it => it.info.kind == .dir && hasCtl it.kids).map (·.path)

/-- insert an entry at a path whose parent exists (used to build layouts from
path-keyed listings, parents first); `none` if the parent is missing or the
name is taken -/
def insert : Forest → Path → Info → Option Forest
  | .nil, p, i =>
    match p with
    | [_] => some (.cons i .nil .nil)
    | _ => none
  | .cons j kids rest, p, i =>
    match p with
    | [] => none
    | n :: q =>
      if j.name = n then
        (match q with
         | [] => none
         | _ :: _ => (insert kids q i).map fun k => .cons j k rest)
      else (insert rest p i).map fun r => .cons j kids r

end BreezyVerif.C46
