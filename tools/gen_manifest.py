#!/usr/bin/env python3
"""Regenerate MANIFEST.json from tools/manifest_src.json (claimed checks +
not_applicable reasons).  Keeps the manifest valid at all times."""
import json
import os

HERE = os.path.dirname(os.path.abspath(__file__))
VERIF = os.path.dirname(HERE)
src = json.load(open(os.path.join(HERE, "manifest_src.json")))
props = [json.loads(l) for l in open(os.path.join(VERIF, "properties.jsonl"))]
ids = [p["id"] for p in props]
hold_path = os.path.join(HERE, "hold.txt")
hold = set(open(hold_path).read().split()) if os.path.exists(hold_path) else set()
checks = []
claimed = set()
for pid in ids:
    cp = os.path.join(HERE, "manifest.d", "%s.json" % pid)
    if not os.path.exists(cp) or pid in hold:
        continue
    c = json.load(open(cp))
    claimed.add(pid)
    checks.append(dict(
        property_id=pid,
        quick_cmd="/venv/bin/python harness/run.py %s --tier quick" % pid,
        thorough_cmd="/venv/bin/python harness/run.py %s --tier thorough" % pid,
        evidence_file="evidence/%s.json" % pid,
        replay_cmd_template="/venv/bin/python harness/run.py %s --replay {path}" % pid,
        engine="lean4+correspondence",
        level_claimed=dict(category="proof", text=c["text"], design_ref="DESIGN.md §5 %s" % pid),
        level_note=c["note"],
        technique=c.get("technique", "Lean 4 theorems about an executable model + differential correspondence with the real code"),
    ))
na = []
for pid in ids:
    if pid in claimed:
        continue
    na.append(dict(property_id=pid, reason=src["not_applicable"].get(
        pid, "not yet claimed: the Lean model and correspondence check for this property are not built yet (see DESIGN.md §8 build order)")))
m = dict(
    version=1,
    setup_cmd="cd lean && lake build && cd .. && /venv/bin/python harness/run.py --selftest-env",
    hooks=dict(guard="BREEZY_VERIF", enable="export BREEZY_VERIF=1 (set by harness/vlib/env.py; no hooks exist in /repo)",
               baseline_off_cmd="cd /repo && /venv/bin/python -m pytest -ra -q -p no:cacheprovider --timeout=900 --continue-on-collection-errors",
               source_commits=src.get("hook_commits", []), add_only=True),
    engines=[dict(name="lean4+correspondence", path="harness/run.py",
                  serves_properties=sorted(claimed),
                  kind_free_text="Lean 4 theorems over executable models (lean/BreezyVerif), tied to /repo by T1 regeneration (tools/extract.py) and T2 differential correspondence + direct oracle (harness/checks)")],
    checks=checks,
    notes=src.get("notes", ""),
    not_applicable=na,
)
with open(os.path.join(VERIF, "MANIFEST.json"), "w") as f:
    json.dump(m, f, indent=1)
    f.write("\n")
print("MANIFEST.json: %d checks, %d not claimed" % (len(checks), len(na)))
