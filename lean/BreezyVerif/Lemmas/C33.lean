import BreezyVerif.Model.C33
/-!
C33 — helper lemmas: list sets, the reachability specification `Reach`, and the
loop invariant showing that the level-wise searcher computes it.
-/
namespace BreezyVerif.C33

/-! ### small list facts -/

theorem mem_dedup {x : Key} {l : List Key} : x ∈ dedup l ↔ x ∈ l := by
  induction l with
  | nil => simp [dedup]
  | cons y ys ih =>
    unfold dedup
    split
    · rw [ih]; simp; intro h; subst h; assumption
    · simp [ih]

theorem nodup_dedup (l : List Key) : (dedup l).Nodup := by
  induction l with
  | nil => simp [dedup]
  | cons y ys ih =>
    unfold dedup
    split
    · exact ih
    · rename_i h
      rw [List.nodup_cons]
      exact ⟨fun hm => h (mem_dedup.mp hm), ih⟩

theorem filter_length_lt {l : List Key} {p p' : Key → Bool}
    (himp : ∀ x, p' x = true → p x = true) (x : Key) (hx : x ∈ l) (hp : p x = true) (hp' : p' x = false) :
    (l.filter p').length < (l.filter p).length := by
  induction l with
  | nil => cases hx
  | cons y ys ih =>
    have hle : ∀ ys : List Key, (ys.filter p').length ≤ (ys.filter p).length := by
      intro ys
      induction ys with
      | nil => simp
      | cons z zs ihz =>
        simp only [List.filter_cons]
        by_cases h1 : p' z = true
        · simp [h1, himp z h1, ihz]
        · by_cases h2 : p z = true <;> simp [h1, h2] <;> omega
    simp only [List.filter_cons]
    rcases List.mem_cons.mp hx with rfl | hx
    · simp [hp, hp']
      have := hle ys; omega
    · have := ih hx
      by_cases h1 : p' y = true
      · simp [h1, himp y h1, this]
      · by_cases h2 : p y = true <;> simp [h1, h2] <;> omega

/-! ### parent maps -/

theorem parentsOf_mem {g : PMap} {k : Key} {ps : List Key} (h : parentsOf g k = some ps) :
    (k, ps) ∈ g := by
  induction g with
  | nil => simp [parentsOf] at h
  | cons kv rest ih =>
    obtain ⟨k', ps'⟩ := kv
    simp only [parentsOf] at h
    split at h
    · rename_i hk; subst hk; simp at h; subst h; simp
    · exact List.mem_cons_of_mem _ (ih h)

theorem parentsOf_refs {g : PMap} {k p : Key} {ps : List Key} (h : parentsOf g k = some ps)
    (hp : p ∈ ps) : p ∈ refsOf g := by
  unfold refsOf
  exact List.mem_flatMap.mpr ⟨(k, ps), parentsOf_mem h, hp⟩

theorem parentsOf_isSome_of_mem_keys {g : PMap} {k : Key} (h : k ∈ keysOf g) :
    ∃ ps, parentsOf g k = some ps := by
  induction g with
  | nil => simp [keysOf] at h
  | cons kv rest ih =>
    obtain ⟨k', ps'⟩ := kv
    simp only [parentsOf]
    by_cases hk : k' = k
    · exact ⟨ps', by simp [hk]⟩
    · simp only [hk, if_false]
      apply ih
      simp only [keysOf, List.map_cons, List.mem_cons] at h
      rcases h with h | h
      · exact absurd h.symm hk
      · exact h

theorem mem_keys_of_parentsOf {g : PMap} {k : Key} {ps : List Key} (h : parentsOf g k = some ps) :
    k ∈ keysOf g := by
  unfold keysOf
  exact List.mem_map.mpr ⟨(k, ps), parentsOf_mem h, rfl⟩

/-- in a dict (distinct keys) lookup finds every entry -/
theorem parentsOf_of_mem {g : PMap} (hnd : (keysOf g).Nodup) {k : Key} {ps : List Key}
    (h : (k, ps) ∈ g) : parentsOf g k = some ps := by
  induction g with
  | nil => cases h
  | cons kv rest ih =>
    obtain ⟨k', ps'⟩ := kv
    simp only [keysOf, List.map_cons, List.nodup_cons] at hnd
    simp only [parentsOf]
    rcases List.mem_cons.mp h with heq | hm
    · simp at heq; simp [heq.1, heq.2]
    · have hk : k' ≠ k := by
        intro e; subst e
        exact hnd.1 (List.mem_map.mpr ⟨(k', ps), hm, rfl⟩)
      simp only [hk, if_false]
      exact ih hnd.2 hm

theorem present_iff {g : PMap} {k : Key} : present g k = true ↔ ∃ ps, parentsOf g k = some ps := by
  unfold present
  cases parentsOf g k <;> simp

theorem not_present_iff {g : PMap} {k : Key} : (!present g k) = true ↔ parentsOf g k = none := by
  unfold present
  cases parentsOf g k <;> simp

theorem mem_parentsL {g : PMap} {j k : Key} :
    k ∈ parentsL g j ↔ ∃ ps, parentsOf g j = some ps ∧ k ∈ ps := by
  unfold parentsL
  cases parentsOf g j <;> simp

/-! ### specification: reachability through present, non-stop keys -/

/-- `Reach g stop start k`: `k` is a start key, or a parent of a reached key that
is neither a stop key nor a ghost -/
inductive Reach (g : PMap) (stop start : List Key) : Key → Prop
  | base {k : Key} : k ∈ start → Reach g stop start k
  | step {j k : Key} {ps : List Key} : Reach g stop start j → j ∉ stop →
      parentsOf g j = some ps → k ∈ ps → Reach g stop start k

/-- loop invariant of `bfsLoop` -/
structure Inv (g : PMap) (stop start : List Key) (s : Search) (query : List Key) : Prop where
  nodup : (s.seen ++ query).Nodup
  sound : ∀ k ∈ s.seen ++ query, Reach g stop start k
  startIn : ∀ k ∈ start, k ∈ s.seen ++ query
  closed : ∀ j ∈ s.seen, j ∉ stop → ∀ ps, parentsOf g j = some ps → ∀ k ∈ ps, k ∈ s.seen ++ query
  stoppedC : ∀ k, k ∈ s.stopped ↔ k ∈ s.seen ∧ (k ∈ stop ∨ parentsOf g k = none)
  queriedC : ∀ k, k ∈ s.queried ↔ k ∈ s.seen ∧ k ∉ stop ∧ ∃ ps, parentsOf g k = some ps
  univ : ∀ k ∈ s.seen ++ query, k ∈ allKeys g start

theorem inv_init (g : PMap) (stop start : List Key) :
    Inv g stop start ⟨[], [], []⟩ (dedup start) where
  nodup := by simpa using nodup_dedup start
  sound := by
    intro k hk
    simp only [List.nil_append] at hk
    exact Reach.base (mem_dedup.mp hk)
  startIn := by intro k hk; simpa using mem_dedup.mpr hk
  closed := by intro j hj; cases hj
  stoppedC := by intro k; simp
  queriedC := by intro k; simp
  univ := by
    intro k hk
    simp only [List.nil_append] at hk
    exact List.mem_append_left _ (mem_dedup.mp hk)

theorem mem_next {g : PMap} {stop seen' query : List Key} {k : Key} :
    k ∈ dedup ((((query.filter (· ∉ stop)).filter (present g)).flatMap (parentsL g)).filter (· ∉ seen')) ↔
      k ∉ seen' ∧ ∃ j ∈ query, j ∉ stop ∧ ∃ ps, parentsOf g j = some ps ∧ k ∈ ps := by
  rw [mem_dedup]
  simp only [List.mem_filter, List.mem_flatMap, decide_eq_true_eq, present_iff, mem_parentsL]
  constructor
  · rintro ⟨⟨j, ⟨⟨hj, hns⟩, _⟩, ps, hps, hk⟩, hseen⟩
    exact ⟨hseen, j, hj, hns, ps, hps, hk⟩
  · rintro ⟨hseen, j, hj, hns, ps, hps, hk⟩
    exact ⟨⟨j, ⟨⟨hj, hns⟩, ps, hps⟩, ps, hps, hk⟩, hseen⟩

theorem inv_advance {g : PMap} {stop start : List Key} {s : Search} {query : List Key}
    (h : Inv g stop start s query) :
    Inv g stop start (advance g stop s query).1 (advance g stop s query).2 := by
  have hnd := List.nodup_append.mp h.nodup
  constructor
  · -- nodup
    show ((s.seen ++ query) ++ dedup _).Nodup
    rw [List.nodup_append]
    refine ⟨h.nodup, nodup_dedup _, ?_⟩
    intro a ha b hb hab
    subst hab
    have := (mem_next.mp hb).1
    exact this ha
  · -- sound
    intro k hk
    rcases List.mem_append.mp hk with hk | hk
    · exact h.sound k hk
    · obtain ⟨_, j, hj, hns, ps, hps, hkps⟩ := mem_next.mp hk
      exact Reach.step (h.sound j (List.mem_append_right _ hj)) hns hps hkps
  · -- start
    intro k hk
    exact List.mem_append_left _ (h.startIn k hk)
  · -- closed
    intro j hj hns ps hps k hk
    show k ∈ (s.seen ++ query) ++ dedup _
    by_cases hin : k ∈ s.seen ++ query
    · exact List.mem_append_left _ hin
    · rcases List.mem_append.mp hj with hj | hj
      · exact absurd (h.closed j hj hns ps hps k hk) hin
      · exact List.mem_append_right _ (mem_next.mpr ⟨hin, j, hj, hns, ps, hps, hk⟩)
  · -- stopped
    intro k
    show k ∈ s.stopped ++ query.filter (· ∈ stop) ++
        (query.filter (· ∉ stop)).filter (fun k => !present g k) ↔
      k ∈ s.seen ++ query ∧ (k ∈ stop ∨ parentsOf g k = none)
    simp only [List.mem_append, List.mem_filter, decide_eq_true_eq, not_present_iff, h.stoppedC]
    constructor
    · rintro ((⟨h1, h2⟩ | ⟨h1, h2⟩) | ⟨⟨h1, h2⟩, h3⟩)
      · exact ⟨Or.inl h1, h2⟩
      · exact ⟨Or.inr h1, Or.inl h2⟩
      · exact ⟨Or.inr h1, Or.inr h3⟩
    · rintro ⟨h1 | h1, h2⟩
      · exact Or.inl (Or.inl ⟨h1, h2⟩)
      · by_cases hs : k ∈ stop
        · exact Or.inl (Or.inr ⟨h1, hs⟩)
        · rcases h2 with h2 | h2
          · exact absurd h2 hs
          · exact Or.inr ⟨⟨h1, hs⟩, h2⟩
  · -- queried
    intro k
    show k ∈ s.queried ++ (query.filter (· ∉ stop)).filter (present g) ↔
      k ∈ s.seen ++ query ∧ k ∉ stop ∧ ∃ ps, parentsOf g k = some ps
    simp only [List.mem_append, List.mem_filter, decide_eq_true_eq, present_iff, h.queriedC]
    constructor
    · rintro (⟨h1, h2, h3⟩ | ⟨⟨h1, h2⟩, h3⟩)
      · exact ⟨Or.inl h1, h2, h3⟩
      · exact ⟨Or.inr h1, h2, h3⟩
    · rintro ⟨h1 | h1, h2, h3⟩
      · exact Or.inl ⟨h1, h2, h3⟩
      · exact Or.inr ⟨⟨h1, h2⟩, h3⟩
  · -- univ
    intro k hk
    rcases List.mem_append.mp hk with hk | hk
    · exact h.univ k hk
    · obtain ⟨_, j, _, _, ps, hps, hkps⟩ := mem_next.mp hk
      exact List.mem_append_right _ (parentsOf_refs hps hkps)

/-- termination measure: keys of the universe not yet seen -/
def mu (g : PMap) (start : List Key) (s : Search) : Nat :=
  ((allKeys g start).filter (· ∉ s.seen)).length

theorem mu_advance {g : PMap} {stop start : List Key} {s : Search} {query : List Key}
    (h : Inv g stop start s query) (hq : query ≠ []) :
    mu g start (advance g stop s query).1 < mu g start s := by
  obtain ⟨x, xs, rfl⟩ := List.exists_cons_of_ne_nil hq
  have hnd := List.nodup_append.mp h.nodup
  unfold mu
  apply filter_length_lt (x := x)
  · intro y hy
    simp only [decide_eq_true_eq] at hy ⊢
    intro hy'
    exact hy (by show y ∈ s.seen ++ x :: xs; exact List.mem_append_left _ hy')
  · exact h.univ x (by simp)
  · simp only [decide_eq_true_eq]
    intro hx
    exact hnd.2.2 x hx x (by simp) rfl
  · simp only [decide_eq_false_iff_not, Decidable.not_not]
    show x ∈ s.seen ++ x :: xs
    simp

theorem bfsLoop_inv (g : PMap) (stop start : List Key) :
    ∀ (fuel : Nat) (s : Search) (query : List Key), Inv g stop start s query →
      mu g start s < fuel → ∃ s', bfsLoop g stop fuel s query = some s' ∧ Inv g stop start s' [] := by
  intro fuel
  induction fuel with
  | zero => intro s query _ hlt; omega
  | succ fuel ih =>
    intro s query hinv hlt
    unfold bfsLoop
    by_cases hq : query = []
    · subst hq
      exact ⟨s, by simp, hinv⟩
    · have : query.isEmpty = false := by
        cases query with
        | nil => exact absurd rfl hq
        | cons _ _ => rfl
      simp only [this, Bool.false_eq_true, if_false]
      apply ih _ _ (inv_advance hinv)
      have := mu_advance hinv hq
      omega

/-- what a final state satisfying the invariant says -/
theorem inv_final {g : PMap} {stop start : List Key} {s : Search} (h : Inv g stop start s []) :
    s.seen.Nodup ∧ (∀ k, k ∈ s.seen ↔ Reach g stop start k) := by
  refine ⟨by simpa using h.nodup, fun k => ⟨fun hk => h.sound k (by simpa using hk), ?_⟩⟩
  intro hr
  induction hr with
  | base hk => simpa using h.startIn _ hk
  | step _ hns hps hk ih => simpa using h.closed _ ih hns _ hps _ hk

/-! ### consequences for `bfs` -/

theorem bfs_inv (g : PMap) (start stop : List Key) :
    ∃ s, bfs g start stop = some s ∧ Inv g stop start s [] := by
  unfold bfs
  apply bfsLoop_inv g stop start _ _ _ (inv_init g stop start)
  unfold mu allKeys
  have := List.length_filter_le (fun x => decide (x ∉ ([] : List Key))) (start ++ refsOf g)
  simp only at this ⊢
  omega

theorem mem_included {g : PMap} {stop start : List Key} {s : Search} (h : Inv g stop start s []) (k : Key) :
    k ∈ s.included ↔ Reach g stop start k ∧ k ∉ stop ∧ ∃ ps, parentsOf g k = some ps := by
  unfold Search.included
  simp only [List.mem_filter, decide_eq_true_eq, h.stoppedC, (inv_final h).2]
  constructor
  · rintro ⟨hr, hn⟩
    refine ⟨hr, fun hs => hn ⟨hr, Or.inl hs⟩, ?_⟩
    cases hp : parentsOf g k with
    | none => exact absurd ⟨hr, Or.inr hp⟩ hn
    | some ps => exact ⟨ps, rfl⟩
  · rintro ⟨hr, hs, ps, hps⟩
    refine ⟨hr, ?_⟩
    rintro ⟨_, h1 | h1⟩
    · exact hs h1
    · rw [hps] at h1; cases h1

theorem nodup_included {g : PMap} {stop start : List Key} {s : Search} (h : Inv g stop start s []) :
    s.included.Nodup := by
  unfold Search.included
  exact List.Nodup.sublist List.filter_sublist (inv_final h).1

/-- same members, both duplicate-free ⇒ same length -/
theorem length_eq_of_mem_iff {a b : List Key} (ha : a.Nodup) (hb : b.Nodup) (h : ∀ k, k ∈ a ↔ k ∈ b) :
    a.length = b.length :=
  ((List.perm_ext_iff_of_nodup ha hb).mpr h).length_eq

/-! ### acyclic graphs and the exactness argument -/

/-- `d` witnesses acyclicity: it strictly grows from every key to its parents -/
def Acyclic (d : Key → Nat) (g : PMap) : Prop := ∀ kv ∈ g, ∀ p ∈ kv.2, d kv.1 < d p

instance (d : Key → Nat) (g : PMap) : Decidable (Acyclic d g) := by unfold Acyclic; infer_instance

/-- the client cache agrees with the repository on every cached key -/
def SubMap (pm g : PMap) : Prop := ∀ kv ∈ pm, parentsOf g kv.1 = some kv.2

instance (pm g : PMap) : Decidable (SubMap pm g) := by unfold SubMap; infer_instance

theorem acyclic_lt {d : Key → Nat} {g : PMap} (h : Acyclic d g) {k p : Key} {ps : List Key}
    (hps : parentsOf g k = some ps) (hp : p ∈ ps) : d k < d p :=
  h (k, ps) (parentsOf_mem hps) p hp

theorem subMap_parents {pm g : PMap} (h : SubMap pm g) {k : Key} {ps : List Key}
    (hps : parentsOf pm k = some ps) : parentsOf g k = some ps :=
  h (k, ps) (parentsOf_mem hps)

/-- The core argument.  If a key set `K` of present, non-stop keys is generated
from `start` by parent steps inside `K`, and every parent step out of `K` lands
on a stop key or a ghost, then in an acyclic graph the keys reached and kept by
the walk are exactly `K`. -/
theorem reach_exact (g : PMap) (d : Key → Nat) (start stop K : List Key)
    (hac : Acyclic d g)
    (hKp : ∀ k ∈ K, ∃ ps, parentsOf g k = some ps) (hKs : ∀ k ∈ K, k ∉ stop)
    (hsrc : ∀ k ∈ K, k ∈ start ∨ ∃ j ∈ K, ∃ ps, parentsOf g j = some ps ∧ k ∈ ps)
    (hclosed : ∀ j ∈ K, ∀ ps, parentsOf g j = some ps → ∀ p ∈ ps,
      p ∈ K ∨ p ∈ stop ∨ parentsOf g p = none)
    (hstart : ∀ k ∈ start, k ∈ K ∨ k ∈ stop ∨ parentsOf g k = none) (k : Key) :
    (Reach g stop start k ∧ k ∉ stop ∧ ∃ ps, parentsOf g k = some ps) ↔ k ∈ K := by
  constructor
  · rintro ⟨hr, hns, ps, hps⟩
    have key : ∀ k, Reach g stop start k → k ∈ K ∨ k ∈ stop ∨ parentsOf g k = none := by
      intro k hr
      induction hr with
      | base hk => exact hstart _ hk
      | step _ hjs hjp hkp ih =>
        rcases ih with ih | ih | ih
        · exact hclosed _ ih _ hjp _ hkp
        · exact absurd ih hjs
        · rw [hjp] at ih; cases ih
    rcases key k hr with h | h | h
    · exact h
    · exact absurd h hns
    · rw [hps] at h; cases h
  · intro hk
    refine ⟨?_, hKs k hk, hKp k hk⟩
    -- strong induction on the rank of k
    have key : ∀ n, ∀ k, d k = n → k ∈ K → Reach g stop start k := by
      intro n
      induction n using Nat.strongRecOn with
      | _ n ih =>
        intro k hd hk
        rcases hsrc k hk with h | ⟨j, hj, ps, hps, hkps⟩
        · exact Reach.base h
        · have hlt := acyclic_lt hac hps hkps
          exact Reach.step (ih (d j) (by omega) j rfl hj) (hKs j hj) hps hkps
    exact key (d k) k rfl hk

/-! ### `_find_possible_heads` respects the depth limit -/

/-- `ChildSteps pm n r h`: `h` is reached from `r` by `n` child steps in the cache -/
inductive ChildSteps (pm : PMap) : Nat → Key → Key → Prop
  | zero {r : Key} : ChildSteps pm 0 r r
  | succ {n : Nat} {r c h : Key} : c ∈ childrenOf pm r → ChildSteps pm n c h → ChildSteps pm (n + 1) r h

theorem headsLoop_within (pm : PMap) : ∀ (depth : Nat) (heads roots walked : List Key) (h : Key),
    h ∈ headsLoop pm depth heads roots walked →
      h ∈ heads ∨ ∃ n, n ≤ depth ∧ ∃ r ∈ roots, ChildSteps pm n r h := by
  intro depth
  induction depth with
  | zero =>
    intro heads roots walked h hh
    simp only [headsLoop, List.mem_append] at hh
    rcases hh with hh | hh
    · exact Or.inl hh
    · exact Or.inr ⟨0, Nat.le_refl _, h, hh, ChildSteps.zero⟩
  | succ depth ih =>
    intro heads roots walked h hh
    unfold headsLoop at hh
    split at hh
    · exact Or.inl hh
    · rcases ih _ _ _ h hh with h1 | ⟨n, hn, r', hr', hsteps⟩
      · rcases List.mem_append.mp h1 with h1 | h1
        · exact Or.inl h1
        · exact Or.inr ⟨0, Nat.zero_le _, h, (List.mem_filter.mp h1).1, ChildSteps.zero⟩
      · have := (List.mem_filter.mp (mem_dedup.mp hr')).1
        obtain ⟨r, hr, hc⟩ := List.mem_flatMap.mp this
        exact Or.inr ⟨n + 1, by omega, r, hr, ChildSteps.succ hc hsteps⟩

end BreezyVerif.C33
