import BreezyVerif.Model.C46
/-
C11 — adding files versions exactly the intended paths.

Layout model: `Model/C46.lean` (forest of directory entries with the flags
versioned / ignored / recognised control dir / conflict helper / kind).

Modelled code (as it is):
* `breezy/bzr/inventorytree.py: _SmartAddHelper.add` (+ `_add_one_and_parent`,
  `_gather_dirs_to_add`); `action.skip_file` is a parameter (`Cfg.skip`)
* `breezy/git/workingtree.py: GitWorkingTree.smart_add`

`smart_add` is one structural pass over the layout.  Phase 1 of the code
(version every named path — for bzr with its unversioned parents — whatever the
ignore rules say) does not depend on the walk, so the pass computes for every
entry the flag after phase 1 (`onPath`) and then applies the walk rule of the
mode it is reached in:
  idle  its parent directory is not being scanned
  walk  the parent directory is being scanned (its `os.listdir` loop runs)
An entry is *visited* (taken from the work list) when its parent is scanned and
lists it, or when it is a named directory that phase 1 scheduled:
  git  every named directory is scheduled;
  bzr  `_gather_dirs_to_add` walks the named directories in sorted order of
       their path strings and drops one iff the named directory *just before it
       in that order* is one of its ancestors (`prev_dir` is updated on every
       iteration, also for dropped entries).  So `add a a/b a/c` schedules `a`
       and `a/c`, and `add a a-x a/b` schedules all three.
A directory reached twice (scheduled and listed by its parent's scan) is scanned
twice by the code; the second scan finds everything versioned, so the result is
that of one scan (the `added` list the call returns then has duplicates — not
part of the property).
-/
namespace BreezyVerif.C11
open BreezyVerif.C46

inductive Mode where
  | idle | walk
  deriving DecidableEq, Repr

structure Cfg where
  fmt : Fmt
  /-- tree-relative named paths; `[]` is the tree root (`brz add` without arguments) -/
  names : List Path
  recurse : Bool
  /-- git only: does `smart_add` refuse an explicitly named path of the control
  directory (the code as first found did not — finding `git-tree-named-control-file`,
  repaired; the harness probes the tree) -/
  gitRefusesCtl : Bool := false
  /-- the paths for which `action.skip_file(tree, abspath, kind, stat)` answers
  `True` (`AddAction`: none; `AddWithSkipLargeAction`: regular files larger than
  `add.maximum_file_size`; the predicate is a parameter evaluated by the real
  action).  `_SmartAddHelper.add` consults it for every entry it takes from the
  work list. -/
  skip : List Path := []
  /-- git only: does `GitWorkingTree.smart_add` call `action.skip_file` (the code
  as found never does — finding `git-smart-add-ignores-skip-file`; the harness
  probes the tree) -/
  gitSkips : Bool := false
  deriving Repr

/-- the walk asks the action before it does anything with an entry -/
def consultsSkip (c : Cfg) : Bool := c.fmt == .bzr || c.gitSkips

/-- phase 1: the entry at `p` is versioned because it was named (bzr: or is a
parent of a named path; git: directories are not index entries) -/
def onPath (c : Cfg) (p : Path) (i : Info) : Bool :=
  match c.fmt with
  | .bzr => c.names.any fun n => p.isPrefixOf n
  | .git => c.names.contains p && i.kind != .dir

/-- `ControlDirFormat.find_format(transport)` succeeds on a directory -/
def isNestedTree (i : Info) (kids : Forest) : Bool := i.kind == .dir && hasCtl kids

/-- `user_dirs`: the named paths that are directories on disk (`file_kind`, no
link following); the tree root always is -/
def userDirs (c : Cfg) (f : Forest) : List Path :=
  c.names.filter fun n => n == [] || match f.get n with
    | some (i, _) => i.kind == .dir
    | none => false

/-- order of `sorted(user_dirs)`: Python compares the `/`-joined strings by code point -/
def pathLt (a b : Path) : Bool := decide (joinPath a < joinPath b)

/-- the element of `ud` just before `p` in sorted order (duplicates collapse: `user_dirs` is a dict) -/
def predOf (ud : List Path) (p : Path) : Option Path :=
  ud.foldl (fun best n =>
    if pathLt n p && (match best with | none => true | some b => pathLt b n) then some n else best) none

/-- `_gather_dirs_to_add` yields the named directory `p` -/
def gathered (ud : List Path) (p : Path) : Bool :=
  ud.contains p && match predOf ud p with
    | none => true
    | some d => !d.isPrefixOf p

/-- every entry below `p` on the way down to `n` (`n` included) exists and is unversioned -/
def unversionedBelow (f : Forest) (p n : Path) : Bool :=
  (List.range (n.length + 1)).all fun j =>
    !(decide (p.length < j)) || match f.get (n.take j) with
      | some (i, _) => !i.versioned
      | none => false

/-- phase 1 handles the names in the order given.  Adding an unversioned named path `n` looks up
its nearest versioned ancestor and, if that entry's kind is not `directory`, converts it
(`_convert_to_directory`).  `convBefore names f p`: this happened to `p` before `p` itself (its last
occurrence — `user_dirs` is a dict) was handled: an earlier name lies strictly below `p` with only
unversioned entries on the way. -/
def convBefore (names : List Path) (f : Forest) (p : Path) : Bool :=
  ((names.reverse.dropWhile (· != p)).drop 1).any fun n =>
    p.isPrefixOf n && decide (p.length < n.length) && unversionedBelow f p n

/-- what phase 1 hands to the walk: the named directories and the named paths converted on the way -/
structure Pre where
  ud : List Path
  conv : List Path
  deriving Repr

def preOf (c : Cfg) (f : Forest) : Pre :=
  { ud := userDirs c f, conv := c.names.filter (convBefore c.names f) }

/-- phase 1 puts the named directory at `p` on the work list (`ud` = `userDirs`) -/
def sched (c : Cfg) (ud : List Path) (p : Path) (i : Info) : Bool :=
  c.recurse && match c.fmt with
    | .bzr => gathered ud p
    | .git => c.names.contains p && i.kind == .dir

/-- the `os.listdir` loop of a scanned directory puts this child on the work
list.  bzr: not the tree's control directory; versioned children always,
unversioned ones unless ignored.  git: not the control directory, and never an
ignored child (even a versioned one). -/
def listed (c : Cfg) (p : Path) (i : Info) (v1 : Bool) : Bool :=
  match c.fmt with
  | .bzr => !(p.head? == some ".bzr") && (v1 || !i.ignored)
  | .git => !(p.head? == some ".git") && !i.ignored

/-- a visited entry is passed over (`continue`) before anything is done with it:
the action skips it, or (bzr) it is a conflict helper -/
def passedOver (c : Cfg) (p : Path) (i : Info) : Bool :=
  (consultsSkip c && c.skip.contains p) || (c.fmt == .bzr && i.helper)

/-- the flag of a visited entry.  bzr: a skipped entry or conflict helper is
passed over; an unversioned nested tree is not added; anything else is
versioned.  git: directories are not index entries; a file is added unless it
is in the index or a conflict helper. -/
def visitFlag (c : Cfg) (p : Path) (i : Info) (kids : Forest) (v1 : Bool) : Bool :=
  match c.fmt with
  | .bzr => if passedOver c p i then v1 else v1 || !isNestedTree i kids
  | .git => if i.kind == .dir || passedOver c p i then v1 else v1 || !i.helper

/-- the content of a visited entry is scanned: a real directory that is not a
nested tree and was not passed over -/
def opens (c : Cfg) (p : Path) (i : Info) (kids : Forest) : Bool :=
  i.kind == .dir && !hasCtl kids && !passedOver c p i

/-- bzr: a scheduled named directory that was already *versioned* and holds a
`.bzr` directory is reported by `_get_ie` with kind `tree-reference`
(`_directory_may_be_tree_reference`): its visit does nothing — unless phase 1
converted the entry to a directory before it got to this name (`convBefore`).
(Reached from its parent's scan the raw inventory kind `directory` is used instead.) -/
def namedTreeRef (c : Cfg) (pre : Pre) (p : Path) (i : Info) (kids : Forest) : Bool :=
  c.fmt == .bzr && i.versioned && kids.hasDir ".bzr" && !pre.conv.contains p

/-- is the entry taken from the work list (by its parent's scan, or scheduled) -/
def visited (c : Cfg) (pre : Pre) (p : Path) (m : Mode) (i : Info) (kids : Forest) (v1 : Bool) : Bool :=
  (m == .walk && listed c p i v1) || (sched c pre.ud p i && !namedTreeRef c pre p i kids)

/-- one entry: (versioned flag afterwards, mode of its content) -/
def step (c : Cfg) (pre : Pre) (p : Path) (m : Mode) (i : Info) (kids : Forest) : Bool × Mode :=
  let v1 := i.versioned || onPath c p i
  if visited c pre p m i kids v1 then
    (visitFlag c p i kids v1, if opens c p i kids then .walk else .idle)
  else (v1, .idle)

/-- the whole command on the content of the directory `here`, reached in mode `m` -/
def pass (c : Cfg) (pre : Pre) (here : Path) (m : Mode) : Forest → Forest
  | .nil => .nil
  | .cons i kids rest =>
    let s := step c pre (here ++ [i.name]) m i kids
    .cons { i with versioned := s.1 } (pass c pre (here ++ [i.name]) s.2 kids) (pass c pre here m rest)

/-- the tree root is scanned iff it was named, we recurse and (bzr) the action does not skip it -/
def rootMode (c : Cfg) : Mode :=
  if c.recurse && c.names.contains [] && !(consultsSkip c && c.skip.contains []) then .walk else .idle

inductive Err where
  | forbiddenControlFile | noSuchFile
  deriving DecidableEq, Repr

/-- validation of the named paths, in order: bzr (and git if `refuse`) refuses
names in the tree's control directory; a missing path raises `NoSuchFile` -/
def checkNames (fmt : Fmt) (refuse : Bool) (f : Forest) : List Path → Option Err
  | [] => none
  | p :: ps =>
    if fmt == .bzr && p.head? == some ".bzr" then some .forbiddenControlFile
    else if fmt == .git && refuse && p.head? == some ".git" then some .forbiddenControlFile
    else if p != [] && (f.get p).isNone then some .noSuchFile
    else checkNames fmt refuse f ps

def smartAdd (c : Cfg) (f : Forest) : Except Err Forest :=
  match checkNames c.fmt c.gitRefusesCtl f c.names with
  | some e => .error e
  | none => .ok (pass c (preOf c f) [] (rootMode c) f)

/-- versioned paths of a layout -/
def versionedPaths : Forest → List Path
  | .nil => []
  | .cons i kids rest =>
    (if i.versioned then [[i.name]] else []) ++ (versionedPaths kids).map (i.name :: ·) ++ versionedPaths rest

/-! ### specification side: which entries the walk reaches -/

/-- the mode in which the directory listing that contains the entry `q` is
processed: the mode of the top listing handed down through `step` along the
path (this is what `add_exact` relates the result to) -/
def modeOf (c : Cfg) (pre : Pre) (here : Path) (m : Mode) : Forest → Path → Option Mode
  | .nil, _ => none
  | .cons i kids rest, q =>
    match q with
    | [] => none
    | n :: t =>
      if i.name = n then
        (match t with
         | [] => some m
         | _ :: _ => modeOf c pre (here ++ [i.name]) (step c pre (here ++ [i.name]) m i kids).2 kids t)
      else modeOf c pre here m rest q

/-! ### closed form of the walk (no recursion over the layout: look-ups along the path only) -/

/-- the entry at `d` (`[]` = the tree root) is a scheduled named directory whose content is scanned -/
def startsAt (c : Cfg) (pre : Pre) (f : Forest) (d : Path) : Bool :=
  match d with
  | [] => rootMode c == .walk
  | _ :: _ =>
    match f.get d with
    | some (i, k) => sched c pre.ud d i && !namedTreeRef c pre d i k && opens c d i k
    | none => false

/-- a scan of the parent of `e` goes on into `e`: it is listed (not in the
control directory, not ignored — bzr: unless versioned or on a named path) and
its content is scanned (a real directory, not a nested tree, bzr: not skipped
by the action, not a conflict helper) -/
def passesAt (c : Cfg) (f : Forest) (e : Path) : Bool :=
  match f.get e with
  | some (i, k) => listed c e i (i.versioned || onPath c e i) && opens c e i k
  | none => false

/-- the listing that contains `q` is scanned: some proper prefix `q.take n` of
`q` is a scheduled, scanned named directory (or the named root) and the scan
passes through every entry strictly between it and `q` -/
def reached (c : Cfg) (pre : Pre) (f : Forest) (q : Path) : Bool :=
  (List.range q.length).any fun n =>
    startsAt c pre f (q.take n) &&
      (List.range q.length).all fun j => !(decide (n < j)) || passesAt c f (q.take j)

/-- a listed entry that the walk versions: not in the control directory, not
ignored, (bzr) not skipped by the action, not a conflict helper, (bzr) not a
nested tree / (git) not a directory -/
def eligible (c : Cfg) (q : Path) (i : Info) (k : Forest) : Bool :=
  match c.fmt with
  | .bzr => !(q.head? == some ".bzr") && !i.ignored && !c.skip.contains q && !i.helper && !isNestedTree i k
  | .git => !(q.head? == some ".git") && !i.ignored && !(c.gitSkips && c.skip.contains q) && !i.helper && i.kind != .dir

/-- forget the versioned flags (everything else a layout consists of) -/
def clearV : Forest → Forest
  | .nil => .nil
  | .cons i kids rest => .cons { i with versioned := false } (clearV kids) (clearV rest)

/-- forget the flags of directory entries (git: "some index entry lies below it" — derived, not stored) -/
def eraseDirI (i : Info) : Info := if i.kind == .dir then { i with versioned := false } else i

def eraseDirV : Forest → Forest
  | .nil => .nil
  | .cons i kids rest => .cons (eraseDirI i) (eraseDirV kids) (eraseDirV rest)

end BreezyVerif.C11
