import BreezyVerif.Model.C20
/-! C20 — helper lemmas: the rio text layer. -/
namespace BreezyVerif.C20

/-! ### lines -/

theorem splitNL_ne_nil (v : Str) : splitNL v ≠ [] := by
  induction v with
  | nil => simp [splitNL]
  | cons c r ih =>
    unfold splitNL
    split
    · simp
    · cases h : splitNL r with
      | nil => exact absurd h ih
      | cons l ls => simp

/-- `"\n".join(lines)` -/
def joinNL : List Str → Str
  | [] => []
  | l :: ls => l ++ ls.flatMap fun x => '\n' :: x

theorem joinNL_splitNL (v : Str) : joinNL (splitNL v) = v := by
  induction v with
  | nil => simp [splitNL, joinNL]
  | cons c r ih =>
    unfold splitNL
    split
    · rename_i h; subst h
      simp only [joinNL, List.nil_append]
      cases hs : splitNL r with
      | nil => exact absurd hs (splitNL_ne_nil r)
      | cons l ls =>
        rw [hs] at ih
        simp only [joinNL] at ih
        simp [ih]
    · cases hs : splitNL r with
      | nil => exact absurd hs (splitNL_ne_nil r)
      | cons l ls =>
        rw [hs] at ih
        simp only [joinNL] at ih ⊢
        simp [ih]

theorem splitNL_noNL (v : Str) : ∀ l ∈ splitNL v, '\n' ∉ l := by
  induction v with
  | nil => simp [splitNL]
  | cons c r ih =>
    unfold splitNL
    split
    · intro l hl
      rcases List.mem_cons.mp hl with rfl | hl
      · simp
      · exact ih l hl
    · rename_i hc
      cases hs : splitNL r with
      | nil => exact absurd hs (splitNL_ne_nil r)
      | cons l0 ls =>
        rw [hs] at ih
        intro l hl
        rcases List.mem_cons.mp hl with rfl | hl
        · intro hm
          rcases List.mem_cons.mp hm with h | h
          · exact hc h.symm
          · exact ih l0 (by simp) h
        · exact ih l (by simp [hl])

theorem splitNL_append (l r : Str) (h : '\n' ∉ l) : splitNL (l ++ '\n' :: r) = l :: splitNL r := by
  induction l with
  | nil => simp [splitNL]
  | cons c t ih =>
    have hc : c ≠ '\n' := fun e => h (by simp [e])
    have ht : '\n' ∉ t := fun e => h (by simp [e])
    simp only [List.cons_append]
    rw [splitNL]
    simp only [hc, if_false]
    rw [ih ht]

theorem splitNL_unlines (ls : List Str) (h : ∀ l ∈ ls, '\n' ∉ l) : splitNL (unlines ls) = ls ++ [[]] := by
  induction ls with
  | nil => simp [unlines, splitNL]
  | cons l t ih =>
    have : unlines (l :: t) = l ++ '\n' :: unlines t := by simp [unlines]
    rw [this, splitNL_append l _ (h l (by simp)), ih (fun x hx => h x (by simp [hx]))]
    simp

theorem fileLines_unlines (ls : List Str) (h : ∀ l ∈ ls, '\n' ∉ l) : fileLines (unlines ls) = ls := by
  unfold fileLines
  simp only [splitNL_unlines ls h]
  simp

/-- a line the reader returns unchanged -/
def crSafeLine (l : Str) : Prop := l.getLast? ≠ some '\r'

theorem stripCR_of_safe (l : Str) (h : crSafeLine l) : stripCR l = l := by
  unfold stripCR
  unfold crSafeLine at h
  cases hr : l.reverse with
  | nil => simp [List.reverse_eq_nil_iff.mp hr]
  | cons c t =>
    have hl : l.getLast? = some c := by
      rw [← List.head?_reverse, hr]; rfl
    have hc : c ≠ '\r' := fun e => h (by rw [hl, e])
    have hb : (c == '\r') = false := by simp [hc]
    have : (List.dropWhile (fun c => c == '\r') (c :: t)) = c :: t := by
      simp [List.dropWhile, hb]
    rw [this, ← hr, List.reverse_reverse]

/-! ### blocks -/

theorem splitBlocks_ne_nil (ls : List Str) : splitBlocks ls ≠ [] := by
  induction ls with
  | nil => simp [splitBlocks]
  | cons l r ih =>
    unfold splitBlocks
    split
    · simp
    · cases h : splitBlocks r with
      | nil => exact absurd h ih
      | cons b bs => simp

theorem splitBlocks_block (b : List Str) (hb : ∀ l ∈ b, l ≠ []) : splitBlocks b = [b] := by
  induction b with
  | nil => simp [splitBlocks]
  | cons l t ih =>
    have hl : l.isEmpty = false := by
      have := hb l (by simp); cases l <;> simp_all
    unfold splitBlocks
    simp only [hl, Bool.false_eq_true, if_false]
    rw [ih (fun x hx => hb x (by simp [hx]))]

theorem splitBlocks_append (b rest : List Str) (hb : ∀ l ∈ b, l ≠ []) :
    splitBlocks (b ++ [] :: rest) = b :: splitBlocks rest := by
  induction b with
  | nil => simp [splitBlocks]
  | cons l t ih =>
    have hl : l.isEmpty = false := by
      have := hb l (by simp); cases l <;> simp_all
    simp only [List.cons_append]
    rw [splitBlocks]
    simp only [hl, Bool.false_eq_true, if_false]
    rw [ih (fun x hx => hb x (by simp [hx]))]

theorem blocks_of_body (ss : List Stanza)
    (hne : ∀ s ∈ ss, stanzaLines s ≠ []) (hl : ∀ s ∈ ss, ∀ l ∈ stanzaLines s, l ≠ []) :
    (splitBlocks (bodyLines ss)).takeWhile (fun b => !b.isEmpty) = ss.map stanzaLines := by
  induction ss with
  | nil => simp [bodyLines, splitBlocks]
  | cons s rest ih =>
    have hs : (stanzaLines s).isEmpty = false := by
      have := hne s (by simp); cases h : stanzaLines s <;> simp_all
    cases rest with
    | nil =>
      simp only [bodyLines, List.map_cons, List.map_nil]
      rw [splitBlocks_block _ (hl s (by simp))]
      simp [hs]
    | cons s2 rest2 =>
      have : bodyLines (s :: s2 :: rest2) = stanzaLines s ++ [] :: bodyLines (s2 :: rest2) := rfl
      rw [this, splitBlocks_append _ _ (hl s (by simp))]
      simp only [List.takeWhile_cons, hs, Bool.not_false, if_true, List.map_cons]
      rw [ih (fun x hx => hne x (by simp [hx])) (fun x hx => hl x (by simp [hx]))]
      simp

/-! ### tags and values -/

theorem validTagChar_of_valid (t : Str) (h : validTag t = true) : t ≠ [] ∧ ∀ c ∈ t, validTagChar c = true := by
  unfold validTag at h
  simp only [Bool.and_eq_true, Bool.not_eq_true', List.all_eq_true] at h
  exact ⟨by cases t <;> simp_all, h.2⟩

theorem validTag_facts (t : Str) (h : validTag t = true) :
    (∃ c r, t = c :: r ∧ c ≠ '\t') ∧ ':' ∉ t ∧ '\n' ∉ t := by
  obtain ⟨hne, hall⟩ := validTagChar_of_valid t h
  refine ⟨?_, ?_, ?_⟩
  · cases t with
    | nil => exact absurd rfl hne
    | cons c r =>
      refine ⟨c, r, rfl, ?_⟩
      intro e
      have := hall c (by simp)
      rw [e] at this
      exact absurd this (by decide)
  · intro hm; exact absurd (hall _ hm) (by decide)
  · intro hm; exact absurd (hall _ hm) (by decide)

theorem splitTag_tag (t v : Str) (h : ':' ∉ t) : splitTag (t ++ ':' :: ' ' :: v) = some (t, v) := by
  induction t with
  | nil => simp [splitTag]
  | cons c r ih =>
    have hc : c ≠ ':' := fun e => h (by simp [e])
    have hr : ':' ∉ r := fun e => h (by simp [e])
    cases r with
    | nil =>
      simp only [List.cons_append, List.nil_append]
      rw [splitTag]
      simp [hc, splitTag]
    | cons d r' =>
      have := ih hr
      simp only [List.cons_append] at this ⊢
      rw [splitTag]
      simp [hc, this]

def pendOf (conts : List Str) : Str := conts.flatMap fun x => '\n' :: x

theorem parseLines_conts (conts : List Str) (rest : List Str) (pend : Str) (ps : Stanza)
    (h : parseLines rest = .ok (pend, ps)) :
    parseLines (conts.map (fun l => '\t' :: l) ++ rest) = .ok (pendOf conts ++ pend, ps) := by
  induction conts with
  | nil => simpa [pendOf] using h
  | cons c t ih =>
    simp only [List.map_cons, List.cons_append]
    rw [parseLines, ih]
    simp [pendOf]

theorem parseLines_value (t v : Str) (rest : List Str) (ps : Stanza) (ht : validTag t = true)
    (h : parseLines rest = .ok ([], ps)) :
    parseLines (valueLines t v ++ rest) = .ok ([], (t, v) :: ps) := by
  obtain ⟨⟨c, r, hcr, hct⟩, hcolon, _⟩ := validTag_facts t ht
  unfold valueLines
  cases hs : splitNL v with
  | nil => exact absurd hs (splitNL_ne_nil v)
  | cons l0 conts =>
    have hv : l0 ++ pendOf conts = v := by
      have := joinNL_splitNL v
      rw [hs] at this
      simpa [joinNL, pendOf] using this
    simp only [List.cons_append]
    rw [parseLines, parseLines_conts conts rest [] ps h]
    have hline : t ++ ':' :: ' ' :: l0 = c :: (r ++ ':' :: ' ' :: l0) := by rw [hcr]; rfl
    have hst := splitTag_tag t l0 hcolon
    rw [hline] at hst ⊢
    simp only [hct, if_false, hst, ht, if_true, List.append_nil, hv]

theorem parseLines_stanza (s : Stanza) (hs : ∀ p ∈ s, validTag p.1 = true) :
    parseLines (stanzaLines s) = .ok ([], s) := by
  induction s with
  | nil => simp [stanzaLines, parseLines]
  | cons p t ih =>
    have : stanzaLines (p :: t) = valueLines p.1 p.2 ++ stanzaLines t := by simp [stanzaLines]
    rw [this, parseLines_value p.1 p.2 _ t (hs p (by simp)) (ih (fun q hq => hs q (by simp [hq])))]

theorem parseBlock_stanza (s : Stanza) (hs : ∀ p ∈ s, validTag p.1 = true) :
    parseBlock (stanzaLines s) = .ok s := by
  unfold parseBlock
  rw [parseLines_stanza s hs]

/-- no line of the value ends in CR -/
def crSafe (v : Str) : Prop := ∀ l ∈ splitNL v, l.getLast? ≠ some '\r'

instance (v : Str) : Decidable (crSafe v) := by unfold crSafe; infer_instance

theorem getLast?_append_cons {α : Type} (a : List α) (x : α) (b : List α) :
    (a ++ x :: b).getLast? = (x :: b).getLast? := by
  induction a with
  | nil => rfl
  | cons y t ih =>
    cases h : t ++ x :: b with
    | nil => simp at h
    | cons z w =>
      simp only [List.cons_append, h, List.getLast?_cons_cons]
      rw [← h, ih]

theorem crSafeLine_cons (c : Char) (l : Str) (hc : c ≠ '\r') (hl : l.getLast? ≠ some '\r') :
    (c :: l).getLast? ≠ some '\r' := by
  rw [List.getLast?_cons]
  cases h : l.getLast? with
  | none => simp [hc]
  | some x =>
    simp only [Option.getD_some, ne_eq, Option.some.injEq]
    intro e; exact hl (by rw [h, e])

theorem valueLines_facts (t v : Str) (ht : validTag t = true) (hv : crSafe v) :
    ∀ l ∈ valueLines t v, l ≠ [] ∧ '\n' ∉ l ∧ crSafeLine l := by
  obtain ⟨⟨c, r, hcr, _⟩, _, hnl⟩ := validTag_facts t ht
  unfold valueLines
  cases hs : splitNL v with
  | nil => exact absurd hs (splitNL_ne_nil v)
  | cons l0 conts =>
    have hno := splitNL_noNL v
    unfold crSafe at hv
    rw [hs] at hno hv
    intro l hl
    rcases List.mem_cons.mp hl with rfl | hl
    · refine ⟨by simp, ?_, ?_⟩
      · intro hm
        rcases List.mem_append.mp hm with h | h
        · exact hnl h
        · rcases List.mem_cons.mp h with h | h
          · exact absurd h (by decide)
          · rcases List.mem_cons.mp h with h | h
            · exact absurd h (by decide)
            · exact hno l0 (by simp) h
      · unfold crSafeLine
        rw [getLast?_append_cons, List.getLast?_cons_cons]
        exact crSafeLine_cons ' ' l0 (by decide) (hv l0 (by simp))
    · simp only [List.mem_map] at hl
      obtain ⟨x, hx, rfl⟩ := hl
      refine ⟨by simp, ?_, ?_⟩
      · intro hm
        rcases List.mem_cons.mp hm with h | h
        · exact absurd h (by decide)
        · exact hno x (by simp [hx]) h
      · exact crSafeLine_cons '\t' x (by decide) (hv x (by simp [hx]))

/-- a stanza the text layer reproduces: non-empty, valid tags, CR-safe values -/
def StanzaOk (s : Stanza) : Prop := s ≠ [] ∧ ∀ p ∈ s, validTag p.1 = true ∧ crSafe p.2

theorem valueLines_ne_nil (t v : Str) : valueLines t v ≠ [] := by
  unfold valueLines; split <;> simp

theorem stanzaLines_facts (s : Stanza) (h : StanzaOk s) :
    stanzaLines s ≠ [] ∧ ∀ l ∈ stanzaLines s, l ≠ [] ∧ '\n' ∉ l ∧ crSafeLine l := by
  obtain ⟨hne, hp⟩ := h
  constructor
  · cases s with
    | nil => exact absurd rfl hne
    | cons p t =>
      simp only [stanzaLines, List.flatMap_cons, ne_eq, List.append_eq_nil_iff, not_and]
      intro h1; exact absurd h1 (valueLines_ne_nil _ _)
  · intro l hl
    simp only [stanzaLines, List.mem_flatMap] at hl
    obtain ⟨p, hps, hlp⟩ := hl
    exact valueLines_facts p.1 p.2 (hp p hps).1 (hp p hps).2 l hlp

theorem bodyLines_facts (ss : List Stanza) (h : ∀ s ∈ ss, StanzaOk s) :
    ∀ l ∈ bodyLines ss, '\n' ∉ l ∧ crSafeLine l := by
  induction ss with
  | nil => simp [bodyLines]
  | cons s rest ih =>
    have hs := (stanzaLines_facts s (h s (by simp))).2
    cases rest with
    | nil =>
      intro l hl
      simp only [bodyLines] at hl
      exact (hs l hl).2
    | cons s2 r2 =>
      intro l hl
      have : bodyLines (s :: s2 :: r2) = stanzaLines s ++ [] :: bodyLines (s2 :: r2) := rfl
      rw [this] at hl
      rcases List.mem_append.mp hl with h1 | h1
      · exact (hs l h1).2
      · rcases List.mem_cons.mp h1 with rfl | h1
        · exact ⟨by simp, by simp [crSafeLine]⟩
        · exact ih (fun x hx => h x (by simp [hx])) l h1

theorem mapM_ok {α β : Type} (f : α → Except Err β) (g : β → α) (l : List β)
    (h : ∀ x ∈ l, f (g x) = .ok x) : (l.map g).mapM f = .ok l := by
  induction l with
  | nil => rfl
  | cons x t ih =>
    simp only [List.map_cons, List.mapM_cons, h x (by simp), ih (fun y hy => h y (by simp [hy]))]
    rfl

theorem readStanzas_body (ss : List Stanza) (h : ∀ s ∈ ss, StanzaOk s) :
    readStanzas (unlines (bodyLines ss)) = .ok ss := by
  have hb := bodyLines_facts ss h
  unfold readStanzas
  simp only
  rw [fileLines_unlines _ (fun l hl => (hb l hl).1)]
  have hmap : (bodyLines ss).map stripCR = bodyLines ss := by
    conv => rhs; rw [← List.map_id (bodyLines ss)]
    apply List.map_congr_left
    intro l hl
    exact stripCR_of_safe l (hb l hl).2
  rw [hmap, blocks_of_body ss (fun s hs => (stanzaLines_facts s (h s hs)).1)
    (fun s hs l hl => ((stanzaLines_facts s (h s hs)).2 l hl).1)]
  exact mapM_ok parseBlock stanzaLines ss (fun s hs => parseBlock_stanza s (fun p hp => ((h s hs).2 p hp).1))

theorem afterHeader_unlines (header : Str) (body : List Str) :
    afterHeader header (unlines (header :: body)) = some (unlines body) := by
  have : unlines (header :: body) = (header ++ ['\n']) ++ unlines body := by simp [unlines]
  unfold afterHeader
  rw [this]
  have hp : (header ++ ['\n']).isPrefixOf ((header ++ ['\n']) ++ unlines body) = true := by
    rw [List.isPrefixOf_iff_prefix]; exact List.prefix_append _ _
  rw [hp]
  have hlen : header.length + 1 = (header ++ ['\n']).length := by simp
  simp only [if_true, hlen, List.drop_left]

/-- the text layer round trip: what `_put_rio` writes, the reader reads back -/
theorem getRio_putRio (header : Str) (ss : List Stanza) (h : ∀ s ∈ ss, StanzaOk s) :
    getRio header (some (putRio header ss)) = .ok ss := by
  unfold getRio putRio
  simp only [afterHeader_unlines]
  exact readStanzas_body ss h

end BreezyVerif.C20
