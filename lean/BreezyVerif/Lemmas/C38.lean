import BreezyVerif.Model.C38
/-
Helper lemmas for Props/C38.lean.
-/
namespace BreezyVerif.C38

/-! ### association lists -/

theorem alGet_alSet_same {κ : Type} [DecidableEq κ] (k : κ) (v : B) :
    ∀ (l : List (κ × B)), alGet (alSet k v l) k = some v
  | [] => by simp [alSet, alGet]
  | (k', v') :: rest => by
    simp only [alSet]
    split
    · simp [alGet]
    · rename_i h
      simp only [alGet, h, if_false]
      exact alGet_alSet_same k v rest

theorem alGet_alSet_other {κ : Type} [DecidableEq κ] (k q : κ) (v : B) (hq : k ≠ q) :
    ∀ (l : List (κ × B)), alGet (alSet k v l) q = alGet l q
  | [] => by simp [alSet, alGet, hq]
  | (k', v') :: rest => by
    simp only [alSet]
    split
    · rename_i h
      subst h
      simp [alGet, hq]
    · simp only [alGet]
      split
      · rfl
      · exact alGet_alSet_other k q v hq rest

theorem alSet_of_get_some {κ : Type} [DecidableEq κ] (k : κ) (v : B) :
    ∀ (l : List (κ × B)), alGet l k = some v → alSet k v l = l
  | [], h => by simp [alGet] at h
  | (k', v') :: rest, h => by
    simp only [alGet] at h
    simp only [alSet]
    split at h
    · rename_i hk
      simp only [Option.some.injEq] at h
      subst h; subst hk
      simp
    · rename_i hk
      simp only [hk, if_false]
      rw [alSet_of_get_some k v rest h]

theorem alSet_of_get_none {κ : Type} [DecidableEq κ] (k : κ) (v : B) :
    ∀ (l : List (κ × B)), alGet l k = none → alSet k v l = l ++ [(k, v)]
  | [], _ => by simp [alSet]
  | (k', v') :: rest, h => by
    simp only [alGet] at h
    simp only [alSet]
    split at h
    · simp at h
    · rename_i hk
      simp only [hk, if_false, List.cons_append]
      rw [alSet_of_get_none k v rest h]

theorem alAddNew_eq_alSet {κ : Type} [DecidableEq κ] (l : List (κ × B)) (k : κ) (v : B)
    (h : alOK l k v = true) : alAddNew k v l = alSet k v l := by
  unfold alOK at h
  unfold alAddNew
  cases hg : alGet l k with
  | none => simp only; rw [alSet_of_get_none k v l hg]
  | some v' =>
    simp only [hg, beq_iff_eq] at h
    subst h
    simp only
    rw [alSet_of_get_some k v' l hg]

theorem alGet_none_of_no_key {κ : Type} [DecidableEq κ] (k : κ) :
    ∀ (l : List (κ × B)), (∀ e ∈ l, e.1 ≠ k) → alGet l k = none
  | [], _ => rfl
  | (k', v') :: rest, h => by
    have h1 : k' ≠ k := h (k', v') (by simp)
    simp only [alGet, h1, if_false]
    exact alGet_none_of_no_key k rest (fun e he => h e (by simp [he]))

theorem alGet_some_of_functional {κ : Type} [DecidableEq κ] (k : κ) (v : B) :
    ∀ (l : List (κ × B)), (k, v) ∈ l → (∀ e ∈ l, e.1 = k → e.2 = v) → alGet l k = some v
  | [], hm, _ => by simp at hm
  | (k', v') :: rest, hm, hf => by
    simp only [alGet]
    split
    · rename_i hk
      have := hf (k', v') (by simp) hk
      simp at this
      simp [this]
    · rename_i hk
      have hm' : (k, v) ∈ rest := by
        simp only [List.mem_cons, Prod.mk.injEq] at hm
        rcases hm with ⟨h1, _⟩ | h
        · exact absurd h1.symm hk
        · exact h
      exact alGet_some_of_functional k v rest hm' (fun e he => hf e (by simp [he]))

/-! ### the git rows -/

theorem sameKey_refl (e : Entry) : sameKey e e = true := by
  cases e <;> simp [sameKey]

theorem upsertRow_eq (row : Row) :
    ∀ (l : List Row), (∀ r ∈ l, r.1 = row.1 → sameKey r.2 row.2 = true → r = row) →
      upsertRow row l = if row ∈ l then l else l ++ [row]
  | [], _ => by simp [upsertRow]
  | r :: rs, h => by
    simp only [upsertRow]
    by_cases hc : r.1 = row.1 ∧ sameKey r.2 row.2 = true
    · have : r = row := h r (by simp) hc.1 hc.2
      subst this
      simp [hc]
    · have hne : r ≠ row := by
        intro he
        subst he
        exact hc ⟨rfl, sameKey_refl _⟩
      simp only [hc, if_false]
      rw [upsertRow_eq row rs (fun r' hr' => h r' (by simp [hr']))]
      by_cases hm : row ∈ rs
      · simp [hm]
      · have : ¬ (row = r) := fun he => hne he.symm
        simp [hm, this]

theorem addIfNoSha_eq (row : Row) (l : List Row) (h : ∀ r ∈ l, r.1 = row.1 → r = row) :
    addIfNoSha row l = if row ∈ l then l else l ++ [row] := by
  unfold addIfNoSha
  by_cases hm : row ∈ l
  · have : l.any (fun r => r.1 == row.1) = true := by
      rw [List.any_eq_true]
      exact ⟨row, hm, by simp⟩
    simp [hm, this]
  · have : l.any (fun r => r.1 == row.1) = false := by
      rw [Bool.eq_false_iff]
      intro ha
      rw [List.any_eq_true] at ha
      obtain ⟨r, hr, heq⟩ := ha
      have := h r hr (by simpa using heq)
      subst this
      exact hm hr
    simp [hm, this]

theorem replaceRow_eq (conflict : Row → Bool) (row : Row) (l : List Row)
    (h : ∀ r ∈ l, conflict r = true → r = row) :
    replaceRow conflict row l = if row ∈ l then l else l ++ [row] := by
  unfold replaceRow
  by_cases hm : row ∈ l
  · simp only [hm, if_true]
    rw [List.filter_eq_self]
    intro r hr
    by_cases hc : conflict r = true
    · simp [h r hr hc]
    · simp [hc]
  · simp only [hm, if_false]
    congr 1
    rw [List.filter_eq_self]
    intro r hr
    by_cases hc : conflict r = true
    · exact absurd (h r hr hc ▸ hr) hm
    · simpa using hc

theorem treesReplace_eq (s : B) (k : FKey) (l : List (FKey × B)) (h : treesOK l k s = true) :
    treesReplace s k l = alSet k s l := by
  unfold treesOK at h
  rw [List.all_eq_true] at h
  have hf : ∀ e ∈ l, e.1 = k → e.2 = s := by
    intro e he hk
    have := h e he
    simp only [Bool.and_eq_true, Bool.or_eq_true, bne_iff_ne, beq_iff_eq] at this
    rcases this.1 with h1 | h1
    · exact absurd hk h1
    · exact h1
  have hb : ∀ e ∈ l, e.2 = s → e.1 = k := by
    intro e he hs
    have := h e he
    simp only [Bool.and_eq_true, Bool.or_eq_true, bne_iff_ne, beq_iff_eq] at this
    rcases this.2 with h1 | h1
    · exact absurd hs h1
    · exact h1
  unfold treesReplace
  by_cases hm : (k, s) ∈ l
  · simp only [hm, if_true]
    rw [alSet_of_get_some k s l (alGet_some_of_functional k s l hm hf)]
    rw [List.filter_eq_self]
    intro e he
    by_cases hk : e.1 = k
    · have : e = (k, s) := by
        have h2 := hf e he hk
        cases e; simp_all
      simp [this]
    · have : e.2 ≠ s := fun hs => hk (hb e he hs)
      simp [hk, this]
  · simp only [hm, if_false]
    have hnk : ∀ e ∈ l, e.1 ≠ k := by
      intro e he hk
      have h2 := hf e he hk
      apply hm
      have : e = (k, s) := by cases e; simp_all
      exact this ▸ he
    have hns : ∀ e ∈ l, e.2 ≠ s := fun e he hs => hnk e he (hb e he hs)
    rw [alSet_of_get_none k s l (alGet_none_of_no_key k l hnk)]
    congr 1
    rw [List.filter_eq_self]
    intro e he
    simp [hnk e he, hns e he]

/-! ### one step -/

theorem okIndex_rows {st : St} {o : Op} (h : okIndex st o = true) :
    ∀ r ∈ st.git, r.1 = o.row.1 → r = o.row := by
  unfold okIndex at h
  simp only [Bool.and_eq_true, List.all_eq_true] at h
  intro r hr hs
  have := h.1 r hr
  simp only [Bool.or_eq_true, bne_iff_ne, beq_iff_eq] at this
  rcases this with h1 | h1
  · exact absurd hs h1
  · exact h1

theorem step_index_eq_dict (st : St) (o : Op) (h : okIndex st o = true) :
    step .index st o = step .dict st o := by
  have hrows := okIndex_rows h
  have hgit : addIfNoSha o.row st.git = upsertRow o.row st.git := by
    rw [addIfNoSha_eq o.row st.git hrows,
      upsertRow_eq o.row st.git (fun r hr hs _ => hrows r hr hs)]
  have hmap : mapOK st o = true := by
    unfold okIndex at h
    simp only [Bool.and_eq_true] at h
    exact h.2
  cases o with
  | commit r s t tm =>
    simp only [step, hgit]
    rw [alAddNew_eq_alSet st.commits r s (by simpa [mapOK] using hmap)]
  | blob s f r =>
    simp only [step, hgit]
    rw [alAddNew_eq_alSet st.blobs (f, r) s (by simpa [mapOK] using hmap)]
  | tree s f r =>
    simp only [step, hgit]
    rw [alAddNew_eq_alSet st.trees (f, r) s (by simpa [mapOK] using hmap)]

theorem okSqlite_key {st : St} {o : Op} (h : okSqlite st o = true) :
    ∀ r ∈ st.git, sameKey r.2 o.entry = true → r = o.row := by
  unfold okSqlite at h
  simp only [Bool.and_eq_true, List.all_eq_true] at h
  intro r hr hk
  have := (h.1 r hr).1
  simp only [Bool.or_eq_true, Bool.not_eq_true', beq_iff_eq] at this
  rcases this with h1 | h1
  · rw [hk] at h1; cases h1
  · exact h1

theorem okSqlite_tree {st : St} {o : Op} (h : okSqlite st o = true) :
    ∀ r ∈ st.git, isTreeOp o = true → isTreeRow r = true → r.1 = o.sha → r = o.row := by
  unfold okSqlite at h
  simp only [Bool.and_eq_true, List.all_eq_true] at h
  intro r hr h1 h2 h3
  have := (h.1 r hr).2
  simp only [Bool.or_eq_true, Bool.not_eq_true', beq_iff_eq, Bool.and_eq_false_iff] at this
  rcases this with (h4 | h4) | h4
  · rcases h4 with h4 | h4
    · rw [h1] at h4; cases h4
    · rw [h2] at h4; cases h4
  · simp [h3] at h4
  · exact h4

theorem step_sqlite_eq_dict (st : St) (o : Op) (h : okSqlite st o = true) :
    step .sqlite st o = step .dict st o := by
  have hkey := okSqlite_key h
  have hup : upsertRow o.row st.git = if o.row ∈ st.git then st.git else st.git ++ [o.row] :=
    upsertRow_eq o.row st.git (fun r hr _ hk => hkey r hr hk)
  have h2 := h
  cases o with
  | commit r s t tm =>
    simp only [step, hup]
    rw [replaceRow_eq (isCommitOf r) _ st.git (fun x hx hc => by
      apply hkey x hx
      obtain ⟨xs, xe⟩ := x
      cases xe <;> simp_all [isCommitOf, sameKey, Op.entry])]
  | blob s f r =>
    simp only [step, hup]
    rw [replaceRow_eq (isBlobOf (f, r)) _ st.git (fun x hx hc => by
      apply hkey x hx
      obtain ⟨xs, xe⟩ := x
      cases xe <;> simp_all [isBlobOf, sameKey, Op.entry])]
  | tree s f r =>
    have htree := okSqlite_tree h
    simp only [step, hup]
    rw [replaceRow_eq (treeConflict s (f, r)) _ st.git (fun x hx hc => by
      obtain ⟨xs, xe⟩ := x
      cases xe with
      | commit => simp [treeConflict] at hc
      | blob => simp [treeConflict] at hc
      | tree f' r' =>
        simp only [treeConflict, Bool.or_eq_true, beq_iff_eq, Bool.and_eq_true] at hc
        rcases hc with hc | hc
        · exact htree _ hx (by simp [isTreeOp]) (by simp [isTreeRow]) (by simpa [Op.sha] using hc)
        · exact hkey _ hx (by simp [sameKey, Op.entry, hc.1, hc.2]))]
    unfold okSqlite at h2
    simp only [Bool.and_eq_true] at h2
    rw [treesReplace_eq s (f, r) st.trees h2.2]

theorem run_eq_of_okSeq (b : Backend) (ok : St → Op → Bool)
    (hstep : ∀ st o, ok st o = true → step b st o = step .dict st o) :
    ∀ (ops : List Op) (st : St), okSeq ok st ops = true → run b st ops = run .dict st ops
  | [], _, _ => rfl
  | o :: ops, st, h => by
    simp only [okSeq, Bool.and_eq_true] at h
    simp only [run, List.foldl_cons]
    rw [hstep st o h.1]
    exact run_eq_of_okSeq b ok hstep ops (step .dict st o) h.2

/-! ### queries on the reference model -/

theorem mem_upsertRow (row : Row) : ∀ (l : List Row), row ∈ upsertRow row l
  | [] => by simp [upsertRow]
  | r :: rs => by
    simp only [upsertRow]
    split
    · simp
    · simp [mem_upsertRow row rs]

theorem upsertRow_filter_other (row : Row) (sha : B) (h : row.1 ≠ sha) :
    ∀ (l : List Row), (upsertRow row l).filter (fun r => r.1 == sha) = l.filter (fun r => r.1 == sha)
  | [] => by simp [upsertRow, h]
  | r :: rs => by
    simp only [upsertRow]
    split
    · rename_i hc
      have : r.1 ≠ sha := by rw [hc.1]; exact h
      simp [List.filter_cons, h, this]
    · simp only [List.filter_cons]
      rw [upsertRow_filter_other row sha h rs]

/-! ### layered index store -/

theorem layerGet_append (a b : Layer) (k : IKey) :
    layerGet (a ++ b) k = match layerGet a k with | some v => some v | none => layerGet b k := by
  induction a with
  | nil => simp [layerGet]
  | cons x xs ih =>
    obtain ⟨k', v'⟩ := x
    simp only [List.cons_append, layerGet]
    split
    · rfl
    · exact ih

theorem filesGet_eq_flat (ls : List Layer) (k : IKey) : filesGet ls k = layerGet (ls.flatMap id) k := by
  induction ls with
  | nil => simp [filesGet, layerGet]
  | cons l rest ih =>
    simp only [filesGet, List.flatMap_cons, id, layerGet_append]
    cases layerGet l k with
    | some v => rfl
    | none => exact ih

theorem layerGet_mem : ∀ (l : Layer) (k : IKey) (v : B), layerGet l k = some v → (k, v) ∈ l
  | [], _, _, h => by simp [layerGet] at h
  | (k', v') :: rest, k, v, h => by
    simp only [layerGet] at h
    split at h
    · rename_i hk
      simp only [Option.some.injEq] at h
      subst h; subst hk
      simp
    · simp [layerGet_mem rest k v h]

theorem layerGet_none : ∀ (l : Layer) (k : IKey), layerGet l k = none → k ∉ l.map (·.1)
  | [], _, _ => by simp
  | (k', v') :: rest, k, h => by
    simp only [layerGet] at h
    split at h
    · simp at h
    · rename_i hk
      simp only [List.map_cons, List.mem_cons, not_or]
      exact ⟨fun he => hk he.symm, layerGet_none rest k h⟩

theorem layerGet_of_mem_nodup : ∀ (l : Layer) (k : IKey) (v : B), (l.map (·.1)).Nodup → (k, v) ∈ l →
    layerGet l k = some v
  | [], _, _, _, h => by simp at h
  | (k', v') :: rest, k, v, hn, hm => by
    simp only [List.map_cons, List.nodup_cons] at hn
    simp only [layerGet]
    simp only [List.mem_cons, Prod.mk.injEq] at hm
    rcases hm with ⟨h1, h2⟩ | hm
    · simp [h1, h2]
    · have : k' ≠ k := by
        intro he
        subst he
        exact hn.1 (List.mem_map.2 ⟨(k', v), hm, rfl⟩)
      simp only [this, if_false]
      exact layerGet_of_mem_nodup rest k v hn.2 hm

theorem layerGet_perm (l l' : Layer) (hp : l.Perm l') (hn : (l.map (·.1)).Nodup) (k : IKey) :
    layerGet l' k = layerGet l k := by
  have hn' : (l'.map (·.1)).Nodup := (hp.map (·.1)).nodup_iff.1 hn
  cases h : layerGet l k with
  | some v =>
    exact layerGet_of_mem_nodup l' k v hn' (hp.mem_iff.1 (layerGet_mem l k v h))
  | none =>
    cases h' : layerGet l' k with
    | none => rfl
    | some v =>
      have := layerGet_of_mem_nodup l k v hn (hp.mem_iff.2 (layerGet_mem l' k v h'))
      rw [h] at this
      cases this

end BreezyVerif.C38
