import BreezyVerif.Common
import BreezyVerif.Model.C49
namespace BreezyVerif.C49

/-- a string travels as its code points in decimal joined by `.`; `e` = empty -/
def decStr (s : String) : Option Str :=
  if s == "e" then some [] else
  (s.splitOn ".").mapM fun f => (f.toNat?).bind fun n =>
    if n < 0xd800 ∨ (0xdfff < n ∧ n < 0x110000) then some (Char.ofNat n) else none

def encStr (s : Str) : String :=
  if s.isEmpty then "e" else ".".intercalate (s.map fun c => toString c.toNat)

/-- `k=v` -/
def decOpt (s : String) : Option (Str × Str) :=
  match s.splitOn "=" with
  | [k, v] => do pure ((← decStr k), (← decStr v))
  | _ => none

/-- a section: `id:k=v:k=v…` with id `~` for the no-name section -/
def decSection (s : String) : Option RawSection :=
  match s.splitOn ":" with
  | [] => none
  | i :: os => do
    let id ← (if i == "~" then some none else (decStr i).map some)
    let opts ← os.mapM decOpt
    pure ⟨id, opts⟩

def decSections (s : String) : Option (List RawSection) := (splitList s).mapM decSection

/-- split what the store yields into the no-name section and the prepared named ones;
outer `none` = a section id outside the glob grammar -/
def splitStore (rs : List RawSection) : Option (Option (List (Str × Str)) × List PSec) :=
  let noName := (rs.find? fun r => r.id.isNone).map (·.opts)
  let named := rs.filterMap fun r => r.id.map fun i => (i, r.opts)
  (named.mapM fun io => prepare io.1 io.2).map fun ps => (noName, ps)

def showRes : Res → String
  | .none => "N"
  | .val v => "S " ++ encStr v
  | .unmodelled => "R"

def showSecs (l : List LocSection) : String :=
  joinList (l.map fun s => (match s.id with | some i => encStr i | none => "~") ++ ">" ++ encStr s.extra)

/-- `incl` = the code as it is (the ignoring section is the last one consulted),
`excl` = the loop before fix 5b060e5 (selected by the harness only if the live code behaves so) -/
def cutVariant (s : String) : Option Bool :=
  if s == "excl" then some false else if s == "incl" then some true else none

def locSecs (incl : Bool) (nn : Option (List (Str × Str))) (ps : List PSec) (loc : Str) : List LocSection :=
  if incl then locationSections nn ps loc else locationSectionsExcl nn ps loc

/-! ### store round trip -/

def showOptStr : Option Str → String
  | some v => "S " ++ encStr v
  | none => "E"

def showEntry (e : Entry) : String :=
  (match e.sec with | some i => encStr i | none => "~") ++ ">" ++ encStr e.key ++ ">" ++ encStr e.raw ++ ">" ++ encStr e.comment

def showLoad : Load → String
  | .outside => "O"
  | .error => "E"
  | .opts l => joinList (l.map showEntry)

/-- `k=v,k=v` -/
def decOpts (s : String) : Option (List (Str × Str)) := (splitList s).mapM decOpt

/-- what `Stack.get(k)` finds in a loaded store: through `NameMatcher(sec)` for a named
section; for the no-name section the stack walks ALL sections in file order -/
def findRaw (sec : Option Str) (k : Str) (l : List Entry) : Option Str :=
  (l.find? fun e => (sec.isNone || e.sec == sec) && e.key == k).map (·.raw)

def showGet : Option Str → String
  | some raw => "S " ++ encStr (unquote raw)
  | none => "N"

def showGets (sec : Option Str) (keys : List Str) (l : List Entry) : String :=
  joinList (keys.map fun k => showGet (findRaw sec k l))

/-- one generation: write the section, load it again.  `SE` = ConfigObjError while
quoting, `O` = outside the fragment -/
def saveLoad (sec : Option Str) (opts : List (Str × Str × Str)) : String ⊕ Load :=
  if !(opts.all fun o => plainKey o.1) || !(sec.all plainSec) then .inl "O" else
  match writeSection sec opts with
  | none => .inl "SE"
  | some content => .inr (loadContent content)

/-- set every option on an empty store, save, load, get every key; then set `name := v2`
on the LOADED store, save, load, get every key again -/
def roundTrip (fix : Bool) (sec : Option Str) (name v2 : Str) (opts : List (Str × Str)) : String :=
  let keys := opts.map (·.1)
  match quoteAll fix opts with
  | none => "SE;-"
  | some stored =>
    match saveLoad sec stored with
    | .inl e => e ++ ";-"
    | .inr .outside => "O;-"
    | .inr .error => "LE;-"
    | .inr (.opts l) =>
      let g1 := showGets sec keys l
      if !(l.all fun e => e.sec == sec) then g1 ++ ";O" else
      match storeQuote fix v2 with
      | none => g1 ++ ";SE"
      | some q =>
        let cur := l.map fun e => (e.key, e.raw, e.comment)
        let cur2 := if cur.any (·.1 == name) then cur.map (fun o => if o.1 == name then (o.1, q, o.2.2) else o)
                    else cur ++ [(name, q, [])]
        match saveLoad sec cur2 with
        | .inl e => g1 ++ ";" ++ e
        | .inr .outside => g1 ++ ";O"
        | .inr .error => g1 ++ ";LE"
        | .inr (.opts l2) => g1 ++ ";" ++ showGets sec keys l2

/-- `lm variant loc name secs` / `sp loc name secs`: Stack.get through LocationMatcher / StartingPathMatcher;
`ms variant loc secs` / `ss loc secs`: the sections they yield (id>extra_path);
`it loc names`: `_iter_for_location_by_parts`; `uq v`: unquote; `bn v`: basename; `jn a b`: join;
`br loc`: the branch name a LocationMatcher derives from the location (segment parameter or basename);
`cq 0|1 v`: `_quote` with list_values off/on; `cq s|sfix v`: `IniFileStore.quote` (as is / with the blank fix); `ld content`: load a file; `sl content`: its lines;
`pv x lines`: one value (+ following lines); `wt`: the whitespace / line-break tables (all code points);
`rt s|sfix sec name v2 opts`: the whole round trip, two generations -/
def handle : List String → String
  | ["lm", v, loc, name, secs] =>
    match cutVariant v, decStr loc, decStr name, decSections secs with
    | some v, some loc, some name, some rs =>
      match splitStore rs, segBranch loc with
      | _, .invalid => "E:InvalidURL"
      | _, .outside => "G"
      | some (nn, ps), _ => showRes (stackGet (locSecs v nn ps loc) name)
      | none, _ => "G"
    | _, _, _, _ => "bad-op"
  | ["sp", loc, name, secs] =>
    match decStr loc, decStr name, decSections secs with
    | some loc, some name, some rs =>
      match splitStore rs with
      | some (nn, ps) => showRes (stackGet (startingSections nn ps loc) name)
      | none => "G"
    | _, _, _ => "bad-op"
  | ["ms", v, loc, secs] =>
    match cutVariant v, decStr loc, decSections secs with
    | some v, some loc, some rs =>
      match splitStore rs, segBranch loc with
      | _, .invalid => "E:InvalidURL"
      | _, .outside => "G"
      | some (nn, ps), _ => showSecs (locSecs v nn ps loc)
      | none, _ => "G"
    | _, _, _ => "bad-op"
  | ["ss", loc, secs] =>
    match decStr loc, decSections secs with
    | some loc, some rs =>
      match splitStore rs with
      | some (nn, ps) => showSecs (startingSections nn ps loc)
      | none => "G"
    | _, _ => "bad-op"
  | ["it", loc, names] =>
    match decStr loc, (splitList names).mapM decStr with
    | some loc, some ns =>
      match ns.mapM fun n => prepare n [] with
      | some ps => joinList ((iterByParts ps loc).map fun m =>
          encStr m.1.id ++ ">" ++ encStr m.2.1 ++ ">" ++ toString m.2.2)
      | none => "G"
    | _, _ => "bad-op"
  | ["uq", v] =>
    match decStr v with
    | some v => encStr (unquote v)
    | none => "bad-op"
  | ["br", v] =>
    match decStr v with
    | some v =>
      match segBranch v with
      | .invalid => "E:InvalidURL"
      | .outside => "G"
      | _ => encStr (branchOf v)
    | none => "bad-op"
  | ["bn", v] =>
    match decStr v with
    | some v => encStr (urlBasename v)
    | none => "bad-op"
  | ["cq", lv, v] =>
    match decStr v with
    | some v =>
      if lv == "1" then showOptStr (cquote true v) else if lv == "0" then showOptStr (cquote false v)
      else if lv == "s" then showOptStr (storeQuote false v) else if lv == "sfix" then showOptStr (storeQuote true v)
      else "bad-op"
    | none => "bad-op"
  | ["ld", c] =>
    match decStr c with
    | some c => showLoad (loadContent c)
    | none => "bad-op"
  | ["sl", c] =>
    match decStr c with
    | some c => joinList ((splitLines c).map encStr)
    | none => "bad-op"
  | ["pv", x, ls] =>
    match decStr x, (splitList ls).mapM decStr with
    | some x, some ls =>
      match parseOptValue x ls with
      | some (raw, used, tail) => encStr raw ++ ">" ++ toString used ++ ">" ++ encStr (tail.dropWhile isSpace)
      | none => "E"
    | _, _ => "bad-op"
  | ["wt"] =>
    let cps := (List.range 0x110000).filter fun n => n < 0xd800 || 0xdfff < n
    let sp := cps.filter fun n => isSpace (Char.ofNat n)
    let lb := cps.filter fun n => isLineBreak (Char.ofNat n)
    joinList (sp.map toString) ++ ";" ++ joinList (lb.map toString)
  | ["rt", q, sec, name, v2, opts] =>
    match (if q == "s" then some false else if q == "sfix" then some true else none),
      (if sec == "~" then some none else (decStr sec).map some), decStr name, decStr v2, decOpts opts with
    | some fix, some sec, some name, some v2, some opts => roundTrip fix sec name v2 opts
    | _, _, _, _, _ => "bad-op"
  | ["jn", a, b] =>
    match decStr a, decStr b with
    | some a, some b => encStr (joinPath a b)
    | _, _ => "bad-op"
  | _ => "bad-op"

end BreezyVerif.C49

def main : IO Unit := BreezyVerif.runDriver BreezyVerif.C49.handle
