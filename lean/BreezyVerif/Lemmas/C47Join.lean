import BreezyVerif.Model.C47
/-! C47 helper lemmas: `splitpath` / `joinpath` over byte strings. -/
namespace BreezyVerif.C47

/-- `"/".join(cs)` -/
def joinSlash : List Bytes → Bytes
  | [] => []
  | c :: rest => c ++ rest.flatMap (fun x => slash :: x)

theorem splitOn_ne_nil (sep : UInt8) (p : Bytes) : splitOn sep p ≠ [] := by
  induction p with
  | nil => simp [splitOn]
  | cons c cs ih =>
    unfold splitOn; split
    · simp
    · cases h : splitOn sep cs <;> simp [consHead]

theorem splitOn_no_sep (sep : UInt8) (p : Bytes) : ∀ f ∈ splitOn sep p, sep ∉ f := by
  induction p with
  | nil => simp [splitOn]
  | cons c cs ih =>
    intro f hf
    unfold splitOn at hf
    split at hf
    · rcases List.mem_cons.mp hf with rfl | hf
      · simp
      · exact ih f hf
    · rename_i hc
      cases h : splitOn sep cs with
      | nil => exact absurd h (splitOn_ne_nil sep cs)
      | cons g gs =>
        rw [h] at hf ih
        simp only [consHead, List.mem_cons] at hf
        rcases hf with rfl | hf
        · intro hm
          rcases List.mem_cons.mp hm with rfl | hm
          · exact hc rfl
          · exact ih g (by simp) hm
        · exact ih f (by simp [hf])

theorem splitOn_of_no_sep (sep : UInt8) (c : Bytes) (h : sep ∉ c) : splitOn sep c = [c] := by
  induction c with
  | nil => simp [splitOn]
  | cons x xs ih =>
    have hx : x ≠ sep := fun e => h (by simp [e])
    have hxs : sep ∉ xs := fun e => h (by simp [e])
    unfold splitOn
    simp [hx, ih hxs, consHead]

theorem splitOn_append_sep (sep : UInt8) (c t : Bytes) (h : sep ∉ c) :
    splitOn sep (c ++ sep :: t) = c :: splitOn sep t := by
  induction c with
  | nil => simp [splitOn]
  | cons x xs ih =>
    have hx : x ≠ sep := fun e => h (by simp [e])
    have hxs : sep ∉ xs := fun e => h (by simp [e])
    rw [List.cons_append]
    rw [splitOn]
    simp only [hx, if_false]
    rw [ih hxs]
    simp [consHead]

theorem splitOn_joinSlash (cs : List Bytes) (hne : cs ≠ []) (h : ∀ c ∈ cs, slash ∉ c) :
    splitOn slash (joinSlash cs) = cs := by
  match cs, hne with
  | c :: rest, _ =>
    induction rest generalizing c with
    | nil => simp [joinSlash, splitOn_of_no_sep slash c (h c (by simp))]
    | cons d rest ih =>
      have hc : slash ∉ c := h c (by simp)
      have := ih d (by simp) (fun x hx => h x (List.mem_cons_of_mem _ hx))
      simp only [joinSlash, List.flatMap_cons] at this ⊢
      rw [List.cons_append, splitOn_append_sep slash c _ hc, this]

theorem flatMap_sep_eq (l : List Bytes) (h : l ≠ []) :
    l.flatMap (fun x => slash :: x) = slash :: joinSlash l := by
  match l, h with
  | a :: r, _ => simp [joinSlash]

theorem joinSlash_consHead (c : UInt8) (l : List Bytes) (h : l ≠ []) :
    joinSlash (consHead c l) = c :: joinSlash l := by
  match l, h with
  | a :: r, _ => simp [joinSlash, consHead]

theorem joinSlash_splitOn (p : Bytes) : joinSlash (splitOn slash p) = p := by
  induction p with
  | nil => simp [splitOn, joinSlash]
  | cons c cs ih =>
    unfold splitOn
    split
    · rename_i hc
      simp only [joinSlash, List.nil_append]
      rw [flatMap_sep_eq _ (splitOn_ne_nil _ _), ih, hc]
    · rw [joinSlash_consHead _ _ (splitOn_ne_nil _ _), ih]

/-- a component `joinpath` accepts and `splitpath` returns unchanged -/
def validComp (c : Bytes) : Bool := c ≠ [] ∧ slash ∉ c ∧ c ≠ [dot] ∧ c ≠ [dot, dot]

theorem splitpathAux_valid (l : List Bytes) (h : ∀ c ∈ l, validComp c = true) :
    splitpathAux l = .ok l := by
  induction l with
  | nil => simp [splitpathAux]
  | cons c cs ih =>
    have hc := h c (by simp)
    simp only [validComp, decide_eq_true_eq] at hc
    unfold splitpathAux
    simp [hc.1, hc.2.2.1, hc.2.2.2, ih (fun x hx => h x (List.mem_cons_of_mem _ hx))]

theorem getLast?_append_ne (buf c : Bytes) (hc : c ≠ []) (hs : slash ∉ c) :
    (buf ++ c).getLast? ≠ some slash := by
  rw [List.getLast?_append]
  cases hl : c.getLast? with
  | none => exact absurd (List.getLast?_eq_none_iff.mp hl) hc
  | some x =>
    simp only [Option.some_or]
    intro h
    exact hs (List.mem_of_getLast? (h ▸ hl))

theorem foldl_pushPath (buf : Bytes) (cs : List Bytes) (hb : buf ≠ []) (hl : buf.getLast? ≠ some slash)
    (h : ∀ c ∈ cs, validComp c = true) :
    cs.foldl pushPath buf = buf ++ cs.flatMap (fun x => slash :: x) := by
  induction cs generalizing buf with
  | nil => simp
  | cons c cs ih =>
    have hc := h c (by simp)
    simp only [validComp, decide_eq_true_eq] at hc
    have hhead : c.head? ≠ some slash := fun e => hc.2.1 (List.mem_of_head? e)
    simp only [List.foldl_cons, List.flatMap_cons]
    have : pushPath buf c = buf ++ slash :: c := by
      unfold pushPath; simp [hhead, hb, hl]
    rw [this, ih _ (by simp) _ (fun x hx => h x (List.mem_cons_of_mem _ hx))]
    · simp
    · have := getLast?_append_ne (buf ++ [slash]) c hc.1 hc.2.1
      simpa using this

theorem pathjoin_valid (cs : List Bytes) (h : ∀ c ∈ cs, validComp c = true) :
    pathjoin cs = joinSlash cs := by
  unfold pathjoin
  match cs with
  | [] => simp [joinSlash]
  | c :: rest =>
    have hc := h c (by simp)
    simp only [validComp, decide_eq_true_eq] at hc
    have hhead : c.head? ≠ some slash := fun e => hc.2.1 (List.mem_of_head? e)
    simp only [List.foldl_cons, joinSlash]
    have : pushPath [] c = c := by unfold pushPath; simp [hhead]
    rw [this, foldl_pushPath c rest hc.1 ?_ (fun x hx => h x (List.mem_cons_of_mem _ hx))]
    have := getLast?_append_ne [] c hc.1 hc.2.1
    simpa using this

theorem joinpath_valid (cs : List Bytes) (h : ∀ c ∈ cs, validComp c = true) :
    joinpath cs = .ok (joinSlash cs) := by
  unfold joinpath
  have : cs.any (fun p => decide (p = [] ∨ p = [dot, dot])) = false := by
    rw [List.any_eq_false]
    intro c hc
    have := h c hc
    simp only [validComp, decide_eq_true_eq] at this
    simp [this.1, this.2.2.2]
  rw [this]
  simp [pathjoin_valid cs h]

/-- what `splitpath` returns is always a list of valid components -/
theorem splitpathAux_ok_valid (l r : List Bytes) (hl : ∀ f ∈ l, slash ∉ f)
    (h : splitpathAux l = .ok r) : ∀ c ∈ r, validComp c = true := by
  induction l generalizing r with
  | nil => simp [splitpathAux] at h; subst h; simp
  | cons f fs ih =>
    have hfs : ∀ g ∈ fs, slash ∉ g := fun g hg => hl g (List.mem_cons_of_mem _ hg)
    unfold splitpathAux at h
    split at h
    · simp at h
    · rename_i hdd
      split at h
      · exact ih r hfs h
      · rename_i hd
        split at h
        · rename_i r' hr'
          simp only [Except.ok.injEq] at h
          subst h
          intro c hc
          rcases List.mem_cons.mp hc with rfl | hc
          · simp only [validComp, decide_eq_true_eq]
            exact ⟨fun e => hd (Or.inr e), hl c (by simp), fun e => hd (Or.inl e), hdd⟩
          · exact ih r' hfs hr' c hc
        · simp at h

end BreezyVerif.C47
