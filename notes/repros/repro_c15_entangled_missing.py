#!/venv/bin/python
"""C15 family entangled-missing-file: a versioned file that is missing from disk still holds an inventory slot that
the shelving transforms do not see.  Three standalone experiments.
usage: [VERIF_REPO=/path] /venv/bin/python repro_c15_entangled_missing.py   (exit 1 when a defect is present)"""
import os, sys, tempfile, shutil
base = tempfile.mkdtemp(prefix="c15repro-", dir="/var/tmp/imp-C15C16")
os.environ.update(HOME=base, BRZ_HOME=base, BRZ_EMAIL="T <t@e.c>", BRZ_PLUGIN_PATH="-user:-site")
sys.path.insert(0, os.environ.get("VERIF_REPO", "/repo"))
import breezy; breezy.initialize()
import breezy.bzr, breezy.bzr.bzrdir, breezy.bzr.workingtree_4, breezy.bzr.groupcompress_repo
from breezy import shelf, ui, trace
from breezy.controldir import ControlDir, format_registry
from breezy.workingtree import WorkingTree
ui.ui_factory = ui.SilentUIFactory(); trace.be_quiet(True)
bad = 0


def tree(files):
    d = tempfile.mkdtemp(dir=base)
    wt = ControlDir.create_standalone_workingtree(d, format=format_registry.make_controldir("2a"))
    for p in files:
        if p.endswith("/"):
            os.mkdir(d + "/" + p)
        else:
            open(d + "/" + p, "w").write(p + "\n")
    wt.add([p.rstrip("/") for p in files])
    wt.commit("base")
    return wt, d


def shelve(wt, pred):
    with wt.lock_tree_write():
        cr = shelf.ShelfCreator(wt, wt.basis_tree())
        try:
            for ch in cr.iter_shelvable():
                if pred(ch):
                    cr.shelve_change(ch)
            return wt.get_shelf_manager().shelve_changes(cr)
        finally:
            cr.finalize()


def listing(d):
    wt = WorkingTree.open(d)
    with wt.lock_read():
        return sorted(p for p, ie in wt.iter_entries_by_dir() if p)


# 1. swap a <-> b, delete b (the former a) from disk, shelve the rename of the other file
wt, d = tree(["a", "b"])
wt.rename_one("a", "tmp"); wt.rename_one("b", "a"); wt.rename_one("tmp", "b")
os.unlink(d + "/b")
try:
    shelve(wt, lambda ch: ch[0] == "rename")
    try:
        print("1 accepted; versioned paths now:", listing(d))
        l = listing(d)
        if len(l) != len(set(l)):
            print("1 FAILS: two inventory entries for one path"); bad = 1
    except Exception as e:
        print("1 FAILS: the working tree cannot be read after shelving: %s: %s" % (type(e).__name__, e)); bad = 1
except Exception as e:
    print("1 refused (%s): ok" % type(e).__name__)

# 2. a directory with a child is replaced by a file behind brz's back; shelve everything
wt, d = tree(["g/", "g/e"])
shutil.rmtree(d + "/g"); open(d + "/g", "w").write("now a file\n")
try:
    shelve(wt, lambda ch: True)
    ok = os.path.isdir(d + "/g") and os.path.isfile(d + "/g/e")
    print("2 shelve --all:", "ok" if ok else "FAILS: tree not restored to the basis")
    bad |= 0 if ok else 1
except Exception as e:
    print("2 FAILS: shelve --all refused: %s: %s" % (type(e).__name__, str(e).split(":")[0][:80])); bad = 1

# 3. a file is moved into a newly added directory and then deleted from disk; shelve the directory's addition
wt, d = tree(["f"])
os.mkdir(d + "/nd"); wt.add(["nd"]); wt.rename_one("f", "nd/f"); os.unlink(d + "/nd/f")
before = listing(d)
try:
    shelve(wt, lambda ch: ch[0] == "add file")
    print("3 accepted; versioned paths now:", listing(d))
except Exception as e:
    try:
        after = listing(d)
    except Exception as e2:
        after = "unreadable: %s" % type(e2).__name__
    if after != before or not os.path.isdir(d + "/nd"):
        print("3 FAILS: refused with %s AFTER the tree was changed: versioned %r -> %r, nd on disk: %s" % (
            type(e).__name__, before, after, os.path.isdir(d + "/nd"))); bad = 1
    else:
        print("3 refused (%s), tree unchanged: ok" % type(e).__name__)
shutil.rmtree(base, ignore_errors=True)
sys.exit(bad)
