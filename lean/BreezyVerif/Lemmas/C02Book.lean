import BreezyVerif.Lemmas.C02Inv
/-
C02: the literal `merged_ids` / `parent_entries` / `changes` bookkeeping of
`record_iter_changes` (`codeRecordOne`, `mkRecB`, `buildB`) computes what the
specification-level `recordOne` / `mkRec` / `build` compute, provided
`iter_changes` reports a file id exactly when its attributes differ from the
basis entry's.
-/
namespace BreezyVerif.C02

/-! ### `dedup` and filters -/

theorem filter_filter_of_imp {l : List Nat} {p q : Nat → Bool} (h : ∀ a ∈ l, p a = true → q a = true) :
    (l.filter q).filter p = l.filter p := by
  induction l with
  | nil => rfl
  | cons a l ih =>
    have ih' := ih fun b hb => h b (List.mem_cons_of_mem _ hb)
    simp only [List.filter_cons]
    by_cases hq : q a = true
    · simp only [hq, if_true, List.filter_cons, ih']
    · have hp : ¬ p a = true := fun hp => hq (h a List.mem_cons_self hp)
      simp only [hq, hp, if_false]
      exact ih'

theorem dedup_filter (l : List Nat) (p : Nat → Bool) : (dedup l).filter p = dedup (l.filter p) := by
  induction l with
  | nil => rfl
  | cons x xs ih =>
    simp only [dedup, List.filter_cons]
    by_cases hp : p x = true
    · simp only [hp, if_true, dedup, ← ih, List.cons.injEq, true_and]
      rw [List.filter_filter, List.filter_filter]
      apply filter_congr_mem
      intro a _
      exact Bool.and_comm _ _
    · have hp' : p x = false := by simpa using hp
      simp only [hp', Bool.false_eq_true, ↓reduceIte]
      rw [← ih]
      apply filter_filter_of_imp
      intro a _ ha
      simp only [bne_iff_ne, ne_eq]
      intro e; exact hp (e ▸ ha)

/-- removing entries that are *identical* to `e0` from the tail does not change
the de-duplicated revision list that starts with `e0.rev` -/
theorem dedup_drop_identical (e0 : Entry) (xs : List Entry) :
    dedup ((e0 :: xs.filter fun e => some e != some e0).map (·.rev))
      = dedup ((e0 :: xs).map (·.rev)) := by
  simp only [List.map_cons, dedup, List.cons.injEq, true_and]
  rw [dedup_filter, dedup_filter]
  congr 1
  induction xs with
  | nil => rfl
  | cons e xs ih =>
    by_cases he : e = e0
    · subst he
      simp [List.filter_cons, ih]
    · have h1 : (some e != some e0) = true := by simp [he]
      simp only [List.filter_cons, h1, if_true, List.map_cons]
      by_cases hr : (e.rev != e0.rev) = true
      · simp only [hr, if_true, ih]
      · simp only [hr, if_false, ih]

/-! ### the parts of the bookkeeping for parents `b :: others` -/

theorem candEntries_cons (st : State) (b : Rev) (others : List Rev) (f : FileId) :
    candEntries st (b :: others) f
      = (entryIn st f b).toList ++ others.filterMap (entryIn st f) := by
  simp only [candEntries, List.filterMap_cons]
  cases entryIn st f b <;> rfl

theorem laterDiffs_cons (st : State) (b : Rev) (others : List Rev) (f : FileId) :
    laterDiffs st (b :: others) f
      = (others.filterMap (entryIn st f)).filter fun e => some e != entryIn st f b := by
  simp only [laterDiffs]
  induction others with
  | nil => rfl
  | cons q qs ih =>
    simp only [List.filterMap_cons]
    cases hq : entryIn st f q with
    | none => simpa using ih
    | some e =>
      by_cases h : some e = entryIn st f b
      · have : (some e != entryIn st f b) = false := by simp [h]
        simp only [h, if_true, List.filter_cons, this, Bool.false_eq_true, if_false]
        simpa using ih
      · have : (some e != entryIn st f b) = true := by simp [h]
        simp only [h, if_false, List.filter_cons, this, if_true, List.cons.injEq, true_and]
        simpa using ih

/-- `merged_ids.get(f, [basis revision] or [])`, whether or not `f` is in
`merged_ids`: the basis revision followed by the differing later revisions -/
def rawCands (st : State) (ps : List Rev) (f : FileId) : List Rev :=
  ((basisEntry st ps f).toList ++ laterDiffs st ps f).map (·.rev)

/-- de-duplicated, the code's head candidates are the specification's -/
theorem dedup_rawCands (st : State) (ps : List Rev) (f : FileId) :
    dedup (rawCands st ps f) = candidates st ps f := by
  cases ps with
  | nil => rfl
  | cons b others =>
    simp only [rawCands, basisEntry, candidates, candEntries_cons, laterDiffs_cons]
    cases hb : entryIn st f b with
    | none =>
      have : ((others.filterMap (entryIn st f)).filter fun e => some e != (none : Option Entry))
          = others.filterMap (entryIn st f) := by
        apply List.filter_eq_self.mpr
        intro e _; simp
      simp only [Option.toList, List.nil_append, this]
    | some e0 =>
      simp only [Option.toList, List.singleton_append]
      exact dedup_drop_identical e0 _

theorem lastWithRev_some {l : List Entry} {h : Rev} {x : Entry} (hx : lastWithRev l h = some x) :
    x ∈ l ∧ x.rev = h := by
  induction l with
  | nil => simp [lastWithRev] at hx
  | cons e es ih =>
    simp only [lastWithRev] at hx
    cases hl : lastWithRev es h with
    | some y =>
      simp only [hl, Option.some.injEq] at hx
      subst hx
      exact ⟨List.mem_cons_of_mem _ (ih hl).1, (ih hl).2⟩
    | none =>
      simp only [hl] at hx
      by_cases he : (e.rev == h) = true
      · simp only [he, if_true, Option.some.injEq] at hx
        subst hx
        exact ⟨List.mem_cons_self, by simpa using he⟩
      · simp [he] at hx

theorem lastWithRev_none {l : List Entry} {h : Rev} (hx : lastWithRev l h = none) :
    ∀ e ∈ l, e.rev ≠ h := by
  induction l with
  | nil => simp
  | cons e es ih =>
    simp only [lastWithRev] at hx
    cases hl : lastWithRev es h with
    | some y => simp [hl] at hx
    | none =>
      simp only [hl] at hx
      intro e' he'
      rcases List.mem_cons.mp he' with h1 | h1
      · subst h1
        intro e1
        simp [e1] at hx
      · exact ih hl e' h1

/-- in a well-formed repository the entry of `f` is determined by its
last-changed revision -/
theorem WF.entry_unique {st : State} (w : WF st) {f : FileId} {p p' : Rev} {e e' : Entry}
    (h : entryIn st f p = some e) (h' : entryIn st f p' = some e') (hr : e.rev = e'.rev) :
    e = e' := by
  obtain ⟨r, hr1, _, hl⟩ := entryIn_mem h
  obtain ⟨r', hr1', _, hl'⟩ := entryIn_mem h'
  have s1 := w.sound r hr1 f e hl
  have s2 := w.sound r' hr1' f e' hl'
  rw [hr, s2] at s1
  exact (Option.some.inj s1).symm

theorem mem_candEntries {st : State} {ps : List Rev} {f : FileId} {e : Entry} :
    e ∈ candEntries st ps f ↔ ∃ p ∈ ps, entryIn st f p = some e := by
  simp [candEntries, List.mem_filterMap]

/-- `parent_entries[f].get(h)` finds what the specification finds, when `f` is
in `merged_ids` -/
theorem lastWithRev_merged {st : State} (w : WF st) (ps : List Rev) (f : FileId) (h : Rev)
    (hne : laterDiffs st ps f ≠ []) :
    lastWithRev ((basisEntry st ps f).toList ++ laterDiffs st ps f) h = entryWithRev st ps f h := by
  cases ps with
  | nil => exact absurd rfl hne
  | cons b others =>
    -- both lists hold the same entries
    have sub : ∀ e, e ∈ (basisEntry st (b :: others) f).toList ++ laterDiffs st (b :: others) f →
        e ∈ candEntries st (b :: others) f := by
      intro e he
      rw [candEntries_cons]
      rcases List.mem_append.mp he with h1 | h1
      · exact List.mem_append_left _ h1
      · rw [laterDiffs_cons] at h1
        exact List.mem_append_right _ (List.mem_filter.mp h1).1
    have sup : ∀ e, e ∈ candEntries st (b :: others) f →
        e ∈ (basisEntry st (b :: others) f).toList ++ laterDiffs st (b :: others) f := by
      intro e he
      rw [candEntries_cons] at he
      rcases List.mem_append.mp he with h1 | h1
      · exact List.mem_append_left _ h1
      · by_cases hb : some e = entryIn st f b
        · apply List.mem_append_left
          simp only [basisEntry, ← hb, Option.toList, List.mem_singleton]
        · apply List.mem_append_right
          rw [laterDiffs_cons]
          exact List.mem_filter.mpr ⟨h1, by simp [hb]⟩
    have uniq : ∀ e e', e ∈ candEntries st (b :: others) f → e' ∈ candEntries st (b :: others) f →
        e.rev = e'.rev → e = e' := by
      intro e e' he he' hr
      obtain ⟨p, _, hp⟩ := mem_candEntries.mp he
      obtain ⟨p', _, hp'⟩ := mem_candEntries.mp he'
      exact w.entry_unique hp hp' hr
    cases hl : lastWithRev ((basisEntry st (b :: others) f).toList ++ laterDiffs st (b :: others) f) h with
    | some x =>
      obtain ⟨hx, hxr⟩ := lastWithRev_some hl
      cases hf : entryWithRev st (b :: others) f h with
      | some y =>
        simp only [entryWithRev] at hf
        have hy := List.mem_of_find?_eq_some hf
        have hyr : y.rev = h := by simpa using List.find?_some hf
        rw [uniq x y (sub x hx) hy (hxr.trans hyr.symm)]
      | none =>
        simp only [entryWithRev, List.find?_eq_none] at hf
        exact absurd (by simpa using hxr) (hf x (sub x hx))
    | none =>
      have hn := lastWithRev_none hl
      cases hf : entryWithRev st (b :: others) f h with
      | some y =>
        simp only [entryWithRev] at hf
        have hy := List.mem_of_find?_eq_some hf
        have hyr : y.rev = h := by simpa using List.find?_some hf
        exact absurd hyr (hn y (sup y hy))
      | none => rfl

/-- the loop body on the code's candidates and parent entries is `recordOne` -/
theorem processChange_eq (st : State) (c : Commit) (f : FileId) (a : Attr) (pes : List Entry)
    (cands : List Rev) (hc : dedup cands = candidates st c.parents f)
    (hp : ∀ h, heads (textsOf st) f (candidates st c.parents f) = [h] →
      lastWithRev pes h = entryWithRev st c.parents f h) :
    processChange st c f a pes cands = recordOne st c f a := by
  simp only [processChange, recordOne, hc]
  split
  · rename_i h hh
    rw [hp h hh]
  · rfl

theorem synthAttr_self (a : Attr) : synthAttr a a = some a := by
  obtain ⟨p, n, k⟩ := a
  cases k <;> rfl

theorem mergedEntries_eq (st : State) (ps : List Rev) (f : FileId) :
    (laterDiffs st ps f = [] ∧ mergedEntries st ps f = []) ∨
    (laterDiffs st ps f ≠ [] ∧
      mergedEntries st ps f = (basisEntry st ps f).toList ++ laterDiffs st ps f ∧
      mergedEntries st ps f ≠ []) := by
  simp only [mergedEntries]
  cases h : laterDiffs st ps f with
  | nil => left; exact ⟨rfl, rfl⟩
  | cons d ds => right; exact ⟨by simp, rfl, by simp⟩

/-- **the literal bookkeeping refines the specification**, per file id -/
theorem codeRecordOne_eq {st : State} (w : WF st) (c : Commit) (f : FileId) (a : Attr) :
    codeRecordOne st c f a (differs st c f a)
      = .entry (recordOne st c f a).1 (recordOne st c f a).2 := by
  have hraw := dedup_rawCands st c.parents f
  rcases mergedEntries_eq st c.parents f with ⟨hd, hm⟩ | ⟨hd, hm, hmne⟩
  · -- `f` is not in `merged_ids`
    have hcand : candidates st c.parents f = (basisEntry st c.parents f).toList.map (·.rev) := by
      rw [← hraw, rawCands, hd, List.append_nil]
      cases basisEntry st c.parents f <;> rfl
    by_cases hdf : differs st c f a = true
    · simp only [codeRecordOne, hdf, if_true, hm]
      have : processChange st c f a [] ((basisEntry st c.parents f).toList.map (·.rev))
          = recordOne st c f a := by
        simp only [processChange, recordOne]
        have hdd : dedup ((basisEntry st c.parents f).toList.map (·.rev))
            = candidates st c.parents f := by
          rw [hcand]; cases basisEntry st c.parents f <;> rfl
        rw [hdd]
        cases hb : basisEntry st c.parents f with
        | none =>
          rw [hcand, hb]; rfl
        | some e0 =>
          rw [hb] at hcand
          simp only [Option.toList, List.map_cons, List.map_nil] at hcand
          have hh : heads (textsOf st) f (candidates st c.parents f) = [e0.rev] := by
            rw [hcand]; simp [heads, isHead]
          -- the specification finds the basis entry and its attributes differ
          have hfind : entryWithRev st c.parents f e0.rev = some e0 := by
            cases hps : c.parents with
            | nil => simp [hps, basisEntry] at hb
            | cons b others =>
              simp only [hps, basisEntry] at hb
              simp [entryWithRev, candEntries_cons, hb]
          have hct : carryTest e0.attr a = false := by
            simp only [differs, hb, Option.map_some, bne_iff_ne, ne_eq, Option.some.injEq] at hdf
            cases ht : carryTest e0.attr a with
            | false => rfl
            | true => exact absurd ((carryTest_iff _ _).mp ht) hdf
          simp only [hh, lastWithRev, hfind, hct, Bool.false_eq_true, if_false]
      rw [this]
    · -- not reported: the basis entry has the tree's attributes
      have hdf' : differs st c f a = false := by simpa using hdf
      simp only [differs, bne_eq_false_iff_eq] at hdf'
      cases hb : basisEntry st c.parents f with
      | none => simp [hb] at hdf'
      | some e0 =>
        simp only [hb, Option.map_some, Option.some.injEq] at hdf'
        rw [hb] at hcand
        simp only [Option.toList, List.map_cons, List.map_nil] at hcand
        have hfind : entryWithRev st c.parents f e0.rev = some e0 := by
          cases hps : c.parents with
          | nil => simp [hps, basisEntry] at hb
          | cons b others =>
            simp only [hps, basisEntry] at hb
            simp [entryWithRev, candEntries_cons, hb]
        have hct : carryTest e0.attr a = true := (carryTest_iff _ _).mpr hdf'
        have hrec : recordOne st c f a = (e0, none) := by
          simp only [recordOne, hcand]
          have : heads (textsOf st) f [e0.rev] = [e0.rev] := by simp [heads, isHead]
          simp only [this, hfind, hct, if_true]
        have hdfb : differs st c f a = false := by simpa using hdf
        simp only [codeRecordOne, hdfb, Bool.false_eq_true, if_false, hm, hb, hrec]
  · -- `f` is in `merged_ids`
    have hcands : dedup ((mergedEntries st c.parents f).map (·.rev)) = candidates st c.parents f := by
      rw [hm]; exact hraw
    have hpes : ∀ h, lastWithRev (mergedEntries st c.parents f) h = entryWithRev st c.parents f h := by
      intro h; rw [hm]; exact lastWithRev_merged w c.parents f h hd
    have key : ∀ a', processChange st c f a' (mergedEntries st c.parents f)
        ((mergedEntries st c.parents f).map (·.rev)) = recordOne st c f a' := fun a' =>
      processChange_eq st c f a' _ _ hcands fun h _ => hpes h
    obtain ⟨m, ms, hmm⟩ : ∃ m ms, mergedEntries st c.parents f = m :: ms := by
      cases hx : mergedEntries st c.parents f with
      | nil => exact absurd hx hmne
      | cons m ms => exact ⟨m, ms, rfl⟩
    by_cases hdf : differs st c f a = true
    · have := key a
      rw [hmm] at this
      simp only [codeRecordOne, hdf, if_true, hmm, this]
    · have hdfb : differs st c f a = false := by simpa using hdf
      have hdf' := hdfb
      simp only [differs, bne_eq_false_iff_eq] at hdf'
      cases hb : basisEntry st c.parents f with
      | none => simp [hb] at hdf'
      | some e0 =>
        simp only [hb, Option.map_some, Option.some.injEq] at hdf'
        have hs : synthAttr e0.attr a = some a := by rw [hdf']; exact synthAttr_self a
        have := key a
        rw [hmm] at this
        simp only [codeRecordOne, hdfb, Bool.false_eq_true, if_false, hmm, hb, hs, this]

/-! ### whole commits and whole histories -/

theorem texts_filterMap_eq (l : Tree) (R : FileId → Attr → Entry × Option (List Rev)) :
    ((l.map fun t => (t.1, Outcome.entry (R t.1 t.2).1 (R t.1 t.2).2)).filterMap fun o =>
        o.2.textItem o.1)
      = l.filterMap fun t => (R t.1 t.2).2.map fun ps => (t.1, ps) := by
  induction l with
  | nil => rfl
  | cons t l ih =>
    simp only [List.map_cons, List.filterMap_cons, ih]
    cases (R t.1 t.2).2 <;> simp [Outcome.textItem]

theorem inv_filterMap_eq (l : Tree) (R : FileId → Attr → Entry × Option (List Rev)) :
    ((l.map fun t => (t.1, Outcome.entry (R t.1 t.2).1 (R t.1 t.2).2)).filterMap fun o =>
        o.2.invItem o.1)
      = l.map fun t => (t.1, (R t.1 t.2).1) := by
  induction l with
  | nil => rfl
  | cons t l ih =>
    simp only [List.map_cons, List.filterMap_cons, ih]
    rfl

theorem any_undefined_false (l : Tree) (R : FileId → Attr → Entry × Option (List Rev)) :
    ((l.map fun t => (t.1, Outcome.entry (R t.1 t.2).1 (R t.1 t.2).2)).any
      fun o => o.2 == Outcome.undefined) = false := by
  induction l with
  | nil => rfl
  | cons t l ih =>
    simp only [List.map_cons, List.any_cons, ih, Bool.or_false]
    rfl

theorem map_congr_mem {α β : Type} {l : List α} {F G : α → β} (h : ∀ a ∈ l, F a = G a) :
    l.map F = l.map G := by
  induction l with
  | nil => rfl
  | cons a l ih =>
    simp only [List.map_cons, h a List.mem_cons_self,
      ih fun b hb => h b (List.mem_cons_of_mem _ hb)]

/-- one commit: the literal bookkeeping records the same revision -/
theorem mkRecB_eq {st : State} (w : WF st) (c : Commit) (rep : List FileId)
    (hrep : ∀ t ∈ c.tree, rep.contains t.1 = differs st c t.1 t.2) :
    mkRecB st c rep = some (mkRec st c) := by
  have houts : (c.tree.map fun t => (t.1, codeRecordOne st c t.1 t.2 (rep.contains t.1)))
      = c.tree.map fun t => (t.1, Outcome.entry (recordOne st c t.1 t.2).1 (recordOne st c t.1 t.2).2) := by
    apply map_congr_mem
    intro t ht
    rw [hrep t ht, codeRecordOne_eq w]
  simp only [mkRecB, houts, any_undefined_false c.tree (recordOne st c), Bool.false_eq_true,
    if_false, mkRec]
  rw [inv_filterMap_eq c.tree (recordOne st c), texts_filterMap_eq c.tree (recordOne st c)]

theorem buildB_eq : ∀ (hs : List (Commit × List FileId)), hist (hs.map (·.1)) → repsOk hs = true →
    buildB hs = some (build (hs.map (·.1)))
  | [], _, _ => rfl
  | (c, rep) :: older, hh, hr => by
    simp only [repsOk, Bool.and_eq_true, List.all_eq_true, beq_iff_eq] at hr
    have ih := buildB_eq older hh.1 hr.1
    have w := build_WF (older.map (·.1)) hh.1
    simp only [buildB, ih, List.map_cons, build, record, mkRecB_eq w c rep hr.2, Option.map_some]

end BreezyVerif.C02
