/-
C10 — tree comparison (`iter_changes`) in id space.

Inventory-style tree model (also used by C09): file id ↦ entry(parent id,
name, node) where the node carries kind, content, executable bit and symlink
target.  Model of

* `breezy/bzr/inventorytree.py: InterInventoryTree._changes_from_entries`
  (`change`, `Change.isChanged`),
* `InterInventoryTree.iter_changes` (`baseTgt`, `baseRemoved`, generic flavour),
* `InterInventoryTree._handle_precise_ids` (`preciseLoop`, literally: the
  `difference_update` happens *before* the displaced source entries are added,
  results are appended to a list),
* `find_ids_across_trees` (`selectIds`: ids at the filter paths in either tree,
  closed under children in either tree),
* `InterCHKRevisionTree.iter_changes` (flavour `chk`: changed entries first,
  closure, unchanged entries appended afterwards with `(relpath, relpath)`),
* applying a reported change list to the source tree (`applyChanges`),
* the same loop with the fix proposed for the non-termination finding
  (`preciseLoopG true`, `iterChangesG true`; the check probes the real code and
  selects the variant).
-/
namespace BreezyVerif.C10

abbrev Id := String
abbrev Path := List String

inductive Kind where
  | file | dir | symlink
  deriving DecidableEq, Repr

/-- what is stored at an id besides its position -/
inductive Node where
  | file (text : String) (exec : Bool)
  | dir
  | symlink (target : String)
  deriving DecidableEq, Repr

def Node.kind : Node → Kind
  | .file _ _ => .file | .dir => .dir | .symlink _ => .symlink

/-- `_comparison_data(...)[1]`: only files can be executable -/
def Node.exec : Node → Bool
  | .file _ x => x | _ => false

def Node.withExec : Node → Bool → Node
  | .file t _, x => .file t x
  | n, _ => n

structure Entry where
  parent : Option Id          -- `none` for the tree root
  name : String
  node : Node
  deriving DecidableEq, Repr

/-- association list, first match wins -/
abbrev Tree := List (Id × Entry)

def get : Tree → Id → Option Entry
  | [], _ => none
  | (j, e) :: rest, i => if j = i then some e else get rest i

def ids (t : Tree) : List Id := t.map (·.1)

def erase : Tree → Id → Tree
  | [], _ => []
  | (j, e) :: rest, i => if j = i then erase rest i else (j, e) :: erase rest i

/-- replace / insert -/
def set (t : Tree) (i : Id) (e : Entry) : Tree := (i, e) :: erase t i

def childrenOf (t : Tree) (p : Id) : List Id :=
  (t.filter fun x => x.2.parent == some p).map (·.1)

/-- `id2path`; `none` when the parent chain is broken or longer than the fuel
(never the case in a well-formed tree with fuel = number of entries) -/
def pathFuel (t : Tree) : Nat → Id → Option Path
  | 0, _ => none
  | n + 1, i =>
    match get t i with
    | none => none
    | some e =>
      match e.parent with
      | none => some []
      | some p => (pathFuel t n p).map (· ++ [e.name])

def pathOf (t : Tree) (i : Id) : Option Path := pathFuel t (t.length + 1) i

/-- `path2id` -/
def idAt (t : Tree) (p : Path) : Option Id :=
  (ids t).find? fun i => pathOf t i == some p

/-! ### well-formedness -/

def rootsOf (t : Tree) : List Id := (t.filter fun x => x.2.parent.isNone).map (·.1)

/-- unique root, unique ids, parents exist and are directories, sibling names
unique, every entry reaches the root (acyclic) -/
def wf (t : Tree) : Bool :=
  (rootsOf t).length == 1
  && decide (ids t).Nodup
  && t.all (fun x => match x.2.parent with
      | none => x.2.node.kind == .dir
      | some p => match get t p with
        | some pe => pe.node.kind == .dir
        | none => false)
  && t.all (fun x => t.all fun y => x.1 == y.1 || !(x.2.parent == y.2.parent && x.2.name == y.2.name))
  && t.all (fun x => (pathOf t x.1).isSome)

/-! ### change records -/

/-- the per-side part of a `TreeChange`: (parent, name, kind, executable) -/
structure Meta where
  parent : Option Id
  name : String
  kind : Kind
  exec : Bool
  deriving DecidableEq, Repr

def Entry.meta (e : Entry) : Meta := ⟨e.parent, e.name, e.node.kind, e.node.exec⟩

structure Change where
  id : Id
  srcPath : Option Path
  tgtPath : Option Path
  changedContent : Bool
  src : Option Meta       -- `versioned[0]` = `src.isSome`
  tgt : Option Meta
  deriving DecidableEq, Repr

/-- `changed_content` of `_changes_from_entries` -/
def contentChanged : Node → Node → Bool
  | .file a _, .file b _ => a != b
  | .dir, .dir => false
  | .symlink a, .symlink b => a != b
  | _, _ => true

/-- `_changes_from_entries(source_entry, target_entry, …)`; `none` when the id
is in neither tree -/
def change (src tgt : Tree) (i : Id) : Option Change :=
  match get src i, get tgt i with
  | none, none => none
  | some s, none => some ⟨i, pathOf src i, none, true, some s.meta, none⟩
  | none, some t => some ⟨i, none, pathOf tgt i, true, none, some t.meta⟩
  | some s, some t => some ⟨i, pathOf src i, pathOf tgt i, contentChanged s.node t.node, some s.meta, some t.meta⟩

/-- the `changes` flag of `_changes_from_entries` -/
def Change.isChanged (c : Change) : Bool :=
  c.changedContent || c.src.isSome != c.tgt.isSome
    || c.src.map (·.parent) != c.tgt.map (·.parent)
    || c.src.map (·.name) != c.tgt.map (·.name)
    || c.src.map (·.exec) != c.tgt.map (·.exec)

def allIds (src tgt : Tree) : List Id := ids tgt ++ (ids src).filter (fun i => !(ids tgt).contains i)

/-- every id of either tree with its record (`include_unchanged=True`, no filter) -/
def allRecords (src tgt : Tree) : List Change := (allIds src tgt).filterMap (change src tgt)

/-- the unfiltered result, `include_unchanged=False` -/
def changesOf (src tgt : Tree) : List Change := (allRecords src tgt).filter (·.isChanged)

/-! ### applying a change list -/

/-- apply one record to `t`.  Content is taken from the target tree only when
the record says the content changed, otherwise from the source tree.  `none`
when the record needs content that is not there. -/
def applyOne (src tgt : Tree) (t : Tree) (c : Change) : Option Tree :=
  match c.tgt with
  | none => some (erase t c.id)
  | some m =>
    if c.changedContent then
      match get tgt c.id with
      | some te => some (set t c.id ⟨m.parent, m.name, te.node⟩)
      | none => none
    else
      match get src c.id with
      | some se => some (set t c.id ⟨m.parent, m.name, se.node.withExec m.exec⟩)
      | none => none

def applyList (src tgt : Tree) : Tree → List Change → Option Tree
  | t, [] => some t
  | t, c :: cs => match applyOne src tgt t c with
    | some t' => applyList src tgt t' cs
    | none => none

def applyChanges (src tgt : Tree) (cs : List Change) : Option Tree := applyList src tgt src cs

/-! ### path filters -/

def insertNew (l : List Id) (i : Id) : List Id := if l.contains i then l else l ++ [i]

def unionNew (l m : List Id) : List Id := m.foldl insertNew l

/-- one round of `_find_children_across_trees` -/
def expandChildren (src tgt : Tree) (s : List Id) : List Id :=
  unionNew s (s.flatMap fun i => childrenOf src i ++ childrenOf tgt i)

def iterate {α : Type} (f : α → α) : Nat → α → α
  | 0, a => a
  | n + 1, a => iterate f n (f a)

/-- `find_ids_across_trees(filter, [tgt, src])` -/
def selectIds (src tgt : Tree) (filt : List Path) : List Id :=
  let start := unionNew [] (filt.flatMap fun p => (idAt tgt p).toList ++ (idAt src p).toList)
  iterate (expandChildren src tgt) (src.length + tgt.length) start

/-- the paths of the filter that are versioned in neither tree
(`PathsNotVersionedError` when `require_versioned`) -/
def notVersioned (src tgt : Tree) (filt : List Path) : List Path :=
  filt.filter fun p => (idAt tgt p).isNone && (idAt src p).isNone

inductive Impl where
  | generic   -- InterInventoryTree.iter_changes
  | chk       -- InterCHKRevisionTree.iter_changes
  deriving DecidableEq, Repr

/-- state of `_handle_precise_ids`: ids still to examine, ids already emitted,
records emitted by the closure (in order) -/
structure PState where
  precise : List Id
  changed : List Id
  out : List Change

/-- `precise_file_ids.add(result.parent_id[1])` (`None` is discarded later) -/
def addParent (precise : List Id) (r : Change) : List Id :=
  match r.tgt.bind (·.parent) with
  | some p => insertNew precise p
  | none => precise

/-- `result.kind[0] == "directory" and result.kind[1] != "directory"` -/
def stoppedDir (r : Change) : Bool :=
  r.src.map (·.kind) == some Kind.dir && r.tgt.map (·.kind) != some Kind.dir

/-- the `for file_id in current_ids` body -/
def examine (src tgt : Tree) (st : PState) (i : Id) : PState :=
  match change src tgt i with
  | none => st          -- id in neither tree: not reachable (ids come from one of the trees)
  | some r =>
    if r.isChanged then
      { precise := if stoppedDir r then unionNew (addParent st.precise r) (childrenOf src i)
                   else addParent st.precise r,
        changed := insertNew st.changed i,
        out := st.out ++ [r] }
    else { st with precise := addParent st.precise r }

/-- the `while precise_file_ids` loop; `none` = fuel exhausted -/
def preciseLoop (src tgt : Tree) : Nat → PState → Option (List Change)
  | 0, _ => none
  | n + 1, st =>
    -- discard(None); difference_update(changed_file_ids)
    let p1 := st.precise.filter fun i => !st.changed.contains i
    if p1.isEmpty then some st.out
    else
      -- the source entries occupying the target paths of the needed ids
      let olds := p1.filterMap fun i => (pathOf tgt i).bind (idAt src)
      let current := unionNew p1 olds
      let st' := current.foldl (examine src tgt) { st with precise := [] }
      preciseLoop src tgt n st'

inductive Err where
  | pathsNotVersioned (ps : List Path)
  | fuel
  deriving DecidableEq, Repr

/-- the first loop of `InterInventoryTree.iter_changes`: target entries of the
selected ids -/
def baseTgt (src tgt : Tree) (sel : List Id) (incl : Bool) : List Change :=
  ((ids tgt).filter sel.contains).filterMap fun i =>
    (change src tgt i).bind fun r => if r.isChanged || incl then some r else none

/-- "Yield all remaining source paths": selected source ids that are not in the
target -/
def baseRemoved (src tgt : Tree) (sel : List Id) : List Change :=
  ((ids src).filter fun i => sel.contains i && (get tgt i).isNone).filterMap (change src tgt)

def tgtParents (cs : List Change) : List Id :=
  unionNew [] (cs.filterMap fun r => r.tgt.bind (·.parent))

/-- the unchanged records `InterCHKRevisionTree` appends: `(relpath, relpath)` -/
def chkUnchanged (src tgt : Tree) (sel : Option (List Id)) (emitted : List Id) : List Change :=
  ((ids tgt).filter fun i => (match sel with | none => true | some s => s.contains i) && !emitted.contains i).filterMap
    fun i => (change src tgt i).map fun r => { r with srcPath := r.tgtPath }

def preciseFuel (src tgt : Tree) : Nat := 2 * (src.length + tgt.length) + 2

/-- `iter_changes(include_unchanged, specific_files, require_versioned)` for
versioned entries.  `filt = none` is `specific_files=None`. -/
def iterChanges (impl : Impl) (src tgt : Tree) (filt : Option (List Path)) (incl reqv : Bool) :
    Except Err (List Change) :=
  match filt with
  | none =>
    match impl with
    | .generic => .ok (if incl then allRecords src tgt else changesOf src tgt)
    | .chk =>
      let cs := changesOf src tgt
      .ok (cs ++ if incl then chkUnchanged src tgt none (cs.map (·.id)) else [])
  | some [] => .ok []
  | some f =>
    if reqv && !(notVersioned src tgt f).isEmpty then .error (.pathsNotVersioned (notVersioned src tgt f))
    else
      let sel := selectIds src tgt f
      match impl with
      | .generic =>
        let b1 := baseTgt src tgt sel incl
        let b2 := baseRemoved src tgt sel
        match preciseLoop src tgt (preciseFuel src tgt)
            { precise := tgtParents b1, changed := (b1 ++ b2).map (·.id), out := [] } with
        | some extra => .ok (b1 ++ b2 ++ extra)
        | none => .error .fuel
      | .chk =>
        let b1 := baseTgt src tgt sel false
        let b2 := baseRemoved src tgt sel
        match preciseLoop src tgt (preciseFuel src tgt)
            { precise := tgtParents b1, changed := (b1 ++ b2).map (·.id), out := [] } with
        | some extra =>
          let cs := b1 ++ b2 ++ extra
          .ok (cs ++ if incl then chkUnchanged src tgt (some sel) (cs.map (·.id)) else [])
        | none => .error .fuel

/-! ### the loop with the proposed fix (probe-and-select)

`fx = false` is the loop of the unchanged code (`preciseLoopG false = preciseLoop`, proved in
`Lemmas/C10Gen.lean`); `fx = true` is the loop with the fix proposed for the non-termination
finding: the ids the loop has examined are remembered (`examined_file_ids`), pending ids and the
`source.path2id` occupants are filtered against the emitted *and* the examined ids. -/

/-- the `while precise_file_ids` loop, optionally with `examined_file_ids` -/
def preciseLoopG (fx : Bool) (src tgt : Tree) : Nat → PState → List Id → Option (List Change)
  | 0, _, _ => none
  | n + 1, st, ex =>
    let p1 := st.precise.filter fun i => !st.changed.contains i && !(fx && ex.contains i)
    if p1.isEmpty then some st.out
    else
      let olds := (p1.filterMap fun i => (pathOf tgt i).bind (idAt src)).filter
        fun o => !(fx && (st.changed.contains o || ex.contains o))
      let current := unionNew p1 olds
      let st' := current.foldl (examine src tgt) { st with precise := [] }
      preciseLoopG fx src tgt n st' (ex ++ current)

/-- every id the loop can ever look at is an id of one of the trees or a parent field of the
target: one more round than that is always enough for the fixed loop -/
def gFuel (fx : Bool) (src tgt : Tree) : Nat :=
  if fx then src.length + 2 * tgt.length + 1 else preciseFuel src tgt

/-- `iterChanges` with the selected loop (identical to `iterChanges` for `fx = false`) -/
def iterChangesG (fx : Bool) (impl : Impl) (src tgt : Tree) (filt : Option (List Path)) (incl reqv : Bool) :
    Except Err (List Change) :=
  match filt with
  | none =>
    match impl with
    | .generic => .ok (if incl then allRecords src tgt else changesOf src tgt)
    | .chk =>
      let cs := changesOf src tgt
      .ok (cs ++ if incl then chkUnchanged src tgt none (cs.map (·.id)) else [])
  | some [] => .ok []
  | some f =>
    if reqv && !(notVersioned src tgt f).isEmpty then .error (.pathsNotVersioned (notVersioned src tgt f))
    else
      let sel := selectIds src tgt f
      match impl with
      | .generic =>
        let b1 := baseTgt src tgt sel incl
        let b2 := baseRemoved src tgt sel
        match preciseLoopG fx src tgt (gFuel fx src tgt)
            { precise := tgtParents b1, changed := (b1 ++ b2).map (·.id), out := [] } [] with
        | some extra => .ok (b1 ++ b2 ++ extra)
        | none => .error .fuel
      | .chk =>
        let b1 := baseTgt src tgt sel false
        let b2 := baseRemoved src tgt sel
        match preciseLoopG fx src tgt (gFuel fx src tgt)
            { precise := tgtParents b1, changed := (b1 ++ b2).map (·.id), out := [] } [] with
        | some extra =>
          let cs := b1 ++ b2 ++ extra
          .ok (cs ++ if incl then chkUnchanged src tgt (some sel) (cs.map (·.id)) else [])
        | none => .error .fuel

/-! ### hypotheses of the partial theorems (decidable, evaluated by the driver too) -/

/-- no target path is occupied in the source by a *different* id: the `source.path2id(path)`
lookups of `_handle_precise_ids` find nothing new -/
def noPathOccupant (src tgt : Tree) : Bool :=
  (ids tgt).all fun i =>
    match (pathOf tgt i).bind (idAt src) with
    | none => true
    | some o => o == i

/-- no id takes, in the target, a (parent id, name) slot that a *different* id holds in the source
(the tree root's slot included) -/
def noSlotOccupant (src tgt : Tree) : Bool :=
  tgt.all fun x => src.all fun y => x.1 == y.1 || !(x.2.parent == y.2.parent && x.2.name == y.2.name)

/-- both trees have the same root id -/
def sameRoot (src tgt : Tree) : Bool := rootsOf src == rootsOf tgt

/-- is `p` at or below one of the filter paths (`osutils.is_inside_any`) -/
def insideAny (filt : List Path) (p : Path) : Bool := filt.any fun f => f.isPrefixOf p

/-- `want_unversioned` part of the generic implementation: the target's
top-level unversioned paths, restricted to the filter -/
def unversionedOf (extras : List Path) (filt : Option (List Path)) : List Path :=
  match filt with
  | none => extras
  | some f => extras.filter (insideAny f)

end BreezyVerif.C10
