import BreezyVerif.Common
import BreezyVerif.Model.C03
import BreezyVerif.Driver.C03Lib
/-
C03 driver.  One request:

  fetch <exclusion found|revpresent> <ext T|F> <find_ghosts T|F> <rev> <src revs> <src invs> <src texts> <tgt revs> <tgt invs> <tgt texts>

revs  = `id:meta:p.p.p` joined by `;`   (parents `-` when there are none; whole field `-` when empty)
invs  = `id:f.n.t.s,f.n.t.s` joined by `;` (entries `-` when the inventory is empty)
texts = `f.t.c` joined by `;`

reply: `E:NoSuchRevision` | `E:SourceIncomplete` |
       `ok <missing ids sorted> <revision ids of the target afterwards> <inventory ids> <texts f.t.c sorted>`
-/
namespace BreezyVerif.C03

def handle : List String → String
  | ["fetch", x, ext, fg, rev, sr, si, st, tr, ti, tt] =>
    match parseX x, parseBool ext, parseBool fg, rev.toNat?, parseRepo sr si st, parseRepo tr ti tt with
    | some x, some ext, some fg, some rev, some src, some tgt =>
      match fetch x ext fg src tgt rev with
      | .error .noSuchRevision => "E:NoSuchRevision"
      | .error .sourceIncomplete => "E:SourceIncomplete"
      | .ok t' => s!"ok {showIds (missing fg src tgt rev)} {showRepo t'}"
    | _, _, _, _, _, _ => "bad-op"
  | _ => "bad-op"

end BreezyVerif.C03

def main : IO Unit := BreezyVerif.runDriver BreezyVerif.C03.handle
