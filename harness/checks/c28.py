"""C28 — reentrant locking takes and releases the physical lock exactly once
(breezy/counted_lock.py: CountedLock; breezy/bzr/lockable_files.py:
LockableFiles.lock_write/lock_read/unlock; breezy/bzr/pack_repo.py:
PackRepository.lock_write/lock_read/unlock (+ start/abort_write_group);
breezy/bzr/branch.py: BzrBranch.lock_write/lock_read/unlock;
breezy/bzr/workingtree_4.py / workingtree.py / workingtree_3.py: the bzr working
trees' lock_read/lock_tree_write/lock_write/unlock).

Model: lean/BreezyVerif/Model/C28.lean — every wrapper method a total function
state -> state x result over an abstract recording physical lock `Phys`, which
refuses lock_read() (LockContention) exactly when its environment flag is set.
Layers: CL, LF, Repo, Branch (unguarded `step` / guarded `stepG`), Tree over the
guarded branch (`Tree.step` = /repo, `Tree.stepG` = with the reverted guard),
RepoW (write groups, unlock inside a write group as found / fixed), BranchS
(unlock with a config store whose save_changes() raises, as found / fixed).

T2 (every run): the REAL classes are driven with a recording fake physical
lock (FakePhys: never refuses unlock, refuses lock_read only when told to, so
that a miscounting wrapper shows in the log; LockDir's token behaviour) and
compared with the model after EVERY step on the complete state (mode, count,
token, transaction kind, physical held/disk/log, write-lock count, fallback
depth and log, write group):
  cl      CountedLock(FakePhys)                      all sequences over
  lf      LockableFiles(MemoryTransport, FakePhys)   {r, w, w(tok), w(bad tok), u}
  repo    a real 2a PackRepository whose control_files._lock is a FakePhys and
          whose fallback repositories are recording fakes
  branch  a real BzrBranch + that repository, operations on the branch and
          directly on its repository interleaved
  repow   the repository with start_write_group / abort_write_group (real write groups)
  branchs the branch stack with a config store whose save_changes() raises
  ftree   a real bzr working tree (DirState format) + branch + repository, all
          three control-files locks fakes: tree lock_read / lock_tree_write /
          lock_write / unlock interleaved with branch and repository calls; the
          dirstate FILE lock is the fourth layer (model `DS`): with flag `d` a second
          working-tree object holds a read lock on the same tree, so the dirstate
          lock_write of a first tw / tt is refused after the control files were locked
  exhaustively up to a length bound, both with and without a pre-existing
  on-disk lock; for EVERY subset of layers whose physical lock refuses
  lock_read() exhaustively one step shorter; plus random sequences of length <= 40.
Oracle (independent of the model; balances recomputed from the observed
results, per layer: the tree holds one branch lock per tree lock, a locked
branch holds its repository once): is_locked() <=> more successful locks than
unlocks; the physical lock / the fallbacks are acquired exactly on the 0->1 edge
and released exactly on the 1->0 edge (no event otherwise, never two acquires in
a row); a refused call leaves the lock state of every layer unchanged (incl. the
roll-backs of half-taken locks); a write request while a needed layer is
read-locked -> ReadOnlyError; a read request needing a refusing physical lock ->
LockContention, every other read request granted; unlock at balance 0 ->
LockNotHeld; write-group calls succeed exactly under a write lock.
A second, fake-free run drives real working trees (formats 2a, pack-0.92, 1.9) /
branch / repository with real LockDirs and applies the same oracle to is_locked(), the
lock counts, get_physical_lock_status() of branch AND tree (.bzr/checkout/lock must be on
disk exactly while the tree is write-locked) and the dirstate file lock; ops dp / du let a
second tree object pin / release the dirstate file: a first lock_write / lock_tree_write
must then fail with LockContention and leave no trace.  LockDir waits are switched off for
that run and a tree whose lock leaked is replaced (a defect must not turn into a time-out).

State of /repo (triaged): BzrBranch.unlock has the guard `if not
control_files.is_locked(): return cant_unlock_not_held(self)` (fix 0445a91; the
model variant `Branch.stepG`, theorems `branchG_*`); the same guard in the bzr
working trees had to be reverted (ae1db66, an existing test relies on
wt.unlock() of a never-locked tree reaching branch.unlock()), so
(DirState)WorkingTree.unlock of a tree that holds no lock still raises
LockNotHeld after its `finally:` clause released a branch lock held by somebody
else: committed known finding, family `tree-over-unlock-releases-branch`
(`tree_over_unlock_witness`).  branch_variant(), ftree_variant(),
tree_variant() and the model_kind() probes of repow / branchs select the model
variant that is tied, so a `fix:` commit does not break the correspondence.  If
the branch guard is lost again the unguarded model is tied, the correspondence
stays clean and the oracle reports the over-unlock as a plain VIOLATION (no
family) with the 2-step input [pr, bu].

Fixed in /repo after this check reported them (model variants `fx = true` are the ones
tied; if a family returns it is a plain VIOLATION, the probes then select `fx = false`):
  [w, g, u] on repow   PackRepository.unlock of the last write lock inside a write group
                       left the fallbacks locked (8dfd21d; `repo_unlock_in_write_group_witness`)
  [bw, bu] on branchs  BzrBranch.unlock released nothing when conf_store.save_changes()
                       raised (bcef285; `branch_unlock_save_failure_witness`)

Mutants this was built against (scratch worktree with the guards / patches
applied, so that the baseline is clean; all caught, "oracle" = concrete failing input):
  M1  CountedLock.unlock `elif self._lock_count == 1` -> `<= 2`            oracle
  M2  CountedLock.lock_write: ReadOnlyError branch disabled                 oracle
  M3  LockableFiles.unlock `if self._lock_count > 1` -> `> 2`              oracle
  M4  LockableFiles.lock_write: validate_token(token) dropped               T2 (tie)
  M5  LockableFiles.lock_read: nested lock not counted                      oracle
  M6  PackRepository.lock_read `if not locked` -> always (fallbacks)        oracle (workflow)
  M7  PackRepository.unlock `if not self.is_locked()` -> `if not self._write_lock_count`  oracle
  M8  PackRepository.lock_write: ReadOnlyError check disabled               oracle
  M9  BzrBranch.lock_write: repository not unlocked when the branch's own
      lock_write fails (needs unlocked branch + wrong token)                oracle
  M10 BzrBranch.unlock: repository unlocked on every nested unlock          oracle (workflow)
  M11 PackRepository.lock_read under a write lock not counted               oracle (workflow)
  M12 PackRepository.lock_write re-locks the fallbacks when already locked  oracle
  M13 BzrBranch.lock_read re-locks the repository on nested calls           oracle (workflow)
  M14 DirStateWorkingTree.unlock releases the branch only at the last unlock oracle (workflow)
  M15 BzrBranch.unlock guard reverted (on the current /repo)                  oracle, no family
  M16 BzrBranch.lock_read: repository not unlocked when control_files.lock_read()
      raises (needs a refusing physical read lock on the branch)            oracle
  M17 DirStateWorkingTree.lock_read: branch not unlocked when the tree's own
      lock_read raises (needs a refusing physical read lock on the tree)    oracle
  M18 DirStateWorkingTree._lock_self_write: branch not unlocked when the tree's
      own lock_write is refused (read-locked tree, then tt / tw)            oracle
  M19 LockableFiles.lock_read sets _lock_mode before the physical lock_read  oracle
  M20 CountedLock.lock_read sets _lock_count before the physical lock_read   oracle
  M22 DirStateWorkingTree.lock_tree_write takes branch.lock_write()          oracle
  Seeded change C28b (DirStateWorkingTree._lock_self_write without the inner
      `except: self._control_files.unlock(); raise`: control files stay locked when the
      dirstate file lock is refused)                                         oracle, seeds 0..3
Harmless (stay clean): reordered assignments in CountedLock.lock_read,
`== 0` -> `not`, `> 1` -> `>= 2`, `bool()` in is_locked, restructured took_lock,
DirStateWorkingTree.unlock with a local result variable.
"""
import glob
import itertools
import json
import os

from vlib import env

THEOREMS = [
    "cl_physical_balanced", "cl_refused_unchanged", "cl_ok_count", "cl_edge",
    "cl_write_after_read_refused", "cl_over_unlock_refused",
    "lf_physical_balanced", "lf_refused_unchanged", "lf_ok_count", "lf_edge",
    "lf_write_after_read_refused", "lf_over_unlock_refused",
    "repo_physical_balanced", "repo_refused_unchanged", "repo_ok_count", "repo_edge",
    "repo_write_after_read_refused", "repo_over_unlock_refused",
    "branch_physical_balanced", "branch_over_unlock_witness", "branch_write_after_read_refused",
    "branch_over_unlock_refused_partial", "branch_refused_unchanged_partial", "branch_ok_edge",
    "branchG_physical_balanced", "branchG_refused_unchanged", "branchG_over_unlock_refused", "branchG_ok_edge",
    "branchG_consistent_step", "branchG_consistent_run", "branchG_refused_unchanged_run",
    "lf_ok_edge", "tree_physical_balanced", "tree_over_unlock_witness", "tree_ok_edge",
    "tree_refused_unchanged_partial", "tree_write_after_read_refused",
    "treeG_over_unlock_refused", "treeG_refused_unchanged", "treeG_physical_balanced",
    "tree_consistent_step", "tree_consistent_run", "tree_refused_unchanged_run",
    "tree_dirstate_refused_rollback",
    "repow_no_group", "repo_unlock_in_write_group_witness", "repowF_unlock_in_write_group",
    "repowF_inv_step", "repowF_physical_balanced",
    "branchS_no_failure", "branchS_fixed_eq", "branch_unlock_save_failure_witness",
]
RULE = ("all operation sequences over {lock_read, lock_write(None), lock_write(known token), "
        "lock_write(wrong token), unlock} (repow: + start/abort_write_group; ftree: tree lock_read / "
        "lock_tree_write / lock_write / unlock interleaved with branch and repository calls) up to a length "
        "bound (exhaustive) and random ones up to length 40, for CountedLock, LockableFiles, PackRepository, "
        "the BzrBranch/PackRepository stack and the working-tree/branch/repository stack, with and without a "
        "pre-existing on-disk lock and for every subset of layers whose physical lock refuses lock_read(); "
        "non-trivial = some call was refused or some lock was nested")
ASSUMPTIONS = [
    "the physical lock is the recording fake (LockDir token semantics; refuses lock_read only on request); "
    "real LockDirs are used in the fake-free working-tree stack run",
    "single thread; debug flag 'unlock' not set (cant_unlock_not_held raises)",
    "the dirstate file's lock_read and the cache flushing of the last tree unlock do not fail; its lock_write "
    "fails exactly while another tree object holds a read lock on it (flag `d` / ops dp, du)",
]
TRUSTED = [
    "FakePhys / FakeFallback (harness) and their Lean counterpart Phys: recorded, never refusing unlock",
]

NONCE = 7
BAD = 9
OPS = ["r", "w", "wA", "wB", "u"]


# ---------------------------------------------------------------- fakes
class FakePhys:
    """recording physical lock; `ext`: a lock with nonce NONCE pre-exists on disk;
    `rb`: lock_read() is refused with LockContention (a contended OS read lock)"""

    def __init__(self, ext=False, rb=False):
        self.rb = rb
        self.held = None
        self.via_tok = False
        self.disk = NONCE if ext else None
        self.log = []
        self.anomalies = []

    # LockableFiles calls lock_class(transport, esc_name, file_modebits=, dir_modebits=)
    def lock_read(self):
        if self.rb:
            from breezy import errors
            raise errors.LockContention(self)
        if self.held:
            self.anomalies.append("lock_read while held %s" % self.held)
        self.held = "r"
        self.log.append("R")

    def validate_token(self, token):
        from breezy import errors
        if token is not None and token != self.disk:
            raise errors.TokenMismatch(token, self.disk)

    def lock_write(self, token=None):
        from breezy import errors
        if token is not None:
            if token != self.disk:
                raise errors.TokenMismatch(token, self.disk)
            if self.held:
                self.anomalies.append("lock_write(token) while held %s" % self.held)
            self.held, self.via_tok = "w", True
            self.log.append("T")
            return token
        if self.disk is not None:
            raise errors.LockContention(self)
        if self.held:
            self.anomalies.append("lock_write while held %s" % self.held)
        self.held, self.via_tok, self.disk = "w", False, NONCE
        self.log.append("W")
        return NONCE

    def unlock(self):
        if not self.held:
            self.anomalies.append("unlock while not held")
        if self.held == "w" and not self.via_tok:
            self.disk = None
        self.held, self.via_tok = None, False
        self.log.append("U")

    def peek(self):
        return None if self.disk is None else {"nonce": self.disk}

    def create(self, mode=None):
        pass

    def break_lock(self):
        raise NotImplementedError

    def leave_in_place(self):
        pass

    def dont_leave_in_place(self):
        pass

    def dump(self):
        return "%s%s%s:%s" % (self.held or "-", "t" if self.via_tok else "f",
                              "~" if self.disk is None else self.disk, "".join(self.log) or ".")

    def core(self):
        return (self.held, self.via_tok, self.disk)


class FakeFallback:
    """recording fallback repository"""

    def __init__(self):
        self.depth = 0
        self.log = []
        self.anomalies = []

    def lock_read(self):
        self.depth += 1
        self.log.append("R")

    def unlock(self):
        if self.depth == 0:
            self.anomalies.append("fallback unlock while not locked")
        self.depth = max(0, self.depth - 1)
        self.log.append("U")

    def is_locked(self):
        return self.depth > 0


# ---------------------------------------------------------------- canonicalisation
def _exc(e):
    from breezy import errors
    t = type(e)
    if t is errors.ReadOnlyError:
        return "E:ReadOnly"
    if t is errors.LockNotHeld:
        return "E:LockNotHeld"
    if t is errors.TokenMismatch:
        return "E:TokenMismatch"
    if t is errors.LockContention:
        return "E:LockContention"
    if t is errors.LockError:
        return "E:LockError"
    if t is errors.NotWriteLocked:
        return "E:NotWriteLocked"
    if t is errors.BzrError:
        return "E:BzrError"
    return "E:" + t.__name__


def _tokstr(v):
    if v is None or isinstance(v, int):
        return "~" if v is None else str(v)
    for a in ("token", "repository_token"):
        if hasattr(v, a):
            t = getattr(v, a)
            return "~" if t is None else str(t)
    return "~"   # LogicalLockResult


def _call(obj, op):
    try:
        if op == "r":
            v = obj.lock_read()
        elif op == "w":
            v = obj.lock_write()
        elif op == "wA":
            v = obj.lock_write(token=NONCE)
        elif op == "wB":
            v = obj.lock_write(token=BAD)
        elif op == "u":
            v = obj.unlock()
        elif op == "t":
            v = obj.lock_tree_write()
        elif op == "g":
            v = obj.start_write_group()
        elif op == "a":
            v = obj.abort_write_group()
        else:
            raise ValueError(op)
    except Exception as e:  # noqa
        return _exc(e)
    return "ok:" + _tokstr(v)


def _txn(t):
    from breezy import transactions
    if t is None:
        return "-"
    if isinstance(t, transactions.WriteTransaction):   # a subclass of ReadOnlyTransaction
        return "w"
    if isinstance(t, transactions.ReadOnlyTransaction):
        return "r"
    return "?" + type(t).__name__


def dump_cl(c):
    return "%s,%d,%s,%s" % (c._lock_mode or "-", c._lock_count, _tokstr(getattr(c, "_token", None)),
                            c._real_lock.dump())


def dump_lf(f):
    return "%s,%d,%s,%s,%s" % (f._lock_mode or "-", f._lock_count, _txn(f._transaction),
                               _tokstr(getattr(f, "_token_from_lock", None)), f._lock.dump())


def dump_repo(r):
    fbs = r._fallback_repositories
    return "%d,%s,%d,%s" % (r._write_lock_count, dump_lf(r.control_files), fbs[0].depth,
                            "".join(fbs[0].log) or ".")


def dump_ds(wt):
    """mode the dirstate file is locked in by this tree object"""
    ds = getattr(wt, "_dirstate", None)
    if ds is None or getattr(ds, "_lock_token", None) is None:
        return "-"
    return ds._lock_state or "?"


def dump_branch(b):
    return dump_lf(b.control_files) + "|" + dump_repo(b.repository)


# lock state without logs (what a refused call must leave unchanged)
def core_lf(f):
    return (f._lock_mode, f._lock_count, _txn(f._transaction), f._lock.core())


def core_repo(r):
    return (r._write_lock_count, core_lf(r.control_files), tuple(f.depth for f in r._fallback_repositories),
            bool(r.is_locked()))


# ---------------------------------------------------------------- subjects
class Subject:
    """one machine kind: fresh(ext, rb) -> object under test; targets; dumps; and the
    specification side of the oracle (who holds which layer, which physical read locks
    a call needs, which layers a write request needs free of read locks) -- all of it
    independent of the Lean model"""
    kind = None
    targets = [""]
    rbflags = ["x"]          # layers whose physical lock can be made to refuse lock_read()
    tops = {"": OPS}

    def ops(self):
        return [t + o for t in self.targets for o in self.tops.get(t, OPS)]

    def split(self, op):
        return ("", op) if len(self.targets) == 1 else (op[0], op[1:])

    def layer(self, tgt):
        return ""

    def holders(self, key, bal):
        return bal[key]

    def read_chain(self, tgt, o):
        return [("", "x")] if o == "r" else []

    def modes(self, tgt, o):
        return {"": "r" if o == "r" else "w"}

    def write_needs(self, tgt, o, bal):
        return [""] if o.startswith("w") else []

    def keys(self):
        return [""]

    # operations that are not lock calls (write groups): expected result, or None = no expectation
    def aux_expect(self, o, bal, mode):
        return None

    def aux_done(self, o, ok, bal):
        pass

    def model_kind(self):
        return self.kind

    def ds_blocked(self, tgt, o, bal, rb):
        return False


class SubjCL(Subject):
    kind = "cl"

    def fresh(self, ext, rb=""):
        from breezy.counted_lock import CountedLock
        self.obj = CountedLock(FakePhys(ext, "x" in rb))

    def call(self, op):
        return _call(self.obj, op)

    def dump(self):
        return dump_cl(self.obj)

    def core(self):
        c = self.obj
        return (c._lock_mode, c._lock_count, c._real_lock.core(), c.is_locked())

    def layers(self):
        # name, balance key, is_locked, event log
        return [("CountedLock", "", self.obj.is_locked(), self.obj._real_lock.log, self.obj._real_lock.anomalies)]


class SubjLF(Subject):
    kind = "lf"

    def fresh(self, ext, rb=""):
        from breezy.bzr.lockable_files import LockableFiles
        from dromedary.memory import MemoryTransport
        if not hasattr(self, "_t"):
            self._t = MemoryTransport()
        self.obj = LockableFiles(self._t, "lock", lambda *a, **k: FakePhys(ext, "x" in rb))

    def call(self, op):
        return _call(self.obj, op)

    def dump(self):
        return dump_lf(self.obj)

    def core(self):
        return core_lf(self.obj) + (self.obj.is_locked(),)

    def layers(self):
        return [("LockableFiles", "", self.obj.is_locked(), self.obj._lock.log, self.obj._lock.anomalies)]


class _Stack:
    """a real working tree + branch + PackRepository, re-armed with fresh fakes for every sequence"""
    _wt = None
    with_tree = False

    @classmethod
    def get(cls, with_tree):
        if _Stack._wt is None:
            _Stack._wt = env.make_tree("2a")
            _Stack._wt.commit("one")
        if with_tree:
            from breezy.workingtree import WorkingTree
            wt = WorkingTree.open(_Stack._wt.basedir)
            return wt, wt.branch
        from breezy.branch import Branch
        return None, Branch.open(_Stack._wt.branch.base)

    def arm(self, ext, rb=""):
        b = getattr(self, "branch", None)
        wt = getattr(self, "tree", None)
        pin = getattr(self, "pin", None)
        if pin is not None:          # the second tree object that pinned the dirstate file
            try:
                while pin.is_locked():
                    pin.unlock()
            except Exception:  # noqa
                ds = getattr(pin, "_dirstate", None)
                if ds is not None and getattr(ds, "_lock_token", None) is not None:
                    ds.unlock()
            self.pin = None
        ok = b is not None
        if ok:
            b.conf_store = None
            try:
                n = 0
                while wt is not None and wt.is_locked() and n < 100:
                    wt.unlock()
                    n += 1
                while b.is_locked() and n < 200:
                    b.unlock()
                    n += 1
                while b.repository.is_locked() and n < 300:
                    b.repository.unlock()
                    n += 1
            except Exception:  # noqa
                ok = False
            r = b.repository
            ok = ok and not b.is_locked() and not r.is_locked() and r._write_lock_count == 0 \
                and b.control_files._lock_count == 0 and r.control_files._lock_count == 0 \
                and b.control_files._transaction is None and r.control_files._transaction is None \
                and b.control_files._lock_mode is None and r.control_files._lock_mode is None
            if ok and wt is not None:
                tc = wt._control_files
                ok = not wt.is_locked() and tc._lock_count == 0 and tc._transaction is None \
                    and tc._lock_mode is None and getattr(wt, "_dirstate", None) is None
        if not ok:
            # the sequence left the stack in a state it cannot be unlocked from (a caller released a
            # lock behind an upper layer's back): drop the objects, but give back the OS lock on the
            # dirstate file, which would otherwise block the next tree object of this process
            ds = getattr(wt, "_dirstate", None) if wt is not None else None
            if ds is not None and getattr(ds, "_lock_token", None) is not None:
                try:
                    ds.unlock()
                except Exception:  # noqa
                    pass
            self.tree, self.branch = self.get(self.with_tree)
            wt, b = self.tree, self.branch
        r = b.repository
        for cf, flag in ((b.control_files, "c"), (r.control_files, "x" if self.kind == "repo" else "p")):
            cf._lock = FakePhys(ext, flag in rb)
            cf._token_from_lock = None
        if wt is not None:
            wt._control_files._lock = FakePhys(ext, "t" in rb)
            wt._control_files._token_from_lock = None
            if "d" in rb:
                # another working-tree object holds a READ lock: it pins the dirstate file, whose
                # lock_write() is then refused (its own branch / repository objects are separate
                # ones with real LockDirs, whose read locks are not physical)
                from breezy.workingtree import WorkingTree
                self.pin = WorkingTree.open(_Stack._wt.basedir)
                self.pin.lock_read()
        r._fallback_repositories = [FakeFallback(), FakeFallback()]


class SubjRepo(Subject, _Stack):
    kind = "repo"

    def fresh(self, ext, rb=""):
        self.arm(ext, rb)
        self.obj = self.branch.repository

    def call(self, op):
        return _call(self.obj, op)

    def dump(self):
        return dump_repo(self.obj)

    def core(self):
        return core_repo(self.obj)

    def layers(self):
        r = self.obj
        fb = r._fallback_repositories
        return [("PackRepository/fallbacks", "", bool(r.is_locked()), fb[0].log, fb[0].anomalies + fb[1].anomalies
                 + ([] if fb[0].log == fb[1].log else ["fallbacks locked differently"])),
                ("PackRepository/control_files", None, None, r.control_files._lock.log, r.control_files._lock.anomalies)]


class SubjRepoW(SubjRepo):
    """the repository with write groups: `g` start_write_group, `a` abort_write_group"""
    kind = "repow"
    rbflags = []
    tops = {"": OPS + ["g", "a"]}
    _fx = []

    def fresh(self, ext, rb=""):
        SubjRepo.fresh(self, ext, rb)
        self.wg = False

    def dump(self):
        return dump_repo(self.obj) + "," + ("G" if self.obj._write_group is not None else "-")

    def core(self):
        return core_repo(self.obj) + (self.obj._write_group is not None,)

    def aux_expect(self, o, bal, mode):
        if o == "g":
            if not (bal[""] > 0 and mode.get("") == "w"):
                return "E:NotWriteLocked"
            return "E:BzrError" if self.wg else "ok:~"
        if o == "a":
            return "ok:~" if self.wg else "E:BzrError"
        return None

    def aux_done(self, o, ok, bal):
        if ok and o == "g":
            self.wg = True
        elif ok and o == "a":
            self.wg = False
        elif ok and o == "u" and bal[""] == 0:
            self.wg = False

    def model_kind(self):
        """which unlock the working tree implements, probed on the witness: `F` = the fallbacks stay
        locked after unlock in a write group (as found), `T` = they are released (proposed fix)"""
        if not self._fx:
            SubjRepo.fresh(self, False)
            r = self.obj
            r.lock_write()
            r.start_write_group()
            r.unlock()
            self._fx.append("T" if r._fallback_repositories[0].depth == 0 else "F")
        return "repow " + self._fx[0]


class _RaisingStore:
    """a branch config store whose save_changes() fails (disk full, permission denied ...)"""

    def save_changes(self):
        raise OSError(28, "No space left on device")


class SubjBranch(Subject, _Stack):
    kind = "branch"
    targets = ["b", "p"]
    rbflags = ["c", "p"]
    tops = {}

    def fresh(self, ext, rb=""):
        self.arm(ext, rb)
        self.obj = self.branch

    def call(self, op):
        tgt = self.obj if op[0] == "b" else self.obj.repository
        return _call(tgt, op[1:])

    def dump(self):
        return dump_branch(self.obj)

    def core(self):
        b = self.obj
        return (core_lf(b.control_files), bool(b.is_locked()), core_repo(b.repository))

    # --- specification
    def keys(self):
        return ["b", "p+"]

    def layer(self, tgt):
        return "b" if tgt == "b" else "p+"

    def holders(self, key, bal):
        if key == "p+":     # the repository under a branch is additionally held once while the branch is locked
            return bal["p"] + (1 if bal["b"] > 0 else 0)
        return bal[key]

    def read_chain(self, tgt, o):
        if o != "r":
            return []
        return [("p+", "p"), ("b", "c")] if tgt == "b" else [("p+", "p")]

    def modes(self, tgt, o):
        m = "r" if o == "r" else "w"
        return {"b": m, "p+": m} if tgt == "b" else {"p+": m}

    def write_needs(self, tgt, o, bal):
        if not o.startswith("w"):
            return []
        if tgt == "b":
            return ["b"] if bal["b"] > 0 else ["p+"]
        return ["p+"]

    def layers(self):
        b = self.obj
        r = b.repository
        fb = r._fallback_repositories
        return [("BzrBranch/control_files", "b", bool(b.is_locked()), b.control_files._lock.log,
                 b.control_files._lock.anomalies),
                ("PackRepository/fallbacks", "p+", bool(r.is_locked()), fb[0].log, fb[0].anomalies + fb[1].anomalies),
                ("PackRepository/control_files", None, None, r.control_files._lock.log,
                 r.control_files._lock.anomalies)]


class SubjBranchS(SubjBranch):
    """the branch stack with a config store whose save_changes() raises at the last unlock"""
    kind = "branchs"
    rbflags = []
    _fx = []

    def fresh(self, ext, rb=""):
        SubjBranch.fresh(self, ext, rb)
        self.obj.conf_store = _RaisingStore()

    def model_kind(self):
        """`F`: unlock with a failing config save returns None and keeps every lock (as found);
        `T`: the locks are released all the same (proposed fix)"""
        if not self._fx:
            self.fresh(False)
            b = self.obj
            b.lock_write()
            _call(b, "u")
            self._fx.append("F" if b.is_locked() else "T")
        return "branchS " + self._fx[0]


class SubjTree(Subject, _Stack):
    """a real bzr working tree over its branch and repository, all three control-files
    locks replaced by recording fakes (kind `ftree`; the fake-free run is kind `tree`)"""
    kind = "ftree"
    with_tree = True
    targets = ["t", "b", "p"]
    rbflags = ["t", "c", "p", "d"]      # d: the dirstate FILE is pinned by another reader
    tops = {"t": ["r", "t", "w", "u"]}

    def fresh(self, ext, rb=""):
        self.arm(ext, rb)
        self.obj = self.tree

    def call(self, op):
        wt = self.obj
        tgt = wt if op[0] == "t" else wt.branch if op[0] == "b" else wt.branch.repository
        return _call(tgt, op[1:])

    def dump(self):
        return dump_lf(self.obj._control_files) + "|" + dump_branch(self.obj.branch) + "|" + dump_ds(self.obj)

    def core(self):
        wt = self.obj
        b = wt.branch
        return (core_lf(wt._control_files), bool(wt.is_locked()), core_lf(b.control_files), bool(b.is_locked()),
                core_repo(b.repository), dump_ds(wt))

    def ds_blocked(self, tgt, o, bal, rb):
        """a first write lock of the tree needs the dirstate file's write lock"""
        return "d" in rb and tgt == "t" and o in ("w", "t") and bal["t"] == 0

    # --- specification: every tree lock holds one branch lock
    def keys(self):
        return ["t", "b+", "p+"]

    def layer(self, tgt):
        return {"t": "t", "b": "b+", "p": "p+"}[tgt]

    def holders(self, key, bal):
        if key == "b+":
            return bal["b"] + bal["t"]
        if key == "p+":
            return bal["p"] + (1 if bal["b"] + bal["t"] > 0 else 0)
        return bal[key]

    def read_chain(self, tgt, o):
        if tgt == "t":
            return {"r": [("p+", "p"), ("b+", "c"), ("t", "t")], "t": [("p+", "p"), ("b+", "c")]}.get(o, [])
        if o != "r":
            return []
        return [("p+", "p"), ("b+", "c")] if tgt == "b" else [("p+", "p")]

    def modes(self, tgt, o):
        if tgt == "t":
            return {"r": {"t": "r", "b+": "r", "p+": "r"}, "t": {"t": "w", "b+": "r", "p+": "r"},
                    "w": {"t": "w", "b+": "w", "p+": "w"}}.get(o, {})
        m = "r" if o == "r" else "w"
        return {"b+": m, "p+": m} if tgt == "b" else {"p+": m}

    def write_needs(self, tgt, o, bal):
        bheld = bal["b"] + bal["t"] > 0
        if tgt == "t":
            if o == "w":
                return (["b+"] if bheld else ["p+"]) + ["t"]
            return ["t"] if o == "t" else []
        if not o.startswith("w"):
            return []
        if tgt == "b":
            return ["b+"] if bheld else ["p+"]
        return ["p+"]

    def layers(self):
        wt = self.obj
        b = wt.branch
        r = b.repository
        fb = r._fallback_repositories
        return [("WorkingTree/control_files", "t", bool(wt.is_locked()), wt._control_files._lock.log,
                 wt._control_files._lock.anomalies),
                ("BzrBranch/control_files", "b+", bool(b.is_locked()), b.control_files._lock.log,
                 b.control_files._lock.anomalies),
                ("PackRepository/fallbacks", "p+", bool(r.is_locked()), fb[0].log, fb[0].anomalies + fb[1].anomalies),
                ("PackRepository/control_files", None, None, r.control_files._lock.log,
                 r.control_files._lock.anomalies)]


SUBJECTS = {"cl": SubjCL, "lf": SubjLF, "repo": SubjRepo, "branch": SubjBranch, "ftree": SubjTree,
            "repow": SubjRepoW, "branchs": SubjBranchS}
WG_LEAK = "repo-unlock-in-write-group-keeps-fallbacks-locked"
SAVE_LEAK = "branch-unlock-config-save-failure-keeps-lock"


# ---------------------------------------------------------------- oracle
def classify(kind, op, bal, _unused=None):
    """family slug of a violation, computed from the concrete failing step:
    `bal` = successful locks minus unlocks per target before the step.
    Only the committed known finding is classified: unlock of a working tree that
    holds no lock while its branch is locked by somebody else.  The former family
    `branch-over-unlock-releases-repository` is fixed in /repo (guard in
    BzrBranch.unlock, 0445a91): if that behaviour returns -- directly (`bu`) or
    through a tree (`tu` with the branch unlocked and the repository held) -- it
    gets no family and is a plain VIOLATION."""
    t, b = bal.get("t", 0), bal.get("b", 0)
    if kind in ("tree", "ftree") and op == "tu" and t == 0 and b > 0:
        return "tree-over-unlock-releases-branch"
    # the two families found by this check (unlock inside a write group; unlock with a failing
    # config save) are fixed in /repo (8dfd21d, bcef285): they get no family any more
    return None


_variant = []


def branch_variant(subj):
    """Which BzrBranch.unlock does the working tree implement?  Probed on the real
    code with the witness of the finding: `unguarded` (unlock of an unlocked branch
    reaches repository.unlock(): Model Branch.step) or `guarded` (refused first, as
    GitBranch.unlock does: Model Branch.stepG).  Both variants have their theorems."""
    if not _variant:
        subj.fresh(False)
        b = subj.branch
        r = b.repository
        r.lock_read()
        _call(b, "u")
        _variant.append("guarded" if r.is_locked() else "unguarded")
        if r.is_locked():
            r.unlock()
    return _variant[0]


_tvariant = []


def ftree_variant(subj):
    """the same probe for WorkingTree.unlock on the fake-lock stack: `unguarded` (model
    Tree.step, the committed known finding) or `guarded` (model Tree.stepG)"""
    if not _tvariant:
        subj.fresh(False)
        wt = subj.tree
        wt.branch.lock_read()
        _call(wt, "u")
        _tvariant.append("guarded" if wt.branch.is_locked() else "unguarded")
        if wt.branch.is_locked():
            wt.branch.unlock()
    return _tvariant[0]


_fam_seen = {}


FAMILY_NOTE = {
    WG_LEAK: "the last unlock() of a write-locked PackRepository with an active write group returns None "
             "(BzrError discarded by only_raises) and unlocks the repository, but leaves its fallback "
             "repositories locked",
    SAVE_LEAK: "the last unlock() of a branch whose config store fails in save_changes() returns None "
               "(exception discarded by only_raises) and releases nothing: branch, repository and the "
               "physical lock stay held",
}


def report(ctx, case, what, family=None):
    """ctx.violation, but a classified family is reported with at most 25 concrete inputs per run
    (ctx keeps the inputs of the first 200 violations only; an unclassified violation must not
    lose its input to hundreds of instances of a known one)"""
    if family is not None:
        _fam_seen[family] = _fam_seen.get(family, 0) + 1
        if _fam_seen[family] > 25:
            ctx.count("more-instances:" + family)
            return
    if family in FAMILY_NOTE:
        what = "%s -- %s" % (what, FAMILY_NOTE[family])
    ctx.violation(case, what, family=family)


def run_sequence(ctx, subj, ext, ops, record=True, rb=""):
    """drive the real object, evaluate the oracle after every step; returns the
    per-step observation strings (for the comparison with the model)"""
    kind = subj.kind
    subj.fresh(ext, rb)
    case = dict(kind=kind, ext=ext, ops=list(ops))
    if rb:
        case["rb"] = rb
    bal = {t: 0 for t in subj.targets}
    mode = {}      # mode of the outermost lock per layer
    obs = []
    nontrivial = False
    prev_logs = [len(l[3]) for l in subj.layers()]
    dead = [False]

    def viol(c, what, family=None):
        dead[0] = True
        report(ctx, c, what, family=family)
    for i, op in enumerate(ops):
        tgt, o = subj.split(op)
        before = subj.core()
        res = subj.call(op)
        if dead[0]:
            # an earlier step already violated the property: the balances no longer
            # describe the object; keep observing for the comparison with the model
            obs.append(res + "/" + subj.dump())
            continue
        after = subj.core()
        ok = res.startswith("ok:")
        fam = classify(kind, op, bal, subj)
        # --- refused calls
        if not ok:
            nontrivial = True
            if after != before:
                viol(dict(case, step=i), "%s: refused call %s (%s) changed the lock state: %r -> %r"
                              % (kind, op, res, before, after), family=fam)
        # --- expected refusals / successes, from the balances
        lkey = subj.layer(tgt)     # the layer the call addresses
        h = subj.holders(lkey, bal)
        blocked = [k for k, flag in subj.read_chain(tgt, o) if flag in rb and subj.holders(k, bal) == 0]
        auxwant = subj.aux_expect(o, bal, mode)
        if auxwant is not None:
            if res != auxwant:
                viol(dict(case, step=i), "%s: %s gives %s, expected %s" % (kind, op, res, auxwant))
        elif o == "u":
            if h == 0 and res != "E:LockNotHeld":
                viol(dict(case, step=i), "%s: unlock %s with no lock held gives %s, not LockNotHeld" % (kind, op, res))
            elif h > 0 and bal[tgt] == 0:
                if tgt == "b" and kind == "branch" and res != "E:LockNotHeld":
                    viol(dict(case, step=i), "%s: unlock of an unlocked branch gives %s" % (kind, res))
                if ok:
                    # the caller released a lock that an upper layer (or another handle) holds -- caller
                    # misuse, the object cannot tell its holders apart: stop judging this sequence
                    dead[0] = True
            elif bal[tgt] > 0 and not ok:
                viol(dict(case, step=i), "%s: unlock %s of a held lock refused: %s" % (kind, op, res))
        else:
            ro = [k for k in subj.write_needs(tgt, o, bal) if subj.holders(k, bal) > 0 and mode.get(k) == "r"]
            if ro and res != "E:ReadOnly":
                viol(dict(case, step=i), "%s: write lock (%s) while %s is read-locked gives %s, not ReadOnlyError"
                              % (kind, op, ro[0] or kind, res))
            elif blocked and not ro and res != "E:LockContention":
                viol(dict(case, step=i), "%s: %s needs the physical read lock of %s, which refuses, "
                              "but gives %s" % (kind, op, blocked[0] or kind, res))
            elif subj.ds_blocked(tgt, o, bal, rb) and not ro and res != "E:LockContention":
                viol(dict(case, step=i), "%s: %s needs the write lock of the dirstate file, which another tree "
                     "object has read-locked, but gives %s" % (kind, op, res))
            elif o == "r" and not blocked and not ok:
                viol(dict(case, step=i), "%s: lock_read (%s) refused: %s" % (kind, op, res))
        bal_before = dict(bal)
        if ok and auxwant is None:
            if o == "u":
                bal[tgt] -= 1
            else:
                if bal[tgt] > 0:
                    nontrivial = True
                bal[tgt] += 1
            for k, m in subj.modes(tgt, o).items():
                if subj.holders(k, bal_before) == 0 and subj.holders(k, bal) > 0:
                    mode[k] = m
        subj.aux_done(o, ok, bal)
        # --- is_locked and edge-triggered physical events
        layers = subj.layers()
        for j, (name, key, locked, log, anomalies) in enumerate(layers):
            new = log[prev_logs[j]:]
            prev_logs[j] = len(log)
            if anomalies:
                viol(dict(case, step=i), "%s: %s: %s" % (kind, name, anomalies[0]))
                del anomalies[:]
            if key is None:
                continue
            holders, holders_before = subj.holders(key, bal), subj.holders(key, bal_before)
            if locked != (holders > 0):
                viol(dict(case, step=i), "%s: %s: is_locked()=%s with %d holder(s)" % (kind, name, locked, holders),
                              family=fam)
            net = "".join(new)
            while "RU" in net or "WU" in net or "TU" in net:   # a lock taken and given back within one call
                net = net.replace("RU", "").replace("WU", "").replace("TU", "")
            if holders_before == 0 and holders > 0:
                want = net in ("R", "W", "T")
            elif holders_before > 0 and holders == 0:
                want = net == "U"
            else:
                want = net == ""
            if not want and ok:
                viol(dict(case, step=i), "%s: %s: physical events %r on a %d->%d holder transition"
                              % (kind, name, "".join(new), holders_before, holders), family=fam)
        obs.append(res + "/" + subj.dump())
    if record:
        ctx.case(case, nontrivial=nontrivial)
        ctx.count("%s:len=%d" % (kind, min(len(ops), 12)))
        if rb:
            ctx.count("%s:read-blocked=%s" % (kind, rb))
        for ob in obs:
            ctx.count("%s:res=%s" % (kind, ob.split("/")[0].split(":")[0] + (":" + ob.split("/")[0].split(":")[1] if ob.startswith("E:") else "")))
    mkind = subj.model_kind()
    if kind == "branch" and branch_variant(subj) == "guarded":
        mkind = "branchG"
    if kind == "ftree":
        mkind = "treeG" if ftree_variant(subj) == "guarded" else "tree"
    return case, "%s %s%s %s" % (mkind, "T" if ext else "F", rb, ",".join(ops) or "-"), ";".join(obs) or "-"


# ---------------------------------------------------------------- fake-free working tree stack
def tree_variant(path):
    """Which WorkingTree.unlock does the working tree implement (probed
    independently of the branch variant)?  `unguarded`: unlock of a tree that
    holds no lock reaches branch.unlock() (the committed known finding F36);
    `guarded`: refused first.  The tree has no Lean model; this is evidence only."""
    from breezy.workingtree import WorkingTree
    wt = WorkingTree.open(path)
    wt.branch.lock_read()
    try:
        wt.unlock()
    except Exception:  # noqa
        pass
    v = "guarded" if wt.branch.is_locked() else "unguarded"
    n = 0
    while wt.branch.is_locked() and n < 10:
        wt.branch.unlock()
        n += 1
    return v


def tree_stack(ctx, n_seq, maxlen):
    """real working tree / branch / repository with real LockDirs; oracle only"""
    from breezy import lockdir
    # a lock leaked on disk by a defective tree must not make every later sequence wait 30 s
    # for it: contended LockDirs fail at once
    saved = lockdir._DEFAULT_TIMEOUT_SECONDS
    lockdir._DEFAULT_TIMEOUT_SECONDS = 0
    try:
        return _tree_stack(ctx, n_seq, maxlen)
    finally:
        lockdir._DEFAULT_TIMEOUT_SECONDS = saved


def _tree_stack(ctx, n_seq, maxlen):
    from breezy.workingtree import WorkingTree
    rng = ctx.rng
    # dp / du: a SECOND working-tree object on the same tree takes / gives back a read lock, which
    # pins the dirstate file (its lock_write is then refused: a first tw / tt of the tree under test
    # must fail with LockContention and leave no trace, on disk either)
    ops_all = ["tr", "tw", "tt", "tu", "br", "bw", "bu", "pr", "pw", "pu", "dp", "du"]
    state = _tree_state
    path = None
    for fmt in TREE_FORMATS:
        base = env.make_tree(fmt)
        base.commit("one")
        path = base.basedir
        if fmt == "2a":
            ctx.extra["tree_unlock_variant"] = tree_variant(path)
        seqs = [["dp", w, "du", w, "tu"] for w in ("tw", "tt")] + [["br", "dp", "tt", "tw", "tr", "tu", "bu"]]
        for n in range(1, 4):
            seqs += [list(s) for s in itertools.product(ops_all, repeat=n)] if n <= ctx.pick(2, 3) else []
        for _ in range(n_seq // len(TREE_FORMATS)):
            seqs.append([rng.choice(ops_all) for _ in range(rng.randint(3, maxlen))])
        for ops in seqs:
            if not tree_sequence(ctx, path, ops, state, fmt=fmt):
                # the sequence left a lock on disk that could not be given back (only after a
                # violation): go on with a fresh tree instead of waiting for that lock
                base = env.make_tree(fmt)
                base.commit("one")
                path = base.basedir
                ctx.count("tree:fresh-tree-after-leaked-lock")
    return path


TREE_FORMATS = ("2a", "pack-0.92", "1.9")


def _tree_state(wt):
    b, r = wt.branch, wt.branch.repository
    return (wt.is_locked(), wt._control_files._lock_count, wt._control_files._lock_mode,
            b.is_locked(), b.control_files._lock_count, b.control_files._lock_mode,
            bool(r.is_locked()), r._write_lock_count, r.control_files._lock_count,
            b.get_physical_lock_status(), wt._control_files.get_physical_lock_status(), dump_ds(wt))


def tree_sequence(ctx, path, ops, state=_tree_state, fmt="2a"):
    from breezy.workingtree import WorkingTree
    if True:
        wt = WorkingTree.open(path)
        wt2 = WorkingTree.open(path)       # the other tree object (dp / du)
        pinned = False
        objs = {"t": wt, "b": wt.branch, "p": wt.branch.repository}
        bal = {"t": 0, "b": 0, "p": 0}
        case = dict(kind="tree", ops=ops)
        if fmt != "2a":
            case["fmt"] = fmt
        nontrivial = False
        for i, op in enumerate(ops):
            tgt, o = op[0], op[1:]
            before = state(wt)
            if tgt == "d":
                # environment: the other object read-locks / unlocks; never judged itself, but it
                # must not change the lock state of the tree under test
                try:
                    if o == "p" and not pinned:
                        wt2.lock_read()
                        pinned = True
                    elif o == "u" and pinned:
                        wt2.unlock()
                        pinned = False
                except Exception as e:  # noqa -- e.g. the tree under test holds the dirstate write lock
                    ctx.count("tree:pin-refused=" + _exc(e))
                if state(wt) != before:
                    report(ctx, dict(case, step=i), "tree stack: a lock call on ANOTHER tree object changed the lock "
                           "state of this one: %r -> %r" % (before, state(wt)))
                    break
                continue
            first_write = o in ("w", "t") and tgt == "t" and bal["t"] == 0
            # other holders of the object this target locks underneath itself
            below = bal["b"] if tgt == "t" else bal["p"] if tgt == "b" else 0
            try:
                if o == "r":
                    objs[tgt].lock_read()
                elif o == "w":
                    objs[tgt].lock_write()
                elif o == "t":
                    objs[tgt].lock_tree_write()
                else:
                    objs[tgt].unlock()
                res = "ok"
            except Exception as e:  # noqa
                res = _exc(e)
            after = state(wt)
            ctx.count("tree:res=" + res)
            if pinned and first_write and res == "ok":
                report(ctx, dict(case, step=i), "tree stack: %s granted although another tree object holds a read "
                       "lock on the dirstate file" % op)
                break
            if pinned and first_write:
                ctx.count("tree:first-write-while-pinned=" + res)
            if res != "ok":
                nontrivial = True
                if after != before:
                    report(ctx, dict(case, step=i), "tree stack: refused call %s (%s) changed the lock state: %r -> %r"
                                  % (op, res, before, after), family=classify("tree", op, bal, below))
                    break   # the balances no longer describe the stack
                if o == "u" and bal[tgt] > 0:
                    report(ctx, dict(case, step=i), "tree stack: unlock of a held lock refused: %s" % res)
            else:
                if o == "u" and bal[tgt] == 0:
                    held_via = (bal["t"] if tgt == "b" else (1 if bal["t"] + bal["b"] > 0 else 0) if tgt == "p" else 0)
                    if held_via == 0:
                        report(ctx, dict(case, step=i), "tree stack: unlock %s with no lock held succeeded" % op)
                    # else: the caller released a lock that an upper layer holds (caller misuse)
                    break
                bal[tgt] += -1 if o == "u" else 1
                if bal[tgt] > 1:
                    nontrivial = True
            exp = (bal["t"] > 0, bal["t"] + bal["b"] > 0,
                   bal["p"] + (1 if bal["t"] + bal["b"] > 0 else 0) > 0)
            got = (after[0], after[3], after[6])
            if got != exp:
                report(ctx, dict(case, step=i), "tree stack: is_locked() of (tree, branch, repository) = %r, "
                              "holders say %r" % (got, exp), family=classify("tree", op, bal, below))
                break
            phys_exp = after[3] and after[5] == "w"
            if after[9] != phys_exp:
                report(ctx, dict(case, step=i), "tree stack: branch physical lock status %s but write-locked=%s"
                              % (after[9], phys_exp))
            tphys_exp = after[0] and after[2] == "w"
            if after[10] != tphys_exp:
                report(ctx, dict(case, step=i), "tree stack: the tree's physical lock (.bzr/checkout/lock) is %s on "
                       "disk but the tree is write-locked=%s" % ("held" if after[10] else "absent", tphys_exp))
                break
            if (after[11] != "-") != after[0]:
                report(ctx, dict(case, step=i), "tree stack: dirstate file lock %r but tree is_locked()=%s"
                       % (after[11], after[0]))
                break
        # release everything that is still held
        try:
            if pinned:
                wt2.unlock()
        except Exception:  # noqa
            pass
        for t in ("t", "b", "p"):
            n = 0
            try:
                while (objs[t].is_locked() if t != "p" else bal["p"] > 0 and objs[t].is_locked()) and n < 100:
                    objs[t].unlock()
                    if t == "p":
                        bal["p"] -= 1
                    n += 1
            except Exception:  # noqa
                pass
        ctx.case(case, nontrivial=nontrivial)
        ctx.count("tree:len=%d" % min(len(ops), 10))
        try:
            return not (wt._control_files.get_physical_lock_status() or wt.branch.get_physical_lock_status()
                        or wt.is_locked() or wt.branch.is_locked() or dump_ds(wt) != "-")
        except Exception:  # noqa
            return False



# ---------------------------------------------------------------- run
FIXED = [
    dict(kind="cl", ext=False, ops=["r", "r", "w", "u", "u", "u", "w", "wA", "wB", "u", "u"]),
    dict(kind="lf", ext=True, ops=["wA", "w", "r", "u", "u", "w"]),
    dict(kind="lf", ext=True, ops=["w", "wB", "r", "wA", "u", "u"]),
    dict(kind="repo", ext=False, ops=["r", "w", "u", "w", "r", "u", "u", "u"]),
    # the over-unlock witness (branch_over_unlock_witness) -- first, so that the replay is minimal
    dict(kind="branch", ext=False, ops=["pr", "bu"]),
    dict(kind="branch", ext=False, ops=["br", "bw", "pw", "bu", "pu", "bwB", "bwA"]),
    dict(kind="branch", ext=True, ops=["bw", "bwA", "pr", "bu", "bu", "pu"]),
    # a refusing physical read lock: nothing changes, the repository lock taken first is given back
    dict(kind="lf", ext=False, rb="x", ops=["r", "w", "r", "u", "u", "r"]),
    dict(kind="repo", ext=False, rb="x", ops=["r", "w", "r", "u", "r", "u", "r"]),
    dict(kind="branch", ext=False, rb="c", ops=["br", "pr", "br", "bw", "br", "bu", "bu", "pu"]),
    dict(kind="branch", ext=False, rb="p", ops=["br", "pw", "br", "bu", "pu", "pr"]),
    # write groups; the witnesses of the two untriaged findings first
    dict(kind="repow", ext=False, ops=["w", "g", "u"]),
    dict(kind="repow", ext=False, ops=["g", "r", "g", "u", "w", "w", "g", "g", "a", "a", "g", "u", "r", "u", "u"]),
    dict(kind="branchs", ext=False, ops=["bw", "bu"]),
    dict(kind="branchs", ext=False, ops=["br", "br", "bu", "pr", "bu", "pu"]),
    # working tree over branch over repository (recording fakes on all three locks)
    dict(kind="ftree", ext=False, ops=["br", "tu"]),       # tree_over_unlock_witness
    dict(kind="ftree", ext=False, ops=["tr", "tw", "tt", "tr", "tu", "tu", "tu"]),
    dict(kind="ftree", ext=False, ops=["tt", "tr", "tw", "bw", "tu", "tu", "tw", "tr", "tt", "bu", "tu", "tu", "tu"]),
    dict(kind="ftree", ext=True, ops=["tt", "tw", "tr", "bwA", "tr", "tu", "bu", "tu"]),
    dict(kind="ftree", ext=False, rb="t", ops=["tr", "br", "tr", "tt", "tr", "tu", "tu", "bu"]),
    dict(kind="ftree", ext=False, rb="c", ops=["tr", "tt", "pr", "tr", "tw", "tr", "tu", "tu", "pu"]),
    dict(kind="ftree", ext=False, rb="p", ops=["tr", "tt", "tw", "tr", "tu", "tu"]),
    # the dirstate file pinned by another reader: first write locks are refused and rolled back
    dict(kind="ftree", ext=False, rb="d", ops=["tw", "tt", "tr", "tw", "tr", "tu", "tt", "tu", "tw"]),
    dict(kind="ftree", ext=False, rb="d", ops=["br", "tt", "bw", "tw", "bu", "pw", "tw", "tt", "pu"]),
    dict(kind="ftree", ext=False, rb="dc", ops=["tw", "tr", "bw", "tt", "bu"]),
]


def _corpus():
    out = list(FIXED)
    for f in sorted(glob.glob(os.path.join(env.VERIF, "corpus", "C28", "*.json"))):
        out.append(json.load(open(f)))
    return out


def _subjects():
    return {k: v() for k, v in SUBJECTS.items()}


def run(ctx, bounds=None, tree=True):
    rng = ctx.rng
    subs = _subjects()
    cases, lines, outs = [], [], []

    def one(kind, ext, ops, rb=""):
        c, l, o = run_sequence(ctx, subs[kind], ext, ops, rb=rb)
        cases.append(c)
        lines.append(l)
        outs.append(o)

    def guarded(kind, fn):
        """the stack kinds need a real tree.  If building or driving it raises a lock
        error (or an assertion of the locking code) the standard workflow itself --
        create a 2a tree, commit, open the branch: nested lock_write / lock_read /
        unlock calls -- fails on the real code: that is a violation with the workflow
        as its input.  Anything else stays an infrastructure error, unless the
        wrapper-level runs already found a violation (then the part is skipped)."""
        from breezy import errors
        try:
            fn()
        except (errors.LockError, AssertionError) as e:
            ctx.violation(dict(kind="setup", part=kind),
                          "standard locking workflow (create a 2a tree, commit, open, lock) fails on the real "
                          "code with %s: %s" % (_exc(e), str(e)[:200]))
            del cases[:], lines[:], outs[:]
        except Exception as e:  # noqa
            if not (ctx.violations or ctx.mismatches):
                raise
            ctx.extra.setdefault("skipped_after_violation", []).append("%s: %s" % (kind, _exc(e)))
            del cases[:], lines[:], outs[:]

    bounds = bounds or dict(cl=ctx.pick(6, 7), lf=ctx.pick(6, 7), repo=ctx.pick(5, 6), branch=ctx.pick(4, 5),
                            repow=ctx.pick(3, 4), branchs=ctx.pick(3, 4), ftree=ctx.pick(3, 4))

    def rbsets(kind):
        fl = subs[kind].rbflags
        return ["".join(c) for n in range(1, len(fl) + 1) for c in itertools.combinations(fl, n)]

    def part(kind, L):
        for c in _corpus():
            if c["kind"] == kind:
                one(kind, c["ext"], c["ops"], c.get("rb", ""))
        alphabet = subs[kind].ops()
        for ext in (False, True):
            for ops in itertools.product(alphabet, repeat=L):
                one(kind, ext, list(ops))
        # shorter sequences are prefixes of these and are observed step by step.
        # every set of read-refusing physical locks: one layer less
        for rb in rbsets(kind):
            for ext in (False, True):
                for ops in itertools.product(alphabet, repeat=L - 1):
                    one(kind, ext, list(ops), rb)
        nrand = ctx.pick(1500, 15000) if kind in ("cl", "lf") else ctx.pick(200, 2000) \
            if kind in ("repow", "branchs") else ctx.pick(600, 6000)
        for _ in range(nrand):
            n = rng.randint(L + 1, 40 if kind != "ftree" else 24)
            # biased towards deep nesting and towards the unlock edge
            wts = rng.choice([[3, 3, 1, 1, 3], [1, 1, 1, 1, 3], [4, 1, 1, 1, 2], [1, 4, 2, 1, 3]])
            twts = rng.choice([[3, 2, 2, 3], [1, 1, 1, 3], [4, 1, 1, 2], [1, 3, 3, 3]])
            tw = [5, 2, 1] if kind == "ftree" else None
            ops = []
            for _ in range(n):
                t = rng.choices(subs[kind].targets, weights=tw)[0]
                if t == "t":
                    o = rng.choices(["r", "t", "w", "u"], weights=twts)[0]
                elif kind == "repow" and rng.random() < 0.25:
                    o = rng.choice("gga")
                else:
                    o = rng.choices(OPS, weights=wts)[0]
                ops.append(t + o)
            rb = rng.choice(rbsets(kind)) if rng.random() < 0.3 and rbsets(kind) else ""
            one(kind, rng.random() < 0.4, ops, rb)
        ctx.diff(cases, lines, outs)
        del cases[:], lines[:], outs[:]

    import time
    secs = ctx.extra.setdefault("part_seconds", {})
    for kind, L in bounds.items():
        t0 = time.time()
        guarded(kind, lambda kind=kind, L=L: part(kind, L))
        secs[kind] = round(time.time() - t0, 1)
    ctx.exhaustive = True
    ctx.extra["exhaustive_lengths"] = bounds
    ctx.extra["branch_unlock_variant"] = _variant[0] if _variant else None
    ctx.extra["ftree_unlock_variant"] = _tvariant[0] if _tvariant else None
    if tree:
        t0 = time.time()
        guarded("tree", lambda: tree_stack(ctx, ctx.pick(300, 3000), ctx.pick(12, 25)))
        secs["tree"] = round(time.time() - t0, 1)


def widen(ctx):
    """a tie broke with a clean oracle: one more exhaustive layer of the two basic wrappers"""
    run(ctx, bounds=dict(cl=7, lf=7), tree=False)


def replay(ctx, case):
    kind = case.get("kind")
    if kind == "setup":
        try:
            wt = env.make_tree("2a")
            wt.commit("one")
            from breezy.branch import Branch
            b = Branch.open(wt.branch.base)
            b.lock_write()
            b.unlock()
            out = "ok"
        except Exception as e:  # noqa
            out = _exc(e) + ": " + str(e)[:200]
            ctx.violation(case, "standard locking workflow fails: " + out)
        return dict(case=case, impl=out, model=None, oracle_failures=[v["what"] for v in ctx.violations])
    if kind == "tree":
        base = env.make_tree(case.get("fmt", "2a"))
        base.commit("one")
        tree_sequence(ctx, base.basedir, case["ops"], fmt=case.get("fmt", "2a"))
        return dict(case=case, note="working-tree stack case (real LockDirs): oracle only", impl=None, model=None,
                    oracle_failures=[v["what"] for v in ctx.violations])
    subs = _subjects()
    c, line, out = run_sequence(ctx, subs[kind], case["ext"], case["ops"], record=False, rb=case.get("rb", ""))
    model = ctx.model([line])[0]
    return dict(case=case, impl=out.split(";"), model=model.split(";"), agree=out == model,
                oracle_failures=[v["what"] for v in ctx.violations])
