import BreezyVerif.Model.C35
import BreezyVerif.Lemmas.C35
/-
Helper lemmas for the history-level theorem of Props/C35.lean
(`run_history_roots`): the SHA map filled revision by revision stays correct.
-/
namespace BreezyVerif.C35

theorem incr_eq_scratch' (H : GObj → Sha) (cache : Cache) (base : Option (Children × Sha))
    (others : List Children) (t : Children)
    (hc : cacheOK H cache (leavesC t ++ others.flatMap leavesC) = true)
    (hb : ∀ b s, base = some (b, s) → s = expRoot H b) :
    incrRoot H cache base others t = expRoot H t := by
  unfold incrRoot
  cases base with
  | none =>
    simp only [expRoot, rootObj]
    rw [incrChildren_eq H cache none others _ hc (fun x hx => by simp [hx]) t [] (fun x hx => by simp [hx])]
  | some bs =>
    obtain ⟨b, s⟩ := bs
    simp only
    split
    · rename_i hs
      rw [hb b s rfl]
      simp only [expRoot, rootObj, sameGit_expChildren H b t hs]
    · simp only [expRoot, rootObj]
      rw [incrChildren_eq H cache (some b) others _ hc (fun x hx => by simp [hx]) t [] (fun x hx => by simp [hx])]

theorem cacheGet_mem : ∀ (c : Cache) (k : Key) (s : Sha), c.get k = some s → (k, s) ∈ c
  | [], _, _, h => by simp [Cache.get] at h
  | (k', s') :: rest, k, s, h => by
    simp only [Cache.get] at h
    split at h
    · rename_i hk
      simp only [Option.some.injEq] at h
      subst hk; subst h
      simp
    · exact List.mem_cons_of_mem _ (cacheGet_mem rest k s h)

theorem cacheGet_append (a b : Cache) (k : Key) :
    Cache.get (a ++ b) k = match a.get k with
      | some s => some s
      | none => b.get k := by
  induction a with
  | nil => simp [Cache.get]
  | cons x xs ih =>
    obtain ⟨k', s'⟩ := x
    simp only [List.cons_append, Cache.get]
    split
    · rfl
    · exact ih

theorem cacheGet_filter (p : Key → Bool) : ∀ (c : Cache) (k : Key) (s : Sha),
    Cache.get (c.filter fun e => p e.1) k = some s → c.get k = some s
  | [], _, _, h => by simp [Cache.get] at h
  | (k', s') :: rest, k, s, h => by
    simp only [List.filter] at h
    by_cases hk : k' = k
    · subst hk
      cases hp : p k'
      · simp only [hp] at h
        -- the key is filtered out everywhere: nothing can be found
        exfalso
        have hm := cacheGet_mem _ _ _ h
        simp only [List.mem_filter] at hm
        simp [hp] at hm
      · simp only [hp, Cache.get, if_true] at h
        simp [Cache.get, h]
    · cases hp : p k'
      · simp only [hp] at h
        simp only [Cache.get, hk, if_false]
        exact cacheGet_filter p rest k s h
      · simp only [hp, Cache.get, hk, if_false] at h
        simp only [Cache.get, hk, if_false]
        exact cacheGet_filter p rest k s h

theorem cacheOK_iff (H : GObj → Sha) (cache : Cache) (ls : List (Key × Bytes)) :
    cacheOK H cache ls = true ↔ ∀ k p s, (k, p) ∈ ls → cache.get k = some s → s = H (.blob p) := by
  constructor
  · intro h k p s hm hg
    exact cacheOK_get h hm hg
  · intro h
    unfold cacheOK
    rw [List.all_eq_true]
    intro ⟨k, p⟩ hm
    simp only
    cases hg : cache.get k with
    | none => rfl
    | some s => simp [h k p s hm hg]

theorem cacheOK_subset (H : GObj → Sha) (cache : Cache) (ls ls' : List (Key × Bytes))
    (h : cacheOK H cache ls = true) (hs : ∀ x ∈ ls', x ∈ ls) : cacheOK H cache ls' = true := by
  rw [cacheOK_iff] at h ⊢
  intro k p s hm hg
  exact h k p s (hs _ hm) hg

theorem cacheOK_filter (H : GObj → Sha) (cache : Cache) (ls : List (Key × Bytes)) (p : Key → Bool)
    (h : cacheOK H cache ls = true) : cacheOK H (cache.filter fun e => p e.1) ls = true := by
  rw [cacheOK_iff] at h ⊢
  intro k q s hm hg
  exact h k q s hm (cacheGet_filter p cache k s hg)

theorem keysFunctional_iff (ls : List (Key × Bytes)) :
    keysFunctional ls = true ↔ ∀ k p q, (k, p) ∈ ls → (k, q) ∈ ls → p = q := by
  unfold keysFunctional
  simp only [List.all_eq_true, Bool.or_eq_true, bne_iff_ne, ne_eq, beq_iff_eq]
  constructor
  · intro h k p q hp hq
    rcases h (k, p) hp (k, q) hq with h | h
    · exact absurd rfl h
    · exact h
  · intro h a ha b hb
    by_cases hk : a.1 = b.1
    · right
      obtain ⟨k, p⟩ := a
      obtain ⟨k', q⟩ := b
      simp only at hk
      subst hk
      exact h k p q ha hb
    · left; exact hk

mutual
/-- every entry the conversion records is the id of the blob of a leaf of the tree -/
theorem incrEntries_sound (H : GObj → Sha) (cache : Cache) (base : Option Children) (others : List Children)
    (ls : List (Key × Bytes)) (hc : cacheOK H cache ls = true)
    (ho : ∀ x ∈ others.flatMap leavesC, x ∈ ls) :
    (n : Node) → (path : Path) → (∀ x ∈ leaves n, x ∈ ls) →
      ∀ k s, (k, s) ∈ incrEntries H cache base others path n → ∃ p, (k, p) ∈ leaves n ∧ s = H (.blob p)
  | .file k c x um, path, hl, k', s, hm => by
    simp only [incrEntries, List.mem_singleton, Prod.mk.injEq] at hm
    obtain ⟨rfl, rfl⟩ := hm
    exact ⟨c, by simp [leaves], incrFile_eq H cache base others ls hc ho path k' c _ (hl _ (by simp [leaves]))⟩
  | .link k t um, path, hl, k', s, hm => by
    simp only [incrEntries, List.mem_singleton, Prod.mk.injEq] at hm
    obtain ⟨rfl, rfl⟩ := hm
    exact ⟨t, by simp [leaves], incrLink_eq H cache base ls hc path k' t _ (hl _ (by simp [leaves]))⟩
  | .dir cs, path, hl, k', s, hm => by
    simp only [incrEntries] at hm
    simp only [leaves]
    exact incrEntriesC_sound H cache base others ls hc ho cs path (by simpa [leaves] using hl) k' s hm
theorem incrEntriesC_sound (H : GObj → Sha) (cache : Cache) (base : Option Children) (others : List Children)
    (ls : List (Key × Bytes)) (hc : cacheOK H cache ls = true)
    (ho : ∀ x ∈ others.flatMap leavesC, x ∈ ls) :
    (cs : Children) → (path : Path) → (∀ x ∈ leavesC cs, x ∈ ls) →
      ∀ k s, (k, s) ∈ incrEntriesC H cache base others path cs → ∃ p, (k, p) ∈ leavesC cs ∧ s = H (.blob p)
  | .nil, _, _, k, s, hm => by simp [incrEntriesC] at hm
  | .cons name n rest, path, hl, k, s, hm => by
    have h1 : ∀ x ∈ leaves n, x ∈ ls := fun x hx => hl x (by simp [leavesC, hx])
    have h2 : ∀ x ∈ leavesC rest, x ∈ ls := fun x hx => hl x (by simp [leavesC, hx])
    simp only [incrEntriesC] at hm
    simp only [leavesC, List.mem_append]
    split at hm
    · obtain ⟨p, hp, hs⟩ := incrEntriesC_sound H cache base others ls hc ho rest path h2 k s hm
      exact ⟨p, Or.inr hp, hs⟩
    · simp only [List.mem_append] at hm
      rcases hm with hm | hm
      · obtain ⟨p, hp, hs⟩ := incrEntries_sound H cache base others ls hc ho n (path ++ [name]) h1 k s hm
        exact ⟨p, Or.inl hp, hs⟩
      · obtain ⟨p, hp, hs⟩ := incrEntriesC_sound H cache base others ls hc ho rest path h2 k s hm
        exact ⟨p, Or.inr hp, hs⟩
end

/-- the invariant of `_update_sha_map`: the root tree id recorded for every
converted revision is its from-scratch id, and the SHA map is correct for every
leaf of the whole history `all` -/
def HInv (H : GObj → Sha) (all : List (Key × Bytes)) (s : HState) : Prop :=
  s.roots = s.trees.map (expRoot H) ∧ cacheOK H s.cache all = true ∧
    (∀ t ∈ s.trees, ∀ x ∈ leavesC t, x ∈ all)

theorem presentParents_sound (H : GObj → Sha) (all : List (Key × Bytes)) (s : HState)
    (hinv : HInv H all s) (ps : List Nat) :
    ∀ q ∈ presentParents s ps, q.2 = expRoot H q.1 ∧ q.1 ∈ s.trees := by
  intro q hq
  unfold presentParents at hq
  simp only [List.mem_filterMap] at hq
  obtain ⟨i, _, hi⟩ := hq
  split at hi
  · rename_i t x ht hx
    simp only [Option.some.injEq] at hi
    subst hi
    have hr := hinv.1
    rw [hr] at hx
    simp only [List.getElem?_map, ht, Option.map_some, Option.some.injEq] at hx
    exact ⟨hx.symm, List.mem_of_getElem? ht⟩
  · simp at hi

theorem stepRev_inv (H : GObj → Sha) (all : List (Key × Bytes)) (hf : keysFunctional all = true)
    (s : HState) (r : Rev) (hinv : HInv H all s) (hr : ∀ x ∈ leavesC r.tree, x ∈ all) :
    HInv H all (stepRev H s r) := by
  obtain ⟨hroots, hcache, htrees⟩ := hinv
  have hpres := presentParents_sound H all s ⟨hroots, hcache, htrees⟩ r.parents
  -- the evicted cache is still correct
  have hc' : cacheOK H (s.cache.filter fun e => !r.evict.contains e.1) all = true :=
    cacheOK_filter H s.cache all (fun k => !r.evict.contains k) hcache
  -- leaves of the other parents belong to the history
  have hothers : ∀ x ∈ ((presentParents s r.parents).tail.map (·.1)).flatMap leavesC, x ∈ all := by
    intro x hx
    simp only [List.mem_flatMap, List.mem_map] at hx
    obtain ⟨t, ⟨q, hq, rfl⟩, hxt⟩ := hx
    exact htrees q.1 (hpres q (List.mem_of_mem_tail hq)).2 x hxt
  have hbase : ∀ b x, (presentParents s r.parents).head? = some (b, x) → x = expRoot H b := by
    intro b x hh
    exact (hpres (b, x) (List.mem_of_mem_head? hh)).1
  have hsub : ∀ x ∈ leavesC r.tree ++ ((presentParents s r.parents).tail.map (·.1)).flatMap leavesC, x ∈ all := by
    intro x hx
    simp only [List.mem_append] at hx
    rcases hx with hx | hx
    · exact hr x hx
    · exact hothers x hx
  have hroot := incr_eq_scratch' H (s.cache.filter fun e => !r.evict.contains e.1)
    (presentParents s r.parents).head? ((presentParents s r.parents).tail.map (·.1)) r.tree
    (cacheOK_subset H _ all _ hc' hsub) hbase
  refine ⟨?_, ?_, ?_⟩
  · simp only [stepRev, List.map_append, List.map_cons, List.map_nil, hroots, hroot]
  · -- the new SHA map
    simp only [stepRev]
    rw [cacheOK_iff]
    intro k p sh hm hg
    rw [cacheGet_append] at hg
    have hfun := (keysFunctional_iff all).1 hf
    have hnew : ∀ (b : Option Children) (sh : Sha),
        (k, sh) ∈ incrEntriesC H (s.cache.filter fun e => !r.evict.contains e.1) b
          ((presentParents s r.parents).tail.map (·.1)) [] r.tree → sh = H (.blob p) := by
      intro b sh hmem
      obtain ⟨p', hp', hs⟩ := incrEntriesC_sound H _ b _ all hc' hothers r.tree [] hr k sh hmem
      rw [hfun k p p' hm (hr _ hp')]
      exact hs
    split at hg
    · rename_i s' hs'
      simp only [Option.some.injEq] at hg
      subst hg
      have hmem := cacheGet_mem _ _ _ hs'
      split at hmem
      · rename_i b x _
        split at hmem
        · simp at hmem
        · exact hnew (some b) s' hmem
      · exact hnew none s' hmem
    · exact (cacheOK_iff H _ all).1 hc' k p sh hm hg
  · intro t ht x hx
    simp only [stepRev, List.mem_append, List.mem_singleton] at ht
    rcases ht with ht | ht
    · exact htrees t ht x hx
    · subst ht; exact hr x hx

theorem runHist_inv (H : GObj → Sha) (all : List (Key × Bytes)) (hf : keysFunctional all = true) :
    ∀ (h : List Rev) (s : HState), HInv H all s → (∀ r ∈ h, ∀ x ∈ leavesC r.tree, x ∈ all) →
      HInv H all (runHist H s h)
  | [], s, hinv, _ => by simpa [runHist] using hinv
  | r :: rest, s, hinv, hall => by
    have h1 := stepRev_inv H all hf s r hinv (hall r (by simp))
    have := runHist_inv H all hf rest (stepRev H s r) h1 (fun r' hr' => hall r' (by simp [hr']))
    simpa [runHist] using this

theorem runHist_trees (H : GObj → Sha) : ∀ (h : List Rev) (s : HState),
    (runHist H s h).trees = s.trees ++ h.map (·.tree)
  | [], s => by simp [runHist]
  | r :: rest, s => by
    have := runHist_trees H rest (stepRev H s r)
    simp only [runHist, List.foldl_cons] at this ⊢
    rw [this]
    simp [stepRev]

end BreezyVerif.C35
