import BreezyVerif.Lemmas.C46Remove
/-! C46 — `cleanTree` as a whole: exact characterisation of what survives. -/
namespace BreezyVerif.C46
open Forest

theorem selected_path_mem {keep : Item → Bool} {fmt : Fmt} {o : Opts} {f : Forest} {it : Item}
    (h : it ∈ selectedWith keep fmt o f) : it.path ∈ f.paths :=
  items_path_mem (extras_sub (selected_sub h).1)

/-- what `cleanTree` does when it really deletes -/
theorem cleanTree_spec {keep : Item → Bool} {fmt : Fmt} {o : Opts} {f : Forest} (hw : f.wf = true)
    (hd : o.dryRun = false) (hp : o.prompt ≠ some false) :
    (cleanTreeWith keep fmt o f).2 = false ∧ (cleanTreeWith keep fmt o f).1.wf = true ∧
      ∀ q, q ∈ (cleanTreeWith keep fmt o f).1.paths ↔
        (q ∈ f.paths ∧ ∀ s ∈ selectedWith keep fmt o f, ¬ s.path <+: q) := by
  by_cases he : (selectedWith keep fmt o f).isEmpty = true
  · have : selectedWith keep fmt o f = [] := by simpa using he
    simp [cleanTreeWith, this, hw]
  · have e0 : cleanTreeWith keep fmt o f = deleteItems f ((selectedWith keep fmt o f).map (·.path)) := by
      simp [cleanTreeWith, he, hp, hd]
    rw [e0]
    have h1 : ∀ p ∈ (selectedWith keep fmt o f).map (·.path), p ∈ f.paths := by
      intro p hp'
      obtain ⟨s, hs, rfl⟩ := List.mem_map.mp hp'
      exact selected_path_mem hs
    have h2 : ((selectedWith keep fmt o f).map (·.path)).Pairwise (fun a b => ¬ a <+: b) := by
      rw [List.pairwise_map]
      exact (selected_antichain hw).imp (fun h => h.1)
    obtain ⟨f', e, hw', hs⟩ := deleteItems_spec _ hw h1 h2
    rw [e]
    refine ⟨rfl, hw', ?_⟩
    intro q
    rw [hs q]
    simp only [List.mem_map, forall_exists_index, and_imp, forall_apply_eq_imp_iff₂]

theorem cleanTree_noop {keep : Item → Bool} {fmt : Fmt} {o : Opts} {f : Forest}
    (h : o.dryRun = true ∨ o.prompt = some false) : cleanTreeWith keep fmt o f = (f, false) := by
  by_cases he : (selectedWith keep fmt o f).isEmpty = true
  · simp [cleanTreeWith, he]
  · by_cases hp : o.prompt = some false
    · simp [cleanTreeWith, hp]
    · rcases h with h | h
      · simp [cleanTreeWith, h]
      · exact absurd h hp

/-- a path no selected candidate is a prefix of survives, whatever the options -/
theorem survives {keep : Item → Bool} {fmt : Fmt} {o : Opts} {f : Forest} {q : Path} (hw : f.wf = true)
    (hq : q ∈ f.paths) (hs : ∀ s ∈ selectedWith keep fmt o f, ¬ s.path <+: q) :
    q ∈ (cleanTreeWith keep fmt o f).1.paths := by
  by_cases hd : o.dryRun = true
  · rw [cleanTree_noop (Or.inl hd)]; exact hq
  · by_cases hp : o.prompt = some false
    · rw [cleanTree_noop (Or.inr hp)]; exact hq
    · exact ((cleanTree_spec (keep := keep) hw (by simpa using hd) hp).2.2 q).mpr ⟨hq, hs⟩

theorem wf_items_kids {f : Forest} {it : Item} (hw : f.wf = true) (h : it ∈ items f) :
    it.info.kind = .dir ∨ it.kids = nil := by
  induction f generalizing it with
  | nil => simp [items] at h
  | cons i kids rest ih1 ih2 =>
    obtain ⟨_, _, _, _, _, h6, hk, hr⟩ := wf_cons hw
    simp only [items, List.mem_cons, List.mem_append, List.mem_map] at h
    rcases h with (h | ⟨t, ht, rfl⟩) | h
    · subst h; exact h6
    · exact ih1 (it := t) hk ht
    · exact ih2 hr h

/-- git: no walked file lies at or below a directory that has a `.git` entry -/
theorem filesG_not_below_gitdir {f : Forest} {d : Path} {i : Info} {k : Forest} {it : Item}
    (hw : f.wf = true) (hg : f.get d = some (i, k)) (hd : i.kind = .dir)
    (hc : k.hasName ".git" = true) (h : it ∈ filesG f) : ¬ d <+: it.path := by
  induction f generalizing d it with
  | nil => simp [filesG] at h
  | cons j kids rest ih1 ih2 =>
    obtain ⟨hn, _, _, _, _, _, hk, hr⟩ := wf_cons hw
    cases d with
    | nil => simp [Forest.get] at hg
    | cons n d' =>
      simp only [filesG, List.mem_append] at h
      rcases h with h | h
      · -- the head entry
        split at h
        · split at h
          · simp at h
          · rename_i hkind hnp
            simp only [List.mem_map] at h
            obtain ⟨t, ht, rfl⟩ := h
            intro hpre
            obtain ⟨e, hpre'⟩ := List.cons_prefix_cons.mp hpre
            subst e
            cases d' with
            | nil =>
              rw [get_cons_self] at hg
              simp at hg
              rw [hg.2] at hnp
              simp [hc] at hnp
            | cons a b =>
              rw [get_cons_down] at hg
              exact ih1 hk hg ht hpre'
        · simp at h
        · rename_i h1 h2
          split at h
          · simp at h
          · simp at h
            subst h
            intro hpre
            obtain ⟨e, hpre'⟩ := List.cons_prefix_cons.mp hpre
            subst e
            have : d' = [] := by simpa using hpre'
            subst this
            rw [get_cons_self] at hg
            simp at hg
            exact h1 (hg.1 ▸ hd)
      · -- a later sibling
        obtain ⟨a, t, e, ha⟩ := items_head (filesG_sub h)
        intro hpre
        rw [e] at hpre
        obtain ⟨e', _⟩ := List.cons_prefix_cons.mp hpre
        subst e'
        have hne : j.name ≠ n := fun e' => hn (e' ▸ ha)
        rw [get_cons_ne hne] at hg
        exact ih2 hr hg h (e ▸ hpre)

/-! ### the proposed repair of the filter -/

theorem hasCtl_hasCtlName {k : Forest} (h : hasCtl k = true) : hasCtlName k = true := by
  induction k with
  | nil => simp [hasCtl] at h
  | cons i kids rest _ ih2 =>
    simp only [hasCtl, Bool.or_eq_true, Bool.and_eq_true] at h
    simp only [hasCtlName, Bool.or_eq_true]
    rcases h with h | h
    · exact Or.inl h.1
    · exact Or.inr (ih2 h)

theorem hasCtlName_containsCtlName {k : Forest} (h : hasCtlName k = true) : containsCtlName k = true := by
  induction k with
  | nil => simp [hasCtlName] at h
  | cons i kids rest _ ih2 =>
    simp only [hasCtlName, Bool.or_eq_true] at h
    simp only [containsCtlName, Bool.or_eq_true]
    rcases h with h | h
    · exact Or.inl (Or.inl h)
    · exact Or.inr (ih2 h)

theorem hasCtl_containsCtlName {k : Forest} (h : hasCtl k = true) : containsCtlName k = true :=
  hasCtlName_containsCtlName (hasCtl_hasCtlName h)

/-- a control name occurring in a path of `k` occurs in `k` -/
theorem containsCtlName_of_path {k : Forest} {q : Path} {c : String} (hq : q ∈ k.paths)
    (hc : c ∈ q) (hn : isCtlName c = true) : containsCtlName k = true := by
  induction k generalizing q with
  | nil => simp [Forest.paths] at hq
  | cons i kids rest ih1 ih2 =>
    simp only [Forest.paths, List.mem_cons, List.mem_append, List.mem_map] at hq
    simp only [containsCtlName, Bool.or_eq_true]
    rcases hq with (hq | ⟨t, ht, rfl⟩) | hq
    · subst hq
      simp at hc; subst hc
      exact Or.inl (Or.inl hn)
    · simp only [List.mem_cons] at hc
      rcases hc with rfl | hc
      · exact Or.inl (Or.inl hn)
      · exact Or.inl (Or.inr (ih1 ht hc))
    · exact Or.inr (ih2 hq hc)

theorem hasCtlName_of_single {k : Forest} {c : String} (hq : [c] ∈ k.paths)
    (hn : isCtlName c = true) : hasCtlName k = true := by
  induction k with
  | nil => simp [Forest.paths] at hq
  | cons i kids rest _ ih2 =>
    simp only [Forest.paths, List.mem_cons, List.mem_append, List.mem_map] at hq
    simp only [hasCtlName, Bool.or_eq_true]
    rcases hq with (hq | ⟨t, _, ht⟩) | hq
    · simp at hq; subst hq; exact Or.inl hn
    · simp at ht; exact Or.inl (ht.1 ▸ hn)
    · exact Or.inr (ih2 hq)

/-- in a well-formed layout every listed path can be looked up -/
theorem get_of_mem_paths {f : Forest} {q : Path} (hw : f.wf = true) (h : q ∈ f.paths) :
    ∃ x, f.get q = some x := by
  induction f generalizing q with
  | nil => simp [Forest.paths] at h
  | cons i kids rest ih1 ih2 =>
    obtain ⟨hn, _, _, _, _, _, hk, hr⟩ := wf_cons hw
    simp only [Forest.paths, List.mem_cons, List.mem_append, List.mem_map] at h
    rcases h with (h | ⟨t, ht, rfl⟩) | h
    · subst h; exact ⟨_, get_cons_self⟩
    · obtain ⟨a, b, rfl, _⟩ := paths_head ht
      rw [get_cons_down]; exact ih1 hk ht
    · obtain ⟨a, b, rfl, ha⟩ := paths_head h
      have hne : i.name ≠ a := fun e' => hn (e' ▸ ha)
      rw [get_cons_ne hne]; exact ih2 hr h

/-- a path below an entry is a path of the entry's content -/
theorem paths_below {f : Forest} {p r : Path} {i : Info} {k : Forest} (hw : f.wf = true)
    (hg : f.get p = some (i, k)) (hr : r ≠ []) (hm : p ++ r ∈ f.paths) : r ∈ k.paths := by
  obtain ⟨x, hx⟩ := get_of_mem_paths hw hm
  rw [get_append hg hr] at hx
  exact mem_paths_of_get hx

end BreezyVerif.C46
