import os, sys, shutil, tempfile
base = tempfile.mkdtemp(prefix="c11repro", dir=os.environ.get("TMPDIR", "/var/tmp"))
os.environ.update(HOME=base, BRZ_HOME=base, BRZ_EMAIL="a <a@b>")
sys.path.insert(0, os.environ.get("VERIF_REPO", "/repo"))
import breezy; breezy.initialize()
import breezy.bzr, breezy.git, breezy.bzr.bzrdir, breezy.bzr.workingtree_4, breezy.bzr.groupcompress_repo
from breezy import plugin; plugin.load_plugins()
from breezy.controldir import ControlDir, format_registry
from breezy.workingtree import WorkingTree
_n = [0]
def mktree(fmt):
    _n[0] += 1
    p = os.path.join(base, "t%d" % _n[0]); os.mkdir(p)
    return ControlDir.create_standalone_workingtree(p, format=format_registry.make_controldir(fmt))
def write(root, rel, data="x\n"):
    full = os.path.join(root, rel); os.makedirs(os.path.dirname(full), exist_ok=True)
    with open(full, "w") as f: f.write(data)
def versioned(wt):
    wt = WorkingTree.open(wt.basedir)
    with wt.lock_read(): return sorted(p for p in wt.all_versioned_paths() if p)
def done(bad):
    shutil.rmtree(base, ignore_errors=True)
    print("DEFECT PRESENT" if bad else "ok")
    sys.exit(1 if bad else 0)
