"""C13 — applying a tree transform is all-or-nothing on the file system.

Mechanism: breezy/transform.py:_FileMover (rename journal, rollback, deferred
deletions) and the phase structure of InventoryTreeTransform.apply /
GitTreeTransform.apply (removals, insertions, rollback on any exception,
metadata update, apply_deletions).

T1: the relative order of "discard replaced content" (mover.apply_deletions)
    and "update the versioning metadata" (apply_inventory_delta /
    _apply_index_changes) is read from the source of both apply() methods and
    written to Generated/C13.lean; Props/C13T1.lean proves it is
    `metadataFirst`, the hypothesis of theorem `metadata_agrees`.
T2: real transforms (revert between two random tree states, with local edits
    and backups on/off; bzr 2a and git trees) are run with a fault-injecting
    _FileMover: for every mover call index k (rename / pre_delete) and every
    deletion index j the real run is compared with the Lean model
    (`apply order fs ops fault1 fault2`) on: exception kind, file-system
    snapshot after rollback / after the failed deletion / after success (limbo
    and pending-deletion areas included), old/new metadata, and the model's
    noClobber flag against the run-time observation that no executed rename
    found its target present.
Oracle: after a fault in the removal/insertion phases the directory snapshot
    equals the snapshot taken before the first mover call, the visible tree
    equals the tree before the command and the versioned paths are the old ones
    and all exist with their kind; after a fault while discarding content the
    visible tree is the transformed one and the versioned paths are the new
    ones.

Mutants this was built against (scratch worktrees): apply_deletions before
the metadata update (the defect fixed by the fix: commit); rollback not
reversed; rollback restoring pre_delete entries first (seeded); insertion-phase
rename errors swallowed for entries without new contents (seeded; only visible
when the fault is a real OSError from os.rename, hence the "os" fault mode);
pre_delete not journalled (os.rename directly); rollback swallowing
OSError; `except BaseException` -> `except Exception` around the phases
(faults are injected as BaseException half of the time); _apply_removals
sorted ascending; ENOENT swallowed for pre_delete as well.
"""
import errno
import os
import shutil
import sys

from vlib import env

THEOREMS = [
    "moveL_inverse", "rename_undo", "rollback_snoc", "rollback_invariant", "rollback_restores",
    "apply_phase12_failure_restores", "get_runDeletions", "metadata_agrees",
    "deletions_first_witness", "clobber_witness", "finalize_discards_limbo",
]
T1_THEOREMS = ["apply_order_bzr", "apply_order_git"]
RULE = ("scenario = (format, random tree state A, random edits -> state B, local edits, backups flag); "
        "case = (scenario, fault index in mover calls | fault index in deletions | no fault); all fault "
        "indices of every scenario are enumerated; non-trivial = the transform performs >= 2 mover calls; "
        "distinct by (op list, snapshot, fault)")
ASSUMPTIONS = [
    "os.rename is atomic and follows the POSIX rules modelled in Model/C13.lean (checked per case by comparing snapshots)",
    "faults are exceptions raised by the mover before the k-th rename / the j-th delete_any; torn single renames are not modelled",
]
TRUSTED = ["the POSIX rename/rmtree model of Model/C13.lean; a crash (no rollback code runs at all) is out of scope of this property"]


class Injected(Exception):
    pass


class InjectedBase(BaseException):
    pass


# --------------------------------------------------------------------------
# snapshots

def _enc_path(rel):
    if rel in ("", "."):
        return "."
    return "/".join(c.encode("utf-8", "surrogateescape").hex() for c in rel.split("/"))


def snapshot(root, ctl):
    """{relpath: (kind, data)} of the visible tree plus the limbo and
    pending-deletion areas under the control directory `ctl`."""
    snap = {".": ("d", "-")}
    ctl_top = ctl.split("/")[0]

    def walk(rel):
        full = os.path.join(root, rel) if rel else root
        for name in sorted(os.listdir(full)):
            r = name if not rel else rel + "/" + name
            if not rel and name == ctl_top:
                continue
            add(r)

    def add(r):
        p = os.path.join(root, r)
        if os.path.islink(p):
            snap[r] = ("l", os.readlink(p).encode().hex() or "-")
        elif os.path.isdir(p):
            snap[r] = ("d", "-")
            walk(r)
        else:
            with open(p, "rb") as f:
                snap[r] = ("f", f.read().hex() or "-")

    walk("")
    # control chain
    parts = ctl.split("/")
    for i in range(1, len(parts) + 1):
        snap["/".join(parts[:i])] = ("d", "-")
    for area in ("limbo", "pending-deletion"):
        r = ctl + "/" + area
        if os.path.isdir(os.path.join(root, r)):
            add(r)
    return snap


def enc_fs(snap):
    return ";".join("%s|%s|%s" % (_enc_path(p), k, d) for p, (k, d) in sorted(snap.items()))


def canon_fs(snap):
    return ";".join(sorted("%s|%s|%s" % (_enc_path(p), k, d) for p, (k, d) in snap.items()))


def visible(snap, ctl):
    top = ctl.split("/")[0]
    return {p: v for p, v in snap.items() if p != top and not p.startswith(top + "/")}


# --------------------------------------------------------------------------
# fault-injecting mover

class Plan:
    def __init__(self, root, ctl, fault1=None, fault2=None, base=False, fault3=None, after=False):
        self.root, self.ctl = root, ctl
        self.fault1, self.fault2 = fault1, fault2
        self.fault3, self.after3 = fault3, after   # fault at the k-th content creation (before / after it)
        self.ncreate = 0
        self.exc = InjectedBase if base else Injected
        # base may also be the string "os": the fault is then a real OSError(EIO)
        # raised by os.rename itself, which _FileMover.rename wraps in
        # TransformRenameFailed (the way a genuine file-system failure arrives)
        self.os_fault = (base == "os")
        if self.os_fault:
            self.exc = Injected
        self.injected = False
        self.n = 0
        self.log = []          # (kind, relfrom, relto, target_existed, error-or-None)
        self.before = None
        self.after = None      # snapshot after rollback / failed deletion / success
        self.where = None      # 'rollback' | 'deletion' | 'done'
        self.movers = 0
        self.ndel = 0
        self.rollback_error = None


_plan = None


def _install():
    """patch the _FileMover used by both transform implementations"""
    import breezy.transform as bt
    import breezy.bzr.transform as bbt
    import breezy.git.transform as bgt
    orig = getattr(bt, "_verif_orig_FileMover", None) or bt._FileMover
    bt._verif_orig_FileMover = orig

    class FaultyMover(orig):
        def __new__(cls):
            # outside a planned run (tree creation etc.) behave exactly as the original
            if _plan is None:
                return orig()
            return super().__new__(cls)

        def __init__(self):
            super().__init__()
            P = _plan
            P.movers += 1
            if P.before is None:
                P.before = snapshot(P.root, P.ctl)
            self._kind = "r"

        def _rel(self, p):
            return os.path.relpath(p, _plan.root)

        def rename(self, a, b):
            P = _plan
            k = P.n
            P.n += 1
            kind = self._kind
            self._kind = "r"
            if k == P.fault1:
                P.injected = True
                if P.os_fault:
                    real_rename = os.rename

                    def failing(src, dst, *a_, **kw_):
                        raise OSError(errno.EIO, "injected I/O error", src)
                    os.rename = failing
                    try:
                        super().rename(a, b)       # raises TransformRenameFailed(EIO)
                    finally:
                        os.rename = real_rename
                    # a mover that swallows the error is itself a defect: fall through
                    P.log.append((kind, self._rel(a), self._rel(b), False, "swallowed-os-error"))
                    return
                raise P.exc("injected at mover call %d" % k)
            existed = os.path.lexists(b)
            try:
                super().rename(a, b)
            except BaseException as e:
                en = getattr(e, "errno", None)
                if en is None and e.__cause__ is not None:
                    en = getattr(e.__cause__, "errno", None)
                P.log.append((kind, self._rel(a), self._rel(b), existed,
                              "%s:%s" % (type(e).__name__, errno.errorcode.get(en, ""))))
                raise
            P.log.append((kind, self._rel(a), self._rel(b), existed, None))

        def pre_delete(self, a, b):
            self._kind = "p"
            super().pre_delete(a, b)

        def rollback(self):
            P = _plan
            try:
                super().rollback()
            except BaseException as e:
                P.rollback_error = repr(e)
                raise
            finally:
                P.after = snapshot(P.root, P.ctl)
                P.where = "rollback"

        def apply_deletions(self):
            P = _plan
            real = bt.delete_any
            cnt = [0]

            def counting(path):
                j = cnt[0]
                cnt[0] += 1
                if j == P.fault2:
                    raise P.exc("injected at deletion %d" % j)
                return real(path)
            P.ndel = len(self.pending_deletions)
            bt.delete_any = counting
            try:
                super().apply_deletions()
                P.where = "done"
            except BaseException:
                P.where = "deletion"
                raise
            finally:
                bt.delete_any = real
                P.after = snapshot(P.root, P.ctl)

    bt._FileMover = FaultyMover
    bbt._FileMover = FaultyMover
    bgt._FileMover = FaultyMover
    # content creation in limbo while a transform is being built
    for mod in (bbt, bgt):
        cls = mod.DiskTreeTransform
        for name in ("create_file", "create_directory", "create_symlink"):
            real = getattr(cls, name)
            if getattr(real, "_verif_wrapped", False):
                continue

            def make(real):
                def wrapper(self, *a, **kw):
                    P = _plan
                    if P is None:
                        return real(self, *a, **kw)
                    k = P.ncreate
                    P.ncreate += 1
                    if k == P.fault3 and not P.after3:
                        raise P.exc("injected before creation %d" % k)
                    r = real(self, *a, **kw)
                    if k == P.fault3 and P.after3:
                        raise P.exc("injected after creation %d" % k)
                    return r
                wrapper._verif_wrapped = True
                return wrapper
            setattr(cls, name, make(real))


# --------------------------------------------------------------------------
# scenarios

NAMES = ["a", "b", "c", "d"]


def _rand_state(rng, root, depth=0, prefix=""):
    """create a random directory content below root/prefix; returns paths created"""
    made = []
    for name in rng.sample(NAMES, rng.randint(2, 4) if depth == 0 else rng.randint(0, 2)):
        rel = prefix + name
        full = os.path.join(root, rel)
        r = rng.random()
        if r < 0.3 and depth < 2:
            os.mkdir(full)
            made.append(rel)
            made += _rand_state(rng, root, depth + 1, rel + "/")
        elif r < 0.4:
            os.symlink("tgt%d" % rng.randint(0, 2), full)
            made.append(rel)
        else:
            with open(full, "w") as f:
                f.write("%s-%d\n" % (rel, rng.randint(0, 3)))
            made.append(rel)
    return made


def _mutate(rng, wt, nops):
    """random versioned edits on the working tree (state A -> state B)"""
    root = wt.basedir
    done = []
    for _ in range(nops):
        with wt.lock_read():
            paths = sorted(p for p in wt.all_versioned_paths() if p)
        dirs = [""] + [p for p in paths if os.path.isdir(os.path.join(root, p)) and not os.path.islink(os.path.join(root, p))]
        op = rng.choice(["rename", "rename", "move", "remove", "modify", "add", "swap", "kind"])
        try:
            if op in ("rename", "move") and paths:
                src = rng.choice(paths)
                d = rng.choice(dirs) if op == "move" else os.path.dirname(src)
                if d == src or d.startswith(src + "/"):
                    continue
                dst = (d + "/" if d else "") + rng.choice(NAMES + ["e", "f"])
                if os.path.lexists(os.path.join(root, dst)):
                    continue
                wt.rename_one(src, dst)
                done.append(("mv", src, dst))
            elif op == "swap" and len(paths) >= 2:
                x, y = rng.sample(paths, 2)
                if x.startswith(y + "/") or y.startswith(x + "/"):
                    continue
                wt.rename_one(x, "swaptmp")
                wt.rename_one(y, x)
                wt.rename_one("swaptmp", y)
                done.append(("swap", x, y))
            elif op == "remove" and paths:
                p = rng.choice(paths)
                wt.remove([p], keep_files=False, force=True)
                done.append(("rm", p))
            elif op == "modify":
                files = [p for p in paths if os.path.isfile(os.path.join(root, p)) and not os.path.islink(os.path.join(root, p))]
                if files:
                    p = rng.choice(files)
                    with open(os.path.join(root, p), "a") as f:
                        f.write("mod%d\n" % rng.randint(0, 9))
                    done.append(("mod", p))
            elif op == "add":
                d = rng.choice(dirs)
                dst = (d + "/" if d else "") + rng.choice(NAMES + ["e", "f"])
                full = os.path.join(root, dst)
                if os.path.lexists(full):
                    continue
                if rng.random() < 0.3:
                    os.mkdir(full)
                    with open(os.path.join(full, "n"), "w") as f:
                        f.write("new\n")
                else:
                    with open(full, "w") as f:
                        f.write("new %s\n" % dst)
                wt.smart_add([full])
                done.append(("add", dst))
            elif op == "kind" and paths:
                p = rng.choice(paths)
                full = os.path.join(root, p)
                wt.remove([p], keep_files=False, force=True)
                if os.path.lexists(full):
                    continue
                if rng.random() < 0.5:
                    os.mkdir(full)
                    with open(os.path.join(full, "k"), "w") as f:
                        f.write("k\n")
                else:
                    with open(full, "w") as f:
                        f.write("was something else\n")
                wt.smart_add([full])
                done.append(("kind", p))
        except Exception as e:  # an edit the tree refuses: skip it
            done.append(("skip", op, type(e).__name__))
    return done


def build_scenario(seed_tuple):
    """-> dict(base=dir, fmt, ctl, rev1, backups, local)"""
    import random
    rng = random.Random(repr(seed_tuple))
    fmt = seed_tuple[1]
    wt = env.make_tree(fmt)
    root = wt.basedir
    _rand_state(rng, root)
    wt.smart_add([root])
    rev1 = wt.commit("A")
    edits = _mutate(rng, wt, rng.randint(2, 6))
    wt.commit("B")
    local = _mutate(rng, wt, rng.randint(0, 2))     # uncommitted local edits (backups!)
    # an unversioned file that may be in the way of a restored path
    if rng.random() < 0.3:
        p = os.path.join(root, rng.choice(NAMES))
        if not os.path.lexists(p):
            with open(p, "w") as f:
                f.write("unversioned\n")
    ctl = ".bzr/checkout" if fmt != "git" else ".git"
    return dict(base=root, fmt=fmt, ctl=ctl, rev1=rev1, backups=rng.random() < 0.5,
                edits=edits, local=local, seed=list(seed_tuple))


def versioned(root):
    from breezy.workingtree import WorkingTree
    wt = WorkingTree.open(root)
    out = {}
    with wt.lock_read():
        for p in wt.all_versioned_paths():
            try:
                k = wt.stored_kind(p)
            except Exception:
                k = "?"
            out[p] = k
    return out


def run_command(sc, fault1=None, fault2=None, base_exc=False, fault3=None, after3=False):
    """copy the scenario tree, run `revert -r1` with the given faults"""
    global _plan
    from breezy.workingtree import WorkingTree
    copy = env.fresh_dir("c13")
    os.rmdir(copy)
    shutil.copytree(sc["base"], copy, symlinks=True)
    _plan = P = Plan(copy, sc["ctl"], fault1, fault2, base_exc, fault3, after3)
    wt = WorkingTree.open(copy)
    pre_visible = visible(snapshot(copy, sc["ctl"]), sc["ctl"])
    pre_versioned = versioned(copy)
    raised = None
    try:
        with wt.lock_tree_write():
            old = wt.branch.repository.revision_tree(sc["rev1"])
            wt.revert(old_tree=old, backups=sc["backups"])
    except BaseException as e:
        # the injected fault may be masked by a cleanup error raised while it
        # propagates (ImmortalPendingDeletion from finalize): look down the chain
        raised = type(e).__name__
        c = e
        while c is not None:
            if isinstance(c, (Injected, InjectedBase)):
                raised = "INJECTED"
                break
            if P.os_fault and P.injected and type(c).__name__ == "TransformRenameFailed" and getattr(c, "errno", None) == errno.EIO:
                raised = "INJECTED"
                break
            c = c.__context__
        if raised in ("KeyboardInterrupt", "SystemExit"):
            raise
    _plan = None
    post = snapshot(copy, sc["ctl"])
    try:
        post_versioned = versioned(copy)
    except Exception as e:
        post_versioned = {"<error>": repr(e)}
    _plan = None
    res = dict(plan=P, raised=raised, pre_visible=pre_visible, pre_versioned=pre_versioned,
               post=post, post_visible=visible(post, sc["ctl"]), post_versioned=post_versioned, root=copy)
    return res


def disk_agrees(root, vers):
    """every versioned path exists on disk with its stored kind"""
    bad = []
    for p, k in vers.items():
        full = os.path.join(root, p)
        if not os.path.lexists(full):
            bad.append("%s missing" % p)
            continue
        dk = "symlink" if os.path.islink(full) else "directory" if os.path.isdir(full) else "file"
        if k in ("file", "directory", "symlink") and dk != k:
            bad.append("%s is %s on disk, %s in metadata" % (p, dk, k))
    return bad


def ops_of(log):
    return [(k, a, b) for (k, a, b, existed, err) in log]


def enc_ops(ops):
    return ";".join("%s:%s:%s" % (k, _enc_path(a), _enc_path(b)) for k, a, b in ops) or "-"


# --------------------------------------------------------------------------

def source_order(path, meta_call):
    import ast
    sys.path.insert(0, os.path.join(env.VERIF, "tools"))
    import extract as ex
    tree = ast.parse(open(path).read())
    found = None
    for cls in [n for n in tree.body if isinstance(n, ast.ClassDef)]:
        for fn in [n for n in cls.body if isinstance(n, ast.FunctionDef) and n.name == "apply"]:
            dele = [n.lineno for n in ast.walk(fn) if isinstance(n, ast.Call)
                    and isinstance(n.func, ast.Attribute) and n.func.attr == "apply_deletions"]
            meta = [n.lineno for n in ast.walk(fn) if isinstance(n, ast.Call)
                    and isinstance(n.func, ast.Attribute) and n.func.attr == meta_call]
            if dele and meta:
                if len(dele) != 1 or len(meta) != 1:
                    raise ex.ExtractError("apply() in %s has an unexpected shape" % path)
                found = "metadataFirst" if meta[0] < dele[0] else "deletionsFirst"
    if found is None:
        raise ex.ExtractError("no apply() calling apply_deletions and %s in %s" % (meta_call, path))
    return found


def extract(ctx):
    sys.path.insert(0, os.path.join(env.VERIF, "tools"))
    import extract as ex
    bzr = source_order(os.path.join(env.REPO, "breezy/bzr/transform.py"), "apply_inventory_delta")
    git = source_order(os.path.join(env.REPO, "breezy/git/transform.py"), "_apply_index_changes")
    text = ("-- GENERATED by harness/checks/c13.py from breezy/bzr/transform.py and breezy/git/transform.py — do not edit\n"
            "import BreezyVerif.Model.C13\nnamespace BreezyVerif.C13\n"
            "/-- order of `mover.apply_deletions()` and the metadata update in `InventoryTreeTransform.apply` -/\n"
            "def applyOrderBzr : Order := .%s\n"
            "/-- the same in `GitTreeTransform.apply` -/\n"
            "def applyOrderGit : Order := .%s\nend BreezyVerif.C13\n" % (bzr, git))
    ex.write_if_changed(os.path.join(env.VERIF, "lean/BreezyVerif/Generated/C13.lean"), text)
    ctx.extra["source_order"] = dict(bzr=bzr, git=git)
    return "apply order regenerated: bzr=%s git=%s" % (bzr, git)


def _order_flag(ctx, fmt):
    so = ctx.extra.get("source_order")
    if so is None:
        try:
            so = dict(
                bzr=source_order(os.path.join(env.REPO, "breezy/bzr/transform.py"), "apply_inventory_delta"),
                git=source_order(os.path.join(env.REPO, "breezy/git/transform.py"), "_apply_index_changes"))
        except Exception:
            so = dict(bzr="metadataFirst", git="metadataFirst")
        ctx.extra["source_order"] = so
    return "M" if so["git" if fmt == "git" else "bzr"] == "metadataFirst" else "D"


def check_case(ctx, sc, ok_run, fault1, fault2, base_exc):
    """one (scenario, fault) case: real run, oracle, model line.  Returns (case, line, impl_out) or None."""
    ops = ops_of(ok_run["plan"].log)
    res = run_command(sc, fault1, fault2, base_exc)
    P = res["plan"]
    case = dict(scenario=sc["seed"], fmt=sc["fmt"], backups=sc["backups"], fault1=fault1, fault2=fault2,
                base_exc=base_exc, ops=[list(o) for o in ops])
    ctx.case(dict(ops=case["ops"], f1=fault1, f2=fault2, fmt=sc["fmt"], before=canon_fs(P.before or {})),
             nontrivial=len(ops) >= 2)
    old_v, new_v = res["pre_versioned"], ok_run["post_versioned"]
    md = "old" if res["post_versioned"] == old_v else "new" if res["post_versioned"] == new_v else "mixed"
    if old_v == new_v:
        md = "same"
    # ---- oracle --------------------------------------------------------
    if fault1 is not None:
        ctx.count("fault:mover")
        if res["raised"] != "INJECTED":
            ctx.violation(case, "fault at mover call %d did not propagate (raised=%r)" % (fault1, res["raised"]))
        if P.where != "rollback":
            ctx.violation(case, "fault at mover call %d: rollback was not run (stage=%r)" % (fault1, P.where))
        elif P.after != P.before:
            diff = sorted(set(P.after.items()) ^ set(P.before.items()))[:4]
            ctx.violation(case, "rollback did not restore the directory exactly after a fault at mover call %d: %r" % (fault1, diff))
        if res["post_visible"] != res["pre_visible"]:
            diff = sorted(set(res["post_visible"].items()) ^ set(res["pre_visible"].items()))[:4]
            ctx.violation(case, "working tree files differ from the previous state after a failed apply: %r" % (diff,))
        if md not in ("old", "same"):
            ctx.violation(case, "versioned paths changed although the transform was rolled back (%s)" % md)
        bad = disk_agrees(res["root"], res["post_versioned"])
        if bad:
            ctx.violation(case, "metadata disagrees with disk after rollback: %s" % bad[:3])
    elif fault2 is not None:
        ctx.count("fault:deletion")
        if res["raised"] != "INJECTED":
            ctx.violation(case, "fault at deletion %d did not propagate (raised=%r)" % (fault2, res["raised"]))
        if res["post_visible"] != ok_run["post_visible"]:
            diff = sorted(set(res["post_visible"].items()) ^ set(ok_run["post_visible"].items()))[:4]
            ctx.violation(case, "failure while discarding replaced content: files are not in the transformed state: %r" % (diff,))
        if md not in ("new", "same"):
            ctx.violation(case, "failure while discarding replaced content leaves the metadata describing the %s layout "
                                "(files are in the new layout)" % md)
        bad = disk_agrees(res["root"], res["post_versioned"])
        if bad:
            ctx.violation(case, "metadata disagrees with disk after a failed deletion: %s" % bad[:3])
    clobbered = [l for l in P.log if l[4] is None and l[3]]
    if clobbered:
        ctx.count("clobbering-rename")
    # ---- model line ------------------------------------------------------
    order = _order_flag(ctx, sc["fmt"])
    line = "apply %s %s %s %s %s" % (order, "~" if fault1 is None else fault1, "~" if fault2 is None else fault2,
                                     enc_fs(P.before or {}), enc_ops(ops))
    impl_md = "old" if md in ("old",) else "new" if md == "new" else ("old" if fault1 is not None else "new") if md == "same" else md
    impl = "%s %s %s %s %s" % (res["raised"] or "~", impl_md, "F" if P.rollback_error is None else "T",
                               "F" if clobbered else "T", canon_fs(P.after or {}))
    shutil.rmtree(res["root"], ignore_errors=True)
    return case, line, impl


def check_creation_fault(ctx, sc, k, after, base_exc):
    """fault at the k-th content creation while the transform is being built:
    nothing may change (finalize discards the limbo area)"""
    res = run_command(sc, base_exc=base_exc, fault3=k, after3=after)
    case = dict(scenario=sc["seed"], fmt=sc["fmt"], fault3=k, after3=after, base_exc=base_exc)
    ctx.case(dict(case, pre=canon_fs(res["pre_visible"])))
    ctx.count("fault:creation")
    if res["raised"] != "INJECTED":
        ctx.violation(case, "fault at content creation %d did not propagate (raised=%r)" % (k, res["raised"]))
    if res["post_visible"] != res["pre_visible"]:
        diff = sorted(set(res["post_visible"].items()) ^ set(res["pre_visible"].items()))[:4]
        ctx.violation(case, "a failed content creation left the tree changed: %r" % (diff,))
    if res["post_versioned"] != res["pre_versioned"]:
        ctx.violation(case, "a failed content creation left the versioned paths changed")
    left = [p for p in res["post"] if p.startswith(sc["ctl"] + "/limbo") or p.startswith(sc["ctl"] + "/pending-deletion")]
    if left:
        ctx.violation(case, "limbo / pending-deletion area not cleaned up after a failed content creation: %r" % left[:4])
    shutil.rmtree(res["root"], ignore_errors=True)


def _scenarios(ctx, n):
    fmts = ["2a", "git"]
    out = []
    i = 0
    while len(out) < n and i < n * 6:
        seed_tuple = (ctx.seed, fmts[i % 2], i)
        i += 1
        try:
            sc = build_scenario(seed_tuple)
        except Exception as e:
            ctx.count("scenario-build-failed:" + type(e).__name__)
            continue
        out.append(sc)
    return out


def run(ctx, nscen=None, maxfaults=None):
    _install()
    nscen = nscen or ctx.pick(50, 400)
    maxfaults = maxfaults or ctx.pick(40, 200)
    cases, lines, impls = [], [], []
    for sc in _scenarios(ctx, nscen):
        ok = run_command(sc)
        P = ok["plan"]
        if ok["raised"] is not None:
            # the transform failed by itself (a real OS error or a failure while it
            # was being prepared): the tree must be exactly as before
            ctx.count("natural-failure:" + str(ok["raised"]))
            case = dict(scenario=sc["seed"], fault1=None, fault2=None, natural=ok["raised"])
            if ok["post_visible"] != ok["pre_visible"]:
                diff = sorted(set(ok["post_visible"].items()) ^ set(ok["pre_visible"].items()))[:4]
                ctx.violation(case, "transform failed with %s and left the tree changed: %r" % (ok["raised"], diff))
            if ok["post_versioned"] != ok["pre_versioned"]:
                ctx.violation(case, "transform failed with %s and left the versioned paths changed" % ok["raised"])
            if P.before is not None and P.where == "rollback":
                if P.after != P.before:
                    ctx.violation(case, "rollback after %s did not restore the directory exactly" % ok["raised"])
                ops = ops_of(P.log)
                errs = [l[4] for l in P.log if l[4] and not (l[0] == "r" and l[4].endswith(":ENOENT"))]
                clob = [l for l in P.log if l[4] is None and l[3]]
                cases.append(case)
                lines.append("apply %s ~ ~ %s %s" % (_order_flag(ctx, sc["fmt"]), enc_fs(P.before), enc_ops(ops)))
                impls.append("%s old F %s %s" % (errs[-1].split(":")[1] if errs else "?", "F" if clob else "T", canon_fs(P.after)))
                ctx.case(dict(ops=[list(o) for o in ops], natural=ok["raised"], before=canon_fs(P.before)))
            shutil.rmtree(ok["root"], ignore_errors=True)
            shutil.rmtree(sc["base"], ignore_errors=True)
            continue
        n, nd = P.n, P.ndel
        ctx.count("mover-calls:%d" % min(n, 12))
        ctx.count("deletions:%d" % min(nd, 6))
        if P.movers != 1:
            ctx.count("movers!=1")
            shutil.rmtree(ok["root"], ignore_errors=True)
            continue
        # success case against the model
        ops = ops_of(P.log)
        order = _order_flag(ctx, sc["fmt"])
        cases.append(dict(scenario=sc["seed"], fault1=None, fault2=None))
        lines.append("apply %s ~ ~ %s %s" % (order, enc_fs(P.before or {}), enc_ops(ops)))
        clob = [l for l in P.log if l[4] is None and l[3]]
        impls.append("~ new F %s %s" % ("F" if clob else "T", canon_fs(P.after or {})))
        ctx.case(dict(ops=[list(o) for o in ops], f1=None, f2=None, fmt=sc["fmt"], before=canon_fs(P.before or {})),
                 nontrivial=len(ops) >= 2)
        bad = disk_agrees(ok["root"], ok["post_versioned"])
        if bad:
            ctx.violation(dict(scenario=sc["seed"]), "metadata disagrees with disk after a successful apply: %s" % bad[:3])
        faults = [(k, None) for k in range(n)] + [(None, j) for j in range(nd)]
        if len(faults) > maxfaults:
            faults = ctx.rng.sample(faults, maxfaults)
        for f1, f2 in faults:
            mode = ctx.rng.choice([False, True, "os", "os"]) if f1 is not None else (ctx.rng.random() < 0.5)
            r = check_case(ctx, sc, ok, f1, f2, base_exc=mode)
            if r:
                cases.append(r[0]); lines.append(r[1]); impls.append(r[2])
        ctx.count("creations:%d" % min(P.ncreate, 8))
        for k in range(min(P.ncreate, ctx.pick(6, 40))):
            check_creation_fault(ctx, sc, k, after=ctx.rng.random() < 0.5, base_exc=ctx.rng.random() < 0.5)
        shutil.rmtree(ok["root"], ignore_errors=True)
        shutil.rmtree(sc["base"], ignore_errors=True)
    if lines:
        ctx.diff(cases, lines, impls)


def widen(ctx):
    run(ctx, nscen=60, maxfaults=200)


def replay(ctx, case):
    _install()
    sc = build_scenario(tuple(case["scenario"]))
    ok = run_command(sc)
    if case.get("fault3") is not None:
        check_creation_fault(ctx, sc, case["fault3"], case.get("after3", False), case.get("base_exc", False))
        return dict(case=case, oracle_failures=[v["what"] for v in ctx.violations])
    r = check_case(ctx, sc, ok, case.get("fault1"), case.get("fault2"), case.get("base_exc", False))
    m = ctx.model([r[1]])[0]
    return dict(case=r[0], impl=r[2], model=m, agree=(m == r[2]), oracle_failures=[v["what"] for v in ctx.violations])
