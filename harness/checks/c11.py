"""C11 — adding files versions exactly the intended paths.

Mechanism: breezy/bzr/inventorytree.py (_SmartAddHelper.add, _add_one_and_parent,
_gather_dirs_to_add), breezy/add.py (AddAction.skip_file, AddWithSkipLargeAction),
breezy/git/workingtree.py (GitWorkingTree.smart_add).

T2: the layouts of the C46 check (versioned / unknown / ignored files and
    directories, nested .bzr/.git control directories at several depths, fake
    control names, links) plus recorded text / contents conflicts with their
    helper files, ignored directories, prefix-named sibling directories, nested
    directory chains (with and without a nested tree on the way), big files and
    in-tree directory links are materialised in real 2a and git trees; every
    flag of every entry (kind, versioned, is_ignored, recognised control dir,
    conflict helper) is read back from the real tree.  For every single named
    path of the layout (and the tree root), sampled pairs, and triples /
    quadruples of named paths nested in each other (the `prev_dir` rule of
    _gather_dirs_to_add is part of the model: any number of names), with
    recurse on and off, the real smart_add runs on a fresh copy and the set of
    newly versioned paths is compared with the Lean model `smartAdd`; ~10 % of
    the cases name a missing path or a path in the control directory and are
    compared on the error kind.  A third of the recursive cases run with an
    action whose skip_file skips something: the real AddWithSkipLargeAction
    (size limit between the small and the big files) or a custom AddAction
    skipping by base name (files and directories); the model gets the set of
    paths for which the real action object answers True.  Names that go through
    a symbolic link to a directory of the tree (`lnk/x`) are passed raw to the
    real code and, resolved the way osutils.normalizepath does, to the model.
Oracle (independent of the model, from the statement): let N = named paths.
    Every named path is versioned afterwards (bzr: with all its parents; git:
    files and links - directories are not index entries); every newly versioned
    path is a named path / parent of one, or (recursing) lies below a named
    directory D with: itself not ignored, not a conflict helper, not a control
    directory, not a nested tree, not skipped by the action, and every
    directory strictly between D and it not ignored-and-unversioned (git: not
    ignored), not a nested tree, not a helper, not skipped; D itself not a
    nested tree / helper.  Conversely every such descendant is versioned
    afterwards.  Nothing versioned before is lost.  A named control file must
    be refused.  A call whose named paths all exist and are not control files
    must not raise.
    The same call repeated versions nothing more (idempotence: proved for the
    model - smartAdd_idempotent - and observed on the real code).
    Stale-kind stream (oracle only, no model line): a versioned file replaced
    on disk by a directory with content, and a versioned directory replaced by
    a file, then add of the root / the path / a path below it.

Found by this check: GitWorkingTree.smart_add versioned an explicitly named file inside .git
    (repaired in /repo, fix: 31d8912; not classified any more - a recurrence is a plain VIOLATION;
    the model keeps the flag `gitRefusesCtl`, probed by `git_fmt_char`).
Findings (family computed from the failing case):
    bzr-named-dir-below-blocked-named-dir (known, committed): `add D0 D` with D inside D0 and a nested
      tree or conflict helper between them: D is dropped from the scan list and never scanned.  With
      three or more names the same family covers `add a a/n/d a/n/e` (a/n/d dropped, a/n/e scanned).
    git-smart-add-ignores-skip-file (new): GitWorkingTree.smart_add never calls action.skip_file, so
      `brz add` in a git tree adds files larger than add.maximum_file_size.
    bzr-stale-kind-dir-not-scanned (new): a versioned *file* that is a directory on disk is visited
      with the inventory kind, so `add`/`add k` does not descend into it.
    bzr-stale-kind-listdir-crash (new): a versioned *directory* that is a file on disk is visited
      with the inventory kind: os.listdir raises NotADirectoryError out of smart_add.
SCENARIOS pins layouts every seed must cover (ignored directory whose files are not themselves
ignored in a git and a bzr tree; helper files; nested trees; a named control file; prefix-named
siblings; nested named chains).

Mutants this was built against (scratch worktree; caught by the oracle with a concrete case):
  m1 bzr walk: ignored *directories* no longer skipped (`and not isdir`)      -> needs an ignored dir with content
  m2 bzr walk: conflict-helper test only for directories (helper files added)
  m3 bzr walk: sub_tree true only for unversioned, un-named directories (nested trees entered)
  m4 git walk: ignore test after the directory test (ignored directories entered)
     -> needs an ignored directory whose files are not themselves ignored (`old~/a`)
  m5 bzr phase 1: named ignored files skipped
  m6 git walk: conflict-helper test not applied to files
  h1 harmless: set comprehension for conflicts_related, inverted if/else with continue (clean)
  fix: ForbiddenControlFileError for named control paths in GitWorkingTree.smart_add (clean, mode `H`)
  s1 seeded: _gather_dirs_to_add uses `path.startswith(prev_dir)` - needs two named sibling directories,
     one name a string prefix of the other (doc/docs, lib/lib64, src/src-old); covered on every seed by
     the pinned scenario + corpus/C11/prefix-sibling-named-dirs.json and by generated prefix families
  improvement round (any number of names, skip_file, conversion order; dev runs with 4 random layouts per format):
  m7 _gather_dirs_to_add: `prev_dir = path` only when yielded (the "obvious" repair of the quirk): plain
     VIOLATION (`add a a/h/d a/h/e`: a/h/e/y missing; the family of the known finding is withdrawn because the
     real result differs from the model of the code as it was) + 19 T2 mismatches
  m8 bzr walk: skip_file consulted only for `this_ie is None` (versioned directories never skipped): plain
     VIOLATION (pinned call `add .` with an action skipping the versioned directory lib: lib/new versioned)
  m9 bzr walk: skip_file result ignored for directories: plain VIOLATION (a/b/... versioned although skipped)
  m10 AddWithSkipLargeAction: `>=` instead of `>`: plain VIOLATION (file of exactly the limit skipped; the
     independent rule for the large-file action)
  m11 _get_ie ignores the pending delta: plain VIOLATION (InconsistentDelta raised for `add a a/h/d a/h/e`)
  m12 _add_one_and_parent: parent entry never converted to a directory: plain VIOLATION (InconsistentDelta for
     `add k/inner` with k a versioned file that is a directory now) + T2 mismatches on the conversion-order corpus case
  h2 harmless: osutils.is_inside(prev_dir, path) instead of is_inside_or_parent_of_any([prev_dir], path) (clean)
  both proposed patches applied (git skip_file, bzr stale kind): clean except the known family; the probe
     selects the model variant `Hs`
"""
import collections
import itertools
import os
import random
import shutil

from vlib import env
from checks import c46

THEOREMS = [
    "smartAdd_ok", "smartAdd_error", "pass_shape", "add_exact", "versioned_untouched", "add_named",
    "add_named_git", "step_flag_exact", "step_mode_exact", "walk_reaches_iff", "add_recursive_exact",
    "add_nothing_else", "git_dir_flag_unchanged", "git_dir_flags_irrelevant", "smartAdd_idempotent",
    "git_named_control_file_witness", "bzr_named_dir_below_blocked_witness", "bzr_prev_dir_witness",
    "bzr_tree_reference_order_witness",
]
RULE = ("case = (format, layout, named paths (any number, or the root), recurse, action); all single named paths of "
        "every layout are enumerated with recurse on and off, pairs, nested triples and quadruples are sampled; a "
        "third of the recursive cases use an action that skips; non-trivial = something becomes versioned and "
        "something unversioned stays unversioned; distinct by (format, layout with flags, names, recurse, action)")
ASSUMPTIONS = [
    "T2: versioned entries have the same kind on disk as in the inventory (the stale-kind stream runs the oracle "
    "only; its two defect families are reported as findings)",
    "tree.is_ignored is a parameter (C48) read from the real tree; ControlDirFormat.find_format(dir) succeeds iff "
    "dir holds a recognised .bzr/.git entry (checked on every directory of every layout); action.skip_file is a "
    "parameter: the set of paths for which the real action object answers True",
]
TRUSTED = ["the layout forest of Model/C46.lean; names are ASCII/NFC, no case-insensitive file system; "
           "Python's str order = Lean's String order (code points) for sorted(user_dirs)"]

BIG = 5000            # bytes of a "big" file; the size limit of the large-file action lies below
LIMIT = 1000


def add_conflicts_to_spec(rng, spec):
    """extend a C46 layout with recorded conflicts and their helper files, ignored directories,
    prefix-named siblings, nested chains, big files, in-tree directory links"""
    spec = dict(spec, entries=[list(e) for e in spec["entries"]], conflicts=[])
    used = set(e[0] for e in spec["entries"])
    dirs = [""] + [e[0] for e in spec["entries"] if e[1] == "d"]
    git = spec["fmt"] == "git"

    def versioned_dir(d):
        return d == "" or next((e[2] for e in spec["entries"] if e[0] == d), False) or git

    if rng.random() < 0.45:
        # an ignored directory (user ignore `*~`, or a rule of the tree) with plain files in it,
        # optionally with one versioned file (so that the directory itself is / counts as versioned)
        d = rng.choice(dirs)
        pre = d + "/" if d else ""
        name = rng.choice(["bak~", "old~", "build", "ig"])
        p = pre + name
        if p not in used and not any(e[0].startswith(p + "/") for e in spec["entries"]):
            if name == "build" and "build" not in spec["rules"]:
                spec["rules"] = spec["rules"] + ["build"]
            if name == "ig" and "ig/" not in spec["rules"]:
                spec["rules"] = spec["rules"] + ["ig/"]
            v = versioned_dir(d) and rng.random() < 0.4
            spec["entries"].append([p, "d", bool(v and not git)])
            spec["entries"].append([p + "/a", "f", bool(v)])
            spec["entries"].append([p + "/README", "f", False])
            spec["entries"].append([p + "/s", "d", False])
            spec["entries"].append([p + "/s/b.txt", "f", False])
            used.update([p, p + "/a", p + "/README", p + "/s", p + "/s/b.txt"])
            dirs.append(p)
    if rng.random() < 0.5:
        # sibling directories where one name is a string prefix of the next in sorted order without
        # being its parent (_gather_dirs_to_add compares sorted neighbours)
        d = rng.choice(dirs)
        pre = d + "/" if d else ""
        pv = versioned_dir(d)
        fam = rng.choice([["pd", "pd2", "pd-x", "pdd"], ["doc", "docs"], ["lib", "lib64", "lib.old"], ["src", "src-old"]])
        group = []
        for name in fam:
            p = pre + name
            if p in used:
                continue
            used.add(p)
            group.append(p)
            spec["entries"].append([p, "d", bool(pv and not git and rng.random() < 0.3)])
            for fn in rng.sample(["guide.txt", "a", "c.o", "x~"], rng.randint(1, 2)):
                spec["entries"].append([p + "/" + fn, "f", False])
                used.add(p + "/" + fn)
            if rng.random() < 0.3:
                spec["entries"].append([p + "/s", "d", False])
                spec["entries"].append([p + "/s/b.txt", "f", False])
                used.update([p + "/s", p + "/s/b.txt"])
        spec["prefix_group"] = group
    if rng.random() < 0.6:
        # a chain of directories to be named together: ch, ch/in1, ch/in1/deep, ch/in2, ch-x (sorts between
        # `ch` and `ch/...`), optionally ch/nt = nested tree / conflict helper with ch/nt/d1, ch/nt/d2 below
        d = rng.choice(dirs)
        pre = d + "/" if d else ""
        ch = pre + rng.choice(["ch", "t"])
        if ch not in used and not any(e[0].startswith(ch + "/") or e[0].startswith(ch + "-") for e in spec["entries"]):
            pv = versioned_dir(d)
            chain = []

            def put(path, typ, v=False):
                if path not in used:
                    used.add(path)
                    spec["entries"].append([path, typ, bool(v)])

            v0 = pv and not git and rng.random() < 0.3
            put(ch, "d", v0)
            chain.append(ch)
            for sub in ("in1", "in2"):
                put(ch + "/" + sub, "d", v0 and rng.random() < 0.3)
                chain.append(ch + "/" + sub)
                put(ch + "/" + sub + "/" + rng.choice(["a", "b.txt", "c.o"]), "f")
            put(ch + "/in1/deep", "d")
            put(ch + "/in1/deep/x", "f")
            chain.append(ch + "/in1/deep")
            put(ch + "/top", "f")
            if rng.random() < 0.6:
                put(ch + "-x", "d")
                put(ch + "-x/y", "f")
                chain.append(ch + "-x")
            r = rng.random()
            if r < 0.5:
                # blocked on the way: a nested tree (or, bzr, an ignored unversioned directory)
                put(ch + "/nt", "d")
                ctl = rng.choice([(".git", "G"), (".bzr", "B")])
                put(ch + "/nt/" + ctl[0], ctl[1])
                for sub in ("d1", "d2"):
                    put(ch + "/nt/" + sub, "d")
                    put(ch + "/nt/" + sub + "/f", "f")
                    chain.append(ch + "/nt/" + sub)
            elif r < 0.75:
                put(ch + "/old~", "d")
                for sub in ("d1", "d2"):
                    put(ch + "/old~/" + sub, "d")
                    put(ch + "/old~/" + sub + "/f", "f")
                    chain.append(ch + "/old~/" + sub)
            spec["chain_group"] = chain
            dirs.append(ch)
    for _ in range(rng.choice([0, 1, 1, 2])):
        d = rng.choice(dirs)
        pre = d + "/" if d else ""
        base = pre + rng.choice(["m", "cf"])
        if base in used:
            continue
        kind = rng.choice(["text", "text", "contents"])
        dv = versioned_dir(d)
        spec["entries"].append([base, "f", bool(dv)])
        used.add(base)
        for suf in (".THIS", ".BASE", ".OTHER"):
            p = base + suf
            if p in used:
                continue
            used.add(p)
            if suf == ".OTHER" and rng.random() < 0.3:
                spec["entries"].append([p, "d", False])
                spec["entries"].append([p + "/inner", "f", False])
                used.add(p + "/inner")
            else:
                spec["entries"].append([p, "f", dv and rng.random() < 0.2])
        spec["conflicts"].append([kind, base])
    # big files (for the size limit of AddWithSkipLargeAction): some unversioned plain files
    files = [e[0] for e in spec["entries"] if e[1] == "f" and "/." not in "/" + e[0]]
    spec["big"] = sorted(rng.sample(files, min(len(files), rng.randint(1, 3)))) if files else []
    # a symbolic link to a directory of the tree (named paths may go through it)
    spec["links"] = []
    real_dirs = [e[0] for e in spec["entries"] if e[1] == "d" and "/." not in "/" + e[0]]
    if real_dirs and rng.random() < 0.4:
        tgt = rng.choice(real_dirs)
        d = rng.choice([""] + [x for x in real_dirs if not (x == tgt or x.startswith(tgt + "/"))])
        lp = (d + "/" if d else "") + "ln"
        if lp not in used:
            used.add(lp)
            spec["links"].append([lp, tgt])
    return spec


def stale_spec(rng, fmt, how):
    """oracle-only layouts: a versioned file that is a directory on disk / a versioned directory that is a file"""
    entries = [["v", "f", True], ["u", "f", False], ["p", "d", fmt != "git"], ["p/w", "f", True]]
    pre = rng.choice(["", "p/"])
    if how == "f2d":
        entries += [[pre + "k", "f", True]]
    else:
        entries += [[pre + "k", "d", fmt != "git"], [pre + "k/x", "f", True], [pre + "k/y", "f", False]]
    return dict(fmt=fmt, entries=entries, rules=rng.choice([[], ["*.o"]]), ignore_versioned=False, conflicts=[],
                stale=[[pre + "k", how]], big=[], links=[])


def materialise(spec, root, outside):
    wt = c46.materialise(spec, root, outside)
    for n, path in enumerate(spec.get("big", [])):
        full = os.path.join(root, path)
        if os.path.isfile(full) and not os.path.islink(full):
            with open(full, "w") as f:
                # sizes around the limit: just above, far above, exactly the limit (not skipped)
                f.write("x" * [LIMIT + 1, BIG, LIMIT][n % 3])
    for lp, tgt in spec.get("links", []):
        full = os.path.join(root, lp)
        if not os.path.lexists(full) and os.path.isdir(os.path.dirname(full)):
            os.symlink(os.path.relpath(os.path.join(root, tgt), os.path.dirname(full)), full)
    for path, how in spec.get("stale", []):
        full = os.path.join(root, path)
        if how == "f2d":
            os.unlink(full)
            os.makedirs(os.path.join(full, "sub"))
            for rel in ("inner", "sub/deep"):
                with open(os.path.join(full, rel), "w") as f:
                    f.write("new\n")
        else:
            shutil.rmtree(full)
            with open(full, "w") as f:
                f.write("now a file\n")
    if spec.get("conflicts"):
        if spec["fmt"] == "2a":
            from breezy.bzr.conflicts import ContentsConflict, TextConflict
        else:
            from breezy.git.workingtree import ContentsConflict, TextConflict
        cs = []
        for kind, path in spec["conflicts"]:
            cs.append(TextConflict(path) if kind == "text" else ContentsConflict(path))
        try:
            wt.add_conflicts(cs)
        except Exception:      # noqa  (git refuses some; the flags are read back anyway)
            pass
    from breezy.workingtree import WorkingTree
    return WorkingTree.open(root)


def valid_for_add(root, rel, kind):
    """the model's `valid` flag for smart_add: an entry that makes
    ControlDirFormat.find_format(parent) succeed (any `.git` file or directory; a
    `.bzr` directory with a branch-format file).  Checked against the real
    find_format on every directory of every layout (run_layout)."""
    name = rel.rsplit("/", 1)[-1]
    if name == ".git":
        return kind in ("d", "f")
    if name == ".bzr":
        return kind == "d" and os.path.isfile(os.path.join(root, rel, "branch-format"))
    return False


def nested_for_add(root, snap):
    """directories on which ControlDirFormat.find_format succeeds"""
    from breezy import errors
    from breezy import transport as _mod_transport
    from breezy.controldir import ControlDirFormat
    out = []
    for rel, k in snap.items():
        if k != "d":
            continue
        try:
            ControlDirFormat.find_format(_mod_transport.get_transport_from_path(os.path.join(root, rel)))
        except errors.NotBranchError:
            continue
        except Exception:      # noqa
            pass
        out.append(rel)
    return sorted(out)


def helpers_of(wt):
    out = set()
    with wt.lock_read():
        for c in wt.conflicts():
            out.update(c.associated_filenames())
    return out


def versioned_set(wt, snap, fmt):
    out = set()
    with wt.lock_read():
        for rel, k in snap.items():
            if fmt == "git" and k == "d":
                continue
            try:
                if wt.is_versioned(rel):
                    out.add(rel)
            except Exception:      # noqa
                pass
    return out


KINDNAME = {"f": "file", "d": "directory", "l": "symlink", "D": "symlink"}


def make_action(act):
    """act = None | ["large", limit] | ["names", [base names]] -> an AddAction (a fresh object per call)"""
    from breezy import add as _add
    if act is None:
        return None
    if act[0] == "large":
        a = _add.AddWithSkipLargeAction(should_print=False)
        a._max_size = act[1]           # what the real class reads from the option add.maximum_file_size
        return a
    names = frozenset(act[1])

    class SkipByName(_add.AddAction):
        def skip_file(self, tree, path, kind, stat_value=None):
            return os.path.basename(path) in names
    return SkipByName(should_print=False)


def skip_set(root, info, act, viol=None):
    """the paths for which the real action object's skip_file answers True.  For the large-file
    action the answer is also compared with the documented rule (a regular file larger than the
    limit; `brz help add`), independently of the model."""
    if act is None:
        return set()
    from breezy.workingtree import WorkingTree
    wt = WorkingTree.open(root)
    a = make_action(act)
    out = set()
    for rel, row in info.items():
        full = os.path.join(root, rel)
        try:
            ans = bool(a.skip_file(wt, full, KINDNAME[row[1]], None))
        except OSError:
            continue
        if ans:
            out.add(rel)
        if act[0] == "large" and viol is not None:
            want = row[1] == "f" and os.path.getsize(full) > act[1] > 0
            if ans != want:
                viol.append(("AddWithSkipLargeAction.skip_file(%r: kind %s, %d bytes; limit %d) = %r"
                             % (rel, KINDNAME[row[1]], os.lstat(full).st_size, act[1], ans), None))
    return out


def run_real(root, names, recurse, act=None):
    from breezy import errors
    from breezy.transport import NoSuchFile
    from breezy.workingtree import WorkingTree
    wt = WorkingTree.open(root)
    try:
        wt.smart_add([os.path.join(root, n) if n != "." else root for n in names], recurse=recurse,
                     action=make_action(act))
    except errors.ForbiddenControlFileError:
        return "E:ForbiddenControlFile"
    except NoSuchFile:
        return "E:NoSuchFile"
    except Exception as e:      # noqa
        return "E:%s" % type(e).__name__
    return "ok"


_GITMODE = []


def git_fmt_char():
    """first char 'G': GitWorkingTree.smart_add versions an explicitly named control file (as first found);
    'H': it refuses with ForbiddenControlFileError (repaired); suffix 's': it calls action.skip_file
    (the code as found does not: finding git-smart-add-ignores-skip-file) - probed on an empty git tree"""
    if not _GITMODE:
        from breezy.workingtree import WorkingTree
        base = env.fresh_dir("c11probe")
        root = os.path.join(base, "P")
        shutil.copytree(c46._templates()["git"], root, symlinks=True)
        mode = "H" if run_real(root, [".git/HEAD"], False) == "E:ForbiddenControlFile" else "G"
        with open(os.path.join(root, "probe"), "w") as f:
            f.write("x\n")
        run_real(root, ["."], True, ["names", ["probe"]])
        wt = WorkingTree.open(root)
        with wt.lock_read():
            if not wt.is_versioned("probe"):
                mode += "s"
        _GITMODE.append(mode)
        shutil.rmtree(base, ignore_errors=True)
    return _GITMODE[0]


def under(a, b):
    return a == "" or b == a or b.startswith(a + "/")


def parents(p):
    parts = p.split("/")
    return ["/".join(parts[:k]) for k in range(1, len(parts))]


def canonical_name(root, n):
    """what osutils.normalizepath + canonical_relpaths make of a named path: links in the directory
    part are resolved, the last component is left alone; None if that leaves the tree"""
    if n == ".":
        return "."
    full = os.path.join(root, n)
    d = os.path.realpath(os.path.dirname(full))
    rroot = os.path.realpath(root)
    if d != rroot and not d.startswith(rroot + os.sep):
        return None
    rel = os.path.relpath(os.path.join(d, os.path.basename(full)), rroot)
    return rel


def expected_by_statement(fmt, info, nroots, own_ctl, names, recurse, skip=frozenset()):
    """the set the statement asks for, computed without the model"""
    git = fmt == "git"
    must = set()
    for n in names:
        if n == ".":
            continue
        if not (git and info[n][1] == "d"):
            must.add(n)
        if not git:
            must.update(parents(n))
    if recurse:
        def blocked_dir(d, named):
            """the walk does not enter directory d"""
            if d == "":
                return False
            _rel, k, v, ig, _va, h = info[d]
            if k != "d":
                return True
            if d in nroots:
                return True                      # nested tree
            if h and not git:
                return True                      # conflict helper (git: helper test is for files only)
            if d in skip:
                return True                      # the action skips it
            if named:
                return False
            v = v or d in must
            return ig and (git or not v)         # ignored directory
        for n in names:
            d = "" if n == "." else n
            if d != "" and info[d][1] != "d":
                continue
            if blocked_dir(d, True):
                continue
            for q in info:
                if q == d or not under(d, q):
                    continue
                if q == own_ctl or q.startswith(own_ctl + "/"):
                    continue
                mids = [m for m in parents(q) if under(d, m) and m != d]
                if any(blocked_dir(m, False) for m in mids):
                    continue
                _rel, k, v, ig, _va, h = info[q]
                v = v or q in must
                if h or q in skip:
                    continue
                if ig and (git or not v):
                    continue
                if k == "d":
                    if git or q in nroots:
                        continue
                must.add(q)
    return must


def gen_choices(rng, spec, snap, own_ctl, root, thorough):
    """[(names, recurse, act, kind)]"""
    fmt = spec["fmt"]
    cands = [e[0] for e in spec["entries"] if e[0] in snap and not e[0].startswith(own_ctl + "/")]
    cands += [l[0] for l in spec.get("links", []) if l[0] in snap]
    inner = [p for p in snap if "/.bzr/" in p or "/.git/" in p]
    if inner:
        cands.append(rng.choice(sorted(inner)))
    choices = [(["."], True, None, "root"), (["."], False, None, "root")]
    singles = cands if thorough or len(cands) <= 14 else rng.sample(cands, 14)
    for cnd in singles:
        choices.append(([cnd], True, None, "single"))
        if rng.random() < 0.35:
            choices.append(([cnd], False, None, "single"))
    for _ in range(min(8, len(cands))):
        a, b = rng.choice(cands), rng.choice(cands + ["."])
        if a != b:
            choices.append(([a, b], rng.random() < 0.8, None, "pair"))
    group = [g for g in spec.get("prefix_group", []) if g in snap]
    pairs = list(itertools.permutations(group, 2))
    if len(pairs) > 6 and not thorough:
        srt = sorted(group)
        pairs = [p for k in range(len(srt) - 1) for p in ((srt[k], srt[k + 1]), (srt[k + 1], srt[k]))]
    for a, b in pairs:
        choices.append(([a, b], True, None, "prefix"))
    if len(group) >= 3:
        tri = group[:3]
        choices.append((tri, True, None, "prefix"))
        choices.append((tri[::-1], True, None, "prefix"))
    # three and four named paths nested in each other (any order): _gather_dirs_to_add compares sorted neighbours
    dirs = [c for c in cands if snap.get(c) == "d"]
    chain = [g for g in spec.get("chain_group", []) if g in snap]
    for _ in range(6 if chain else 0):
        k = rng.choice([3, 3, 4])
        if len(chain) >= k:
            names = rng.sample(chain, k)
            if rng.random() < 0.3:
                names[rng.randrange(k)] = "."
            choices.append((names, True, None, "nested"))
    nested_pairs = [(a, b) for a in dirs for b in cands if b != a and under(a, b)]
    for _ in range(min(5, len(nested_pairs))):
        a, b = rng.choice(nested_pairs)
        below = [c for c in cands if c not in (a, b) and under(a, c)] or cands
        third = rng.choice(below + ["."])
        names = [a, b, third]
        if rng.random() < 0.3 and len(cands) > 3:
            names.append(rng.choice(cands))
        rng.shuffle(names)
        if len(set(names)) == len(names):
            choices.append((names, rng.random() < 0.9, None, "nested"))
    # names that go through a directory link of the tree
    for lp, tgt in spec.get("links", []):
        if snap.get(lp) != "D":
            continue
        kids = sorted(p for p in snap if p.startswith(tgt + "/") and "/" not in p[len(tgt) + 1:])
        for kid in rng.sample(kids, min(2, len(kids))):
            choices.append(([lp + "/" + kid[len(tgt) + 1:]], True, None, "via-link"))
    li = [e[0] for e in spec["entries"] if e[1] == "Li" and snap.get(e[0]) == "D"]
    for lp in li[:1]:
        top = sorted(p for p in snap if "/" not in p and p != own_ctl and p != lp)
        for kid in rng.sample(top, min(2, len(top))):
            choices.append(([lp + "/" + kid], rng.random() < 0.7, None, "via-link"))
    # actions that skip: a third of the recursive calls once more with the real large-file action or a
    # custom action skipping by base name (files and directories)
    bases = sorted(set(p.rsplit("/", 1)[-1] for p in snap if not p.startswith(own_ctl)))
    rec = [c for c in choices if c[1]]
    for names, _r, _a, kind in rng.sample(rec, max(2, len(rec) // 4)):
        if rng.random() < 0.5:
            act = ["large", LIMIT]
        else:
            act = ["names", sorted(rng.sample(bases, min(len(bases), rng.randint(1, 3))))]
        choices.append((names, True, act, kind + "+skip"))
    # malformed stream: missing paths and control files
    for _ in range(max(1, len(choices) // 10)):
        bad = rng.choice(["nope", "d/nope", own_ctl + "/" + ("README" if fmt == "2a" else "HEAD"), own_ctl])
        other = [rng.choice(cands)] if cands and rng.random() < 0.5 else []
        names = other + [bad] if rng.random() < 0.5 else [bad] + other
        choices.append((names, rng.random() < 0.5, None, "malformed"))
    return choices


def stale_choices(spec):
    path = spec["stale"][0][0]
    out = [(["."], True), ([path], True), ([path], False)]
    if spec["stale"][0][1] == "f2d":
        out += [([path + "/inner"], True), ([".", path + "/inner"], True), ([path + "/inner", "."], True),
                ([path + "/sub"], True)]
    if "/" in path:
        out.append(([path.rsplit("/", 1)[0]], True))
    return [(n, r, None, "stale") for n, r in out]


def classify_missing(fmt, names, info, nroots, missing, stale, skip=frozenset()):
    """family of a `not versioned although the statement asks for it` failure"""
    if stale and fmt == "2a" and all(any(how == "f2d" and under(sp, x) and x != sp for sp, how in stale) for x in missing):
        return "bzr-stale-kind-dir-not-scanned"
    if fmt == "2a" and len(names) >= 2:
        # a named directory D below another named directory D0, with a nested tree, a conflict helper or a
        # directory the action skips on the way from D0 down to D (D excluded): _gather_dirs_to_add drops D
        # (the named directory before it in sorted order is one of its ancestors) and no walk reaches it
        def dropped_and_blocked(x):
            for d in names:
                if d == "." or not under(d, x):
                    continue
                for d0 in names:
                    if d == d0 or not under("" if d0 == "." else d0, d):
                        continue
                    d0p = "" if d0 == "." else d0
                    way = [m for m in [d0p] + parents(d) if m != "" and under(d0p, m) and m != d]
                    if any(m in nroots or info[m][5] or m in skip for m in way):
                        return True
            return False
        if all(dropped_and_blocked(x) for x in missing):
            return "bzr-named-dir-below-blocked-named-dir"
    return None


def run_layout(job):
    """materialise one layout, run every call on a fresh copy; returns JSON-able records (runs in a pool worker)"""
    spec, choices, gitmode, thorough = job["spec"], job.get("choices"), job["gitmode"], job["thorough"]
    rng = random.Random(repr(("c11", job["seed"], job["idx"])))
    fmt = spec["fmt"]
    own_ctl = c46._ctlname(fmt)
    stale = spec.get("stale") or []
    base = env.fresh_dir("c11")
    root = os.path.join(base, "P")
    outside = os.path.join(base, "outside")
    counts = collections.Counter()
    records, mism = [], []
    wt = materialise(spec, root, outside)
    snap = c46.snapshot(root, own_ctl)
    # one real file of the tree's own control directory, so that it can be named
    ctl_file = own_ctl + "/" + ("README" if fmt == "2a" else "HEAD")
    snap[ctl_file] = "f"
    rows = c46.read_flags(wt, root, snap, helper=helpers_of(wt))
    rows = [(rel, k, v, ig, valid_for_add(root, rel, k), h) for rel, k, v, ig, _va, h in rows]
    info = {r[0]: r for r in rows}
    layout = c46.enc_layout(rows)
    nroots = nested_for_add(root, snap)
    # the model derives "find_format succeeds" from the flags: check that assumption on this layout
    derived = sorted(d for d, k in snap.items() if k == "d" and any(
        (d + "/" + c) in info and info[d + "/" + c][4] for c in (".bzr", ".git")))
    if derived != nroots:
        mism.append((dict(spec=spec, assumption="find_format"), "nested trees %r" % nroots,
                     "derived from flags %r" % derived, "T2 assumption: find_format"))
    before = versioned_set(wt, snap, fmt)
    if choices is None:
        choices = stale_choices(spec) if stale else gen_choices(rng, spec, snap, own_ctl, root, thorough)
    for ch in choices:
        names, recurse = list(ch[0]), bool(ch[1])
        act = ch[2] if len(ch) > 2 else None
        kind = ch[3] if len(ch) > 3 else "pinned"
        target = os.path.join(base, "Q")
        shutil.copytree(root, target, symlinks=True)
        viol = []
        res = run_real(target, names, recurse, act)
        case = dict(spec=spec, names=names, recurse=recurse)
        if act is not None:
            case["action"] = act
        # what the code makes of the names (links in the directory part resolved)
        cnames = [canonical_name(root, n) for n in names]
        if any(c is None for c in cnames):
            shutil.rmtree(target)
            continue                     # leaves the tree: PathNotChild, not this property
        if cnames != names:
            case["canonical_names"] = cnames
        skip = skip_set(target, info, act, viol)
        line = None
        if not stale:
            line = "add %s %s %s %s %s" % ("B" if fmt == "2a" else gitmode, "T" if recurse else "F",
                                          ",".join(cnames), ",".join(sorted(skip)) or "-", layout)
        ctl_named = [n for n in cnames if n == own_ctl or n.startswith(own_ctl + "/")]
        names_ok = all(n == "." or n in info for n in cnames)
        nontrivial = False
        if res == "ok":
            from breezy.workingtree import WorkingTree
            after = versioned_set(WorkingTree.open(target), snap, fmt)
            new = after - before
            out = "ok " + c46.showpaths(new)
            # ---- oracle
            lost = before - after
            if lost:
                viol.append(("paths no longer versioned after add: %r" % sorted(lost), None))
            # idempotence (proved for the model, observed here): the same call again versions nothing more
            again_res = run_real(target, names, recurse, act)
            if again_res == "ok":
                again = versioned_set(WorkingTree.open(target), snap, fmt)
                if again != after:
                    viol.append(("second identical add changed the versioned set: +%r -%r"
                                 % (sorted(again - after), sorted(after - again)), None))
            else:
                viol.append(("second identical add raised %s" % again_res, None))
            if any(n in after for n in ctl_named):
                # repaired in /repo (31d8912): a recurrence is a plain violation
                viol.append(("control file(s) %r became versioned" % [n for n in ctl_named if n in after], None))
            elif names_ok:
                want = expected_by_statement(fmt, info, nroots, own_ctl, cnames, recurse, skip)
                want_new = set(w for w in want if w not in before)
                # entries that carry a control-directory name without being one (empty `.bzr`
                # directory, `.bzr` file ...): the statement does not say; neither demanded nor refused
                fake_all = [q for q in info if q.rsplit("/", 1)[-1] in (".bzr", ".git") and not info[q][4]]
                fake = [q for q in fake_all if q not in cnames]
                # bzr: a *versioned* directory holding a `.bzr` directory that is not a control
                # directory is a tree reference for the tree itself (kind()) but not for find_format:
                # whether its content belongs to this tree is not for the statement to say
                fake += [x.rsplit("/", 1)[0] for x in fake_all
                         if fmt == "2a" and x.endswith("/.bzr") and info[x][1] == "d"
                         and x.rsplit("/", 1)[0] in before]
                # a *named* directory the action skips: neither demanded nor refused
                fake += [n for n in cnames if n in skip]
                dontcare = set(q for q in info if any(under(x, q) for x in fake))
                extra = new - want_new - dontcare
                if extra:
                    fam = None
                    if fmt == "git" and skip and all(any(under(sk, x) for sk in skip) for x in extra):
                        fam = "git-smart-add-ignores-skip-file"
                    viol.append(("versioned although the statement excludes it%s: %r"
                                 % (" (the action's skip_file answers True)" if fam else "", sorted(extra)), fam))
                if want_new - new - dontcare:
                    missing = sorted(want_new - new - dontcare)
                    viol.append(("not versioned although the statement asks for it: %r" % missing,
                                 classify_missing(fmt, cnames, info, nroots, missing, stale, skip)))
            nontrivial = bool(new) and any(not r[2] and r[0] not in after for r in rows)
            counts["added:%d" % min(len(new), 6)] += 1
        else:
            out = res
            counts[res] += 1
            if res not in ("E:ForbiddenControlFile", "E:NoSuchFile") or (names_ok and not ctl_named):
                fam = None
                if fmt == "2a" and res == "E:NotADirectoryError" and any(how == "d2f" for _p, how in stale):
                    fam = "bzr-stale-kind-listdir-crash"
                viol.append(("smart_add raised %s although every named path exists and none is a control file"
                             % res[2:], fam))
        counts["names:%d" % min(len(names), 4)] += 1
        counts["recurse:%s" % recurse] += 1
        counts["kind:%s" % kind] += 1
        if act is not None:
            counts["action:%s:skips=%d" % (act[0], min(len(skip), 3))] += 1
        records.append(dict(case=case, line=line, out=out, viol=viol, nontrivial=nontrivial,
                            key=["add", fmt, layout, cnames, recurse, sorted(skip)]))
        shutil.rmtree(target)
    counts["fmt:" + fmt] += 1
    counts["conflicts:%d" % len(spec.get("conflicts", []))] += 1
    shutil.rmtree(base, ignore_errors=True)
    return dict(records=records, counts=dict(counts), mism=mism)


def run_layout_safe(job):
    try:
        return run_layout(job)
    except Exception as e:      # noqa  (an exception object that cannot be unpickled would hang the pool)
        import traceback
        return dict(harness_error="%s: %s" % (type(e).__name__, traceback.format_exc()[-600:]), spec=job["spec"])


def _sc(fmt, entries, rules=(), conflicts=()):
    return dict(fmt=fmt, entries=[list(e) for e in entries], rules=list(rules), ignore_versioned=True,
                conflicts=[list(c) for c in conflicts])


# fixed layouts + calls, run first on every seed
SCENARIOS = [
    # git: `old~` is ignored by the user rule *~ but old~/a is not; `ig/` by a tree rule; helper files; nested trees
    (_sc("git", [["v", "f", True], ["old~", "d", False], ["old~/a", "f", False], ["old~/s", "d", False],
                 ["old~/s/b.txt", "f", False], ["ig", "d", False], ["ig/k", "f", True], ["ig/new", "f", False],
                 ["m", "f", True], ["m.THIS", "f", False], ["m.BASE", "f", False], ["m.OTHER", "f", False],
                 ["n", "d", False], ["n/.git", "G", False], ["n/x", "f", False],
                 ["b", "d", False], ["b/.bzr", "B", False], ["b/x", "f", False], ["u", "f", False]],
         ["ig/"], [["text", "m"]]),
     [(["."], True), (["old~"], True), (["old~/a", "ig"], True), ([".git/HEAD"], False), (["n"], True), (["b", "u"], True)]),
    (_sc("2a", [["v", "f", True], ["old~", "d", False], ["old~/a", "f", False], ["build", "d", True],
                ["build/k", "f", True], ["build/new", "f", False], ["m", "f", True], ["m.THIS", "f", False],
                ["m.BASE", "f", False], ["m.OTHER", "d", False], ["m.OTHER/inner", "f", False],
                ["n", "d", False], ["n/.git", "G", False], ["n/x", "f", False],
                ["w", "d", True], ["w/f", "f", True], ["w/.git", "G", False], ["w/e", "d", False], ["w/e/y", "f", False],
                ["c.o", "f", False]],
         ["build", "*.o"], [["text", "m"]]),
     [(["."], True), (["old~"], True), (["c.o"], False), (["build"], True), (["n"], True), (["n/x"], True),
      (["m.OTHER"], True), (["w/e"], True), (["w/e", "."], True), ([".bzr/README"], True)]),
    # named sibling directories whose names are string prefixes of each other (seeded change:
    # `path.startswith(prev_dir)` in _gather_dirs_to_add)
    (_sc("2a", [["v", "f", True], ["doc", "d", False], ["doc/index.txt", "f", False], ["docs", "d", False],
                ["docs/guide.txt", "f", False], ["docs/s", "d", False], ["docs/s/b.txt", "f", False],
                ["lib", "d", True], ["lib/x", "f", True], ["lib/new", "f", False], ["lib64", "d", False],
                ["lib64/so", "f", False], ["src", "d", False], ["src/a", "f", False], ["src-old", "d", False],
                ["src-old/a", "f", False], ["src/src2", "d", False], ["src/src2/c", "f", False]]),
     [(["doc", "docs"], True), (["docs", "doc"], True), (["lib", "lib64"], True), (["lib64", "lib"], True),
      (["src", "src-old"], True), (["src-old", "src"], True), (["doc", "docs", "lib64"], True),
      (["src", "src/src2"], True), (["doc", "docs"], False),
      # an action that skips a versioned directory reached by the walk, and a file in another one
      (["."], True, ["names", ["lib", "so"]]), (["lib64", "docs"], True, ["names", ["s", "so"]])]),
    (_sc("git", [["v", "f", True], ["doc", "d", False], ["doc/index.txt", "f", False], ["docs", "d", False],
                 ["docs/guide.txt", "f", False], ["lib", "d", False], ["lib/x", "f", True], ["lib/new", "f", False],
                 ["lib64", "d", False], ["lib64/so", "f", False]]),
     [(["doc", "docs"], True), (["docs", "doc"], True), (["lib", "lib64"], True), (["doc", "docs", "lib64"], True)]),
    # three named directories nested in each other (the prev_dir rule), with and without a nested tree on the
    # way; a name that sorts between a directory and its content; the size limit and a skipped directory
    (dict(_sc("2a", [["v", "f", True], ["a", "d", False], ["a/b", "d", False], ["a/b/x", "f", False],
                     ["a/b/c", "d", False], ["a/b/c/x", "f", False], ["a/c", "d", False], ["a/c/y", "f", False],
                     ["a/z", "f", False], ["a-x", "d", False], ["a-x/y", "f", False],
                     ["a/n", "d", False], ["a/n/.git", "G", False], ["a/n/d", "d", False], ["a/n/d/x", "f", False],
                     ["a/n/e", "d", False], ["a/n/e/y", "f", False], ["big.bin", "f", False], ["a/big2", "f", False]]),
           big=["big.bin", "a/big2"]),
     [(["a", "a/b", "a/c"], True), (["a/c", "a", "a/b"], True), (["a", "a-x", "a/b"], True),
      (["a", "a/b", "a/b/c"], True), (["a", "a/n/d", "a/n/e"], True), (["a/n/e", "a/n/d", "a"], True),
      ([".", "a/n/d", "a/n/e", "a-x"], True), (["a", "a/n/d"], True), (["a/b", "a/b/c", "a/c"], False),
      (["."], True, ["large", LIMIT]), (["a", "big.bin"], True, ["large", LIMIT]),
      (["."], True, ["names", ["b", "y"]]), (["a", "a/b"], True, ["names", ["b"]]), (["a/b"], True, ["names", ["b", "x"]])]),
    (dict(_sc("git", [["v", "f", True], ["a", "d", False], ["a/b", "d", False], ["a/b/x", "f", False],
                      ["a/c", "d", False], ["a/c/y", "f", False], ["a/z", "f", False],
                      ["a/n", "d", False], ["a/n/.git", "G", False], ["a/n/d", "d", False], ["a/n/d/x", "f", False],
                      ["big.bin", "f", False]]),
           big=["big.bin"]),
     [(["a", "a/b", "a/c"], True), (["a", "a/n/d", "a/b"], True), (["."], True, ["large", LIMIT]),
      (["."], True, ["names", ["b"]])]),
]


def run(ctx):
    cases, lines, outs = [], [], []
    c46._templates()                      # before the pool forks: one template tree per format for all workers
    gitmode = git_fmt_char()
    jobs = []
    pinned = [(spec, list(choices)) for spec, choices in SCENARIOS]
    specs = []
    cdir = os.path.join(env.VERIF, "corpus", "C11")
    if os.path.isdir(cdir):
        import json
        for fn in sorted(os.listdir(cdir)):
            if fn.endswith(".json"):
                rec = json.load(open(os.path.join(cdir, fn)))
                if rec.get("calls"):
                    item = (rec["spec"], [tuple(c) for c in rec["calls"]])
                    if not any(item[0] == p[0] for p in pinned):
                        pinned.insert(0, item)
                else:
                    specs.append(rec["spec"])
    for spec, choices in pinned:
        jobs.append(dict(spec=spec, choices=choices))
    ctx.extra["git_named_control_file"] = {"G": "versioned (as found)", "H": "refused"}[gitmode[0]]
    ctx.extra["git_calls_skip_file"] = gitmode.endswith("s")
    for _ in range(ctx.pick(9, 70)):
        for fmt in ("2a", "git"):
            specs.append(add_conflicts_to_spec(ctx.rng, c46.gen_spec(ctx.rng, fmt)))
    for _ in range(ctx.pick(1, 6)):
        for fmt in ("2a", "git"):
            for how in ("f2d", "d2f"):
                specs.append(stale_spec(ctx.rng, fmt, how))
    for spec in specs:
        jobs.append(dict(spec=spec))
    for idx, job in enumerate(jobs):
        job.update(seed=ctx.seed, idx=idx, gitmode=gitmode, thorough=ctx.thorough())
    viol = []
    nerr = 0
    for res in ctx.pmap(run_layout_safe, jobs, chunksize=1):
        if "harness_error" in res:
            nerr += 1
            ctx.count("harness-error:" + res["harness_error"].split(":")[0])
            ctx.extra.setdefault("harness_errors", []).append(dict(spec=res["spec"], error=res["harness_error"][-400:]))
            continue
        for k, n in res["counts"].items():
            ctx.count(k, n)
        for case, impl, model, tie in res["mism"]:
            ctx.mismatch(case, impl, model, tie=tie)
        for rec in res["records"]:
            ctx.case(rec["key"], nontrivial=rec["nontrivial"])
            ridx = None
            if rec["line"] is not None:
                ridx = len(cases)
                cases.append(rec["case"])
                lines.append(rec["line"])
                outs.append(rec["out"])
            for what, fam in rec["viol"]:
                viol.append((rec["case"], what, fam, ridx))
    if nerr > max(1, len(jobs) // 10):
        raise env.InfraError("too many layouts could not be built/run: %r" % ctx.extra["harness_errors"][:2])
    replies = ctx.diff(cases, lines, outs) if ctx.model_available else None
    seen = set()
    final = []
    for case, what, fam, ridx in viol:
        if fam is not None and replies is not None and ridx is not None and replies[ridx] != outs[ridx]:
            # a family names a defect of the code as it was modelled: if the real result is not the model's
            # result for this very call, this is something else - report it as a plain violation
            what += " [the result also differs from the model of the code as it was: real %s / model %s]" % (
                outs[ridx][:200], replies[ridx][:200])
            fam = None
        final.append((case, what, fam))
    for case, what, fam in sorted(final, key=lambda v: (v[2] is not None,)):
        key = (fam, what) if fam is None else (fam,)
        if fam is not None:
            ctx.count("finding:" + fam)
        if key in seen:
            continue
        seen.add(key)
        ctx.violation(case, what, family=fam)


def widen(ctx):
    ctx.tier = "thorough"
    run(ctx)


def replay(ctx, case):
    c46._templates()
    job = dict(spec=case["spec"], choices=[(case["names"], case["recurse"], case.get("action"))], seed=ctx.seed,
               idx=0, gitmode=git_fmt_char(), thorough=False)
    res = run_layout(job)
    rec = res["records"][0]
    m = ctx.model([rec["line"]])[0] if rec["line"] is not None else None
    for what, fam in rec["viol"]:
        ctx.violation(rec["case"], what, family=fam)
    return dict(case=case, impl=rec["out"], model=m, line=rec["line"],
                oracle_failures=[dict(what=w, family=f) for w, f in rec["viol"]])
