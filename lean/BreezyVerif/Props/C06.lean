import BreezyVerif.Lemmas.C06
/-
C06 — aborted and suspended write groups.  Theorems about the write-group state
machine `step` / `exec` of Model/C06 for every repository state, every format
flag, every record and every operation sequence (no bound on lengths).
-/
namespace BreezyVerif.C06

/-! ### the property -/

/-- **Abort is a no-op on everything a reader can see.**  Starting a write group
on any repository, inserting any records and aborting leaves `pack-names`, the
visible keys and `upload/` exactly as they were, and no group is open. -/
theorem abort_noop (fmt : Fmt) (r : Repo) (recs : List Rec) (h : r.wg = none) :
    let r' := exec fmt r (.start :: recs.map Op.insert ++ [.abort])
    r'.packs = r.packs ∧ visible r' = visible r ∧ r'.upload = r.upload ∧ r'.wg = none := by
  have hs : (step fmt r .start).1 = { r with wg := some ⟨[], []⟩ } := by simp only [step, h]
  obtain ⟨h1, h2, h3⟩ := exec_inserts fmt recs (step fmt r .start).1 ⟨[], []⟩ (by rw [hs])
  simp only [List.cons_append, exec_cons, exec_append, exec_nil]
  generalize exec fmt (step fmt r Op.start).1 (recs.map Op.insert) = r2 at h1 h2 h3
  have : (step fmt r2 .abort).1 = { r2 with upload := removeAll r2.upload [], wg := none } := by
    simp only [step, h3]
  rw [this]
  refine ⟨by rw [h1, hs], by simp only [visible]; rw [h1, hs], by simp only [removeAll_nil]; rw [h2, hs], rfl⟩

/-- aborting any open write group (also a resumed one) never changes what is listed -/
theorem abort_keeps_packs (fmt : Fmt) (r : Repo) :
    (step fmt r .abort).1.packs = r.packs ∧ visible (step fmt r .abort).1 = visible r := by
  have := step_packs fmt r .abort (by simp)
  exact ⟨this, by simp only [visible, this]⟩

/-- **Nothing but a commit makes anything visible**: any operation sequence
without `commit` — insertions, aborts, suspends, failed and successful resumes,
in any order and with any tokens — leaves the listed packs unchanged. -/
theorem no_commit_no_change (fmt : Fmt) (ops : List Op) (r : Repo) (h : ∀ op ∈ ops, op ≠ .commit) :
    (exec fmt r ops).packs = r.packs ∧ visible (exec fmt r ops) = visible r := by
  have hp : (exec fmt r ops).packs = r.packs := by
    induction ops generalizing r with
    | nil => rfl
    | cons op ops ih =>
      rw [exec_cons, ih _ fun o ho => h o (List.mem_cons_of_mem _ ho)]
      exact step_packs fmt r op (h op List.mem_cons_self)
  exact ⟨hp, by simp only [visible, hp]⟩

/-- **A refused commit changes nothing** (the group stays open for the abort) -/
theorem refused_commit_noop (fmt : Fmt) (r : Repo) (e : Err)
    (h : (step fmt r .commit).2 = .err e) : (step fmt r .commit).1 = r := by
  simp only [step] at h ⊢
  split
  · rfl
  · rename_i g hg
    simp only [hg] at h
    split
    · rfl
    · rename_i hr
      simp [hr] at h

/-- the tokens `suspend` returns are resumable by a new `Repository` object, and
resuming restores the group's content -/
theorem token_wellformed (fmt : Fmt) (r : Repo) (g : Group) (h : r.wg = some g)
    (hin : ∀ p ∈ g.resumed, p ∈ r.upload) (hnd : g.resumed.Nodup) (hf : g.fresh ∉ g.resumed) :
    ∃ toks r1, step fmt r .suspend = (r1, .tokens toks) ∧ r1.packs = r.packs ∧ r1.wg = none ∧
      toks = (if g.fresh.isEmpty then g.resumed else g.resumed ++ [g.fresh]) ∧
      step fmt (step fmt r1 .reopen).1 (.resume (toks.map Tok.pack))
        = ({ (step fmt r1 .reopen).1 with wg := some ⟨[], toks⟩ }, .ok) := by
  by_cases he : g.fresh.isEmpty = true
  · refine ⟨g.resumed, { r with wg := none }, by simp only [step, h, he, if_true], rfl, rfl,
      by simp [he], ?_⟩
    have := resumeToks_ok r.upload g.resumed [] hin (by simpa using hnd)
    simp only [step, this, List.nil_append]
  · refine ⟨g.resumed ++ [g.fresh], { r with upload := addNew r.upload g.fresh, wg := none },
      by simp only [step, h, he]; rfl, rfl, rfl, by simp [he], ?_⟩
    have hup : ∀ p ∈ g.resumed ++ [g.fresh], p ∈ addNew r.upload g.fresh := by
      intro p hp
      simp only [addNew]
      rcases List.mem_append.mp hp with h1 | h1
      · split
        · exact hin p h1
        · exact List.mem_append_left _ (hin p h1)
      · simp only [List.mem_singleton] at h1
        subst h1
        split
        · rename_i hc; exact List.contains_iff_mem.mp hc
        · exact List.mem_append_right _ (List.mem_singleton.mpr rfl)
    have hnd' : ([] ++ (g.resumed ++ [g.fresh])).Nodup := by
      simp only [List.nil_append]
      rw [List.nodup_append]
      refine ⟨hnd, by simp, ?_⟩
      intro a ha b hb e
      simp only [List.mem_singleton] at hb
      subst hb; subst e
      exact hf ha
    have := resumeToks_ok (addNew r.upload g.fresh) (g.resumed ++ [g.fresh]) [] hup hnd'
    simp only [step, this, List.nil_append]

/-- **Suspend → new object → resume → commit ≡ commit.**  Same verdict (accepted /
refused) and the same listed packs, provided the object's missing-compression-
parent bookkeeping describes the open group (see `stale_after_abort_witness`
for why the hypothesis `hstale` is needed on knit pack formats). -/
theorem suspend_resume_commit_eq_commit_partial (fmt : Fmt) (r : Repo) (g : Group) (h : r.wg = some g)
    (hin : ∀ p ∈ g.resumed, p ∈ r.upload) (hnd : g.resumed.Nodup) (hf : g.fresh ∉ g.resumed)
    (hstale : r.stale.isEmpty = !missingCompressionParent (r.packs.flatten ++ groupRecs g) g.fresh) :
    let direct := step fmt r .commit
    let toks := if g.fresh.isEmpty then g.resumed else g.resumed ++ [g.fresh]
    let r1 := (step fmt r .suspend).1
    let r2 := (step fmt r1 .reopen).1
    let r3 := (step fmt r2 (.resume (toks.map Tok.pack))).1
    let via := step fmt r3 .commit
    (step fmt r .suspend).2 = .tokens toks ∧
    (step fmt r2 (.resume (toks.map Tok.pack))).2 = .ok ∧
    via.2 = direct.2 ∧ via.1.packs = direct.1.packs ∧
      (direct.2 = .ok → via.1.wg = none ∧ direct.1.wg = none) := by
  obtain ⟨toks, r1, hs, hp1, hw1, htoks, hres⟩ := token_wellformed fmt r g h hin hnd hf
  intro direct toks' r1' r2' r3' via
  have e1 : r1' = r1 := by simp only [r1', hs]
  have et : toks' = toks := htoks.symm
  have hro : (step fmt r1 .reopen).1 = { r1 with stale := [] } := by simp only [step, hw1]
  have e3 : r3' = { (step fmt r1 .reopen).1 with wg := some ⟨[], toks⟩ } := by
    simp only [r3', r2', e1, et, hres]
  have hw3 : r3'.wg = some ⟨[], toks⟩ := by rw [e3]
  have hp3 : r3'.packs = r.packs := by rw [e3, hro]; exact hp1
  have hs3 : r3'.stale = [] := by rw [e3, hro]
  have hall : groupRecs ⟨[], toks⟩ = groupRecs g := by
    rw [htoks]
    by_cases he : g.fresh.isEmpty = true
    · have : g.fresh = [] := List.isEmpty_iff.mp he
      simp [groupRecs, he, this]
    · simp [groupRecs, he]
  have hfl : (Group.mk [] toks).resumed.flatten = groupRecs g := by
    rw [← hall]; simp [groupRecs]
  have href : refuses fmt r3' ⟨[], toks⟩ = refuses fmt r g := by
    simp only [refuses, hp3, hs3, hall, hfl, List.isEmpty_nil, Bool.not_true, Bool.false_or]
    have : groupRecs g = g.resumed.flatten ++ g.fresh := rfl
    rw [this, any_append_mcp, ← this]
    cases hm : missingCompressionParent (r.packs.flatten ++ groupRecs g) g.fresh <;>
      simp [hm] at hstale <;> simp [hstale, hm]
  have hvia : via = step fmt r3' .commit := rfl
  have hdir : direct = step fmt r .commit := rfl
  refine ⟨by rw [et, hs], by simp only [r2', e1, et, hres], ?_⟩
  rw [hvia, hdir, step_commit fmt r3' ⟨[], toks⟩ hw3, step_commit fmt r g h, href]
  by_cases hr : refuses fmt r g = true
  · rw [if_pos hr, if_pos hr]
    exact ⟨rfl, hp3, fun hc => by cases hc⟩
  · rw [if_neg hr, if_neg hr]
    refine ⟨rfl, ?_, fun _ => ⟨rfl, rfl⟩⟩
    simp only [hp3, htoks]
    by_cases he : g.fresh.isEmpty = true <;> simp [he, List.append_assoc]

/-- a malformed or unknown token makes `resume` fail, nothing becomes listed
and no write group is open afterwards -/
theorem resume_rejects_bad_tokens (fmt : Fmt) (r : Repo) (toks : List Tok) (h : r.wg = none)
    (hbad : ∃ t ∈ toks, t = Tok.malformed ∨ ∃ p, t = Tok.pack p ∧ p ∉ r.upload) :
    ((step fmt r (.resume toks)).2 = .err .unresumable ∨ (step fmt r (.resume toks)).2 = .err .assertion) ∧
      (step fmt r (.resume toks)).1.packs = r.packs ∧ (step fmt r (.resume toks)).1.wg = none := by
  obtain ⟨e, acc', he, hcase⟩ := resumeToks_bad r.upload toks [] hbad
  simp only [step, h, he]
  rcases hcase with hc | hc <;> subst hc <;> simp [h]

/-! ### the finding: abort does not reset the object's bookkeeping -/

private def deltaRec : Rec := ⟨⟨.text, 1⟩, some 0, [], [], []⟩
private def fullRec : Rec := ⟨⟨.text, 2⟩, none, [], [], []⟩

/-- knit pack formats: after a group with a missing compression parent was
aborted, the same `Repository` object refuses a later, complete group; a new
object accepts it.  (Reproduced on the real code: family
`knit-missing-compression-parent-survives-abort`.) -/
theorem stale_after_abort_witness :
    (run ⟨false⟩ ⟨[], [], none, []⟩
        [.start, .insert deltaRec, .abort, .start, .insert fullRec, .commit]).2.getLast?
      = some (.err .check) ∧
    (run ⟨false⟩ ⟨[], [], none, []⟩
        [.start, .insert deltaRec, .abort, .reopen, .start, .insert fullRec, .commit]).2.getLast?
      = some .ok := by decide

/-- … and therefore suspend/resume/commit and a direct commit disagree there -/
theorem suspend_resume_witness :
    (run ⟨false⟩ ⟨[], [], none, []⟩
        [.start, .insert deltaRec, .abort, .start, .insert fullRec, .commit]).2.getLast?
      ≠ (run ⟨false⟩ ⟨[], [], none, []⟩
        [.start, .insert deltaRec, .abort, .start, .insert fullRec, .suspend, .reopen,
         .resume [.pack [fullRec]], .commit]).2.getLast? := by decide

/-- without delta records (all CHK formats) an aborted fresh write group restores
the whole state, bookkeeping included -/
theorem abort_restores_object_partial (fmt : Fmt) (r : Repo) (recs : List Rec) (h : r.wg = none)
    (hs : r.stale = []) (hd : ∀ rec ∈ recs, rec.cparent = none) :
    exec fmt r (.start :: recs.map Op.insert ++ [.abort]) = r := by
  have hstart : (step fmt r .start).1 = { r with wg := some ⟨[], []⟩ } := by simp only [step, h]
  have key : ∀ (recs : List Rec) (r2 : Repo) (g : Group), r2.wg = some g → r2.stale = [] →
      (∀ rec ∈ recs, rec.cparent = none) →
      (exec fmt r2 (recs.map Op.insert)).stale = [] := by
    intro recs
    induction recs with
    | nil => intro r2 g _ h2 _; simpa [exec_nil] using h2
    | cons rec recs ih =>
      intro r2 g hg h2 hd
      simp only [List.map_cons, exec_cons]
      have hst : (step fmt r2 (.insert rec)).1 =
          { r2 with wg := some { g with fresh := g.fresh ++ [rec] }, stale := staleAfter r2 g rec } := by
        simp only [step, hg]
      apply ih _ { g with fresh := g.fresh ++ [rec] } (by rw [hst])
      · rw [hst]
        simp [staleAfter, h2, hd rec List.mem_cons_self]
      · exact fun x hx => hd x (List.mem_cons_of_mem _ hx)
  obtain ⟨h1, h2, h3⟩ := exec_inserts fmt recs (step fmt r .start).1 ⟨[], []⟩ (by rw [hstart])
  have h4 := key recs (step fmt r .start).1 ⟨[], []⟩ (by rw [hstart]) (by rw [hstart]; exact hs) hd
  simp only [List.cons_append, exec_cons, exec_append, exec_nil]
  generalize exec fmt (step fmt r Op.start).1 (recs.map Op.insert) = r2 at h1 h2 h3 h4
  have : (step fmt r2 .abort).1 = { r2 with upload := removeAll r2.upload [], wg := none } := by
    simp only [step, h3]
  rw [this]
  cases r2; cases r
  simp_all [removeAll_nil]

/-! ### non-vacuity -/

private def exRepo : Repo :=
  { packs := [[fullRec]], upload := [[deltaRec]], wg := some ⟨[⟨⟨.rev, 7⟩, none, [], [], []⟩], [[deltaRec]]⟩,
    stale := [] }

example : exRepo.wg = some ⟨[⟨⟨.rev, 7⟩, none, [], [], []⟩], [[deltaRec]]⟩ ∧
    (∀ p ∈ [[deltaRec]], p ∈ exRepo.upload) ∧ ([[deltaRec]] : List Pack).Nodup ∧
    ([⟨⟨.rev, 7⟩, none, [], [], []⟩] : Pack) ∉ ([[deltaRec]] : List Pack) := by decide

/-- the hypotheses of `suspend_resume_commit_eq_commit_partial` hold for a
resumed group with a missing compression parent and new data: both ways refuse -/
example : exRepo.stale.isEmpty = !missingCompressionParent (exRepo.packs.flatten ++
    groupRecs ⟨[⟨⟨.rev, 7⟩, none, [], [], []⟩], [[deltaRec]]⟩) [⟨⟨.rev, 7⟩, none, [], [], []⟩] := by decide
example : (step ⟨false⟩ exRepo .commit).2 = .err .check := by decide
example : (step ⟨true⟩ { exRepo with wg := some ⟨[], []⟩ } .commit).2 = .ok := by decide
example : (step ⟨true⟩ ⟨[], [], some ⟨[⟨⟨.rev, 7⟩, none, [], [], []⟩], []⟩, []⟩ .commit).2 = .err .check := by
  decide
example : ∃ t ∈ [Tok.pack [fullRec], Tok.malformed], t = Tok.malformed ∨
    ∃ p, t = Tok.pack p ∧ p ∉ exRepo.upload := ⟨.malformed, by simp, Or.inl rfl⟩

end BreezyVerif.C06
