import BreezyVerif.Model.C26
/-!
C27 — crash points and fault injection for the lock-directory model of
`Model/C26.lean` (same lockers, same events: a crash is the event `Ev.crash`, or
simply a schedule in which the process gets no further events; a transport
error is the event `Ev.fault`).
-/
namespace BreezyVerif.C27
open BreezyVerif.C26

/-- state of the lock as a later process finds it on disk -/
inductive Disk
  | free
  | heldReadable (n : Nonce)
  | heldCorrupt (tag : Nat)
  | heldNoInfo
deriving DecidableEq, Repr

def classify : Option Dir → Disk
  | none => .free
  | some none => .heldNoInfo
  | some (some (.ok n)) => .heldReadable n
  | some (some (.bad t)) => .heldCorrupt t

/-- `Free` or `HeldReadable` -/
def recoverable (h : Option Dir) : Bool :=
  match classify h with
  | .free | .heldReadable _ => true
  | _ => false

def Disk.show : Disk → String
  | .free => "Free"
  | .heldReadable n => s!"HeldReadable:{n.owner}.{n.serial}"
  | .heldCorrupt t => s!"HeldCorrupt:{t}"
  | .heldNoInfo => "HeldNoInfo"

/-- a complete `attempt_lock` of locker `i` on a free lock: mkdir, put, rename, peek -/
def acquireEvs (i : Nat) : List Ev := [.start i .attempt, .step i, .step i, .step i, .step i]

/-- a complete `break_lock` of locker `i` on a readable lock: peek, peek, rename, get, delete, rmdir -/
def breakEvs (i : Nat) : List Ev :=
  [.start i .brk, .step i, .step i, .step i, .step i, .step i, .step i]

/-- a complete `break_lock` of locker `i` on a lock with unparsable info
(`force_break_corrupt`): peek, rename, get, delete, rmdir -/
def breakCorruptEvs (i : Nat) : List Ev :=
  [.start i .brk, .step i, .step i, .step i, .step i, .step i]

/-! ## lost replies: a rename that takes effect and then raises

A layer on top of the machine of Model/C26.lean (which is not changed): one more event.  `lost i k`: the pending
transport call of locker `i` is one of the four renames of `held/` (`rename(pending, held)` of an attempt,
`rename(held, releasing…)` of `unlock`, `rename(held, broken…)` of `force_break` / `force_break_corrupt`); the
server performs it, but the reply is lost and the call raises the transport error `k`.  What the code does
next is transcribed from `lockdir.py`:

* `_attempt_lock`: the `except (TransportError, PathError, …)` clause takes it for contention: `peek()` (sees
  its own info), `_handle_lock_contention` (the holder — this very process — is not dead) raises
  `LockContention`, `_remove_pending_dir` finds nothing to remove (`PathError`, noted);
* `unlock`: the error is swallowed by `only_raises`; `_lock_held = False` is never reached and the
  `releasing.*` directory stays behind with its info;
* `force_break` / `force_break_corrupt`: the error propagates (inside a stealing attempt: after
  `_remove_pending_dir`), the `broken.*` directory stays behind.

A rename that fails by itself (target exists / source missing) has no effect to lose: the event is then the
ordinary step.  On any other pending call the event is the ordinary fault.  After a lost reply an attempt has no
pending directory any more; if it comes back to its rename (after stealing the lock from a dead holder) the
rename raises `NoSuchFile` — a `PathError`, handled like contention. -/

inductive Ev27
  | base (e : Ev)
  | lost (i : Nat) (k : FaultKind)
deriving DecidableEq, Repr

def lostReply (id : Nat) (cfg : Nat → Cfg) (crashed : Nat → Bool) (k : FaultKind) (me : Locker)
    (held : Option Dir) : Locker × Option Dir :=
  match me.pc with
  | .aRename =>
    match held, me.pend with
    | none, some d => ({ me with pend := none, pc := .aPeekC }, some d)
    | _, none => ({ me with pc := .aPeekC }, held)
    | some _, some _ => ((lstep id cfg crashed me held).1, (lstep id cfg crashed me held).2.1)
  | .uRename =>
    match held with
    | some d => (({ me with junk := me.junk ++ [(Kind.R, d)] }).done .swallowed, none)
    | none => ((lstep id cfg crashed me held).1, (lstep id cfg crashed me held).2.1)
  | .bRename _ ret =>
    match held with
    | some d => (breakErr { me with junk := me.junk ++ [(Kind.B, d)] } ret k.res, none)
    | none => ((lstep id cfg crashed me held).1, (lstep id cfg crashed me held).2.1)
  | .xRename _ =>
    match held with
    | some d => (({ me with junk := me.junk ++ [(Kind.B, d)] }).done k.res, none)
    | none => ((lstep id cfg crashed me held).1, (lstep id cfg crashed me held).2.1)
  | _ => (lfault k me, held)

/-- `fx` selects the variant of `_attempt_lock` (probed on the real code on every run): `false` = the
contention handler does not look at whose lock it found; `true` = a handler that recognises its *own current
nonce* in `held/` (the rename did take effect) and goes on to the confirming peek. -/
def step27 (fx : Bool) (s : Sys) : Ev27 → Sys
  | .base (.step i) =>
    -- the pending directory was renamed into place by a lost reply earlier: `rename` raises NoSuchFile
    if s.crashed i = false ∧ (s.lk i).pc = .aRename ∧ (s.lk i).pend = none then
      { s with lk := upd s.lk i { s.lk i with pc := .aPeekC } }
    else if fx = true ∧ s.crashed i = false ∧ (s.lk i).pc = .aPeekC ∧
        s.held = some (some (.ok ⟨i, (s.lk i).nonce⟩)) then
      { s with lk := upd s.lk i { s.lk i with pc := .aConfirm } }
    else s.step (.step i)
  | .base e => s.step e
  | .lost i k =>
    if s.crashed i then s
    else
      let r := lostReply i s.cfg s.crashed k (s.lk i) s.held
      { s with lk := upd s.lk i r.1, held := r.2 }

def run27 (fx : Bool) (s : Sys) (evs : List Ev27) : Sys := evs.foldl (step27 fx) s

end BreezyVerif.C27
