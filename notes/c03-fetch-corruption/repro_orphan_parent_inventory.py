"""C03 finding: fetching from a 2a repository that holds the *inventory* of a ghost parent
(without the revision) gives a target whose revisions lack file texts.

GroupCHKStreamSource.get_stream excludes the CHK items / text keys of every boundary parent
whose inventory the source has (_get_filtered_chk_streams -> _find_present_inventory_keys),
assuming the target has that parent.  If the parent's *revision* is absent from the source
(it only has the parent inventory that StreamSink/get_missing_parent_inventories stored), the
revision search can never have established that, and an empty target receives revisions whose
unchanged files have no texts.

usage: /venv/bin/python repro_orphan_parent_inventory.py      (exit 1 = defect present)
"""
import os, sys, tempfile
os.environ.setdefault("BRZ_HOME", tempfile.mkdtemp(prefix="brzhome", dir="/var/tmp"))
os.environ["HOME"] = os.environ["BRZ_HOME"]
os.environ.setdefault("BRZ_EMAIL", "t <t@example.com>")
sys.path.insert(0, os.environ.get("VERIF_REPO", "/repo"))
import breezy
breezy.initialize()
import breezy.bzr  # noqa
from breezy import transport
from breezy.branchbuilder import BranchBuilder
from breezy.controldir import ControlDir, format_registry

root = tempfile.mkdtemp(prefix="c03repro", dir="/var/tmp")
fmt = format_registry.make_controldir("2a")


def builder(name):
    os.mkdir(os.path.join(root, name))
    return BranchBuilder(transport.get_transport(os.path.join(root, name)), format=fmt)


A, B = builder("A"), builder("B")
ra, rb = A.get_branch().repository, B.get_branch().repository
A.build_snapshot([], [("add", ("", b"root-id", "directory", None)),
                      ("add", ("keep", b"keep-id", "file", b"never changes\n")),
                      ("add", ("f", b"f-id", "file", b"one\n"))], revision_id=b"r1")
rb.fetch(ra, revision_id=b"r1")
B.build_snapshot([b"r1"], [("modify", ("f", b"three\n"))], revision_id=b"r3")
# r4 is committed in A with r3 as a ghost merge parent (A never fetched r3)
A.build_snapshot([b"r1", b"r3"], [("modify", ("f", b"four\n"))], revision_id=b"r4")
rb.fetch(ra, revision_id=b"r4")
B.build_snapshot([b"r3", b"r4"], [("modify", ("f", b"five\n"))], revision_id=b"r5")
# A fetches r5: the walk stops at r4 (which A has), so r3 stays a ghost in A, but A stores r3's inventory
ra.fetch(rb, revision_id=b"r5")
ra = ra.controldir.open_repository()
with ra.lock_read():
    print("A revisions  :", sorted(ra.all_revision_ids()))
    print("A inventories:", sorted(k[0] for k in ra.inventories.keys()))
# anybody who now fetches r4 from A into a fresh repository gets revisions without their texts
T = ControlDir.create(os.path.join(root, "T"), format=fmt).create_repository()
T.fetch(ra, revision_id=b"r4")
T = T.controldir.open_repository()
bad = 0
with T.lock_read():
    print("T revisions  :", sorted(T.all_revision_ids()))
    print("T text keys  :", sorted(T.texts.keys()))
    for rid in sorted(T.all_revision_ids()):
        tree = T.revision_tree(rid)
        for path, ie in tree.iter_entries_by_dir():
            if ie.kind == "file":
                try:
                    tree.get_file_text(path)
                except Exception as e:
                    bad += 1
                    print("UNREADABLE %s in %s: %s" % (path, rid.decode(), type(e).__name__))
    try:
        T.check([b"r4"])
    except Exception as e:
        bad += 1
        print("check() fails: %s: %s" % (type(e).__name__, e))
print("DEFECT PRESENT" if bad else "ok")
sys.exit(1 if bad else 0)
