"""C29 — smart protocol messages survive the wire unchanged
(breezy/bzr/smart/protocol.py, message.py, medium.py).

Lean side (Props/C29.lean): every decoder is a literal state machine
`feed = accept_bytes`; proved for ALL states / byte strings / read patterns:
`feed (feed s a) b = feed s (a ++ b)` (whole-state equality), hence
segmentation independence, and round trips `decode (encode m ++ rest) = (m, rest)`
for LengthPrefixedBodyDecoder, ChunkedBodyDecoder (incl. ERR tail),
ProtocolThreeDecoder (server and client side), the protocol-1/2 request state
machine, `\\x01` tuples, bencoded argument lists and the conventional response
handler; readv offsets (`_deserialise_offsets(_serialise_offsets(l)) = l`, all lists);
ConventionalRequestHandler (every conventional request -- call, body, readv, stream,
stream cut short by an error -- reaches the request handler as args_received, one
accept_body per part, post_body_error_received, end_received; exactly one response);
the composed statements bytes-in-any-reads -> handler state for v3 requests and
responses (`v3_request_roundtrip`, `v3_response_roundtrip_fixed/_partial`); and the
protocol-2 client's parsing of `_send_response` output (marker, success/failed, tuple,
length-prefixed body or chunked stream with failure; stops exactly at the end).

T2 (this module): the REAL decoders are driven read by read and compared with
the model after EVERY read (state name, bytes_left, drained body / chunks /
events, finished, unused_data, next_read_size); the real encoders
(_encode_bulk_data, _send_stream, _encode_tuple, ProtocolThreeRequester,
ProtocolThreeResponder, SmartClientRequestProtocolOne/Two, fastbencode) are
compared byte for byte with the model encoders.  A malformed stream (~10 %) is
compared the same way (the models are literal on garbage too) except for
inputs relying on Python's lenient int() syntax.  ConventionalResponseHandler is
modelled in two variants (as found / with the proposed fix of finding F15); the
variant implemented by the working tree is probed on every run.  The real
ConventionalRequestHandler (behind the real v3 decoder, with a recording request handler
and responder) is compared with the model on conventional requests and on ~20 % other
part sequences (handler state, or the first protocol error the handler raises PLUS the
framing state at the end: an error raised by the handler must not stop the decoder from
finding the end of the message); `_deserialise_offsets` on serialised and
malformed texts; SmartClientRequestProtocolTwo over a pipe with short reads on responses
written by the real server (and with a wrong marker / status line).

Oracle (independent of the model): full real round trips, client encoder ->
wire cut into arbitrary reads -> server decoder (and server -> client) for
protocol 1, 2 and 3; args, body, readv offsets, streamed chunks, mid-stream
errors and the bytes after the message must come out as they went in.  Two or three
requests back to back on ONE connection go through the real server medium loop (serve /
_build_protocol / _get_line / _serve_one_request / _push_back), for a socket medium whose
reads are scripted (any segmentation, boundaries inside reads) and for the pipe medium
with short reads: every request must be dispatched with its own args and body, and (v3) one
response per request must be written.  The connections include v3 requests the server
answers with an error while the client keeps sending -- a body / stream / readv for a verb
that answered from its args, for a verb that raised, for an unknown verb -- followed by good
requests: v3 messages are self-delimiting, the connection must stay usable.  Likewise every
generated v3 message with valid framing that the real ConventionalRequestHandler rejects must
leave the decoder finished with unused_data = the bytes after it.

Found by this oracle and fixed in /repo (a5764d7): one socket read delivering a protocol-1
request without body (e.g. `hello\n`) plus bytes of the next request made
SmartMedium._push_back(b"") raise AssertionError (buffer check before the empty-data check);
the connection was terminated and the next request lost.  No family: a plain VIOLATION if it
returns.

Mutants this check was built against (scratch worktree, each caught by the oracle
with a concrete input and by T2; H* stayed clean):
  M1  LengthPrefixedBodyDecoder: `self._body[self.bytes_left :]` -> `[self.bytes_left + 1 :]`
      (needs body end and part of the trailer in one read)
  M2  ChunkedBodyDecoder._state_accept_reading_chunk: `in_buf[self.bytes_left :]` -> `+ 1`
      (drops a byte only if the chunk end and more bytes arrive together)
  M3  ChunkedBodyDecoder ERR branch returns without re-running the state on the rest of
      the buffer (only visible when `ERR\n` and what follows arrive in the same read)
  M4  ProtocolThreeDecoder.done(): `self.unused_data = b""` (bytes after the message lost
      only if they arrive in the same read as the end byte)
  M5  _extract_length_prefixed_bytes: `<` -> `<=` (one byte too many demanded)
  M6  SmartServerRequestProtocolOne: trivial request no longer keeps `unused_data`
  M7  _decode_tuple: `req_line[:-1]` -> `req_line.strip()` (last arg ending in a blank)
  M8  _send_chunks: hex length -> decimal length (chunks of >= 10 bytes)
  M9  LengthPrefixed trailer: `unused_data = self._get_in_buffer()` instead of the rest of
      the trailer buffer
  M10 ConventionalRequestHandler.bytes_part_received drops every body part after the first
  M11 LengthPrefixed: `if self.bytes_left != 0` -> `< -1` (exactly one trailer byte with the body)
  H1  `_state_accept_reading_body` rewritten with locals; H2 `find` -> `in` + `index`.
Second round (on a worktree with the _push_back patch applied; all caught):
  N1  ConventionalRequestHandler._error_received no longer calls post_body_error_received   oracle
  N2  byte_part_received takes `E` for success (`expecting = "end"`)                         oracle
  N3  _deserialise_offsets `continue` -> `break` on a blank line                             oracle
  N4  SmartMedium._get_line drops the excess instead of pushing it back                      oracle (pipeline)
  N5  socket medium pushes back `unused_data[1:]`                                            oracle (pipeline)
  N6  v2 client: every status line but `failed` counts as success                            T2 (tie)
  N7  v2 server writes `success` for a failed response                                       oracle
  H3  `if line == b"": continue` / tuple-unpacking with parentheses in _deserialise_offsets: clean.
Seeded change C29b (ProtocolThreeDecoder._state_accept_expecting_bytes: transition to
expecting_message_part moved after the handler callback -- only wrong when the handler raises on
a bytes part): plain VIOLATION for seeds 0..3 (corpus case `C29.n`-style verb + body, all 2-splits;
also T2 and the pipeline oracle).
"""
import io
import struct

from vlib import env
from vlib.lean import hexb, unhex

THEOREMS = [
    "segmentation_of_append",
    "lp_feed_append", "lp_segmentation_independent", "lp_roundtrip", "lp_drain_commutes",
    "ck_feed_append", "ck_segmentation_independent", "ck_roundtrip",
    "v3_feed_append", "v3_segmentation_independent", "v3_roundtrip_server", "v3_roundtrip_client",
    "v3_args_bencode_roundtrip", "resp_handler_roundtrip_partial", "resp_stream_error_first_witness",
    "resp_handler_roundtrip_fixed",
    "tuple_roundtrip", "tuple_empty_witness", "tuple_separator_witness",
    "req_feed_append", "req_roundtrip",
    "offsets_roundtrip", "rq_handler_roundtrip", "rq_executed_body", "req_stream_error_executed_witness",
    "v3_request_roundtrip", "v3_response_roundtrip_fixed", "v3_response_roundtrip_partial",
    "v2_response_roundtrip",
]
RULE = ("messages from a grammar (1-4 args, bodies 0-300 bytes (sometimes up to 70000) over an alphabet of "
        "the delimiter bytes, readv lists, streams of 0-4 chunks with optional failure, trailing bytes) "
        "encoded by the real encoder, cut into reads (whole, every 2-split for short messages, bytewise, "
        "random k-splits incl. empty reads); conventional v3 requests and other part sequences for the "
        "request handler; serialised / malformed readv offset texts; protocol-2 responses read by the real "
        "client with short reads; 2-3 requests back to back through the real server medium loop; "
        "a case is distinct by (kind, message, segmentation); "
        "non-trivial = more than one read or non-empty trailing bytes or a malformed stream")
ASSUMPTIONS = [
    "length lines are strings of digits: Python int() also accepts whitespace, sign, '_' and '0x' — "
    "never produced by the encoders, excluded from the malformed stream, rejected by the model",
    "protocol 1/2 argument tuples are non-empty and contain neither \\x01 nor \\n (wire-format limits, "
    "witness theorems tuple_empty_witness / tuple_separator_witness)",
    "every v3 part is shorter than 2**32 bytes (struct.pack('!L') raises otherwise)",
    "the request-handler model stops at the first protocol error (the real decoder reports it and goes on "
    "parsing); a body-taking verb answers in do_end(); a failed protocol-2 response carries no body",
    "bencode/bdecode of headers and argument structures is fastbencode (external); the model treats "
    "structure payloads as opaque bytes and proves the flat list-of-bytes case",
]
TRUSTED = [
    "sockets, timeouts and OS buffering are not modelled; the client medium is SmartSimplePipesClientMedium "
    "over an in-memory pipe that returns short reads",
    "request dispatch is replaced by two test verbs registered in request.request_handlers; under the real "
    "ConventionalRequestHandler a recording request handler / responder stands in for SmartServerRequestHandler",
    "the protocol-2 client model works on the whole byte stream: the segmentation of its header lines is the "
    "medium's read_line (exercised by the oracle with short reads), that of the bodies is proved (LP / CK)",
]

ALPHA = b"\n\n\x01\x00\xff :,_-+lexX" + b"doneENDERRchunked" + b"0123456789abcdefABCDEF"
SAFE = bytes(c for c in ALPHA if c not in b"\n\x01")
F15 = "v3-response-stream-error-before-first-chunk"
F16 = "v3-request-stream-error-ignored"
PUSHBACK = "v1-bodyless-request-with-buffered-followup-terminates-connection"


# ---------------------------------------------------------------- generators

def gbytes(rng, lo=0, hi=12, alpha=ALPHA):
    n = rng.randint(lo, hi)
    return bytes(rng.choice(alpha) for _ in range(n))


def gbody(ctx, rng):
    r = rng.random()
    if r < 0.15:
        return b""
    if r < 0.75:
        return gbytes(rng, 1, 14)
    if r < 0.97:
        return gbytes(rng, 15, 300)
    n = rng.choice([255, 256, 257, 4095, 4096, 65535, 65536, 70000]) if ctx.thorough() else rng.choice([255, 256, 257, 4096])
    return bytes(rng.getrandbits(8) for _ in range(n))


def grest(rng):
    r = rng.random()
    if r < 0.4:
        return b""
    return gbytes(rng, 1, 9)


def gargs(rng, safe):
    n = rng.randint(0, 3)
    return [gbytes(rng, 0, 7, SAFE if safe else ALPHA) for _ in range(n)]


def cut(rng, data, style=None):
    """cut `data` into a non-empty list of reads"""
    n = len(data)
    style = style or rng.choice(["whole", "two", "bytes", "rand", "rand", "rand-empty"])
    if style == "whole" or n == 0:
        segs = [data]
    elif style == "two":
        k = rng.randint(0, n)
        segs = [data[:k], data[k:]]
    elif style == "bytes" and n <= 120:
        segs = [data[i:i + 1] for i in range(n)]
    else:
        k = rng.randint(1, min(8, n))
        pts = sorted(rng.randint(0, n) for _ in range(k))
        segs, last = [], 0
        for p in pts + [n]:
            segs.append(data[last:p])
            last = p
        if style != "rand-empty":
            segs = [s for s in segs if s] or [data]
    return segs


def two_splits(data):
    return [[data[:k], data[k:]] for k in range(len(data) + 1)]


def hseg(segs):
    return ",".join(hexb(s) for s in segs)


def hlist(l):
    return ",".join(hexb(s) for s in l) if l else "[]"


# ---------------------------------------------------------------- real-code runners (T2 side)

def _proto():
    from breezy.bzr.smart import protocol
    return protocol


def state_name(d):
    return d.state_accept.__name__[len("_state_accept_"):]


def run_lp(segs, mask):
    d = _proto().LengthPrefixedBodyDecoder()
    out = []
    body = b""
    for seg, m in zip(segs, mask):
        try:
            d.accept_bytes(seg)
        except ValueError:
            out.append("E:ValueError")
            break
        try:
            tag = state_name(d)
            left = d.bytes_left
            if m == "1":
                got = d.read_pending_data()
                body += got
                dr = hexb(got)
            else:
                dr = "~"
            out.append("/".join([tag, "~" if left is None else str(left), dr,
                                 "T" if d.finished_reading else "F", hexb(d.unused_data), str(d.next_read_size())]))
        except Exception as e:  # the real code blew up where the model has an answer
            out.append("E:Crash:%s" % type(e).__name__)
            break
    return ";".join(out), d, body


def show_chunk(c):
    if isinstance(c, bytes):
        return "d" + hexb(c)
    return "f" + "+".join(hexb(a) for a in c.args)


def run_ck(segs, drains):
    d = _proto().ChunkedBodyDecoder()
    out = []
    seen = []
    for seg, m in zip(segs, drains):
        try:
            d.accept_bytes(seg)
        except ValueError:
            out.append("E:ValueError")
            break
        except Exception as e:
            out.append("E:BadHeader" if "Bad chunked body header" in str(e) else "E:Other:" + type(e).__name__)
            break
        try:
            if m == "1":
                seen.extend(iter(d.read_next_chunk, None))
            allc = seen + list(d.chunks)
            out.append("/".join([state_name(d), ",".join(show_chunk(c) for c in allc) or "[]",
                                 "T" if d.finished_reading else "F", hexb(d.unused_data), str(d.next_read_size())]))
        except Exception as e:
            out.append("E:Crash:%s" % type(e).__name__)
            break
    seen.extend(iter(d.read_next_chunk, None))
    return ";".join(out), d, seen


def make_rec():
    from fastbencode import bencode
    from breezy.bzr.smart import message

    class Rec(message.MessageHandler):
        def __init__(self):
            message.MessageHandler.__init__(self)
            self.evs = []
            self.err = None

        def headers_received(self, h):
            self.evs.append("H" + hexb(bencode(h)))

        def byte_part_received(self, b):
            self.evs.append("o" + b.hex())

        def bytes_part_received(self, b):
            self.evs.append("b" + hexb(b))

        def structure_part_received(self, s):
            self.evs.append("s" + hexb(bencode(s)))

        def end_received(self):
            self.evs.append("e")

        def protocol_error(self, exc):
            self.err = exc
    return Rec()


def v3_err(exc):
    from breezy import errors
    if isinstance(exc, errors.UnexpectedProtocolVersionMarker):
        return "E:BadVersion"
    if "Bad message kind byte" in str(exc):
        return "E:BadKind"
    return "E:Other:%s" % type(exc).__name__


def run_v3(marker, segs):
    h = make_rec()
    d = _proto().ProtocolThreeDecoder(h, expect_version_marker=marker)
    out = []
    for seg in segs:
        try:
            d.accept_bytes(seg)
            if h.err is not None:
                out.append(v3_err(h.err))
                break
            out.append("/".join([state_name(d), str(len(h.evs)), "T" if state_name(d) == "reading_unused" else "F",
                                 hexb(d.unused_data), str(d.next_read_size())]))
        except Exception as e:
            out.append("E:Crash:%s" % type(e).__name__)
            break
    return ";".join(out) + " " + ("+".join(h.evs) or "[]"), d, h


class NullMR:
    def finished_reading(self):
        pass


def run_v3resp(marker, segs):
    from fastbencode import bencode
    from breezy.bzr.smart import message
    from breezy import errors
    h = message.ConventionalResponseHandler()
    d = _proto().ProtocolThreeDecoder(h, expect_version_marker=marker)
    h.setProtoAndMediumRequest(d, NullMR())
    for seg in segs:
        try:
            d.accept_bytes(seg)
        except _proto().SmartMessageHandlerError as e:
            s = str(e.exc_value)
            if "Unknown response status" in s:
                return "E:UnknownStatus"
            if "Unexpected byte part" in s:
                return "E:UnexpectedByte"
            if "Unexpected structure" in s:
                return "E:UnexpectedStructure"
            return "E:Other"
        except errors.UnexpectedProtocolVersionMarker:
            return "E:BadVersion"
        except Exception as e:
            return v3_err(e)
    ob = lambda b: "~" if b is None else b.hex()
    os_ = lambda s: "~" if s is None else hexb(bencode(s))
    return "/".join([ob(h.status), os_(h.args), hlist(list(h._bytes_parts)), "T" if h._body_started else "F",
                     ob(h._body_stream_status), os_(h._body_error_args)]) + " " + \
        ("T" if state_name(d) == "reading_unused" else "F") + " " + hexb(d.unused_data)


class RecReqHandler:
    """stands in for SmartServerRequestHandler under the real ConventionalRequestHandler: records
    the calls; `w`: the verb waits for a body (otherwise it answers in args_received)"""

    def __init__(self, w):
        self.w = w
        self.calls = []
        self.finished_reading = False
        self.response = None

    def headers_received(self, headers):
        pass

    def args_received(self, args):
        from fastbencode import bencode
        self.calls.append("A" + hexb(bencode(args)))
        if not self.w:
            self.finished_reading = True
            self.response = "resp"

    def accept_body(self, b):
        self.calls.append("B" + hexb(b))

    def post_body_error_received(self, error_args):
        from fastbencode import bencode
        self.calls.append("P" + hexb(bencode(error_args)))

    def end_received(self):
        self.calls.append("e")
        self.finished_reading = True
        self.response = "resp"


class RecResponder:
    def __init__(self):
        self.response_sent = False
        self.n = 0
        self.errors = []

    def send_response(self, response):
        self.n += 1
        self.response_sent = True

    def send_error(self, exc):
        self.errors.append(exc)
        self.response_sent = True


RQ_ERRORS = [("Unexpected message part: bytes(", "E:UnexpectedBytes"),
             ("Unexpected message part: byte(", "E:UnexpectedByte"),
             ("Non-success status byte", "E:BadStatusByte"),
             ("Unexpected message part: structure(", "E:UnexpectedStructure"),
             ("End of message received prematurely", "E:PrematureEnd"),
             ("Bad message kind byte", "E:BadKind")]


def run_v3req(w, segs):
    """the real ConventionalRequestHandler behind the real ProtocolThreeDecoder (server side: the
    medium has consumed the version marker); state after the whole input, or the first protocol error"""
    from breezy.bzr.smart import message
    rh, rs = RecReqHandler(w), RecResponder()
    h = message.ConventionalRequestHandler(rh, rs)
    first = []
    orig = h.protocol_error

    def protocol_error(exc):
        if not first:
            msg = str(exc)
            first.append(next((k for pat, k in RQ_ERRORS if pat in msg), "E:Other:%s" % type(exc).__name__))
        orig(exc)
    h.protocol_error = protocol_error
    d = _proto().ProtocolThreeDecoder(h, expect_version_marker=False)
    for seg in segs:
        try:
            d.accept_bytes(seg)
        except Exception as e:  # noqa
            return "E:Crash:%s" % type(e).__name__, h, rh, rs, d
    # an error raised by the handler does not stop the decoder (it must still find the end of the
    # message); a framing error does
    framing = " " + ("T" if state_name(d) == "reading_unused" else "F") + " " + hexb(d.unused_data)
    if first:
        return first[0] + ("" if first[0] in ("E:BadKind",) else framing), h, rh, rs, d
    out = "/".join([h.expecting, "+".join(rh.calls) or "[]", "T" if rh.finished_reading else "F", str(rs.n)]) + framing
    return out, h, rh, rs, d


def run_offsets(text):
    from breezy.bzr.smart import vfs
    try:
        offs = vfs.ReadvRequest(backing())._deserialise_offsets(text)
    except ValueError:
        return "E:ValueError"
    return ",".join("%d:%d" % o for o in offs) or "[]"


def run_v2resp(kind, data, rng, style):
    """the real SmartClientRequestProtocolTwo over a pipe with short reads: status, tuple, body /
    chunks, and the bytes it left unread"""
    from dromedary import errors as terr
    from breezy import errors
    p = _proto()
    m, _, pipe = client_medium(data, rng, style)
    req = m.get_request()
    req.finished_writing()
    c = p.SmartClientRequestProtocolTwo(req)
    c._last_verb = b"C29.n"
    try:
        try:
            args = c.read_response_tuple(expect_body=kind != "n")
            status = "ok"
        except terr.ErrorFromSmartServer as e:
            args, status = e.error_tuple, "failed"
        body = "~"
        if status == "ok" and kind == "b":
            body = "b" + hexb(c.read_body_bytes())
        elif status == "ok" and kind == "s":
            body = "s" + (",".join(show_chunk(ch) for ch in c.read_streamed_body()) or "[]")
    except errors.UnexpectedProtocolVersionMarker:
        return "E:BadVersion"
    except terr.SmartProtocolError as e:
        return "E:BadStatus" if "bad protocol status" in str(e) else "E:Other:" + str(e)[:40]
    except ValueError:
        return "E:BadBody"
    except ConnectionResetError:
        return "E:Incomplete"
    return "/".join([status, hlist(list(args)), body]) + " " + hexb((m._push_back_buffer or b"") + data[pipe.pos:])


LOG = []
_registered = False


def register_verbs():
    global _registered
    if _registered:
        return
    from breezy.bzr.smart import request

    class WithBody(request.SmartServerRequest):
        def do(self, *args):
            self._a = args
            return None

        def do_body(self, body):
            LOG.append(("body", self._a, body))
            return request.SuccessfulSmartServerResponse((b"ok",))

        def do_chunk(self, chunk):
            LOG.append(("chunk", chunk))
            request.SmartServerRequest.do_chunk(self, chunk)

    class NoBody(request.SmartServerRequest):
        def do(self, *args):
            LOG.append(("nobody", args))
            return request.SuccessfulSmartServerResponse((b"ok",))

    class Raises(request.SmartServerRequest):
        def do(self, *args):
            from breezy import errors
            LOG.append(("raise", args))
            raise errors.BzrError("C29.x always fails")

    request.request_handlers.register(b"C29.x", Raises, "verif test verb")
    request.request_handlers.register(b"C29.b", WithBody, "verif test verb")
    request.request_handlers.register(b"C29.n", NoBody, "verif test verb")
    _registered = True


def backing():
    from dromedary.memory import MemoryTransport
    return MemoryTransport()


def run_req(w, segs):
    register_verbs()
    del LOG[:]
    out_w = []
    p = _proto().SmartServerRequestProtocolOne(backing(), out_w.append)
    out = []
    for seg in segs:
        try:
            p.accept_bytes(seg)
        except ValueError:
            out.append("E:ValueError")
            break
        except Exception as e:
            out.append("E:Crash:%s" % type(e).__name__)
            break
        try:
            tag = "done" if p._finished else ("body" if p._has_dispatched else "line")
            out.append("/".join([tag, "T" if p._finished else "F", hexb(p.unused_data), str(p.next_read_size())]))
        except Exception as e:
            out.append("E:Crash:%s" % type(e).__name__)
            break
    if p._finished and LOG:
        ev = [e for e in LOG if e[0] in ("body", "nobody")][-1]
        args = [b"C29.b" if ev[0] == "body" else b"C29.n"] + list(ev[1])
        body = hexb(ev[2]) if ev[0] == "body" else "~"
        return ";".join(out) + " " + hlist(args) + " " + body, p
    return ";".join(out) + " ~ ~", p


# ---------------------------------------------------------------- real encoders

class ShortPipe:
    """in-memory pipe: read(n) returns between 1 and n bytes (never more)"""

    def __init__(self, data, rng, style="rand"):
        self.data = data
        self.pos = 0
        self.rng = rng
        self.style = style
        self.requests = []

    def close(self):
        pass

    def read(self, n):
        self.requests.append((n, len(self.data) - self.pos))
        if n <= 0 or self.pos >= len(self.data):
            return b""
        if self.style == "full":
            k = n
        elif self.style == "one":
            k = 1
        else:
            k = self.rng.randint(1, n) if self.rng.random() < 0.7 else n
        r = self.data[self.pos:self.pos + k]
        self.pos += len(r)
        return r


def client_medium(data, rng, style="rand"):
    from breezy.bzr.smart import medium
    out = io.BytesIO()
    pipe = ShortPipe(data, rng, style)
    m = medium.SmartSimplePipesClientMedium(pipe, out, "verif:///")
    return m, out, pipe


def enc_request(version, how, args, body, headers=None, rng=None):
    """bytes written by the real client for one request.
    how: call | body | readv | stream | stream-fail"""
    p = _proto()
    m, out, _ = client_medium(b"", rng)
    req = m.get_request()
    cls = {1: p.SmartClientRequestProtocolOne, 2: p.SmartClientRequestProtocolTwo, 3: p.ProtocolThreeRequester}[version]
    c = cls(req)
    if headers is not None:
        c.set_headers(headers)
    if how == "call":
        c.call(*args)
    elif how == "body":
        c.call_with_body_bytes(tuple(args), body)
    elif how == "readv":
        c.call_with_body_readv_array(tuple(args), body)
    elif how == "stream":
        c.call_with_body_stream(tuple(args), iter(body))
    elif how == "stream-fail":
        def gen():
            for x in body:
                yield x
            raise RuntimeError("boom")
        try:
            c.call_with_body_stream(tuple(args), gen())
        except RuntimeError:
            pass
    return out.getvalue()


def enc_response(version, ok, args, body, stream, fail):
    """bytes written by the real server for one response"""
    from breezy.bzr.smart import request
    p = _proto()
    out = []
    cls = request.SuccessfulSmartServerResponse if ok else request.FailedSmartServerResponse
    bs = None
    if stream is not None:
        items = list(stream) + ([request.FailedSmartServerResponse(tuple(fail))] if fail is not None else [])
        bs = iter(items)
    resp = cls(tuple(args), body, bs)
    if version == 3:
        r = p.ProtocolThreeResponder(out.append)
        r.send_response(resp)
    else:
        pcls = {1: p.SmartServerRequestProtocolOne, 2: p.SmartServerRequestProtocolTwo}[version]
        sp = pcls(None, out.append)
        sp._send_response(resp)
    return b"".join(out)


def be32(n):
    return struct.pack("!L", n)


def v3_parts_hex(parts):
    return ",".join(k + (bytes([v]).hex() if k == "o" else hexb(v)) for k, v in parts) if parts else "[]"


# ---------------------------------------------------------------- checks (one case -> model line + impl output, oracle inside)

class Batch:
    def __init__(self):
        self.cases, self.lines, self.outs = [], [], []

    def add(self, case, line, out):
        self.cases.append(case)
        self.lines.append(line)
        self.outs.append(out)


def nontrivial(segs, rest, bad=False):
    return bad or len(segs) > 1 or bool(rest)


def do_lp(ctx, b, body, rest, segs, mask, bad=None):
    data = b"".join(segs)
    case = dict(kind="lp", body=hexb(body), rest=hexb(rest), segs=[hexb(s) for s in segs], mask=mask, bad=bad)
    out, d, got = run_lp(segs, mask)
    if bad is None:
        got += d.read_pending_data()
        if not d.finished_reading:
            ctx.violation(case, "LengthPrefixedBodyDecoder not finished after a complete body")
        elif got != body:
            ctx.violation(case, "length-prefixed body decoded as %r, sent %r" % (got[:40], body[:40]))
        elif d.unused_data != rest:
            ctx.violation(case, "bytes after length-prefixed body: unused_data=%r, sent %r" % (d.unused_data, rest))
    ctx.case(case, nontrivial(segs, rest, bad))
    ctx.count("lp:%s" % ("bad" if bad else "ok"))
    ctx.count("lp:reads:%s" % min(len(segs), 9))
    b.add(case, "lp %s %s" % (hseg(segs), mask), out)


def do_ck(ctx, b, chunks, fail, rest, segs, drains, bad=None):
    case = dict(kind="ck", chunks=[hexb(c) for c in chunks], fail=None if fail is None else [hexb(a) for a in fail],
                rest=hexb(rest), segs=[hexb(s) for s in segs], drains=drains, bad=bad)
    out, d, seen = run_ck(segs, drains)
    if bad is None:
        exp = [("d", c) for c in chunks] + ([("f", tuple(fail))] if fail is not None else [])
        gotc = [("d", c) if isinstance(c, bytes) else ("f", tuple(c.args)) for c in seen]
        if not d.finished_reading:
            ctx.violation(case, "ChunkedBodyDecoder not finished after END")
        elif gotc != exp:
            ctx.violation(case, "chunked stream decoded as %r, sent %r" % (gotc[:6], exp[:6]))
        elif d.unused_data != rest:
            ctx.violation(case, "bytes after chunked body: unused_data=%r, sent %r" % (d.unused_data, rest))
    ctx.case(case, nontrivial(segs, rest, bad))
    ctx.count("ck:%s" % ("bad" if bad else ("err-tail" if fail is not None else "ok")))
    ctx.count("ck:chunks:%d" % min(len(chunks), 5))
    b.add(case, "ck %s" % hseg(segs), out)


_variant = []


def handler_variant():
    """which of the two modelled ConventionalResponseHandler variants the working tree
    implements: 'F' = as found (finding F15), 'T' = with the fix (a status byte after the
    args is the body-stream status).  Probed on the F15 witness; the oracle does not
    depend on it."""
    if not _variant:
        from fastbencode import bencode
        p = _proto()
        wire = p.MESSAGE_VERSION_THREE + be32(2) + b"de" + b"oS" + b"s" + be32(6) + bencode([b"ok"]) + \
            b"oE" + b"s" + be32(6) + bencode([b"no"]) + b"e"
        _variant.append("F" if run_v3resp(True, [wire]).startswith("E:") else "T")
    return _variant[0]


def do_v3(ctx, b, marker, hdr, parts, rest, segs, bad=None):
    """parts: list of (kind, payload) with kind in o/b/s"""
    case = dict(kind="v3", marker=marker, hdr=hexb(hdr), parts=[[k, v if k == "o" else hexb(v)] for k, v in parts],
                rest=hexb(rest), segs=[hexb(s) for s in segs], bad=bad)
    out, d, h = run_v3(marker, segs)
    if bad is None:
        exp = ["H" + hexb(hdr)] + [k + (bytes([v]).hex() if k == "o" else hexb(v)) for k, v in parts] + ["e"]
        if h.err is not None:
            ctx.violation(case, "v3 decoder rejected a well-formed message: %r" % (h.err,))
        elif state_name(d) != "reading_unused":
            ctx.violation(case, "v3 decoder not finished after the end byte")
        elif h.evs != exp:
            ctx.violation(case, "v3 message parts decoded as %r, sent %r" % (h.evs[:6], exp[:6]))
        elif d.unused_data != rest:
            ctx.violation(case, "bytes after v3 message: unused_data=%r, sent %r" % (d.unused_data, rest))
    ctx.case(case, nontrivial(segs, rest, bad))
    ctx.count("v3:%s:%s" % ("client" if marker else "server", "bad" if bad else "ok"))
    ctx.count("v3:parts:%d" % min(len(parts), 6))
    b.add(case, "v3 %s %s" % ("T" if marker else "F", hseg(segs)), out)
    # the real response handler on the same bytes
    if marker:
        out2 = run_v3resp(True, segs)
        c2 = dict(case, kind="v3resp")
        ctx.case(c2, nontrivial(segs, rest, bad))
        ctx.count("v3resp:%s" % (out2.split("/")[0] if out2.startswith("E:") else "ok"))
        b.add(c2, "v3resp %s T %s" % (handler_variant(), hseg(segs)), out2)


def do_req(ctx, b, w, args, body, rest, segs, bad=None):
    case = dict(kind="req", w=w, args=[hexb(a) for a in args], body=None if body is None else hexb(body),
                rest=hexb(rest), segs=[hexb(s) for s in segs], bad=bad)
    out, p = run_req(w, segs)
    if bad is None:
        ev = [e for e in LOG if e[0] in ("body", "nobody")]
        if not p._finished or len(ev) != 1:
            ctx.violation(case, "protocol-1 server did not finish exactly one request (finished=%r, calls=%d)" % (p._finished, len(ev)))
        else:
            e = ev[0]
            gargs = list(e[1])
            gbody = e[2] if e[0] == "body" else None
            if gargs != list(args[1:]) or gbody != body:
                ctx.violation(case, "request decoded as args=%r body=%r, sent args=%r body=%r" % (gargs, gbody, args[1:], body))
            elif p.unused_data != rest:
                ctx.violation(case, "bytes after request: unused_data=%r, sent %r" % (p.unused_data, rest))
    ctx.case(case, nontrivial(segs, rest, bad))
    ctx.count("req:%s:%s" % ("body" if w else "nobody", "bad" if bad else "ok"))
    b.add(case, "req %s %s" % ("T" if w else "F", hseg(segs)), out)


def do_v3req(ctx, b, w, hdr, parts, rest, segs, wellformed):
    """the real ConventionalRequestHandler on a server-side v3 message; parts as in do_v3"""
    case = dict(kind="v3req", w=w, hdr=hexb(hdr), parts=[[k, v if k == "o" else hexb(v)] for k, v in parts],
                rest=hexb(rest), segs=[hexb(s) for s in segs], wellformed=wellformed)
    out, h, rh, rs, d = run_v3req(w, segs)
    if wellformed:
        exp = []
        after_e = False
        for k, v in parts:
            if k == "s":
                exp.append(("P" if after_e else "A") + hexb(v))
            elif k == "b":
                exp.append("B" + hexb(v))
            else:
                after_e = True
        exp.append("e")
        if out.startswith("E:"):
            ctx.violation(case, "server rejected a well-formed conventional request: %s" % out)
        elif rh.calls != exp:
            ctx.violation(case, "request handler received %r, sent %r" % (rh.calls[:8], exp[:8]))
        elif rs.n != 1:
            ctx.violation(case, "%d responses sent for one request" % rs.n)
        elif state_name(d) != "reading_unused" or d.unused_data != rest:
            ctx.violation(case, "bytes after v3 request: state %s, unused_data=%r, sent %r"
                          % (state_name(d), d.unused_data, rest))
    elif state_name(d) != "reading_unused" or d.unused_data != rest:
        # the framing of every generated message is valid: whatever the request handler thinks of the
        # parts (it answers with an error), the decoder must find the end of the message and keep the
        # bytes after it for the next one
        ctx.violation(case, "v3 message rejected by the request handler (%s): the decoder did not find its end / "
                      "lost the bytes after it: state %s, unused_data=%r, sent %r"
                      % (out.split(" ")[0], state_name(d), d.unused_data, rest))
    ctx.case(case, nontrivial(segs, rest, not wellformed))
    ctx.count("v3req:%s" % (out.split(" ")[0] if out.startswith("E:") else "ok"))
    b.add(case, "v3req %s %s" % ("T" if w else "F", hseg(segs)), out)


def do_offsets(ctx, b, text, offs):
    case = dict(kind="dec.offsets", text=hexb(text), offs=None if offs is None else [list(o) for o in offs])
    out = run_offsets(text)
    if offs is not None and out != (",".join("%d:%d" % o for o in offs) or "[]"):
        ctx.violation(case, "_deserialise_offsets(_serialise_offsets(%r)) = %s" % (offs, out))
    ctx.case(case, offs is None or len(offs) > 1)
    ctx.count("dec.offsets:%s" % ("bad" if offs is None else min(len(offs), 4)))
    b.add(case, "dec.offsets %s" % hexb(text), out)


def do_v2resp(ctx, b, rng, ok, args, body, stream, fail, rest, bad=None):
    """protocol 2, server -> client: real encoder vs model encoder, real client parsing (short
    reads) vs model, and the round trip itself"""
    wire = enc_response(2, ok, args, body, stream, fail)
    kind = "b" if body is not None else "s" if stream is not None else "n"
    case = dict(kind="v2resp", ok=ok, args=[hexb(a) for a in args], body=None if body is None else hexb(body),
                stream=None if stream is None else [hexb(c) for c in stream],
                fail=None if fail is None else [hexb(a) for a in fail], rest=hexb(rest), bad=bad)
    ctx.case(case, True)
    b.add(dict(case, kind="enc.v2resp"),
          "enc.v2resp %s %s %s %s %s" % ("T" if ok else "F", hlist(args), "~" if body is None else hexb(body),
                                         "~" if stream is None else hlist(stream), "~" if fail is None else hlist(fail)),
          hexb(wire))
    data = wire + rest
    if bad == "marker":
        data = rng.choice([b"bzr response 3\n", b"bzr respons 2\n", b"\n", b"bzr request 2\n", b"bzr response 2 \n"]) + data[15:]
    elif bad == "status":
        line = rng.choice([b"maybe", b"succes", b"Failed", b"success ", b""])
        data = data[:15] + line + data[data.index(b"\n", 15):]
    style = rng.choice(["full", "one", "rand", "rand"])
    case["style"] = style
    out = run_v2resp(kind, data, rng, style)
    if bad is None:
        if ok:
            want_body = "~" if kind == "n" else "b" + hexb(body) if kind == "b" else \
                "s" + (",".join(["d" + hexb(c) for c in stream] + (["f" + "+".join(hexb(a) for a in fail)] if fail is not None else [])) or "[]")
            want = "/".join(["ok", hlist(args), want_body]) + " " + hexb(rest)
        else:
            # a failed response is an error tuple; the client does not read on
            want = "/".join(["failed", hlist(args), "~"]) + " " + hexb(data[len(enc_response(2, ok, args, None, None, None)):])
        if out != want:
            ctx.violation(case, "protocol-2 response arrived as %s, sent %s" % (out[:200], want[:200]))
    ctx.count("v2resp:%s" % (out.split("/")[0] if not out.startswith("E:") else out))
    b.add(case, "dec.v2resp %s %s" % (kind, hexb(data)), out)


# ---------------------------------------------------------------- end-to-end oracles

_fam_seen = {}


def report(ctx, case, what, family=None):
    """ctx.violation, but a classified family is reported with at most 25 concrete inputs per run (ctx
    keeps the inputs of the first 200 violations only; an unclassified violation must not lose its
    input to hundreds of instances of a known one)"""
    if family is not None:
        _fam_seen[family] = _fam_seen.get(family, 0) + 1
        if _fam_seen[family] > 25:
            ctx.count("more-instances:" + family)
            return
    ctx.violation(case, what, family)


def oracle_request(ctx, rng, version, how, args, body, rest, style):
    """real client encoder -> reads -> real server stack; nothing of the model involved"""
    from breezy.bzr.smart import medium
    register_verbs()
    wire = enc_request(version, how, args, body, headers={b"k": b"v"} if version == 3 else None, rng=rng)
    data = wire + rest
    case = dict(kind="e2e-req", version=version, how=how, args=[hexb(a) for a in args],
                body=[list(x) if isinstance(x, tuple) else hexb(x) for x in body] if isinstance(body, list) else (None if body is None else hexb(body)),
                rest=hexb(rest), style=style, seed_note="segmentation drawn from ctx.rng")
    factory, remaining = medium._get_protocol_factory_for_bytes(data)
    out_w = []
    sp = factory(backing(), out_w.append, "/")
    del LOG[:]
    segs = cut(rng, remaining, style)
    case["segs"] = [hexb(s) for s in segs]
    for s in segs:
        sp.accept_bytes(s)
    ev = [e for e in LOG if e[0] in ("body", "nobody")]
    chunks = [e[1] for e in LOG if e[0] == "chunk"]
    ctx.case(case, True)
    ctx.count("e2e-req:v%d:%s" % (version, how))
    if how == "readv":
        exp_body = b"\n".join(b"%d,%d" % t for t in body)
    elif how in ("stream", "stream-fail"):
        exp_body = b"".join(body)
    else:
        exp_body = body
    if sp.next_read_size() != 0:
        ctx.violation(case, "v%d server still wants %d bytes after a complete %s request" % (version, sp.next_read_size(), how))
        return
    if how == "stream-fail":
        # the client aborts the request with an error part: the command must not see a complete body
        if ev:
            report(ctx, case, "request whose body stream was aborted by an error part (oE) was executed by the "
                   "server as if complete, with body %r" % (ev[0][2],), F16 if version == 3 else None)
        elif chunks != list(body):
            ctx.violation(case, "stream chunks before the failure arrived as %r, sent %r" % (chunks, body))
    elif len(ev) != 1:
        ctx.violation(case, "expected exactly one dispatched request, got %d" % len(ev))
    else:
        e = ev[0]
        if list(e[1]) != list(args[1:]) or (e[2] if e[0] == "body" else None) != exp_body:
            ctx.violation(case, "v%d %s request arrived as args=%r body=%r, sent args=%r body=%r" % (
                version, how, e[1], e[2] if e[0] == "body" else None, args[1:], exp_body))
        elif how == "stream" and chunks != [c for c in body]:
            ctx.violation(case, "stream chunks arrived as %r, sent %r" % (chunks, body))
    if sp.unused_data != rest:
        ctx.violation(case, "bytes after v%d request: unused_data=%r, sent %r" % (version, sp.unused_data, rest))


def scripted_socket_medium(segs, out):
    """SmartServerSocketStreamMedium whose socket reads are scripted: every _read_bytes returns the
    next segment whatever was asked for (as a socket read of up to MAX_SOCKET_CHUNK does), b"" at
    the end; what the protocol did not consume goes through _push_back to the next request"""
    from breezy.bzr.smart import medium

    class Scripted(medium.SmartServerSocketStreamMedium):
        def __init__(self):
            medium.SmartServerStreamMedium.__init__(self, backing(), "/", timeout=4.0)
            self.segs = list(segs)
            self.terminated = False
            self._client_info = "<scripted>"

        def _wait_for_bytes_with_timeout(self, timeout_seconds):
            pass

        def _read_bytes(self, desired_count):
            return self.segs.pop(0) if self.segs else b""

        def _write_out(self, data):
            out.append(data)

        def _disconnect_client(self):
            pass

        def terminate_due_to_error(self):
            self.terminated = True
            self.finished = True
    return Scripted()


def oracle_pipeline(ctx, rng, reqs, style, which):
    """several requests back to back on ONE connection through the real server medium loop
    (serve / _build_protocol / _serve_one_request / _push_back): each must be dispatched with its own
    args and body, whatever the reads look like.  reqs: list of (version, how, args, body)"""
    from breezy.bzr.smart import medium
    register_verbs()
    wires = [enc_request(v, how, args, body, headers={b"k": b"v"} if v == 3 else None, rng=rng)
             for v, how, args, body in reqs]
    data = b"".join(wires)
    case = dict(kind="e2e-pipeline", medium=which, style=style,
                reqs=[dict(version=v, how=how, args=[hexb(a) for a in args],
                           body=[list(x) if isinstance(x, tuple) else hexb(x) for x in body] if isinstance(body, list)
                           else (None if body is None else hexb(body))) for v, how, args, body in reqs])
    del LOG[:]
    out = []
    if which == "socket":
        segs = [s_ for s_ in cut(rng, data, style) if s_]
        # make sure one read spans the boundary between two requests now and then
        case["segs"] = [hexb(s_) for s_ in segs]
        m = scripted_socket_medium(segs, out)
    else:
        pipe = ShortPipe(data, rng, "one" if style == "bytes" else "full" if style == "whole" else "rand")
        class KeepOpen(io.BytesIO):
            def close(self):
                pass
        outf = KeepOpen()
        m = medium.SmartServerPipeStreamMedium(pipe, outf, backing(), timeout=4.0)
        m.terminated = False
        m.terminate_due_to_error = lambda: (setattr(m, "terminated", True), setattr(m, "finished", True))
    crashed = None
    import contextlib
    try:
        with contextlib.redirect_stderr(io.StringIO()):
            m.serve()
    except Exception as e:  # noqa -- the real serve loop raised on well-formed requests
        crashed = "%s: %s" % (type(e).__name__, str(e)[:160])
    ctx.case(case, True)
    ctx.count("e2e-pipeline:%s:n=%d" % (which, len(reqs)))
    def exp_upto(n):
        return [e for k, e in exp_idx if k < n]

    exp = []
    exp_idx = []
    for ri, (v, how, args, body) in enumerate(reqs):
        # what the verb must see: C29.n / C29.x answer from their args (a body sent all the same is a
        # protocol error answered with an error response, v3 only); an unknown verb sees nothing
        if args[0] == b"C29.n":
            exp.append(("nobody", tuple(args[1:])))
        elif args[0] == b"C29.x":
            exp.append(("raise", tuple(args[1:])))
        elif args[0] == b"C29.b":
            eb = b"" if how == "call" else b"\n".join(b"%d,%d" % t for t in body) if how == "readv" \
                else b"".join(body) if how == "stream" else body
            exp.append(("body", tuple(args[1:]), eb))
        else:
            continue
        exp_idx.append((ri, exp[-1]))
    got = [e for e in LOG if e[0] in ("body", "nobody", "raise")]
    nresp = None
    if all(v == 3 for v, _, _, _ in reqs):
        nresp = b"".join(out if which == "socket" else [outf.getvalue()]).count(_proto().MESSAGE_VERSION_THREE)
    if crashed is not None:
        ctx.violation(case, "server medium loop raised %s on %d well-formed back-to-back requests (dispatched %d)"
                      % (crashed, len(reqs), len(got)))
    elif getattr(m, "terminated", False):
        # family (new, untriaged): the request that was dispatched last is a protocol-1 request without
        # a body -- complete inside the line _build_protocol reads -- and the socket read that delivered
        # its final newline also delivered bytes of the next request: SmartMedium._push_back(b"") then
        # trips over the excess _get_line pushed back (the assertion precedes the empty-data check)
        fam = None
        if which == "socket":
            # j: the first protocol-1 request without body, not the last one, whose final newline
            # arrives in a read that carries more bytes
            j = None
            for k in range(len(reqs) - 1):
                if reqs[k][0] == 1 and reqs[k][1] == "call":
                    end = sum(len(x) for x in wires[:k + 1])
                    pos = 0
                    for s_ in segs:
                        if pos < end <= pos + len(s_) and pos + len(s_) > end:
                            j = k
                        pos += len(s_)
                    if j is not None:
                        break
            # ... and everything up to and including it was dispatched correctly, nothing after it
            if j is not None and got == exp_upto(j + 1):
                # this shape was the finding `v1-bodyless-request-with-buffered-followup-...` of this check, fixed in /repo (a5764d7): no family
                # any more, a plain VIOLATION if it returns
                ctx.count("pipeline:former-push-back-shape-failed")
        report(ctx, case, "server medium terminated the connection on %d well-formed back-to-back requests "
               "(dispatched %d)" % (len(reqs), len(got)), fam)
    elif got != exp:
        i = next((i for i, (g, e) in enumerate(zip(got, exp)) if g != e), min(len(got), len(exp)))
        ctx.violation(case, "request %d of %d on one connection arrived as %r, sent %r (dispatched %d in all)"
                      % (i + 1, len(reqs), got[i] if i < len(got) else None, exp[i] if i < len(exp) else None, len(got)))
    elif nresp is not None and nresp != len(reqs):
        ctx.violation(case, "%d v3 requests on one connection, %d responses written" % (len(reqs), nresp))


def classify_resp(version, ok, body, stream, fail):
    if version == 3 and stream is not None and len(stream) == 0 and fail is not None:
        return F15
    return None


def oracle_response(ctx, rng, version, ok, args, body, stream, fail, style):
    """real server encoder -> short reads -> real client decoder"""
    from dromedary import errors as terr
    p = _proto()
    wire = enc_response(version, ok, args, body, stream, fail)
    case = dict(kind="e2e-resp", version=version, ok=ok, args=[hexb(a) for a in args],
                body=None if body is None else hexb(body),
                stream=None if stream is None else [hexb(c) for c in stream],
                fail=None if fail is None else [hexb(a) for a in fail], style=style)
    ctx.case(case, True)
    ctx.count("e2e-resp:v%d:%s" % (version, "stream-fail" if fail is not None else "stream" if stream is not None else "body" if body is not None else "args"))
    fam = classify_resp(version, ok, body, stream, fail)
    sentinel = b"\xfeSENTINEL"
    m, _, pipe = client_medium(wire + sentinel, rng, style)
    req = m.get_request()
    req.finished_writing()
    expect_body = body is not None or stream is not None
    got_err = None
    try:
        if version == 3:
            from breezy.bzr.smart import message
            h = message.ConventionalResponseHandler()
            d = p.ProtocolThreeDecoder(h, expect_version_marker=True)
            h.setProtoAndMediumRequest(d, req)
            c = h
        else:
            c = {1: p.SmartClientRequestProtocolOne, 2: p.SmartClientRequestProtocolTwo}[version](req)
            c._last_verb = b"C29.n"
        try:
            rargs = c.read_response_tuple(expect_body=expect_body and (ok or version == 1))
        except terr.ErrorFromSmartServer as e:
            got_err = tuple(e.error_tuple)
            rargs = None
        if version == 1:
            ok_seen = got_err is None
        else:
            ok_seen = got_err is None
        if ok and got_err is not None:
            ctx.violation(case, "successful response raised %r" % (got_err,), fam)
            return
        if version != 1 and not ok:
            if got_err != tuple(args):
                ctx.violation(case, "failed response %r arrived as %r" % (tuple(args), got_err), fam)
            return
        if rargs is not None and tuple(rargs) != tuple(args):
            ctx.violation(case, "response args %r arrived as %r" % (tuple(args), rargs), fam)
            return
        if body is not None:
            gb = c.read_body_bytes()
            if gb != body:
                ctx.violation(case, "response body %r arrived as %r" % (body[:40], gb[:40]), fam)
        elif stream is not None:
            gs, gfail = [], None
            try:
                for ch in c.read_streamed_body():
                    if isinstance(ch, bytes):
                        gs.append(ch)
                    else:
                        gfail = tuple(ch.args)
            except terr.ErrorFromSmartServer as e:
                gfail = tuple(e.error_tuple)
            if gs != list(stream):
                ctx.violation(case, "streamed chunks %r arrived as %r" % (stream, gs), fam)
            elif (None if fail is None else tuple(fail)) != gfail:
                ctx.violation(case, "mid-stream error %r arrived as %r" % (fail, gfail), fam)
        elif version == 3:
            pass
        # nothing after the response may have been consumed
        if pipe.pos > len(wire):
            ctx.violation(case, "client consumed %d bytes beyond the end of the response" % (pipe.pos - len(wire)), fam)
    except Exception as e:  # decoder blew up on a well-formed response
        ctx.violation(case, "client raised %s: %s" % (type(e).__name__, str(e).strip().splitlines()[-1][:200]), fam)


# ---------------------------------------------------------------- case generation

def corrupt_line(rng):
    return gbytes(rng, 0, 4, b"0123456789abcdefgzERNDoneq\x00\xff.")


def gen_lp(ctx, b, rng, exhaustive_small):
    body, rest = gbody(ctx, rng), grest(rng)
    data = b"%d\n" % len(body) + body + b"done\n" + rest
    bad = None
    if rng.random() < 0.1:
        how = rng.choice(["len", "trailer", "trunc"])
        if how == "len":
            data = corrupt_line(rng) + b"\n" + body + b"done\n" + rest
        elif how == "trailer":
            data = b"%d\n" % len(body) + body + gbytes(rng, 1, 7, b"doneX\n") + rest
        else:
            data = data[:rng.randint(0, len(data))]
        bad = how
    if exhaustive_small and len(data) <= 40 and bad is None:
        for segs in two_splits(data):
            do_lp(ctx, b, body, rest, segs, "".join(rng.choice("01") for _ in segs), bad)
    segs = cut(rng, data)
    do_lp(ctx, b, body, rest, segs, "".join(rng.choice("01") for _ in segs), bad)


def real_stream_bytes(chunks, fail):
    from breezy.bzr.smart import request
    out = []
    items = list(chunks) + ([request.FailedSmartServerResponse(tuple(fail))] if fail is not None else [])
    _proto()._send_stream(iter(items), out.append)
    return b"".join(out)


def gen_ck(ctx, b, rng, exhaustive_small):
    chunks = [gbody(ctx, rng) if rng.random() < 0.2 else gbytes(rng, 0, 9) for _ in range(rng.randint(0, 4))]
    fail = [gbytes(rng, 0, 6) for _ in range(rng.randint(0, 3))] if rng.random() < 0.3 else None
    rest = grest(rng)
    data = real_stream_bytes(chunks, fail) + rest
    bad = None
    if rng.random() < 0.1:
        how = rng.choice(["header", "len", "trunc", "dup-err"])
        if how == "header":
            data = gbytes(rng, 0, 8, b"chunkedX") + b"\n" + data[8:]
        elif how == "len":
            data = b"chunked\n" + corrupt_line(rng) + b"\n" + gbytes(rng, 0, 5) + b"END\n"
        elif how == "dup-err":
            data = b"chunked\nERR\n1\naERR\n1\nbEND\n" + rest
        else:
            data = data[:rng.randint(0, len(data))]
        bad = how
    if exhaustive_small and len(data) <= 40 and bad is None:
        for segs in two_splits(data):
            do_ck(ctx, b, chunks, fail, rest, segs, "".join(rng.choice("01") for _ in segs), bad)
    segs = cut(rng, data)
    do_ck(ctx, b, chunks, fail, rest, segs, "".join(rng.choice("01") for _ in segs), bad)


def gen_struct(rng):
    from fastbencode import bencode
    return bencode([gbytes(rng, 0, 6) for _ in range(rng.randint(0, 3))])


def gen_v3(ctx, b, rng, exhaustive_small):
    from fastbencode import bencode
    p = _proto()
    marker = rng.random() < 0.6
    hdr = bencode({gbytes(rng, 1, 4): gbytes(rng, 0, 5) for _ in range(rng.randint(0, 2))})
    shape = rng.choice(["request", "response", "free"])
    parts = []
    if shape == "request":
        parts.append(("s", gen_struct(rng)))
        for _ in range(rng.choice([0, 0, 1, 2, 3])):
            parts.append(("b", gbody(ctx, rng)))
        if rng.random() < 0.2:
            parts += [("o", ord("E")), ("s", gen_struct(rng))]
    elif shape == "response":
        parts += [("o", rng.choice(b"SE")), ("s", gen_struct(rng))]
        n = rng.choice([0, 0, 1, 2, 3])
        for _ in range(n):
            parts.append(("b", gbody(ctx, rng)))
        if rng.random() < 0.35:
            parts += [("o", ord("E")), ("s", gen_struct(rng))]
    else:
        for _ in range(rng.randint(0, 5)):
            k = rng.choice("obs")
            parts.append((k, rng.choice(b"SEC\x00e") if k == "o" else gen_struct(rng) if k == "s" else gbytes(rng, 0, 9)))
    rest = grest(rng)
    data = (p.MESSAGE_VERSION_THREE if marker else b"") + be32(len(hdr)) + hdr
    for k, v in parts:
        data += b"o" + bytes([v]) if k == "o" else k.encode() + be32(len(v)) + v
    data += b"e" + rest
    bad = None
    if rng.random() < 0.1:
        how = rng.choice(["kind", "marker", "trunc"])
        if how == "kind":
            # replace the end byte / a kind byte by a non-kind byte
            pos = len(data) - len(rest) - 1
            data = data[:pos] + bytes([rng.choice(b"xE\x00Sz")]) + data[pos + 1:]
        elif how == "marker" and marker:
            k = rng.randint(0, len(p.MESSAGE_VERSION_THREE) - 1)
            data = data[:k] + bytes([data[k] ^ 1]) + data[k + 1:]
        else:
            how = "trunc"
            data = data[:rng.randint(0, len(data))]
        bad = how
    if exhaustive_small and len(data) <= 60 and bad is None:
        for segs in two_splits(data):
            do_v3(ctx, b, marker, hdr, parts, rest, segs, bad)
    do_v3(ctx, b, marker, hdr, parts, rest, cut(rng, data), bad)


def gen_req(ctx, b, rng, exhaustive_small):
    w = rng.random() < 0.6
    args = [b"C29.b" if w else b"C29.n"] + gargs(rng, True)
    body = gbody(ctx, rng) if w else None
    rest = grest(rng)
    data = b"\x01".join(args) + b"\n" + (b"%d\n" % len(body) + body + b"done\n" if w else b"") + rest
    bad = None
    if w and rng.random() < 0.08:
        data = b"\x01".join(args) + b"\n" + corrupt_line(rng) + b"\n" + body + b"done\n"
        bad = "len"
    if exhaustive_small and len(data) <= 40 and bad is None:
        for segs in two_splits(data):
            do_req(ctx, b, w, args, body, rest, segs, bad)
    do_req(ctx, b, w, args, body, rest, cut(rng, data), bad)


def gen_encoders(ctx, b, rng):
    """real encoders vs model encoders, byte for byte"""
    from fastbencode import bencode
    import breezy
    p = _proto()
    body = gbody(ctx, rng)
    c = dict(kind="enc.lp", body=hexb(body))
    ctx.case(c, len(body) > 0)
    b.add(c, "enc.lp %s" % hexb(body), hexb(p.SmartProtocolBase()._encode_bulk_data(body)))
    chunks = [gbytes(rng, 0, 20) if rng.random() < 0.8 else gbody(ctx, rng) for _ in range(rng.randint(0, 4))]
    fail = [gbytes(rng, 0, 6) for _ in range(rng.randint(0, 3))] if rng.random() < 0.4 else None
    c = dict(kind="enc.ck", chunks=[hexb(x) for x in chunks], fail=None if fail is None else [hexb(x) for x in fail])
    ctx.case(c, bool(chunks) or fail is not None)
    b.add(c, "enc.ck %s %s" % (hlist(chunks), "~" if fail is None else hlist(fail)), hexb(real_stream_bytes(chunks, fail)))
    args = [gbytes(rng, 0, 6) for _ in range(rng.randint(0, 4))]
    c = dict(kind="enc.tuple", args=[hexb(x) for x in args])
    ctx.case(c, len(args) > 1)
    enc = p._encode_tuple(args)
    b.add(c, "enc.tuple %s" % hlist(args), hexb(enc))
    line = enc if rng.random() < 0.7 else gbytes(rng, 0, 10)
    c = dict(kind="dec.tuple", line=hexb(line))
    ctx.case(c, b"\x01" in line)
    try:
        t = p._decode_tuple(line)
        o = "~" if t is None else hlist(list(t))
    except Exception:
        o = "E:NotTerminated"
    b.add(c, "dec.tuple %s" % hexb(line), o)
    # oracle: tuple round trip on the wire-format domain
    if args and all(b"\x01" not in a for a in args):
        if p._decode_tuple(enc) != tuple(args):
            ctx.violation(c, "_decode_tuple(_encode_tuple(%r)) = %r" % (args, p._decode_tuple(enc)))
    c = dict(kind="enc.args", args=[hexb(x) for x in args])
    ctx.case(c, len(args) > 0)
    raw = bencode(args)
    b.add(c, "enc.args %s" % hlist(args), hexb(raw))
    b.add(dict(c, kind="dec.args"), "dec.args %s" % hexb(raw), hlist(args))
    offs = [(rng.choice([0, 1, 9, 10, 99, 4096, 10 ** 9]), rng.choice([0, 1, 7, 100, 65536])) for _ in range(rng.randint(0, 4))]
    c = dict(kind="enc.offsets", offs=[list(o) for o in offs])
    ctx.case(c, len(offs) > 1)
    b.add(c, "enc.offsets %s" % (",".join("%d:%d" % o for o in offs) or "[]"), hexb(p.SmartProtocolBase()._serialise_offsets(offs)))
    # whole v3 messages from the real requester / responder
    a3 = [b"C29.b"] + gargs(rng, False)
    how = rng.choice(["call", "body", "readv", "stream", "stream-fail"])
    hd = {b"Software version": breezy.__version__.encode()} if rng.random() < 0.5 else {gbytes(rng, 1, 3): gbytes(rng, 0, 3)}
    if how == "call":
        bd, parts = None, [("s", bencode(a3))]
    elif how == "body":
        bd = gbody(ctx, rng)
        parts = [("s", bencode(a3)), ("b", bd)]
    elif how == "readv":
        bd = offs
        parts = [("s", bencode(a3)), ("b", p.SmartProtocolBase()._serialise_offsets(offs))]
    else:
        bd = [gbytes(rng, 0, 9) for _ in range(rng.randint(0, 3))]
        parts = [("s", bencode(a3))] + [("b", x) for x in bd]
        if how == "stream-fail":
            parts += [("o", ord("E")), ("s", bencode([b"error"]))]
    wire = enc_request(3, how, a3, bd, headers=hd, rng=rng)
    c = dict(kind="enc.v3req", how=how, args=[hexb(x) for x in a3], parts=[[k, v if k == "o" else hexb(v)] for k, v in parts])
    ctx.case(c, True)
    ctx.count("enc.v3req:" + how)
    b.add(c, "enc.v3 T %s %s" % (hexb(bencode(hd)), v3_parts_hex(parts)), hexb(wire))
    ok = rng.random() < 0.7
    ra = [gbytes(rng, 0, 6) for _ in range(rng.randint(1, 3))]
    kind = rng.choice(["args", "body", "stream", "stream-fail"])
    rb, rs, rf = None, None, None
    parts = [("o", ord("S") if ok else ord("E")), ("s", bencode(ra))]
    if kind == "body":
        rb = gbody(ctx, rng)
        parts.append(("b", rb))
    elif kind in ("stream", "stream-fail"):
        rs = [gbytes(rng, 0, 9) for _ in range(rng.randint(0, 3))]
        parts += [("b", x) for x in rs]
        if kind == "stream-fail":
            rf = [gbytes(rng, 1, 6) for _ in range(rng.randint(1, 2))]
            parts += [("o", ord("E")), ("s", bencode(rf))]
    wire = enc_response(3, ok, ra, rb, rs, rf)
    c = dict(kind="enc.v3resp", ok=ok, shape=kind, parts=[[k, v if k == "o" else hexb(v)] for k, v in parts])
    ctx.case(c, True)
    ctx.count("enc.v3resp:" + kind)
    b.add(c, "enc.v3 T %s %s" % (hexb(bencode({b"Software version": breezy.__version__.encode()})), v3_parts_hex(parts)), hexb(wire))
    # protocol 1 request bytes
    a1 = [b"C29.b"] + gargs(rng, True)
    b1 = gbody(ctx, rng) if rng.random() < 0.6 else None
    wire = enc_request(1, "body" if b1 is not None else "call", a1, b1, rng=rng)
    c = dict(kind="enc.req", args=[hexb(x) for x in a1], body=None if b1 is None else hexb(b1))
    ctx.case(c, b1 is not None)
    b.add(c, "enc.req %s %s" % (hlist(a1), "~" if b1 is None else hexb(b1)), hexb(wire))


def gen_v3req(ctx, b, rng, exhaustive_small):
    """server-side v3 messages for the real ConventionalRequestHandler: conventional requests
    (args; 0-3 body parts; sometimes cut short by oE + error structure), and ~20 % other part
    sequences (status byte first, two structures, parts after the error ...)"""
    from fastbencode import bencode
    w = rng.random() < 0.7
    hdr = bencode({gbytes(rng, 1, 4): gbytes(rng, 0, 5) for _ in range(rng.randint(0, 2))})
    parts = []
    wellformed = rng.random() < 0.8
    if wellformed:
        parts.append(("s", gen_struct(rng)))
        if w:
            for _ in range(rng.choice([0, 0, 1, 1, 2, 3])):
                parts.append(("b", gbody(ctx, rng) if rng.random() < 0.3 else gbytes(rng, 0, 9)))
            if rng.random() < 0.3:
                parts += [("o", ord("E")), ("s", gen_struct(rng))]
    else:
        for _ in range(rng.randint(0, 5)):
            k = rng.choice("obsss")
            parts.append((k, rng.choice(b"SSEEC") if k == "o" else gen_struct(rng) if k == "s" else gbytes(rng, 0, 9)))
    rest = grest(rng)
    data = be32(len(hdr)) + hdr
    for k, v in parts:
        data += b"o" + bytes([v]) if k == "o" else k.encode() + be32(len(v)) + v
    data += b"e" + rest
    if exhaustive_small and len(data) <= 50:
        for segs in two_splits(data):
            do_v3req(ctx, b, w, hdr, parts, rest, segs, wellformed)
    do_v3req(ctx, b, w, hdr, parts, rest, cut(rng, data), wellformed)


def gen_offsets(ctx, b, rng):
    p = _proto()
    offs = [(rng.choice([0, 1, 9, 10, 99, 4096, 10 ** 9, 2 ** 64, rng.randint(0, 10 ** 6)]),
             rng.choice([0, 1, 7, 100, 65536, rng.randint(0, 70000)])) for _ in range(rng.choice([0, 1, 1, 2, 3, 5]))]
    text = p.SmartProtocolBase()._serialise_offsets(offs)
    do_offsets(ctx, b, text, offs)
    if rng.random() < 0.3:
        # blank lines are skipped; everything else malformed is a ValueError
        how = rng.choice(["blank", "blank", "comma", "nocomma", "junk", "empty-field"])
        lines = text.split(b"\n") if text else []
        if how == "blank":
            lines.insert(rng.randint(0, len(lines)), b"")
            do_offsets(ctx, b, b"\n".join(lines) + rng.choice([b"", b"\n"]), offs)
            return
        if how == "comma":
            lines.insert(rng.randint(0, len(lines)), b"1,2,3")
        elif how == "nocomma":
            lines.insert(rng.randint(0, len(lines)), b"12")
        elif how == "junk":
            lines.insert(rng.randint(0, len(lines)), rng.choice([b"x,1", b"1,x", b"1;2", b"0x1,2", b"1,2a"]))
        else:
            lines.insert(rng.randint(0, len(lines)), rng.choice([b",1", b"1,", b","]))
        do_offsets(ctx, b, b"\n".join(lines), None)


def gen_v2resp(ctx, b, rng):
    ok = rng.random() < 0.75
    args = [rng.choice([b"ok", b"yes", b"x", b"NoSuchFile"])] + gargs(rng, True)
    shape = rng.choice(["args", "body", "stream", "stream-fail"]) if ok else "args"
    body, stream, fail = None, None, None
    if shape == "body":
        body = gbody(ctx, rng)
    elif shape in ("stream", "stream-fail"):
        stream = [gbytes(rng, 0, 9) if rng.random() < 0.9 else gbody(ctx, rng) for _ in range(rng.randint(0, 3))]
        if shape == "stream-fail":
            fail = [rng.choice([b"Boom", b"NoSuchFile"])] + gargs(rng, False)
    bad = rng.choice(["marker", "status"]) if rng.random() < 0.1 else None
    do_v2resp(ctx, b, rng, ok, args, body, stream, fail, grest(rng), bad)


def gen_request(ctx, rng, version):
    hows = ["call", "body", "readv"] + (["stream"] if version == 3 else [])
    how = rng.choice(hows)
    args = [b"C29.n" if how == "call" else b"C29.b"] + gargs(rng, version != 3)
    if how == "call":
        body = None
    elif how == "body":
        body = gbody(ctx, rng) if rng.random() < 0.5 else gbytes(rng, 0, 12)
    elif how == "readv":
        body = [(rng.randint(0, 10 ** 6), rng.randint(0, 70000)) for _ in range(rng.randint(0, 3))]
    else:
        body = [gbytes(rng, 0, 9) for _ in range(rng.randint(0, 3))]
    return (version, how, args, body)


def gen_misuse(ctx, rng):
    """a v3 request the server answers with an error while the client keeps sending: a body / stream
    for a verb that answered from its args (C29.n), for a verb that raised (C29.x), for an unknown
    verb; or no body for a verb that takes one.  v3 messages are self-delimiting, so the connection
    must stay usable"""
    verb = rng.choice([b"C29.n", b"C29.n", b"C29.x", b"C29.x", b"C29.unknown", b"C29.b"])
    args = [verb] + gargs(rng, False)
    if verb == b"C29.b":
        return (3, "call", args, None)
    how = rng.choice(["body", "stream", "readv", "call"] if verb != b"C29.n" else ["body", "stream", "readv"])
    if how == "call":
        body = None
    elif how == "body":
        body = gbytes(rng, 0, 12)
    elif how == "readv":
        body = [(rng.randint(0, 10 ** 6), rng.randint(0, 70000)) for _ in range(rng.randint(1, 3))]
    else:
        body = [gbytes(rng, 0, 9) for _ in range(rng.randint(1, 3))]
    return (3, how, args, body)


def gen_pipeline(ctx, rng):
    n = rng.choice([2, 2, 3])
    v = rng.choice([1, 2, 3, 3])
    reqs = [gen_request(ctx, rng, v if rng.random() < 0.8 else rng.choice([1, 2, 3])) for _ in range(n)]
    if rng.random() < 0.4:
        reqs[rng.randrange(n - 1)] = gen_misuse(ctx, rng)     # never last: something must follow it
    style = rng.choice(["whole", "two", "bytes", "rand", "rand"])
    oracle_pipeline(ctx, rng, reqs, style, rng.choice(["socket", "socket", "pipe"]))


def gen_e2e(ctx, rng):
    version = rng.choice([1, 2, 3, 3])
    style = rng.choice(["whole", "two", "bytes", "rand", "rand-empty"])
    hows = ["call", "body", "readv"] + (["stream", "stream-fail"] if version == 3 else [])
    how = rng.choice(hows)
    safe = version != 3
    args = [b"C29.n" if how == "call" else b"C29.b"] + gargs(rng, safe)
    if how == "call":
        body = None
    elif how == "body":
        body = gbody(ctx, rng)
    elif how == "readv":
        body = [(rng.randint(0, 10 ** 6), rng.randint(0, 70000)) for _ in range(rng.randint(0, 4))]
    else:
        body = [gbytes(rng, 0, 9) for _ in range(rng.randint(0, 3))]
    oracle_request(ctx, rng, version, how, args, body, grest(rng), style)
    # responses
    version = rng.choice([1, 2, 3, 3])
    ok = rng.random() < 0.7 or version == 1
    rargs = [rng.choice([b"ok", b"yes", b"x"])] + gargs(rng, version != 3)
    if version == 1:
        rargs[0] = rng.choice([b"ok", b"yes"])
    shape = rng.choice(["args", "body"] + (["stream", "stream-fail"] if version != 1 else []))
    body, stream, fail = None, None, None
    if shape == "body":
        body = gbody(ctx, rng)
    elif shape in ("stream", "stream-fail"):
        stream = [gbytes(rng, 0, 9) if rng.random() < 0.9 else gbody(ctx, rng) for _ in range(rng.randint(0, 3))]
        if shape == "stream-fail":
            fail = [rng.choice([b"Boom", b"NoSuchFile"])] + gargs(rng, False)
    if not ok and version != 1 and shape != "args":
        shape, body, stream, fail = "args", None, None, None
    oracle_response(ctx, rng, version, ok, rargs, body, stream, fail, rng.choice(["full", "one", "rand", "rand"]))


def check_consts(ctx, b):
    p = _proto()
    c = dict(kind="consts")
    ctx.case(c, True)
    b.add(c, "consts", " ".join([hexb(p.MESSAGE_VERSION_THREE), hexb(p.REQUEST_VERSION_TWO), hexb(p.RESPONSE_VERSION_TWO)]))


def corpus_cases(ctx, b):
    """minimised past failures / hand-picked corners, run first"""
    rng = ctx.rng
    # body and trailer (and more) in one read; trailer split everywhere
    for body, rest in ((b"", b""), (b"abc", b"XY"), (b"done\n", b"done\n"), (b"\n", b"1\n")):
        data = b"%d\n" % len(body) + body + b"done\n" + rest
        for segs in two_splits(data):
            do_lp(ctx, b, body, rest, segs, "1" * len(segs))
            do_lp(ctx, b, body, rest, segs, "0" * len(segs))
        segs = [data[i:i + 1] for i in range(len(data))]
        do_lp(ctx, b, body, rest, segs, "".join(rng.choice("01") for _ in segs))
    for chunks, fail, rest in (([], None, b""), ([b"", b"ab"], None, b"Z"), ([b"END\n"], [b"ERR\n", b""], b"END\n"),
                               ([b"a" * 16], [], b"0\n")):
        data = real_stream_bytes(chunks, fail) + rest
        for segs in two_splits(data):
            do_ck(ctx, b, chunks, fail, rest, segs, "1" * len(segs))
        segs = [data[i:i + 1] for i in range(len(data))]
        do_ck(ctx, b, chunks, fail, rest, segs, "0" * len(segs))
    # v3: stream error before the first chunk (finding F15) and its neighbours, all 2-splits
    from fastbencode import bencode
    p = _proto()
    hdr = bencode({})
    for parts, rest in (([("o", 83), ("s", bencode([b"ok"])), ("o", 69), ("s", bencode([b"Boom"]))], b""),
                        ([("o", 83), ("s", bencode([b"ok"])), ("b", b""), ("o", 69), ("s", bencode([b"Boom"]))], b"e"),
                        ([("o", 69), ("s", bencode([b"err", b"x"]))], b"bzr")):
        data = p.MESSAGE_VERSION_THREE + be32(len(hdr)) + hdr
        for k, v in parts:
            data += b"o" + bytes([v]) if k == "o" else k.encode() + be32(len(v)) + v
        data += b"e" + rest
        for segs in two_splits(data):
            do_v3(ctx, b, True, hdr, parts, rest, segs)
    # conventional requests: aborted stream (finding F16 at the handler level: the error reaches
    # post_body_error_received), body for a verb that answered already, all 2-splits
    for w, parts, rest, wf in ((True, [("s", bencode([b"v", b"a"])), ("b", b"ab"), ("o", 69), ("s", bencode([b"error"]))], b"", True),
                               (True, [("s", bencode([b"v"]))], b"bzr", True),
                               (False, [("s", bencode([b"v"]))], b"\x00", True),
                               (False, [("s", bencode([b"v"])), ("b", b"x")], b"", False),
                               (True, [("o", 83), ("s", bencode([b"v"]))], b"", False),
                               (True, [("s", bencode([b"v"])), ("o", 69), ("b", b"x"), ("s", bencode([b"e"]))], b"", False)):
        data = be32(len(hdr)) + hdr
        for k, v in parts:
            data += b"o" + bytes([v]) if k == "o" else k.encode() + be32(len(v)) + v
        data += b"e" + rest
        for segs in two_splits(data):
            do_v3req(ctx, b, w, hdr, parts, rest, segs, wf)
    for text, offs in ((b"", []), (b"0,0", [(0, 0)]), (b"1,2\n3,4", [(1, 2), (3, 4)]), (b"\n1,2\n\n", [(1, 2)]),
                       (b"1,2\n3", None), (b"1,2,3", None), (b",", None)):
        do_offsets(ctx, b, text, offs)
    do_v2resp(ctx, b, rng, True, [b"ok"], None, [], [b"Boom", b"x"], b"bzr response 2\n")
    do_v2resp(ctx, b, rng, True, [b"ok", b""], b"done\n", None, None, b"done\n")
    do_v2resp(ctx, b, rng, False, [b"NoSuchFile", b"a"], None, None, None, b"")
    # a v3 request the server rejects half way (body for a verb that answered / raised / is unknown),
    # then a good one on the same connection
    for bad in ((3, "body", [b"C29.n", b"a"], b"xyz"), (3, "stream", [b"C29.n"], [b"a", b"bc"]),
                (3, "body", [b"C29.x"], b"xyz"), (3, "stream", [b"C29.unknown", b"p"], [b"a"]),
                (3, "call", [b"C29.b", b"q"], None)):
        reqs = [bad, (3, "body", [b"C29.b", b"a"], b"one"), (3, "call", [b"C29.n"], None)]
        for style in ("whole", "two", "bytes"):
            oracle_pipeline(ctx, rng, reqs, style, "socket")
        oracle_pipeline(ctx, rng, reqs, "rand", "pipe")
    # back-to-back requests with the boundary inside one read, each protocol version
    for v in (1, 2, 3):
        reqs = [(v, "body", [b"C29.b", b"a"], b"one"), (v, "call", [b"C29.n"], None), (v, "body", [b"C29.b"], b"")]
        for style in ("whole", "two", "bytes"):
            oracle_pipeline(ctx, rng, reqs, style, "socket")
        oracle_pipeline(ctx, rng, reqs, "rand", "pipe")
    for style in ("full", "one", "rand"):
        oracle_response(ctx, rng, 3, True, [b"ok"], None, [], [b"Boom", b"x"], style)
        oracle_response(ctx, rng, 3, True, [b"ok"], None, [b"a"], [b"Boom", b"x"], style)
        oracle_response(ctx, rng, 2, True, [b"ok"], None, [], [b"Boom", b"x"], style)


def run(ctx, n=None):
    register_verbs()
    rng = ctx.rng
    b = Batch()
    ctx.extra["response_handler_variant"] = ("as found (F15 present)" if handler_variant() == "F"
                                             else "with F15 fix (resp_handler_roundtrip_fixed applies)")
    check_consts(ctx, b)
    corpus_cases(ctx, b)
    n = n or ctx.pick(4000, 18000)
    for i in range(n):
        small = i < ctx.pick(60, 400)
        gen_lp(ctx, b, rng, small)
        gen_ck(ctx, b, rng, small)
        gen_v3(ctx, b, rng, small)
        gen_req(ctx, b, rng, small)
        gen_encoders(ctx, b, rng)
        gen_e2e(ctx, rng)
        gen_v3req(ctx, b, rng, small)
        gen_offsets(ctx, b, rng)
        gen_v2resp(ctx, b, rng)
        if i % 2 == 0:
            gen_pipeline(ctx, rng)
    ctx.diff(b.cases, b.lines, b.outs)


def widen(ctx):
    run(ctx, n=6000)


# ---------------------------------------------------------------- replay

def replay(ctx, case):
    register_verbs()
    rng = ctx.rng
    b = Batch()
    k = case.get("kind")
    ub = lambda s: None if s is None else unhex(s)
    segs = [unhex(s) for s in case.get("segs", [])]
    if k == "lp":
        do_lp(ctx, b, ub(case["body"]), ub(case["rest"]), segs, case["mask"], case.get("bad"))
    elif k == "ck":
        do_ck(ctx, b, [unhex(c) for c in case["chunks"]], None if case["fail"] is None else [unhex(a) for a in case["fail"]],
              ub(case["rest"]), segs, case["drains"], case.get("bad"))
    elif k in ("v3", "v3resp"):
        parts = [(kk, v if kk == "o" else unhex(v)) for kk, v in case["parts"]]
        do_v3(ctx, b, case["marker"], ub(case["hdr"]), parts, ub(case["rest"]), segs, case.get("bad"))
    elif k == "req":
        do_req(ctx, b, case["w"], [unhex(a) for a in case["args"]], ub(case["body"]), ub(case["rest"]), segs, case.get("bad"))
    elif k == "v3req":
        parts = [(kk, v if kk == "o" else unhex(v)) for kk, v in case["parts"]]
        do_v3req(ctx, b, case["w"], ub(case["hdr"]), parts, ub(case["rest"]), segs, case["wellformed"])
    elif k == "dec.offsets":
        do_offsets(ctx, b, ub(case["text"]), None if case["offs"] is None else [tuple(o) for o in case["offs"]])
    elif k in ("v2resp", "enc.v2resp"):
        do_v2resp(ctx, b, rng, case["ok"], [unhex(a) for a in case["args"]], ub(case["body"]),
                  None if case["stream"] is None else [unhex(c) for c in case["stream"]],
                  None if case["fail"] is None else [unhex(a) for a in case["fail"]], ub(case["rest"]), case.get("bad"))
    elif k == "e2e-pipeline":
        reqs = []
        for r in case["reqs"]:
            body = r["body"]
            if isinstance(body, list):
                body = [tuple(x) if isinstance(x, list) else unhex(x) for x in body]
            else:
                body = ub(body)
            reqs.append((r["version"], r["how"], [unhex(a) for a in r["args"]], body))
        oracle_pipeline(ctx, rng, reqs, case["style"], case["medium"])
    elif k == "e2e-resp":
        oracle_response(ctx, rng, case["version"], case["ok"], [unhex(a) for a in case["args"]], ub(case["body"]),
                        None if case["stream"] is None else [unhex(c) for c in case["stream"]],
                        None if case["fail"] is None else [unhex(a) for a in case["fail"]], case["style"])
    elif k == "e2e-req":
        body = case["body"]
        if isinstance(body, list):
            body = [tuple(x) if isinstance(x, list) else unhex(x) for x in body]
        else:
            body = ub(body)
        oracle_request(ctx, rng, case["version"], case["how"], [unhex(a) for a in case["args"]], body, ub(case["rest"]), case["style"])
    else:
        return dict(case=case, note="encoder cases are replayed by re-running the check with the same seed")
    model = ctx.model(b.lines) if b.lines else []
    return dict(case=case, impl=b.outs, model=model, agree=b.outs == model,
                oracle_failures=[v["what"] for v in ctx.violations])
