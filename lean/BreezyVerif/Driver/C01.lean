import BreezyVerif.Common
import BreezyVerif.Model.C01
/-
C01 driver.

  commit <strict|lax> <merges T|F> <sel> <excl> <basis> <wt>
                                        -> ok <ids> <tree> <wt ids> <missing ids> | E:PathsNotVersioned:<paths> | E:InconsistentDelta
                                           | E:CannotCommitSelectedFileMerge | E:fuel
  from   <strict|lax> <ids> <basis> <wt> -> the same, for an explicit list of recorded ids
  ids    <sel> <excl> <basis> <wt>      -> the ids of the change stream after exclusion | E:…
  git    <sel> <excl> <changes> <basis> <wt>  -> <gtree>
  fault  <point|~> <bound T|F> <ntexts> <revs> <tip|~> <mrevs> <mtip|~> <new>
                                        -> <raised T|F> <revs> <tip|~> <basis|~> <inGroup T|F> <mrevs> <mtip|~> <new inventories> <new texts>
           point = op[+]  (`+`: the fault is raised after the operation's effect), op = startGroup | text:<j> | pointless |
                   finishInv | message | addRev | commitGroup | preHook | masterImport | setTip | mergeTags | unversion |
                   updateBasis | postHook

tree    = entries joined by `;` (`-` = empty tree), entry = `id:parent:name:kind:content:exec`
          (parent `~` for the root, name `.` for the empty name, kind f|d|l and, in <wt> only,
          m = versioned but missing on disk; content = opaque token (hex, `-` for directories), exec T|F)
sel     = `~` (None) | `-` ([]) | paths joined by `,`; path = components joined by `/`, `.` = root
excl    = `-` | paths joined by `,`
ids     = `-` | ids joined by `,`
gtree   = `-` | `path=kind:content:exec` joined by `;` (kind f|l)
changes = `-` | `old>new` joined by `,` (`~` = None)
-/
namespace BreezyVerif.C01
open BreezyVerif.C10

def parsePath (s : String) : Option Path :=
  if s == "." then some [] else (s.splitOn "/").mapM fun c => if c.isEmpty then none else some c

def showPath (p : Path) : String := if p.isEmpty then "." else "/".intercalate p

/-- the node a missing entry shows to the comparison: not a directory, differs
from every real content token (those are hex) -/
def missingNode : Node := .symlink "?missing"

def parseEntry (s : String) : Option ((Id × Entry) × Bool) :=
  match s.splitOn ":" with
  | [i, p, n, k, c, x] =>
    if i.isEmpty then none else
    let parent := if p == "~" then none else some p
    let name := if n == "." then "" else n
    match k, parseBool x with
    | "f", some x => some ((i, ⟨parent, name, .file c x⟩), false)
    | "d", some false => if c == "-" then some ((i, ⟨parent, name, .dir⟩), false) else none
    | "l", some false => some ((i, ⟨parent, name, .symlink c⟩), false)
    | "m", some false => if c == "-" then some ((i, ⟨parent, name, missingNode⟩), true) else none
    | _, _ => none
  | _ => none

def parseEntries (s : String) : Option (List ((Id × Entry) × Bool)) :=
  if s == "-" then some [] else (s.splitOn ";").mapM parseEntry

def parseTree (s : String) : Option Tree :=
  (parseEntries s).bind fun l => if l.any (·.2) then none else some (l.map (·.1))

def parseWT (s : String) : Option WT :=
  (parseEntries s).map fun l => ⟨l.map (·.1), (l.filter (·.2)).map (·.1.1)⟩

def parseSel (s : String) : Option (Option (List Path)) :=
  if s == "~" then some none
  else if s == "-" then some (some [])
  else ((s.splitOn ",").mapM parsePath).map some

def parsePaths (s : String) : Option (List Path) :=
  if s == "-" then some [] else (s.splitOn ",").mapM parsePath

def sortStrings (l : List String) : List String := l.mergeSort (fun a b => decide (a ≤ b))

def joinWith (sep : String) (l : List String) : String := if l.isEmpty then "-" else sep.intercalate l

def showName (n : String) : String := if n.isEmpty then "." else n

def showEntry (x : Id × Entry) : String :=
  let (k, c, e) := match x.2.node with
    | .file t ex => ("f", t, showBool ex)
    | .dir => ("d", "-", "F")
    | .symlink t => ("l", t, "F")
  ":".intercalate [x.1, (x.2.parent.getD "~"), showName x.2.name, k, c, e]

/-- canonical: one line per id (first binding), sorted -/
def showTree (t : Tree) : String :=
  joinWith ";" (sortStrings ((ids t).eraseDups.filterMap fun i => (get t i).map fun e => showEntry (i, e)))

def showErr : CErr → String
  | .pathsNotVersioned ps => "E:PathsNotVersioned:" ++ ",".intercalate (sortStrings (ps.map showPath))
  | .inconsistentDelta => "E:InconsistentDelta"
  | .rootMissing => "E:RootMissing"
  | .fuel => "E:fuel"
  | .selectedFileMerge => "E:CannotCommitSelectedFileMerge"

def showResult : Except CErr Result → String
  | .error e => showErr e
  | .ok r => " ".intercalate ["ok", joinWith "," (sortStrings r.ids.eraseDups), showTree r.tree,
      joinWith "," (sortStrings (ids r.wt.inv)), joinWith "," (sortStrings r.wt.missing)]

def parseIds (s : String) : Option (List Id) :=
  if s == "-" then some [] else
  let l := s.splitOn ","
  if l.any (·.isEmpty) then none else some l

def parseGEntry (s : String) : Option (Path × Node) :=
  match s.splitOn "=" with
  | [p, v] =>
    match parsePath p, v.splitOn ":" with
    | some p, [k, c, x] =>
      match k, parseBool x with
      | "f", some x => some (p, .file c x)
      | "l", some false => some (p, .symlink c)
      | _, _ => none
    | _, _ => none
  | _ => none

def parseGTree (s : String) : Option GTree :=
  if s == "-" then some [] else (s.splitOn ";").mapM parseGEntry

def parseOptPath (s : String) : Option (Option Path) :=
  if s == "~" then some none else (parsePath s).map some

def parseGChange (s : String) : Option GChange :=
  match s.splitOn ">" with
  | [a, b] => do pure ⟨← parseOptPath a, ← parseOptPath b⟩
  | _ => none

def parseGChanges (s : String) : Option (List GChange) :=
  if s == "-" then some [] else (s.splitOn ",").mapM parseGChange

def showGEntry (x : Path × Node) : Option String :=
  match x.2 with
  | .file t ex => some s!"{showPath x.1}=f:{t}:{showBool ex}"
  | .symlink t => some s!"{showPath x.1}=l:{t}:F"
  | .dir => none

def showGTree (t : GTree) : String :=
  joinWith ";" (sortStrings ((t.map (·.1)).eraseDups.filterMap fun p => (glookup t p).bind fun n => showGEntry (p, n)))

def parseOp (s : String) : Option Op :=
  match s.splitOn ":" with
  | ["text", j] => j.toNat?.map fun j => Op.addText s!"t{j}"
  | [s] =>
    match s with
    | "startGroup" => some .startGroup
    | "pointless" => some .checkPointless
    | "finishInv" => some .addInv
    | "message" => some .message
    | "addRev" => some .addRev
    | "commitGroup" => some .commitGroup
    | "preHook" => some .preHook
    | "masterImport" => some .masterImport
    | "setTip" => some .setTip
    | "mergeTags" => some .mergeTags
    | "unversion" => some .unversion
    | "updateBasis" => some .updateBasis
    | "postHook" => some .postHook
    | _ => none
  | _ => none

/-- `~` = no fault; otherwise the index of the named operation in the program
(`none` inside: the program does not contain it) -/
def parseFault (s : String) (prog : List Op) : Option (Option Fault) :=
  if s == "~" then some none else
  let after := s.endsWith "+"
  let name := if after then (s.dropEnd 1).toString else s
  match parseOp name with
  | none => none
  | some op =>
    match prog.findIdx? (· == op) with
    | none => none
    | some k => some (some ⟨k, after⟩)

def parseValidation (s : String) : Option Validation :=
  if s == "strict" then some .strict else if s == "lax" then some .lax else none

def showOptS : Option String → String
  | none => "~"
  | some s => s

def handle : List String → String
  | ["commit", v, m, sel, excl, basis, wt] =>
    match parseValidation v, parseBool m, parseSel sel, parsePaths excl, parseTree basis, parseWT wt with
    | some v, some m, some sel, some excl, some basis, some wt => showResult (commitModelM m v basis wt sel excl)
    | _, _, _, _, _, _ => "bad-op"
  | ["ids", sel, excl, basis, wt] =>
    match parseSel sel, parsePaths excl, parseTree basis, parseWT wt with
    | some sel, some excl, some basis, some wt =>
      match reportedChanges basis wt (sel.map minSel) with
      | .ok cs => joinWith "," (sortStrings (commitIds excl cs).eraseDups)
      | .error (.pathsNotVersioned ps) => showErr (.pathsNotVersioned ps)
      | .error .fuel => showErr .fuel
    | _, _, _, _ => "bad-op"
  | ["from", v, is, basis, wt] =>
    match parseValidation v, parseIds is, parseTree basis, parseWT wt with
    | some v, some is, some basis, some wt => showResult (commitFrom v basis wt is)
    | _, _, _, _ => "bad-op"
  | ["git", sel, excl, cs, basis, wt] =>
    match parseSel sel, parsePaths excl, parseGChanges cs, parseGTree basis, parseGTree wt with
    | some sel, some excl, some cs, some basis, some wt => showGTree (gitCommitTree basis wt cs sel excl)
    | _, _, _, _, _ => "bad-op"
  | ["fault", pt, bound, ntexts, revs, tip, mrevs, mtip, new] =>
    match parseBool bound, ntexts.toNat?, parseIds revs, parseIds mrevs with
    | some bound, some n, some revs, some mrevs =>
      if new.isEmpty || new == "~" then "bad-op" else
      let texts := (List.range n).map fun j => s!"t{j}"
      match parseFault pt (program texts bound) with
      | none => "bad-op"
      | some f =>
        let tip := if tip == "~" then none else some tip
        let mtip := if mtip == "~" then none else some mtip
        let s0 : PState := ⟨revs, revs, [], [], [], [], false, tip, mrevs, mtip, tip⟩
        let (s, raised) := runCommit new texts bound f s0
        " ".intercalate [showBool raised, joinWith "," s.revs, showOptS s.tip, showOptS s.basis, showBool s.inGroup,
          joinWith "," s.mrevs, showOptS s.mtip, toString (s.invs.length - revs.length), toString s.texts.length]
    | _, _, _, _ => "bad-op"
  | _ => "bad-op"

end BreezyVerif.C01

def main : IO Unit := BreezyVerif.runDriver BreezyVerif.C01.handle
