import BreezyVerif.Model.C10
/-
C09 — working trees as an abstract versioned file system.

State: everything on disk below the tree root as an id-keyed tree (the C10
tree model; unversioned files and directories have ids too — ids are never
observed, only identity relative to the basis matters), the set of versioned
ids, the basis tree (last commit) and a counter for fresh ids.

`step : Flavour → State → Op → State × Out` models `WorkingTree.mkdir`, `add`,
`remove(keep_files|force)`, `rename_one` / `move`, plain file edits and chmod,
`commit`, `revert(backups=False)` and re-opening, for the dirstate (`bzr`)
and the git index (`git`) working trees.  In the git flavour directories are
versioned exactly when they contain a versioned file (`pruneGit`), and adding
below an unversioned directory versions the directories on the way.  Every
operation that raises leaves the state unchanged.
-/
namespace BreezyVerif.C09
open BreezyVerif.C10

inductive Flavour where
  | bzr | git
  deriving DecidableEq, Repr

structure State where
  disk : Tree
  ver : List Id
  basis : Tree
  ctr : Nat
  deriving Repr

inductive Op where
  | mkfile (p : Path) (c : String)      -- create an (unversioned) file on disk
  | write (p : Path) (c : String)       -- overwrite a file on disk
  | chmod (p : Path) (x : Bool)
  | mkdir (p : Path)                    -- WorkingTree.mkdir
  | add (p : Path)                      -- WorkingTree.add([p])
  | remove (p : Path) (force : Bool)    -- remove([p], keep_files=not force, force=force)
  | rename (a b : Path)                 -- rename_one(a, b); move([a], d) = rename a (d ++ [last a])
  | commit
  | revert
  | reopen
  deriving DecidableEq, Repr

inductive Out where
  | ok | err
  deriving DecidableEq, Repr

def rootId : Id := "r"

/-- a fresh working tree: only the (versioned) root, empty basis -/
def init : State :=
  { disk := [(rootId, ⟨none, "", .dir⟩)], ver := [rootId], basis := [], ctr := 0 }

def fresh (n : Nat) : Id := "n" ++ toString n

def isVer (s : State) (i : Id) : Bool := s.ver.contains i

/-- the working tree proper: the versioned part of the disk -/
def wtTree (s : State) : Tree := s.disk.filter fun x => s.ver.contains x.1

/-- ids strictly below `i` -/
def below (t : Tree) : Nat → Id → List Id
  | 0, _ => []
  | n + 1, i => (childrenOf t i).flatMap fun c => c :: below t n c

def subtree (t : Tree) (i : Id) : List Id := i :: below t t.length i

/-- proper ancestors of `i`, nearest first -/
def ancestors (t : Tree) : Nat → Id → List Id
  | 0, _ => []
  | n + 1, i =>
    match (get t i).bind (·.parent) with
    | some p => p :: ancestors t n p
    | none => []

def isDir (t : Tree) (i : Id) : Bool :=
  match get t i with
  | some e => e.node.kind == .dir
  | none => false

def substId (ren : List (Id × Id)) (i : Id) : Id :=
  match ren.find? (·.1 == i) with
  | some x => x.2
  | none => i

/-- rename ids (keys and parent pointers) -/
def renameIds (ren : List (Id × Id)) (t : Tree) : Tree :=
  t.map fun x => (substId ren x.1, { x.2 with parent := x.2.parent.map (substId ren) })

/-- pair every id of `l` with a fresh id -/
def freshFor (n : Nat) : List Id → List (Id × Id)
  | [] => []
  | i :: rest => (i, fresh n) :: freshFor (n + 1) rest

/-- git: a directory is versioned exactly when a versioned non-directory lives below it -/
def pruneGit (s : State) : State :=
  { s with ver := s.ver.filter fun i =>
      !isDir s.disk i || (get s.disk i).bind (·.parent) == none ||
      (below s.disk s.disk.length i).any fun j => s.ver.contains j && !isDir s.disk j }

def finish (fl : Flavour) (s : State) : State :=
  match fl with
  | .bzr => s
  | .git => pruneGit s

/-- place a new object on disk: parent directory must exist, the name must be free -/
def place (s : State) (p : Path) (node : Node) (versioned : Bool) (needVerParent : Bool) : Option State :=
  match p.getLast?, idAt s.disk p.dropLast with
  | some name, some d =>
    if isDir s.disk d && (idAt s.disk p).isNone && (!needVerParent || isVer s d) then
      some { s with disk := s.disk ++ [(fresh s.ctr, ⟨some d, name, node⟩)],
                    ver := if versioned then s.ver ++ [fresh s.ctr] else s.ver,
                    ctr := s.ctr + 1 }
    else none
  | _, _ => none

def setNode (t : Tree) (i : Id) (n : Node) : Tree :=
  t.map fun x => if x.1 = i then (x.1, { x.2 with node := n }) else x

def setPos (t : Tree) (i : Id) (parent : Id) (name : String) : Tree :=
  t.map fun x => if x.1 = i then (x.1, { x.2 with parent := some parent, name := name }) else x

/-- `revert(backups=False)`: entries that are not in the basis become
unversioned and stay where they are (relative to their parent id); every basis
entry is restored; an unversioned object that is in the way gets `.moved` -/
def dropEmpty (cand : List Id) (t : Tree) : Tree :=
  t.filter fun x => !(cand.contains x.1 && (childrenOf t x.1).isEmpty)

def revert (fl : Flavour) (s : State) : State :=
  -- bzr: directories that were added (versioned, not in the basis) and are empty are deleted
  let added := s.ver.filter fun i => (get s.basis i).isNone && isDir s.disk i && i != rootId
  let disk0 := match fl with
    | .bzr => iterate (dropEmpty added) s.disk.length s.disk
    | .git => s.disk
  let restored : Tree := s.basis.foldr (fun x d => C10.set d x.1 x.2) disk0
  let moved : Tree := restored.map fun x =>
    if (get s.basis x.1).isNone &&
        s.basis.any (fun b => b.2.parent == x.2.parent && b.2.name == x.2.name) then
      (x.1, { x.2 with name := x.2.name ++ ".moved" })
    else x
  { s with disk := moved, ver := unionNew (ids s.basis) [rootId] }

/-- the state after a successful operation; `none` = the operation raises -/
def stepOk (fl : Flavour) (s : State) (op : Op) : Option State :=
  match op with
  | .mkfile p c =>
    match place s p (.file c false) false false with
    | some s' => some s'
    | none => none
  | .write p c =>
    match idAt s.disk p with
    | some i =>
      match get s.disk i with
      | some ⟨_, _, .file _ x⟩ => some { s with disk := setNode s.disk i (.file c x) }
      | _ => none
    | none => none
  | .chmod p x =>
    match idAt s.disk p with
    | some i =>
      match get s.disk i with
      | some ⟨_, _, .file c _⟩ => some { s with disk := setNode s.disk i (.file c x) }
      | _ => none
    | none => none
  | .mkdir p =>
    match place s p .dir (fl == .bzr) (fl == .bzr) with
    | some s' => some (finish fl s')
    | none => none
  | .add p =>
    match idAt s.disk p with
    | none => none
    | some i =>
      if isVer s i then some s
      else match fl with
        | .bzr =>
          match (get s.disk i).bind (·.parent) with
          | some d => if isVer s d then some { s with ver := s.ver ++ [i] } else none
          | none => none
        | .git =>
          some (finish fl { s with ver := unionNew s.ver (i :: ancestors s.disk s.disk.length i) })
  | .remove p force =>
    match idAt s.disk p with
    | none => some s            -- `remove` of an unknown path is silently ignored
    | some i =>
      if !isVer s i || (get s.disk i).bind (·.parent) == none then some s
      else
        let sub := subtree s.disk i
        if force then
          some (finish fl { s with disk := s.disk.filter (fun x => !sub.contains x.1),
                                   ver := s.ver.filter (fun j => !sub.contains j) })
        else
          -- the objects stay on disk, detached from their old identity
          let gone := sub.filter (isVer s)
          let ren := freshFor s.ctr gone
          some (finish fl { s with disk := renameIds ren s.disk,
                                   ver := s.ver.filter (fun j => !sub.contains j),
                                   ctr := s.ctr + gone.length })
  | .rename a b =>
    -- (git's "perhaps it's already moved?" mode needs a versioned source that is gone from
    -- disk: outside the modelled envelope, so a missing source is an error in both flavours)
    match idAt s.disk a, b.getLast?, idAt s.disk b.dropLast with
    | some i, some name, some d =>
      if (isVer s i || (fl == .git && isDir s.disk i)) && (get s.disk i).bind (·.parent) != none && isDir s.disk d
          && (idAt s.disk b).isNone && !(subtree s.disk i).contains d
          && (fl == .git || isVer s d) then
        some (finish fl { s with disk := setPos s.disk i d name,
                                 ver := match fl with
                                   | .bzr => s.ver
                                   | .git => unionNew s.ver (d :: ancestors s.disk s.disk.length d) })
      else none
    | _, _, _ => none
  | .commit =>
    let s' := finish fl s
    some { s' with basis := wtTree s' }
  | .revert => some (finish fl (revert fl s))
  | .reopen => some s

/-- a failing operation raises and leaves the state alone -/
def step (fl : Flavour) (s : State) (op : Op) : State × Out :=
  match stepOk fl s op with
  | some s' => (s', .ok)
  | none => (s, .err)

def run (fl : Flavour) : State → List Op → State
  | s, [] => s
  | s, op :: rest => run fl (step fl s op).1 rest

/-! ### observations -/

/-- `iter_changes(basis)` in id space -/
def status (s : State) : List Change := changesOf s.basis (wtTree s)

/-- all versioned paths with kind, content and executable bit -/
def listing (t : Tree) : List (Path × Node) :=
  t.filterMap fun x => (pathOf t x.1).map fun p => (p, x.2.node)

inductive PathChange where
  | added (p : Path) (k : Kind)
  | removed (p : Path) (k : Kind)
  | modified (p : Path)
  deriving DecidableEq, Repr

/-- status in path space (git: no file ids): per path, added / removed / modified -/
def pathStatus (s : State) : List PathChange :=
  let b := listing s.basis
  let w := listing (wtTree s)
  (b.filterMap fun x => match w.find? (·.1 == x.1) with
      | none => some (.removed x.1 x.2.kind)
      | some y => if x.2 == y.2 then none else some (.modified x.1))
  ++ (w.filterMap fun y => match b.find? (·.1 == y.1) with
      | none => some (.added y.1 y.2.kind)
      | some _ => none)

/-- invariant checked by the driver after every step: the disk tree and the
basis are well-formed, versioned ids exist and are closed under parents -/
def okState (s : State) : Bool :=
  wf s.disk && (s.basis.isEmpty || wf s.basis) && wf (wtTree s) &&
  s.ver.all fun i => (get s.disk i).isSome

end BreezyVerif.C09
