/-
C50 — model of breezy/cmdline.py (Splitter, _Whitespace, _Quotes, _Backslash,
_Word, _PushbackSequence, split).

Python `str` is `List Char` (Unicode scalar values; lone surrogates are not
modelled).  Two executable models are given and proved equal in
`Props/C50.lean` (`split_total`):

* `tokens` / `split` — structural recursion over the command line; a
  pushed-back character is handed to the exit state's `process` at once;
* `mTokens` / `splitM` — the literal machine: explicit push-back stack, the
  token as a list of appended pieces, `for next_char in self.seq` as a fuelled
  loop (`none` = fuel exhausted).

State objects of the Python code that are reachable:
  `_Whitespace()`, `_Word()`                      ↦ `Exit.plain .ws/.word`
  `_Quotes(q, exit_state)` (exit ∈ {ws, word})    ↦ `Exit.quotes q o`
  `_Backslash(exit_state)` with `count = n`       ↦ `State.bs e n`
-/
import BreezyVerif.Common
namespace BreezyVerif.C50

abbrev Str := List Char

/-- `re.compile("\\s", re.UNICODE).match` on one character of a `str`
(= `str.isspace`; compared exhaustively with the real matcher on every run). -/
def isWs (c : Char) : Bool :=
  let n := c.toNat
  (9 ≤ n && n ≤ 13) || (28 ≤ n && n ≤ 32) || n == 0x85 || n == 0xa0 || n == 0x1680 ||
  (0x2000 ≤ n && n ≤ 0x200a) || n == 0x2028 || n == 0x2029 || n == 0x202f ||
  n == 0x205f || n == 0x3000

/-- `next_char in context.allowed_quote_chars` -/
def allowed (sq : Bool) (c : Char) : Bool := c = '"' || (sq && c = '\'')

/-- `"\\" * n` -/
def rep (n : Nat) : Str := List.replicate n '\\'

inductive Outer | ws | word
  deriving DecidableEq, Repr

inductive Exit
  | plain (o : Outer)
  | quotes (q : Char) (o : Outer)
  deriving DecidableEq, Repr

inductive State
  | at (e : Exit)
  | bs (e : Exit) (n : Nat)
  deriving DecidableEq, Repr

/-- The part of the Splitter that `process` reads and writes: `self.quoted`,
`len(self.token) > 0` and `"".join(self.token)`. -/
structure Ctx where
  quoted : Bool := false
  touched : Bool := false
  chars : Str := []
  deriving DecidableEq, Repr

/-- `context.token.append(p)` -/
def Ctx.app (x : Ctx) (p : Str) : Ctx := { x with touched := true, chars := x.chars ++ p }

/-- `process` of `_Whitespace`, `_Word`, `_Quotes`; `none` = the token ends. -/
def procExit (sq : Bool) : Exit → Ctx → Char → Option State × Ctx
  | .plain .ws, x, c =>
    if isWs c then (if x.touched then (none, x) else (some (.at (.plain .ws)), x))
    else if allowed sq c then (some (.at (.quotes c .ws)), { x with quoted := true })
    else if c = '\\' then (some (.bs (.plain .ws) 1), x)
    else (some (.at (.plain .word)), x.app [c])
  | .plain .word, x, c =>
    if isWs c then (none, x)
    else if allowed sq c then (some (.at (.quotes c .word)), x)
    else if c = '\\' then (some (.bs (.plain .word) 1), x)
    else (some (.at (.plain .word)), x.app [c])
  | .quotes q o, x, c =>
    if c = '\\' then (some (.bs (.quotes q o) 1), x)
    else if c = q then (some (.at (.plain o)), x.app [])
    else (some (.at (.quotes q o)), x.app [c])

/-- `_Backslash.finish` (the other states have no `finish`) -/
def finish : State → Ctx → Ctx
  | .at _, x => x
  | .bs _ n, x => if n > 0 then x.app (rep n) else x

/-- end of `_get_token`: `None` when nothing was quoted and the text is empty -/
def result (x : Ctx) : Option (Bool × Str) :=
  if !x.quoted && x.chars.isEmpty then none else some (x.quoted, x.chars)

/-- `Splitter.__next__` raises StopIteration on a `None` token: iteration stops -/
def emit (x : Ctx) (rest : List (Bool × Str)) : List (Bool × Str) :=
  match result x with
  | none => []
  | some t => t :: rest

/-- `list(Splitter(line, sq))` started in state `st` with context `x`. -/
def run (sq : Bool) : State → Ctx → Str → List (Bool × Str)
  | st, x, [] => emit (finish st x) []
  | .at e, x, c :: cs =>
    match procExit sq e x c with
    | (some st', x') => run sq st' x' cs
    | (none, x') => emit x' (run sq (.at (.plain .ws)) {} cs)
  | .bs e n, x, c :: cs =>
    if c = '\\' then run sq (.bs e (n + 1)) x cs
    else if allowed sq c then
      -- 2N backslashes + quote = N backslashes; 2N+1 = N backslashes + literal quote
      if n % 2 = 1 then run sq (.at e) ((x.app (rep (n / 2))).app [c]) cs
      else
        -- pushback: the exit state handles `c`
        match procExit sq e (x.app (rep (n / 2))) c with
        | (some st', x') => run sq st' x' cs
        | (none, x') => emit x' (run sq (.at (.plain .ws)) {} cs)
    else
      match procExit sq e (if n > 0 then x.app (rep n) else x) c with
      | (some st', x') => run sq st' x' cs
      | (none, x') => emit x' (run sq (.at (.plain .ws)) {} cs)

def tokens (sq : Bool) (s : Str) : List (Bool × Str) := run sq (.at (.plain .ws)) {} s

/-- `cmdline.split(s, single_quotes_allowed=sq)` -/
def split (sq : Bool) (s : Str) : List Str := (tokens sq s).map (·.2)

/-! ### quoting by the documented rules -/

/-- is the run of backslashes that ends just before `cs` followed by an
allowed quote character or by the end of the argument? -/
def dbl (sq : Bool) : Str → Bool
  | [] => true
  | c :: cs => if c = '\\' then dbl sq cs else allowed sq c

/-- body of a quoted argument: a backslash is doubled when its run is followed
by an allowed quote character or the end; `"` gets one more backslash. -/
def esc (sq : Bool) : Str → Str
  | [] => []
  | c :: cs =>
    if c = '\\' then (if dbl sq cs then ['\\', '\\'] else ['\\']) ++ esc sq cs
    else if c = '"' then '\\' :: '"' :: esc sq cs
    else c :: esc sq cs

def quote (sq : Bool) (a : Str) : Str := '"' :: (esc sq a ++ ['"'])

/-- `" ".join(l)` -/
def joinSp : List Str → Str
  | [] => []
  | [a] => a
  | a :: b :: r => a ++ ' ' :: joinSp (b :: r)

/-- characters outside the quoting syntax -/
def plain (sq : Bool) (c : Char) : Bool := !isWs c && !allowed sq c && !(c = '\\')

/-! ### the literal machine -/

/-- `self.quoted`, `self.token` (list of appended pieces), the push-back stack -/
structure MCtx where
  quoted : Bool := false
  token : List Str := []
  push : List Char := []
  deriving DecidableEq, Repr

/-- `process` of the four state classes, literally (append pieces, pushback). -/
def mproc (sq : Bool) : State → MCtx → Char → Option State × MCtx
  | .at (.plain .ws), x, c =>
    if isWs c then (if x.token.length > 0 then (none, x) else (some (.at (.plain .ws)), x))
    else if allowed sq c then (some (.at (.quotes c .ws)), { x with quoted := true })
    else if c = '\\' then (some (.bs (.plain .ws) 1), x)
    else (some (.at (.plain .word)), { x with token := x.token ++ [[c]] })
  | .at (.plain .word), x, c =>
    if isWs c then (none, x)
    else if allowed sq c then (some (.at (.quotes c .word)), x)
    else if c = '\\' then (some (.bs (.plain .word) 1), x)
    else (some (.at (.plain .word)), { x with token := x.token ++ [[c]] })
  | .at (.quotes q o), x, c =>
    if c = '\\' then (some (.bs (.quotes q o) 1), x)
    else if c = q then (some (.at (.plain o)), { x with token := x.token ++ [[]] })
    else (some (.at (.quotes q o)), { x with token := x.token ++ [[c]] })
  | .bs e n, x, c =>
    if c = '\\' then (some (.bs e (n + 1)), x)
    else if allowed sq c then
      let x1 := { x with token := x.token ++ [rep (n / 2)] }
      if n % 2 = 1 then (some (.at e), { x1 with token := x1.token ++ [[c]] })
      else (some (.at e), { x1 with push := c :: x1.push })
    else
      let x1 := if n > 0 then { x with token := x.token ++ [rep n] } else x
      (some (.at e), { x1 with push := c :: x1.push })

/-- `_Backslash.finish` -/
def mfinish : State → MCtx → MCtx
  | .at _, x => x
  | .bs _ n, x => if n > 0 then { x with token := x.token ++ [rep n] } else x

/-- `for next_char in self.seq: state = state.process(...); if state is None: break`.
Outer `none` = out of fuel. -/
def mloop (sq : Bool) : Nat → State → MCtx → Str → Option (Option State × MCtx × Str)
  | 0, _, _, _ => none
  | f + 1, st, x, inp =>
    match x.push, inp with
    | p :: ps, _ =>
      match mproc sq st { x with push := ps } p with
      | (none, x') => some (none, x', inp)
      | (some st', x') => mloop sq f st' x' inp
    | [], [] => some (some st, x, [])
    | [], c :: cs =>
      match mproc sq st x c with
      | (none, x') => some (none, x', cs)
      | (some st', x') => mloop sq f st' x' cs

/-- `_get_token`: (quoted, token-or-None), remaining push-back stack and input -/
def mGetToken (sq : Bool) (push : List Char) (inp : Str) :
    Option (Bool × Option Str × List Char × Str) :=
  match mloop sq (2 * inp.length + 2 * push.length + 2) (.at (.plain .ws))
      { quoted := false, token := [], push := push } inp with
  | none => none
  | some (st, x, inp') =>
    let x' := match st with
      | some s => mfinish s x
      | none => x
    let r := x'.token.flatten
    some (x'.quoted, if !x'.quoted && r.isEmpty then none else some r, x'.push, inp')

/-- `list(splitter)` with fuel for the number of tokens -/
def mTokensAux (sq : Bool) : Nat → List Char → Str → Option (List (Bool × Str))
  | 0, _, _ => none
  | f + 1, push, inp =>
    match mGetToken sq push inp with
    | none => none
    | some (_, none, _, _) => some []
    | some (q, some t, push', inp') => (mTokensAux sq f push' inp').map ((q, t) :: ·)

def mTokens (sq : Bool) (s : Str) : Option (List (Bool × Str)) := mTokensAux sq (s.length + 1) [] s

def splitM (sq : Bool) (s : Str) : Option (List Str) := (mTokens sq s).map (·.map (·.2))

/-! ### mixed command lines as callers write them

An argument is written as one or more *segments* without whitespace between
them: `Seg.q a` is the argument text `a` quoted by the documented rules
(`quote sq a`), `Seg.w s` is the text `s` written as it is (`--using=`,
`*.py`, `C:\dir`).  Arguments are laid out with whitespace in front of each. -/

inductive Seg
  | q (a : Str)
  | w (s : Str)
  deriving DecidableEq, Repr

/-- what is written on the command line -/
def Seg.text (sq : Bool) : Seg → Str
  | .q a => quote sq a
  | .w s => s

/-- what the segment contributes to the argument -/
def Seg.val : Seg → Str
  | .q a => a
  | .w s => s

def itemText (sq : Bool) (it : List Seg) : Str := (it.map (Seg.text sq)).flatten

def itemVal (it : List Seg) : Str := (it.map Seg.val).flatten

/-- `quoted` flag of the token: the argument starts with a quoted segment -/
def itemQuoted : List Seg → Bool
  | .q _ :: _ => true
  | _ => false

/-- (whitespace-before, argument) pairs laid out one after the other -/
def layout (sq : Bool) : List (Str × List Seg) → Str
  | [] => []
  | (sep, it) :: r => sep ++ (itemText sq it ++ layout sq r)

/-- a character allowed in an unquoted segment: outside the quoting syntax, or
a backslash (which is literal when no quote follows its run) -/
def wordChar (sq : Bool) (c : Char) : Bool := plain sq c || c = '\\'

/-- an unquoted segment is non-empty and made of `wordChar`s; when another
segment follows directly (no whitespace) it must not end in a backslash — the
backslash would otherwise escape, or be halved before, the opening quote of
the next segment. -/
def itemOk (sq : Bool) : List Seg → Bool
  | [] => true
  | .q _ :: r => itemOk sq r
  | .w s :: r =>
    !s.isEmpty && s.all (wordChar sq) && (r.isEmpty || s.getLast? != some '\\') && itemOk sq r

end BreezyVerif.C50
