import BreezyVerif.Model.C14
import BreezyVerif.Lemmas.C14
import BreezyVerif.Lemmas.C14Git
/-! Helper lemmas for `delta_sound` (C14): `apply_inventory_delta` as membership, the base inventory,
the items of the generated delta. -/
namespace BreezyVerif.C14

def DeltaItem.fid : DeltaItem → String
  | .remove g => g
  | .put g _ => g

/-- one item of `apply_inventory_delta` -/
def deltaStep (inv : Inv) : DeltaItem → Inv
  | .remove f => inv.filter (fun e => e.1 != f)
  | .put f e => inv.filter (fun x => x.1 != f) ++ [(f, e)]

theorem applyDelta_cons (inv : Inv) (x : DeltaItem) (rest : List DeltaItem) :
    applyDelta inv (x :: rest) = applyDelta (deltaStep inv x) rest := by
  cases x <;> rfl

theorem mem_deltaStep_other (inv : Inv) (x : DeltaItem) (g : String) (e : InvEntry) (h : x.fid ≠ g) :
    (g, e) ∈ deltaStep inv x ↔ (g, e) ∈ inv := by
  cases x with
  | remove f =>
    have hf : f ≠ g := h
    simp only [deltaStep, List.mem_filter, bne_iff_ne, ne_eq]
    exact ⟨fun h => h.1, fun h => ⟨h, fun h' => hf h'.symm⟩⟩
  | put f e' =>
    have hf : f ≠ g := h
    simp only [deltaStep, List.mem_append, List.mem_filter, bne_iff_ne, ne_eq, List.mem_singleton, Prod.mk.injEq]
    constructor
    · rintro (h1 | h1)
      · exact h1.1
      · exact absurd h1.1.symm hf
    · intro h1; exact Or.inl ⟨h1, fun h' => hf h'.symm⟩

theorem mem_deltaStep_put (inv : Inv) (f : String) (e e' : InvEntry) :
    (f, e') ∈ deltaStep inv (.put f e) ↔ e' = e := by
  simp [deltaStep]

theorem not_mem_deltaStep_remove (inv : Inv) (f : String) (e' : InvEntry) :
    (f, e') ∉ deltaStep inv (.remove f) := by
  simp [deltaStep]

/-- no item about `g`: the entries of `g` are untouched -/
theorem mem_applyDelta_none (g : String) (e : InvEntry) (d : List DeltaItem) :
    ∀ inv : Inv, (∀ x ∈ d, x.fid ≠ g) → ((g, e) ∈ applyDelta inv d ↔ (g, e) ∈ inv) := by
  induction d with
  | nil => intro inv _; rfl
  | cons x rest ih =>
    intro inv h
    rw [applyDelta_cons, ih _ (fun y hy => h y (by simp [hy]))]
    exact mem_deltaStep_other inv x g e (h x (by simp))

/-- every item about `g` is the same `put`: that entry is what the result has for `g` -/
theorem mem_applyDelta_put (g : String) (e e0 : InvEntry) (d : List DeltaItem) :
    ∀ inv : Inv, (∀ x ∈ d, x.fid = g → x = .put g e0) → (∃ x ∈ d, x.fid = g) →
      ((g, e) ∈ applyDelta inv d ↔ e = e0) := by
  induction d with
  | nil => intro inv _ ⟨x, hx, _⟩; cases hx
  | cons x rest ih =>
    intro inv hall hex
    rw [applyDelta_cons]
    have hall' : ∀ y ∈ rest, y.fid = g → y = .put g e0 := fun y hy => hall y (by simp [hy])
    by_cases hrest : ∃ y ∈ rest, y.fid = g
    · exact ih _ hall' hrest
    · have hnone : ∀ y ∈ rest, y.fid ≠ g := fun y hy hg => hrest ⟨y, hy, hg⟩
      rw [mem_applyDelta_none g e rest _ hnone]
      obtain ⟨y, hy, hg⟩ := hex
      have hxg : x.fid = g := by
        rcases List.mem_cons.mp hy with h1 | h1
        · rw [← h1]; exact hg
        · exact absurd hg (hnone y h1)
      rw [hall x (by simp) hxg]
      exact mem_deltaStep_put inv g e0 e

/-- every item about `g` is a removal: the result has nothing for `g` -/
theorem not_mem_applyDelta_remove (g : String) (e : InvEntry) (d : List DeltaItem) :
    ∀ inv : Inv, (∀ x ∈ d, x.fid = g → x = .remove g) → (∃ x ∈ d, x.fid = g) → (g, e) ∉ applyDelta inv d := by
  induction d with
  | nil => intro inv _ ⟨x, hx, _⟩; cases hx
  | cons x rest ih =>
    intro inv hall hex
    rw [applyDelta_cons]
    have hall' : ∀ y ∈ rest, y.fid = g → y = .remove g := fun y hy => hall y (by simp [hy])
    by_cases hrest : ∃ y ∈ rest, y.fid = g
    · exact ih _ hall' hrest
    · have hnone : ∀ y ∈ rest, y.fid ≠ g := fun y hy hg => hrest ⟨y, hy, hg⟩
      rw [mem_applyDelta_none g e rest _ hnone]
      obtain ⟨y, hy, hg⟩ := hex
      have hxg : x.fid = g := by
        rcases List.mem_cons.mp hy with h1 | h1
        · rw [← h1]; exact hg
        · exact absurd hg (hnone y h1)
      rw [hall x (by simp) hxg]
      exact not_mem_deltaStep_remove inv g e

/-! ### the base inventory and the lookups -/

theorem mem_of_alookup {β : Type} {l : List (Tid × β)} {k : Tid} {v : β} (h : alookup l k = some v) : (k, v) ∈ l := by
  unfold alookup at h
  cases hf : l.find? (fun e => e.1 == k) with
  | none => simp [hf] at h
  | some e =>
    have hm := List.mem_of_find?_eq_some hf
    have hk : e.1 = k := by simpa using List.find?_some hf
    simp only [hf, Option.map_some, Option.some.injEq] at h
    have : e = (k, v) := by cases e; simp_all
    rw [← this]; exact hm

theorem treeFid_some (tt : TT) (t : Tid) (f : String) (h : tt.treeFid t = some f) :
    t < tt.nbase ∧ ∃ b, tt.base[t]? = some b ∧ b.fid = some f := by
  unfold TT.treeFid at h
  cases hb : tt.base[t]? with
  | none => simp [hb] at h
  | some b =>
    have hlt := (List.getElem?_eq_some_iff.mp hb).1
    have hfid : b.fid = some f := by simpa [hb] using h
    exact ⟨hlt, b, by first | rfl | exact hb, hfid⟩

/-- the entry the base inventory has for a tree id -/
def TT.baseEntry (tt : TT) (b : Base) : InvEntry := { parentFid := b.parent.bind tt.treeFid, name := b.name, kind := b.kind }

theorem mem_baseInv (tt : TT) (f : String) (e : InvEntry) :
    (f, e) ∈ tt.baseInv ↔ ∃ t b, t < tt.nbase ∧ tt.base[t]? = some b ∧ b.fid = some f ∧ e = tt.baseEntry b := by
  simp only [TT.baseInv, List.mem_filterMap, List.mem_range, TT.baseEntry]
  constructor
  · rintro ⟨t, ht, hx⟩
    cases hb : tt.base[t]? with
    | none => simp [hb] at hx
    | some b =>
      simp only [hb] at hx
      cases hf : b.fid with
      | none => simp [hf] at hx
      | some f' =>
        simp only [hf, Option.map_some, Option.some.injEq, Prod.mk.injEq] at hx
        exact ⟨t, b, ht, hb, by rw [hf, hx.1], hx.2.symm⟩
  · rintro ⟨t, b, ht, hb, hf, he⟩
    exact ⟨t, ht, by simp [hb, hf, he]⟩

theorem baseFids_unique (tt : TT) (h : tt.baseFidsInj = true) (t t' : Tid) (f : String)
    (h1 : tt.treeFid t = some f) (h2 : tt.treeFid t' = some f) : t = t' := by
  have ht := (treeFid_some tt t f h1).1
  have ht' := (treeFid_some tt t' f h2).1
  simp only [TT.baseFidsInj, List.all_eq_true, List.mem_range, Bool.or_eq_true, beq_iff_eq, bne_iff_ne] at h
  rcases h t ht t' ht' with (h3 | h3) | h3
  · exact h3
  · simp [h1] at h3
  · exact absurd (h1.trans h2.symm) h3

theorem finalFids_unique (tt : TT) (h : tt.finalFidInj = true) (t t' : Tid) (f : String) (ht : t < tt.next) (ht' : t' < tt.next)
    (h1 : tt.finalFid t = some f) (h2 : tt.finalFid t' = some f) : t = t' := by
  simp only [TT.finalFidInj, List.all_eq_true, TT.ids, List.mem_range, Bool.or_eq_true, beq_iff_eq, bne_iff_ne] at h
  rcases h t ht t' ht' with (h3 | h3) | h3
  · exact h3
  · simp [h1] at h3
  · exact absurd (h1.trans h2.symm) h3

theorem tidOfTreeFid_eq (tt : TT) (h : tt.baseFidsInj = true) (t : Tid) (f : String) (h1 : tt.treeFid t = some f) :
    tt.tidOfTreeFid f = some t := by
  unfold TT.tidOfTreeFid
  have ht := (treeFid_some tt t f h1).1
  cases hf : (List.range tt.nbase).find? (fun t => tt.treeFid t == some f) with
  | none =>
    rw [List.find?_eq_none] at hf
    have := hf t (by simpa using ht)
    simp [h1] at this
  | some t' =>
    have := List.find?_some hf
    have h2 : tt.treeFid t' = some f := by simpa using this
    rw [baseFids_unique tt h t t' f h1 h2]

/-! ### the items of the generated delta -/

theorem mem_deltaPuts (tt : TT) (ps : List DeltaItem) (h : tt.deltaPuts = .ok ps) (x : DeltaItem) :
    x ∈ ps ↔ ∃ t, t ∈ tt.inventoryAltered ∧ ∃ f e, tt.finalFid t = some f ∧ tt.deltaEntry t f = some e ∧ x = .put f e := by
  unfold TT.deltaPuts at h
  split at h
  · cases h
  · cases h
    simp only [List.mem_filterMap]
    constructor
    · rintro ⟨t, ht, hx⟩
      refine ⟨t, ht, ?_⟩
      cases hf : tt.finalFid t with
      | none => simp [hf] at hx
      | some f =>
        cases he : tt.deltaEntry t f with
        | none => simp [hf, he] at hx
        | some e =>
          simp only [hf, he, Option.map_some, Option.some.injEq] at hx
          exact ⟨f, e, rfl, he, hx.symm⟩
    · rintro ⟨t, ht, f, e, hf, he, hx⟩
      exact ⟨t, ht, by simp [hf, he, hx]⟩

theorem mem_deltaRemovals (fl : Flags) (tt : TT) (hrev : tt.reversioned = []) (x : DeltaItem) :
    x ∈ tt.deltaRemovals fl ↔ ∃ t, t ∈ tt.removedId ∧ ∃ f, tt.treeFid t = some f ∧ tt.newId.any (fun e => e.2 == f) = false ∧ x = .remove f := by
  unfold TT.deltaRemovals
  rw [hrev]
  simp only [List.filterMap_nil, ite_self, List.append_nil, List.mem_filterMap]
  constructor
  · rintro ⟨t, ht, hx⟩
    refine ⟨t, ht, ?_⟩
    cases hf : tt.treeFid t with
    | none => simp [hf] at hx
    | some f =>
      simp only [hf] at hx
      split at hx
      · cases hx
      · rename_i hany
        exact ⟨f, rfl, (Bool.not_eq_true _).mp hany, by simpa using hx.symm⟩
  · rintro ⟨t, ht, f, hf, hany, hx⟩
    exact ⟨t, ht, by simp [hf, hany, hx]⟩

end BreezyVerif.C14
